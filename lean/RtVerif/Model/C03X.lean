import RtVerif.Model.C03
import RtVerif.Model.C03M
/-
  C03, deepening — the two parts of the property's quantifier that `Model/C03.lean` leaves out.

  Part A (streams F / FB / FS): `formData` parameters of a request given PART BY PART, in particular
  `type: file`. Model: transcription of the `case "formData"` arm of `untypedParamBinder.Bind`
  (content-type gate, `ParseMultipartForm`, the `type == "file"` branch, the text branch reading
  `MultipartForm.Value` / `PostForm`). The multipart parser itself is stdlib: the model is handed the
  parts in order (name, filename, content); a part with an empty filename is a text field, any other
  one a file part (`mime/multipart.Reader.ReadForm`), kept in order per name.

  Part B (stream S): struct targets of `UntypedRequestBinder.Bind`. The kind of the target is an INPUT of
  the model (in `Model/C03.lean` it is chosen by `typeForSchema`): `setFieldValueT` is `setFieldValue`
  for a target of any kind (`reflect.Kind` switch incl. the unsigned and the `reflect.Ptr` cases),
  `bindInto` adds the field lookup by name (`reflect.Value.FieldByName`: exact, exported) and the
  validator run on `validatedValue(target)` with the range check of go-openapi/validate's
  `IsValueValidAgainstRange` (hand model, checked by correspondence).

  Facts regenerated from the source on every run (`Facts.c03FileOccurrence`, `c03FileMissing`,
  `c03PtrDefaultArg`, `c03ByteKindGuard`, `c03ValidatedDeref`, `c03UnexportedGuard`) select the
  modelled branch where the code was repaired: with the unrepaired code the model yields the panic /
  the other occurrence, and the theorems of Props/C03.lean no longer check.
-/
namespace RtVerif.C03
open RtVerif Bytes

/-! # Part A — formData parameters part by part; `type: file` -/

structure Part where
  name : Bytes
  filename : Bytes
  content : Bytes
deriving Repr, DecidableEq

/-- the request as the `formData` arm sees it -/
inductive FormMode where
  | multipart     -- Content-Type multipart/form-data, a body that parses
  | urlencoded    -- application/x-www-form-urlencoded: every part is the pair name=content
  | truncated     -- multipart/form-data whose body ends before the closing delimiter
  | nobody        -- no body, no Content-Type
  | other         -- another content type (application/json)
deriving Repr, DecidableEq

/-- what the handler finds under the parameter's name -/
inductive FileOut where
  /-- a `runtime.File`: Header.Filename, Header.Size, the bytes read from Data, the field name -/
  | file (filename : Bytes) (size : Nat) (content : Bytes) (field : Bytes)
  /-- the zero `runtime.File` (Data and Header nil) -/
  | nilFile
  /-- anything else: a non-file value, an error answer, a panic -/
  | out (o : BindOut)
deriving Repr, DecidableEq

def Part.isFile (p : Part) : Bool := !p.filename.isEmpty

/-- `request.MultipartForm.File[name]` -/
def filesOf (name : Bytes) (parts : List Part) : List Part :=
  parts.filter (fun p => p.name == name && p.isFile)

/-- `request.MultipartForm.Value[name]` (multipart) / `request.PostForm[name]` (urlencoded) -/
def valuesOf (mode : FormMode) (name : Bytes) (parts : List Part) : List Bytes :=
  match mode with
  | .multipart => (parts.filter (fun p => p.name == name && !p.isFile)).map (·.content)
  | .urlencoded => (parts.filter (fun p => p.name == name)).map (·.content)
  | _ => []

/-- the occurrence the code binds (fact: `headers[len(headers)-1]` vs `request.FormFile`) -/
def pickFile (l : List Part) : Option Part :=
  if Facts.c03FileOccurrence == "last" then l.getLast? else l.head?

/-- the answer for a required file that is not there (fact: `errors.Required` vs `errors.NewParseError`) -/
def missingFile : BindOut :=
  if Facts.c03FileMissing == "Required" then .e422 602 else .e4xx 400

/-- the gate in front of every formData parameter: content type, then `ParseMultipartForm` -/
def formGate (mode : FormMode) : Option BindOut :=
  match mode with
  | .nobody => some (.e4xx 415)
  | .other => some (.e4xx 415)
  | .truncated => some (.e4xx 400)
  | _ => none

/-- `untypedParamBinder.Bind`, `in: formData`, `type: file` -/
def bindFile (name : Bytes) (required : Bool) (mode : FormMode) (parts : List Part) : FileOut :=
  match formGate mode with
  | some e => .out e
  | none =>
    match mode with
    | .multipart =>
      (match pickFile (filesOf name parts) with
      | some p => .file p.filename p.content.length p.content p.name
      | none => if required then .out missingFile else .nilFile)
    -- a urlencoded form: `request.MultipartForm` is nil
    | _ => if required then .out missingFile else .nilFile

/-- the request of `Model/C03.lean` a form request amounts to for a text parameter -/
def formReq (d : Decl) (mode : FormMode) (parts : List Part) : Req :=
  { key := d.name,
    values := if (valuesOf mode d.name parts).isEmpty then none else some (valuesOf mode d.name parts) }

/-- `untypedParamBinder.Bind`, `in: formData`, any other type: the texts are the text fields of that name -/
def bindFormText (d : Decl) (mode : FormMode) (parts : List Part) : FileOut :=
  match formGate mode with
  | some e => .out e
  | none => .out (bind d (formReq d mode parts))

/-! ## Spec of Part A (from the property text)

"the handler receives for that parameter exactly the value its declared type denotes for the text the
client sent: the last occurrence for scalars … If … a required parameter is missing … the answer is 422
naming the parameter and the handler does not run; binding never panics".

Readings:
* R9 a `type: file` parameter is carried by the FILE parts of its name (parts with a filename); the value
  the handler receives is the part: its full content, its file name, its size, under its field name. A
  text field of that name is not a file, and a file part under the name of a text parameter is not a
  text: both count as absent. A urlencoded form cannot carry files: the file parameter is absent.
* R1 (as before) an absent optional parameter is bound to the zero value: the zero `runtime.File`.
* R10 a request that is not a form (no body, another content type) or whose body does not parse is
  outside "formData(urlencoded and multipart)": demanded are no panic and that the handler does not run.
-/

inductive FileExpect where
  | file (p : Part)
  | nilFile
  | reject
  | noHandler
  /-- a text parameter: what `specExpect` says -/
  | text (e : Expect)
deriving Repr, DecidableEq

def specFile (name : Bytes) (required : Bool) (mode : FormMode) (parts : List Part) : FileExpect :=
  match mode with
  | .multipart =>
    (match (parts.filter (fun p => p.name == name && !p.filename.isEmpty)).getLast? with
    | some p => .file p
    | none => if required then .reject else .nilFile)
  | .urlencoded => if required then .reject else .nilFile
  | _ => .noHandler

/-- the texts sent for a text parameter of a form request -/
def specFormTexts (mode : FormMode) (name : Bytes) (parts : List Part) : List Bytes :=
  match mode with
  | .multipart => (parts.filter (fun p => p.name == name && p.filename.isEmpty)).map (·.content)
  | .urlencoded => (parts.filter (fun p => p.name == name)).map (·.content)
  | _ => []

def specFormReq (d : Decl) (mode : FormMode) (parts : List Part) : Req :=
  { key := d.name,
    values := if (specFormTexts mode d.name parts).isEmpty then none else some (specFormTexts mode d.name parts) }

def specFormText (d : Decl) (mode : FormMode) (parts : List Part) : FileExpect :=
  match mode with
  | .multipart => .text (specExpect d (specFormReq d mode parts))
  | .urlencoded => .text (specExpect d (specFormReq d mode parts))
  | _ => .noHandler

def fileOk : FileExpect → FileOut → Bool
  | _, .out (.panic _) => false
  | .file p, .file fn sz c fld => fn == p.filename && sz == p.content.length && c == p.content && fld == p.name
  | .nilFile, .nilFile => true
  | .reject, .out o => isE422 o
  | .noHandler, .out (.e4xx _) => true
  | .noHandler, .out (.e422 _) => true
  | .text e, .out o => okFor e o
  | _, _ => false

/-! # Part B — struct targets -/

/-- the kind of a struct field as the binder's `switch target.Kind()` sees it -/
inductive TKind where
  /-- a kind `Model/C03.lean` knows (bool, int w, float w, string, a registered strfmt type, another kind);
  `plain`: the Go type is `int` (64 bit), not `int64` -/
  | s (k : SKind) (plain : Bool)
  /-- `uint8 … uint64`; `plain`: `uint` -/
  | uint (bits : Nat) (plain : Bool)
deriving Repr, DecidableEq, BEq

/-- the struct field: `T`, `*T`; for an array parameter `[]T` -/
structure Target where
  kind : TKind
  ptr : Bool
deriving Repr, DecidableEq

def TKind.reflectName : TKind → String
  | .s (.int _) true => "Int"
  | .s k _ => k.reflectName
  | .uint _ true => "Uint"
  | .uint 8 _ => "Uint8" | .uint 16 _ => "Uint16" | .uint 32 _ => "Uint32" | .uint _ _ => "Uint64"

def TKind.handled (k : TKind) : Bool := Facts.c03SetKinds.contains k.reflectName

def TKind.isReg : TKind → Bool
  | .s k _ => k.isReg
  | _ => false

/-- `strconv.ParseUint(text, 10, 64)` then `target.OverflowUint` -/
def convertUint (bits : Nat) (text : Bytes) : ItemOut :=
  match Num.parseUint10 64 text with
  | .error _ => .err 601
  | .ok v => if v < 2 ^ bits then .ok (.int bits v) else .err 601

def convertTextT (ext : Option Ext) (k : TKind) (text : Bytes) : ItemOut :=
  match k with
  | .s k _ => convertText ext k text
  | .uint b _ => convertUint b text

/-- `defVal.Convert(uint64)` of a declared (JSON) default; a negative one is ill-typed for the field -/
def emptyValueT (ext : Option Ext) (k : TKind) (dflt : Option DefScalar) : ItemOut :=
  match k with
  | .s k _ => emptyValue ext k dflt
  | .uint b _ =>
    match dflt with
    | none => .ok (.int b 0)
    | some (.int v) => if 0 ≤ v then .ok (.int b v) else .err 0
    | some _ => .err 0

/-- `setFieldValue(target, defaultValue, data, hasKey)` for a settable target of kind `k` (not a pointer) -/
def setFieldValueT (d : Decl) (k : TKind) (dflt : Option DefScalar) (text : Bytes) (hasKey : Bool) : ItemOut :=
  if requiredFails d hasKey text then .err 602
  else if !k.handled && !k.isReg then .err 601
  else if text.isEmpty then emptyValueT d.ext k dflt
  else convertTextT d.ext k text

/-- what a struct field holds after binding -/
inductive TVal where
  | plain (v : Val)
  /-- a pointer field: nil, or a pointer to the scalar -/
  | ptr (s : Option Scalar)
deriving Repr, DecidableEq

inductive TOut where
  | value (v : TVal)
  | e422 (code : Nat)
  | e4xx (status : Nat)
  | panic (why : String)
deriving Repr, DecidableEq

def TOut.ofBind : BindOut → TOut
  | .value v => .value (.plain v)
  | .e422 c => .e422 c
  | .e4xx s => .e4xx s
  | .panic w => .panic w

/-- the allocated value behind the pointer, or the error of filling it -/
def ptrOut : ItemOut → TOut
  | .ok v => .value (.ptr (some v))
  | .err c => .e422 c

/-- the `reflect.Ptr` case of `setFieldValue`.
`data == "" && defVal.Kind() == reflect.Ptr` (no declared default): the nil pointer is set; otherwise a
new value is allocated and filled by the recursive call — which is handed the default itself (fact
`c03PtrDefaultArg`; the reflect.Value of the default makes the conversions panic). A declared format
`byte` reaches `SetBytes` on the pointer unless the base64 branch tests the kind (fact `c03ByteKindGuard`). -/
def setPtrT (d : Decl) (k : TKind) (dflt : Option DefScalar) (text : Bytes) (hasKey : Bool) : TOut :=
  if requiredFails d hasKey text then .e422 602
  else if d.format == "byte" && !Facts.c03ByteKindGuard then .panic "reflect: call of reflect.Value.SetBytes on ptr Value"
  else if !Facts.c03SetKinds.contains "Ptr" then .e422 601
  else if text.isEmpty && dflt.isNone then .value (.ptr none)
  else if text.isEmpty && Facts.c03PtrDefaultArg != "defaultValue" && !k.isReg then
    .panic "reflect.Value.Convert: value of type reflect.Value cannot be converted"
  else ptrOut (setFieldValueT d k dflt text hasKey)

/-! ### slices -/

def listOutT (tag : String) (l : List ItemOut) : BindOut :=
  match collect l with
  | .ok vs => .value (.list tag vs)
  | .error c => .e422 c

def tagOfT : TKind → String
  | .s k _ => tagOf k
  | .uint b _ => s!"u{b}"

def sliceDefaultT (d : Decl) (k : TKind) : BindOut :=
  match d.default with
  | some (.arr items) => listOutT (tagOfT k) (items.map fun it => setFieldValueT d k (some it) [] true)
  | some (.scalar _) => .e422 601
  | none => .value (.list (tagOfT k) [])

def setSliceFieldValueT (d : Decl) (k : TKind) (data : List Bytes) (hasKey : Bool) : BindOut :=
  if sliceRequiredFails d hasKey data then .e422 602
  else if data.isEmpty then sliceDefaultT d k
  else listOutT (tagOfT k) (data.map fun t => setFieldValueT d k none t hasKey)

def bindSliceT (d : Decl) (r : Req) (k : TKind) : BindOut :=
  if d.cf == "multi" then
    if !allowsMulti d.loc then .e422 601
    else setSliceFieldValueT d k (getOK d r).1 (getOK d r).2.1
  else if !(getOK d r).2.2 then setSliceFieldValueT d k [] (getOK d r).2.1
  else setSliceFieldValueT d k (splitByFormat (lastOr (getOK d r).1) d.cf) (getOK d r).2.1

/-- `untypedParamBinder.Bind` into a field of the given type -/
def bindRawT (t : Target) (d : Decl) (r : Req) : TOut :=
  if d.ty == "array" then .ofBind (bindSliceT d r t.kind)
  else if t.ptr then setPtrT d t.kind (scalarDefault d) (lastOr (getOK d r).1) (getOK d r).2.1
  else .ofBind (itemOut (setFieldValueT d t.kind (scalarDefault d) (lastOr (getOK d r).1) (getOK d r).2.1))

/-! ### the validator on a typed value (hand model of go-openapi/validate) -/

def isFinite64 (bits : Nat) : Bool := (bits % 2 ^ 63) / 2 ^ 52 != 2047

/-- `IsValueValidAgainstRange(value, type, format)` of the number validator: the value does not fit the
declared format. Integers: `int32` → the int32 range, any other format → the int64 range
(`swag.ConvertInt64` of the decimal rendering). Numbers: `float` → `strconv.ParseFloat(text, 32)` of the
rendering fails, i.e. the value does not round to a finite float32. -/
def rangeFails (ty fmt : String) (s : Scalar) : Bool :=
  match s with
  | .int _ v =>
    ty == "integer" && (if fmt == "int32" then !decide (Num.fitsInt 32 v) else !decide (Num.fitsInt 64 v))
  | .float 64 (some b) =>
    -- (the one float64 that is exactly the float32 overflow midpoint 2^128 - 2^103 is accepted: the
    -- validator parses the shortest decimal rendering of the value, which lies below it)
    ty == "number" && (fmt == "float" || fmt == "float32") && isFinite64 b && (toFloat32 b).isNone &&
      b % 2 ^ 63 != 0x47EFFFFFF0000000
  | _ => false

def validateT (d : Decl) (v : TVal) : Option Nat :=
  match v with
  | .ptr none => none                                  -- `validatedValue`: a nil pointer is not validated
  | .ptr (some s) =>
    if !Facts.c03ValidatedDeref then none              -- the validators select on the kind Ptr: none applies
    else if rangeFails d.ty d.format s then some 422 else validate d (.scalar s)
  | .plain (.scalar s) => if rangeFails d.ty d.format s then some 422 else validate d (.scalar s)
  | .plain (.list tag items) =>
    match validate d (.list tag items) with
    | some c => some c
    | none => if items.any (rangeFails d.itemsTy d.itemsFormat) then some 422 else none

def validatedT (d : Decl) (o : TOut) : TOut :=
  match o with
  | .value (.ptr none) =>
    if Facts.c03ValidatedDeref then .value (.ptr none)
    else .panic "reflect: call of reflect.Value.Interface on zero Value"
  | .value v =>
    (match validateT d v with
    | some c => .e422 c
    | none => .value v)
  | o => o

/-! ### the field lookup of `UntypedRequestBinder.Bind` -/

/-- `val.FieldByName(key)`: the fields of the struct (name, exported) and the key the parameter is
registered under. The match is exact; there is no case folding and the declared name plays no part. -/
def lookupField (fields : List (String × Bool)) (key : String) : Option Bool :=
  (fields.find? (fun f => f.1 == key)).map (·.2)

def bindInto (fields : List (String × Bool)) (key : String) (t : Target) (d : Decl) (r : Req) : TOut :=
  match lookupField fields key with
  | none => .e4xx 500                      -- "parameter name %q is an unknown field"
  | some false =>
    if Facts.c03UnexportedGuard then .e4xx 500
    else .panic "reflect.Value.Interface: cannot return value obtained from unexported field or method"
  | some true => validatedT d (bindRawT t d r)

/-! ## Spec of Part B (from the property text)

"the handler receives for that parameter exactly the value its declared type denotes … or 422 …; binding
never panics". For a struct target the handler receives the value IN A FIELD of a Go type it chose:

* R11 the field receives the value the declared type denotes for the text, provided the field's type can
  hold it (`holds`: an integer within the field's width and sign; a number rounded to the field's float
  width, in range); a text whose value the field cannot hold is answered 422 like a text the declared type
  rejects. Nothing is ever truncated or wrapped.
* R12 a pointer field is nil when the parameter is absent or empty and has no default (the zero value of
  a pointer, R1); declared validations are judged on the value pointed to.
* R13 a field type that cannot hold ANY value of the declared type (`compatible` false: an integer
  parameter into a string field, …), and a key that names no exported field, are programming errors of
  the target, not declarations or requests: demanded is only that binding does not panic (and, for the
  field lookup, that no value is bound).
* declared `float` into a `float64` field: the text is rounded to float64 (more precisely than the
  declared format would); it is judged like an incompatible pair (R13) — the property fixes no value.
-/

/-- the value of the declared type, as a field of kind `k` holds it; `none`: it cannot. (Numbers are not
recast: they are read at the field's width, see `specLiteralT`.) -/
def holds (k : TKind) (s : Scalar) : Option Scalar :=
  match k, s with
  | .s (.int w) _, .int _ v => if Num.fitsInt w v then some (.int w v) else none
  | .uint b _, .int _ v => if 0 ≤ v ∧ v < 2 ^ b then some (.int b v) else none
  | .s (.float w) _, .float w' b => if w == w' then some (.float w b) else none
  | .s .bool _, .bool b => some (.bool b)
  | .s .str _, .str t => some (.str t)
  | .s (.reg _ n) _, .reg n' r => if n == n' then some (.reg n r) else none
  | _, _ => none

/-- field kinds that can hold values of the declared kind -/
def compatible (k : SKind) (t : TKind) : Bool :=
  match k, t with
  | .int _, .s (.int w) _ => w == 8 || w == 16 || w == 32 || w == 64
  | .int _, .uint b _ => b == 8 || b == 16 || b == 32 || b == 64
  | .float w, .s (.float w') _ => (w == 64 && (w' == 32 || w' == 64)) || (w == 32 && w' == 32)
  | .bool, .s .bool _ => true
  | .str, .s .str _ => true
  | .reg nm n, .s (.reg nm' n') _ => nm == nm' && n == n'
  | _, _ => false

inductive ExpectT where
  | value (v : TVal)
  | reject
  | either (v : TVal)
  | invalidDecl
  /-- R13: no panic -/
  | unjudged
deriving Repr, DecidableEq

def isE422T : TOut → Bool
  | .e422 _ => true
  | _ => false

def okForT : ExpectT → TOut → Bool
  | _, .panic _ => false
  | .value v, out => decide (out = .value v)
  | .reject, out => isE422T out
  | .either v, out => decide (out = .value v) || isE422T out
  | .invalidDecl, out => (match out with | .value _ => false | _ => true)
  | .unjudged, _ => true

def violatesT (d : Decl) (v : TVal) : Bool :=
  match v with
  | .plain v => violates d v
  | .ptr (some s) => violates d (.scalar s)
  | .ptr none => false

/-- what a non-empty text denotes in a field of kind `t` for the declared kind `k` (R11): a number is
rounded to the FIELD's float width (the hand model `specFloat`), everything else is the declared type's
value if the field can hold it -/
def specLiteralT (ext : Option Ext) (k : SKind) (t : TKind) (text : Bytes) : Option Scalar :=
  match k, t with
  | .float _, .s (.float w') _ => specLiteral ext (.float w') text
  | _, _ => (specLiteral ext k text).bind (holds t)

def specDefaultT (ext : Option Ext) (k : SKind) (t : TKind) (dv : DefScalar) : Option Scalar :=
  match k, t with
  | .float _, .s (.float w') _ => specDefaultScalar ext (.float w') dv
  | _, _ => (specDefaultScalar ext k dv).bind (holds t)

/-- the zero value of the FIELD's type (for a registered type: what the empty text unmarshals to) -/
def specZeroT (ext : Option Ext) (t : TKind) : Scalar :=
  match t with
  | .s k _ => specZero ext k
  | .uint b _ => .int b 0

def wrapT (t : Target) (s : Scalar) : TVal := if t.ptr then .ptr (some s) else .plain (.scalar s)

def specValueT (d : Decl) (v : TVal) : ExpectT := if violatesT d v then .reject else .value v

/-- absent / empty: as `specAbsent`, with the nil pointer as the zero value of a pointer field (R12) -/
def specAbsentT (d : Decl) (t : Target) (presentEmpty : Bool) (dflt : Option TVal) (zero : TVal) : ExpectT :=
  match d.default, dflt with
  | some _, some v =>
    if emptyDefaultConflict d then .either v
    else if violatesT d v then .reject else .value v
  | some _, none => .invalidDecl
  | none, _ =>
    if d.required && !(presentEmpty && d.allowEmpty) then .reject
    else if t.ptr then .value (.ptr none)
    else if d.required then (if violatesT d zero then .reject else .value zero)
    else if violatesT d zero then .either zero else .value zero

def specScalarDefaultT (d : Decl) (k : SKind) (t : Target) : Option TVal :=
  match d.default with
  | some (.scalar dv) => (specDefaultT d.ext k t.kind dv).map (wrapT t)
  | _ => none

def specScalarT (d : Decl) (texts : Option (List Bytes)) (k : SKind) (t : Target) : ExpectT :=
  if (lastOr (texts.getD [])).isEmpty then
    specAbsentT d t texts.isSome (specScalarDefaultT d k t) (wrapT t (specZeroT d.ext t.kind))
  else
    match specLiteralT d.ext k t.kind (lastOr (texts.getD [])) with
    | none => .reject
    | some v => specValueT d (wrapT t v)

def specItemT (d : Decl) (k : SKind) (t : TKind) (text : Bytes) : Option Scalar :=
  if text.isEmpty then
    (if d.required && !d.allowEmpty && d.default.isNone then none else some (specZeroT d.ext t))
  else specLiteralT d.ext k t text

def specArrayDefaultT (d : Decl) (k : SKind) (t : TKind) : Option TVal :=
  match d.default with
  | some (.arr ds) => (mapM? (specDefaultT d.ext k t) ds).map fun vs => .plain (.list (tagOfT t) vs)
  | _ => none

def specSliceT (d : Decl) (texts : Option (List Bytes)) (k : SKind) (t : Target) : ExpectT :=
  if (specItems d texts).isEmpty then
    specAbsentT d { t with ptr := false } texts.isSome (specArrayDefaultT d k t.kind) (.plain (.list (tagOfT t.kind) []))
  else
    match mapM? (specItemT d k t.kind) (specItems d texts) with
    | none => .reject
    | some vs => specValueT d (.plain (.list (tagOfT t.kind) vs))

def specExpectT (t : Target) (d : Decl) (r : Req) : ExpectT :=
  match specKind d with
  | none => .invalidDecl
  | some (.scalar k) =>
    if compatible k t.kind then specScalarT d (specTexts d r) k t else .unjudged
  | some (.slice k) =>
    if d.cf == "multi" && !allowsMulti d.loc then .invalidDecl
    else if compatible k t.kind && !t.ptr then specSliceT d (specTexts d r) k t else .unjudged

/-- the whole Spec of a struct target: the key must name an exported field of the struct (exactly);
otherwise nothing is bound and nothing panics -/
def specOkT (fields : List (String × Bool)) (key : String) (t : Target) (d : Decl) (r : Req) (out : TOut) : Bool :=
  if fields.contains (key, true) then okForT (specExpectT t d r) out
  else (match out with | .value _ => false | .panic _ => false | _ => true)

/-! ### Known findings of Part B

F03h: the width of an integer FORMAT narrower than the field is not enforced: `int8` / `int16` bound into
a wider integer field accept every literal the field can hold (`300` for `format: int8` into an `int64`
field). Only `int32` is enforced (by the validator's range check), and only the field's own width by the
binder. -/

/-- the texts converted one by one -/
def declaredWidth (d : Decl) : Option Nat :=
  match declaredSKind d with
  | some (.int w) => some w
  | _ => none

def textKnownT (w : Nat) (k : TKind) (text : Bytes) : Option String :=
  match intLit? text with
  | some v =>
    if (w == 8 || w == 16) && !decide (Num.fitsInt w v) && (holds k (.int 64 v)).isSome then some "F03h" else none
  | none => none

/-- F03i: an unsigned field is filled by `strconv.ParseUint`, which accepts no sign: the literals `+5`,
`+0`, `-0` — valid literals of the declared integer type whose value the field can hold — are answered 422. -/
def textKnownU (k : TKind) (text : Bytes) : Option String :=
  match k, text with
  | .uint _ _, c :: _ =>
    if (c == 43 || c == 45) && ((intLit? text).bind fun v => holds k (.int 64 v)).isSome then some "F03i" else none
  | _, _ => none

/-- F03d / F03e of the map-target model apply to the kind of the FIELD (that is what converts the text) -/
def fieldSKind : TKind → Option SKind
  | .s k _ => some k
  | _ => none

def textKnownAll (w : Option Nat) (k : TKind) (text : Bytes) : Option String :=
  match (match fieldSKind k with | some sk => textKnown sk text | none => none) with
  | some f => some f
  | none =>
    match (match w with | some w => textKnownT w k text | none => none) with
    | some f => some f
    | none => textKnownU k text

def knownT (t : Target) (d : Decl) (r : Req) : Option String :=
  (convertedTexts d r).findSome? (textKnownAll (declaredWidth d) t.kind)

/-- what is assumed of a struct target beyond `Decl.wf`: the field type can hold the declared type, and the
declared default (every item of it) is a value the field can hold -/
def Target.wf (t : Target) (d : Decl) : Bool :=
  -- (`float32` is go-openapi's alias of the number format `float`; the description language has `float`)
  d.format != "float32" && d.itemsFormat != "float32" &&
  match specKind d with
  | some (.scalar k) =>
    compatible k t.kind &&
    (match d.default with
      | some (.scalar dv) => (specDefaultT d.ext k t.kind dv).isSome || (specDefaultScalar d.ext k dv).isNone
      | _ => true)
  | some (.slice k) =>
    compatible k t.kind && !t.ptr &&
    (match d.default with
      | some (.arr ds) => ds.all fun dv => (specDefaultT d.ext k t.kind dv).isSome || (specDefaultScalar d.ext k dv).isNone
      | _ => true)
  | none => false

/-! # Driver entry for the new streams -/

def parseMode (s : String) : Option FormMode :=
  if s == "multipart" then some .multipart else if s == "urlencoded" then some .urlencoded
  else if s == "truncated" then some .truncated else if s == "nobody" then some .nobody
  else if s == "json" then some .other else none

def parseParts (s : String) : Option (List Part) :=
  if s == "." then some []
  else
    match decList s with
    | none => none
    | some items =>
      let rec go : List Bytes → Option (List Part)
        | [] => some []
        | n :: f :: c :: rest => (go rest).map fun ps => { name := n, filename := f, content := c } :: ps
        | _ => none
      go items

def renderFileOut : FileOut → String
  | .file fn sz c fld => s!"F {encField fn} {sz} {encField c} {encField fld}"
  | .nilFile => "FNIL"
  | .out o => renderOut o

def parseFileImpl (outs : List String) : Option FileOut :=
  match outs with
  | ["F", fn, sz, c, fld] => do
    let fn ← decField fn
    let sz ← sz.toNat?
    let c ← decField c
    let fld ← decField fld
    pure (.file fn sz c fld)
  | ["FNIL"] => some .nilFile
  | o => (parseImpl o).map .out

def fileTextDecl (name : Bytes) (ty : String) (required : Bool) : Decl :=
  { name := name, loc := .mform, ty := ty, format := (if ty == "integer" then "int32" else ""), itemsTy := "",
    itemsFormat := "", cf := "", required := required, allowEmpty := false, default := none, valid := [], ext := none }

def fileOutTag : FileOut → String
  | .file .. => "file"
  | .nilFile => "nil"
  | .out o => outTag o

def modeTag : FormMode → String
  | .multipart => "multipart" | .urlencoded => "urlencoded" | .truncated => "truncated"
  | .nobody => "nobody" | .other => "other"

def runFile (ins outs : List String) : Verdict :=
  match ins with
  | [stream, name, ty, req, mode, parts] =>
    (match decField name, parseMode mode, parseParts parts, parseFileImpl outs with
    | some name, some mode, some parts, some impl =>
      let required := req == "1"
      let isFile := ty == "file"
      let d := fileTextDecl name ty required
      let m := if isFile then bindFile name required mode parts else bindFormText d mode parts
      let e := if isFile then specFile name required mode parts else specFormText d mode parts
      let nfiles := (filesOf name parts).length
      let nvals := (valuesOf mode name parts).length
      let sit :=
        if isFile then
          (if nfiles == 0 then (if nvals > 0 then "text-under-file-name" else "missing")
           else if nfiles > 1 then "repeated" else "one")
        else
          (if nvals == 0 then (if nfiles > 0 then "file-under-text-name" else "missing")
           else if nvals > 1 then "repeated" else "one")
      { agree := renderFileOut m == renderFileOut impl,
        specOk := fileOk e impl,
        known := "-",
        tag := s!"{stream}:{ty}/{modeTag mode}/{sit}/{if required then "req" else "opt"}/{fileOutTag m}",
        model := (renderFileOut m).replace " " "_" }
    | none, _, _, _ => .bad "C03 F name"
    | _, none, _, _ => .bad "C03 F mode"
    | _, _, none, _ => .bad "C03 F parts"
    | _, _, _, none => .bad "C03 F output fields")
  | _ => .bad "C03 F input fields"

/-! ## stream S -/

def goNameOfT : TKind → String
  | .s .bool _ => "bool"
  | .s (.int _) true => "int"
  | .s (.int w) false => s!"int{w}"
  | .s (.float w) _ => s!"float{w}"
  | .s .str _ => "string"
  | .s (.reg _ n) _ => "x" ++ n
  | .s (.other n) _ => "?" ++ n
  | .uint _ true => "uint"
  | .uint b false => s!"uint{b}"

def parseTKind (ext : Option Ext) (tok : String) : Option TKind :=
  if tok == "bool" then some (.s .bool false)
  else if tok == "int" then some (.s (.int 64) true)
  else if tok == "int8" then some (.s (.int 8) false) else if tok == "int16" then some (.s (.int 16) false)
  else if tok == "int32" then some (.s (.int 32) false) else if tok == "int64" then some (.s (.int 64) false)
  else if tok == "uint" then some (.uint 64 true)
  else if tok == "uint8" then some (.uint 8 false) else if tok == "uint16" then some (.uint 16 false)
  else if tok == "uint32" then some (.uint 32 false) else if tok == "uint64" then some (.uint 64 false)
  else if tok == "float32" then some (.s (.float 32) false) else if tok == "float64" then some (.s (.float 64) false)
  else if tok == "string" then some (.s .str false)
  else if tok == "iface" then some (.s (.other "Interface") false)
  else if tok == "map" then some (.s (.other "Map") false)
  else if tok == "struct" then some (.s (.other "Struct") false)
  else
    -- a strfmt type: only the registered type of the declared format is a target the harness builds
    match ext with
    | some e => if e.goName == tok then some (.s (.reg e.named e.goName) false) else none
    | none => none

/-- `T`, `*T`, `[]T` (the latter exactly for array declarations) -/
def parseTarget (ext : Option Ext) (isArray : Bool) (tok : String) : Option Target :=
  if tok.startsWith "[]" then
    (if isArray then (parseTKind ext (tok.drop 2).toString).map fun k => { kind := k, ptr := false } else none)
  else if isArray then none
  else if tok.startsWith "*" then (parseTKind ext (tok.drop 1).toString).map fun k => { kind := k, ptr := true }
  else (parseTKind ext tok).map fun k => { kind := k, ptr := false }

def unexportedFields : List (String × Bool) :=
  [("i", false), ("s", false), ("u", false), ("d", false), ("p", false), ("l", false), ("b", false), ("f", false)]

def unexportedKey (tok : String) : Option String :=
  if tok == "int64" then some "i" else if tok == "string" then some "s" else if tok == "UUID" then some "u"
  else if tok == "Date" then some "d" else if tok == "*int64" then some "p" else if tok == "[]string" then some "l"
  else if tok == "bool" then some "b" else if tok == "float64" then some "f" else none

/-- the struct the harness builds for a field mode, and the key the parameter is registered under -/
def parseFields (fmode tok : String) (name : Bytes) : Option (List (String × Bool) × String) :=
  if fmode == "ok" then some ([("F", true)], "F")
  else if fmode == "missing" then some ([("F", true)], "G")
  else if fmode == "lower" then some ([("F", true)], "f")
  else if fmode == "pname" then some ([("F", true)], strOfBytes name)
  else if fmode == "unexported" then (unexportedKey tok).map fun k => (unexportedFields, k)
  else none

def renderTScalar : Scalar → String := renderScalarPayload

def renderTVal (_ext : Option Ext) (t : Target) : TVal → String
  | .plain (.scalar s) => goNameOfT t.kind ++ ":" ++ renderTScalar s
  | .plain (.list _ items) => "[" ++ goNameOfT t.kind ++ "]" ++ ";".intercalate (items.map renderTScalar)
  | .ptr none => "*" ++ goNameOfT t.kind ++ ":nil"
  | .ptr (some s) => "*" ++ goNameOfT t.kind ++ ":" ++ renderTScalar s

def renderTOut (ext : Option Ext) (t : Target) : TOut → String
  | .value v => "V " ++ renderTVal ext t v
  | .e422 c => s!"E 422 1 {c}"
  | .e4xx st => s!"E {st}"
  | .panic why => "PANIC " ++ why

/-- the payload of a typed scalar as the harness prints it, read back for a field of kind `k` -/
def parseTScalar (k : TKind) (payload : String) : Option Scalar :=
  match k with
  | .s .bool _ => if payload == "1" then some (.bool true) else if payload == "0" then some (.bool false) else none
  | .s (.int w) _ => payload.toInt?.map (.int w)
  | .uint b _ => payload.toNat?.map fun n => .int b n
  | .s (.float w) _ => (hexNat payload).map fun b => .float w (some b)
  | .s .str _ => (decField payload).map .str
  | .s (.reg _ n) _ => (decField payload).map (.reg n)
  | .s (.other _) _ => none

def parseTVal (_ext : Option Ext) (t : Target) (s : String) : Option TVal :=
  let g := goNameOfT t.kind
  if s.startsWith ("[" ++ g ++ "]") then
    let rest := (s.drop (g.length + 2)).toString
    if rest.isEmpty then some (.plain (.list (tagOfT t.kind) []))
    else ((rest.splitOn ";").mapM (parseTScalar t.kind)).map fun vs => .plain (.list (tagOfT t.kind) vs)
  else if s.startsWith ("*" ++ g ++ ":") then
    let rest := (s.drop (g.length + 2)).toString
    if rest == "nil" then some (.ptr none) else (parseTScalar t.kind rest).map fun v => .ptr (some v)
  else if s.startsWith (g ++ ":") then
    (parseTScalar t.kind (s.drop (g.length + 1)).toString).map fun v => .plain (.scalar v)
  else none

def parseTImpl (ext : Option Ext) (t : Target) (outs : List String) : Option TOut :=
  match outs with
  | ["V", v] =>
    (match parseTVal ext t v with
    | some tv => some (.value tv)
    -- a value the model's types cannot express (another Go type than the field's): never agrees
    | none => some (.e4xx 0))
  | ["E", st, named, code] =>
    if st == "422" && named == "1" then code.toNat?.map .e422 else st.toNat?.map .e4xx
  | ["PANIC", m] => some (.panic m)
  | _ => none

def outTagT : TOut → String
  | .value (.ptr none) => "nil"
  | .value _ => "value"
  | .e422 c => s!"e{c}"
  | .e4xx st => s!"http{st}"
  | .panic _ => "panic"

def runStructCase (tok fmode : String) (ins : List String) (ext : String) (res : List String) : Verdict :=
  match parseCase ins ext with
  | none => .bad "C03 S input fields"
  | some (_stream, d, r) =>
    match parseTarget d.ext (d.ty == "array") tok, parseFields fmode tok d.name with
    | some t, some (fields, key) =>
      (match parseTImpl d.ext t res with
      | none => .bad "C03 S output fields"
      | some impl =>
        let m := bindInto fields key t d r
        let sit := situation d r
        let compat := (match specExpectT t d r with | .unjudged => false | _ => true)
        let wf := d.wf && Req.wf d r && t.wf d
        { agree := renderTOut d.ext t m == renderTOut d.ext t impl,
          specOk := specOkT fields key t d r impl,
          known := (if fields.contains (key, true) then (knownT t d r).getD "-" else "-"),
          tag := "S:" ++ (if fmode == "ok" then "" else fmode ++ ":") ++
            (if fmode == "ok" && !compat then "unjudged:" else if fmode == "ok" && !wf then "!wf:" else "") ++
            s!"{kindTag d}→{tok}/{sit}/{outTagT m}",
          model := (renderTOut d.ext t m).replace " " "_" })
    | none, _ => .bad "C03 S target"
    | _, none => .bad "C03 S field mode"

def runStruct (ins outs : List String) : Verdict :=
  match ins with
  | "S" :: tok :: fmode :: rest =>
    (match outs with
    | ["INVALID"] => { agree := true, specOk := true, tag := "~invalid-input", model := "-" }
    | ["PANIC", m] => runStructCase tok fmode ("S" :: rest) "." ["PANIC", m]
    | ext :: res => runStructCase tok fmode ("S" :: rest) ext res
    | [] => .bad "C03 S no output")
  | _ => .bad "C03 S input fields"

/-! ## stream V — the exported readers `runtime.ReadSingleValue` / `runtime.ReadCollectionValue`
(request.go), which generated servers use for the same job as the binder: "the last occurrence for
scalars, the split … items for arrays", over a `Gettable` source. Two sources: `runtime.Values` (a map
from key to the values in the order sent) and `middleware.RouteParams` (its `GetOK` yields the FIRST
pair of that name; a path parameter occurs once). -/

/-- `Values.GetOK` then `vv[len(vv)-1]`: the last value under the key, `""` when there is none -/
def readSingleValues (pairs : List (Bytes × Bytes)) (name : Bytes) : Bytes :=
  ((pairs.filter (·.1 == name)).map (·.2)).getLast?.getD []

/-- `RouteParams.GetOK` then the only element (or `""`) -/
def readSingleRoute (pairs : List (Bytes × Bytes)) (name : Bytes) : Bytes :=
  ((pairs.find? (·.1 == name)).map (·.2)).getD []

def readSingle (routeSrc : Bool) (pairs : List (Bytes × Bytes)) (name : Bytes) : Bytes :=
  if routeSrc then readSingleRoute pairs name else readSingleValues pairs name

def readCollection (routeSrc : Bool) (pairs : List (Bytes × Bytes)) (name : Bytes) (cf : String) : List Bytes :=
  splitByFormat (readSingle routeSrc pairs name) cf

def runV (ins outs : List String) : Verdict :=
  match ins, outs with
  | ["V", src, keys, vals, name, cf], [single, coll] =>
    match decList keys, decList vals, decField name with
    | some ks, some vs, some nm =>
      if ks.length != vs.length then .bad "V lists" else
      let pairs := ks.zip vs
      let m1 := readSingle (src == "r") pairs nm
      let m2 := readCollection (src == "r") pairs nm cf
      let m := encField m1 ++ " " ++ encList m2
      let ok := m == single ++ " " ++ coll
      -- Spec = the property's wording itself: last occurrence, then the split
      { agree := ok, specOk := ok,
        tag := (if (pairs.filter (·.1 == nm)).isEmpty then "~V:absent" else s!"V:{src}:n={(pairs.filter (·.1 == nm)).length.min 3}:{cf}"),
        model := m }
    | _, _, _ => .bad "V fields"
  | _, ["PANIC", msg] => { agree := false, specOk := false, tag := "panic", model := "no panic expected; impl: " ++ msg }
  | _, _ => .bad "V stream"

/-- all streams of C03 -/
def runX (ins outs : List String) : Verdict :=
  match ins with
  | "V" :: _ => runV ins outs
  | "F" :: _ | "FB" :: _ | "FS" :: _ =>
    (match outs with
    | ["INVALID"] => { agree := true, specOk := true, tag := "~invalid-input", model := "-" }
    | _ => runFile ins outs)
  | "S" :: _ => runStruct ins outs
  | "M" :: _ | "MB" :: _ => runMulti ins outs
  | _ => run ins outs

end RtVerif.C03
