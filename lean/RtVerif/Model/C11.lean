import RtVerif.Base.Bytes
import RtVerif.Base.Verdict
import RtVerif.Base.GoURL
import RtVerif.Base.GoPath
import RtVerif.Gen.Facts
/-
  C11 — "Client bodies: sent bytes are the payload, and what auth saw is what is sent".

  Model of `client.(*request).buildHTTP` (client/request.go) as reached through the exported
  `client.(*Runtime).CreateHttpRequest`: the producer gate of `createHttpRequest`, the choice of the
  body source (nil / `r.buf` / the payload reader / the pipe fed by the multipart goroutine), the
  url-encoded form body, the list of parts the goroutine hands to `mime/multipart` (per-file content
  type: declared, or sniffed from the first ≤ 512 bytes read with `io.ReadFull`), `mangleContentType`,
  the `getBody` override installed for the auth writer, and what `http.NewRequest` is finally given.

  External and therefore parameters of the model (`Env`): the registered producers and what the one
  for the chosen media type writes for the payload value (`produce`), `http.DetectContentType`
  (`sniff`), the random boundary `multipart.NewWriter` picks (`boundary`) and the serialisation of a
  list of parts by `mime/multipart` (`mpDoc`).  The driver instantiates them with what the harness
  observed from the real functions on the very same arguments.
-/
namespace RtVerif.C11
open RtVerif Bytes

/-! ## Constants (the Spec keeps its own literals; the model uses the regenerated facts) -/

/-- `multipart/form-data` (byte literals so that the kernel can compute with them) -/
def multipartLit : Bytes := [109, 117, 108, 116, 105, 112, 97, 114, 116, 47, 102, 111, 114, 109, 45, 100, 97, 116, 97]
/-- `application/x-www-form-urlencoded` -/
def urlencodedLit : Bytes := [97, 112, 112, 108, 105, 99, 97, 116, 105, 111, 110, 47, 120, 45, 119, 119, 119, 45, 102, 111, 114, 109, 45, 117, 114, 108, 101, 110, 99, 111, 100, 101, 100]
/-- the sniffing window of the property text -/
def windowLit : Nat := 512

/-! ## Inputs -/

/-- An upload: `Name()`, an optional `ContentType()` method, the bytes its `Read` delivers, and how
it delivers them (at most `chunk` bytes per call when `chunk > 0`). -/
structure FileIn where
  name : Bytes
  declared : Option Bytes
  content : Bytes
  chunk : Nat := 0
deriving Repr, DecidableEq

inductive Payload
  | none                          -- no body parameter
  | value                         -- anything that is not an io.Reader: goes through a producer
  | reader (b : Bytes)            -- io.Reader that is not an io.Closer
  | readCloser (b : Bytes)        -- io.ReadCloser
deriving Repr, DecidableEq

structure Input where
  method : Bytes
  mediaType : Bytes
  payload : Payload
  /-- `r.formFields`: one entry per name (a Go map), in the order the map iteration delivers them -/
  fields : List (Bytes × List Bytes)
  /-- `r.fileFields`, likewise -/
  files : List (Bytes × List FileIn)
  /-- `none`: no auth writer; `some k`: an auth writer that calls `GetBody()` k times -/
  auth : Option Nat
deriving Repr

structure Part where
  name : Bytes
  fileName : Option Bytes
  ctype : Option Bytes
  body : Bytes
deriving Repr, DecidableEq

/-- The environment: everything `buildHTTP` calls that is not its own code. -/
structure Env where
  /-- `producers[mt]`: `none` = nothing registered; `some none` = `Produce` returns an error;
  `some (some b)` = `Produce` writes `b` for the payload value -/
  produce : Bytes → Option (Option Bytes)
  /-- `http.DetectContentType` -/
  sniff : Bytes → Bytes
  /-- `mp.Boundary()` -/
  boundary : Bytes
  /-- what `mime/multipart` writes into the pipe for these parts, in this order, closing included -/
  mpDoc : Bytes → List Part → Bytes

/-! ## `createHttpRequest`: the producer gate -/

def gatePasses (env : Env) (mt : Bytes) : Bool :=
  (env.produce mt).isSome || mt == Facts.c11MultipartMime || mt == Facts.c11URLEncodedMime

/-! ## Pieces of `buildHTTP` -/

/-- `len(r.formFields) > 0 || len(r.fileFields) > 0` -/
def hasForm (i : Input) : Bool := !i.fields.isEmpty || !i.files.isEmpty

/-- `r.isMultipart(mediaType)` -/
def isMultipart (i : Input) : Bool := !i.files.isEmpty || Facts.c11MultipartMime == i.mediaType

/-- `; boundary=` (byte literals so that the kernel can compute with them) -/
def boundaryParamLit : Bytes := [59, 32, 98, 111, 117, 110, 100, 97, 114, 121, 61]
/-- `multipart/form-data; boundary=` -/
def multipartHeaderLit : Bytes := [109, 117, 108, 116, 105, 112, 97, 114, 116, 47, 102, 111, 114, 109, 45, 100, 97, 116, 97, 59, 32, 98, 111, 117, 110, 100, 97, 114, 121, 61]

/-- `mangleContentType` -/
def mangleContentType (mt boundary : Bytes) : Bytes :=
  if toLower mt == Facts.c11URLEncodedMime then mt ++ boundaryParamLit ++ boundary
  else multipartHeaderLit ++ boundary

/-- `runtime.CanHaveBody` -/
def canHaveBody (method : Bytes) : Bool :=
  let m := toUpper method
  m == [80, 79, 83, 84] || m == [80, 85, 84] || m == [80, 65, 84, 67, 72] || m == [68, 69, 76, 69, 84, 69]  -- POST PUT PATCH DELETE

/-! ### `url.Values.Encode` -/

def bytesLe : Bytes → Bytes → Bool
  | [], _ => true
  | _ :: _, [] => false
  | a :: as, b :: bs => if a < b then true else if b < a then false else bytesLe as bs

def insertKV (x : Bytes × List Bytes) : List (Bytes × List Bytes) → List (Bytes × List Bytes)
  | [] => [x]
  | y :: ys => if bytesLe x.1 y.1 then x :: y :: ys else y :: insertKV x ys

/-- keys in increasing order (stable insertion sort; Go map keys are distinct anyway) -/
def sortKV (l : List (Bytes × List Bytes)) : List (Bytes × List Bytes) := l.foldr insertKV []

/-- one `key=value` segment -/
def formSeg (k v : Bytes) : Bytes := GoURL.queryEscape k ++ 61 :: GoURL.queryEscape v

def formSegs (l : List (Bytes × List Bytes)) : List Bytes :=
  l.flatMap fun kv => kv.2.map (formSeg kv.1)

def joinAmp : List Bytes → Bytes
  | [] => []
  | [s] => s
  | s :: t => s ++ 38 :: joinAmp t

/-- `r.formFields.Encode()` -/
def encodeForm (fields : List (Bytes × List Bytes)) : Bytes := joinAmp (formSegs (sortKV fields))

/-! ### the multipart goroutine -/

def fieldParts (fields : List (Bytes × List Bytes)) : List Part :=
  fields.flatMap fun kv => kv.2.map fun v => ⟨kv.1, none, none, v⟩

/-- One `Read` on an upload with `n` bytes of room. -/
def readSize (chunk room len : Nat) : Nat :=
  min (if chunk == 0 then room else min chunk room) len

/-- `io.ReadFull(fi, buf)` with `len(buf) = want`: repeated `Read`s until the buffer is full or the
file is exhausted; returns the bytes read and what is left in the file.  `fuel` bounds the number of
`Read` calls (each delivers at least one byte while there is room and data). -/
def readFull (chunk : Nat) : Nat → Nat → Bytes → Bytes × Bytes
  | 0, _, c => ([], c)
  | _ + 1, 0, c => ([], c)
  | fuel + 1, want + 1, c =>
    if c.isEmpty then ([], c)
    else
      let k := readSize chunk (want + 1) c.length
      let r := readFull chunk fuel (want + 1 - k) (c.drop k)
      (c.take k ++ r.1, r.2)

/-- The part written for one upload under field `fn`. -/
def filePart (env : Env) (fn : Bytes) (f : FileIn) : Part :=
  match f.declared with
  | some d => ⟨fn, some (GoPath.base f.name), some d, f.content⟩
  | none =>
    let r := readFull f.chunk Facts.c11SniffWindow Facts.c11SniffWindow f.content
    -- `io.MultiReader(bytes.NewReader(buf[:size]), fi)` is copied into the part
    ⟨fn, some (GoPath.base f.name), some (env.sniff r.1), r.1 ++ r.2⟩

def fileParts (env : Env) (files : List (Bytes × List FileIn)) : List Part :=
  files.flatMap fun kf => kf.2.map (filePart env kf.1)

/-- everything the goroutine writes, in the order it writes it -/
def allParts (env : Env) (i : Input) : List Part := fieldParts i.fields ++ fileParts env i.files

/-! ### body source -/

inductive Body
  | nobody                                    -- `body == nil`
  | buffer                                    -- `body == r.buf`
  | stream (content : Bytes) (closer : Bool)  -- the payload reader, or the pipe the goroutine feeds
  | deadPipe                                  -- the pipe while no goroutine feeds it (never the final body: `build_never_hangs`)
deriving Repr, DecidableEq

/-- State after `DoneChoosingBodySource`. -/
structure Chosen where
  header : Option Bytes        -- the Content-Type header
  buf : Bytes                  -- r.buf
  body : Body
  parts : Option (List Part)   -- `some ps`: the stream is the multipart document of `ps`
deriving Repr

inductive ChooseResult
  | ok (c : Chosen)
  | produceError
  | nilProducerPanic
deriving Repr

/-- `r.isMultipart(mediaType) && (len(r.formFields) > 0 || len(r.fileFields) > 0)`: the pipe is opened —
since the repair of F11d only when the multipart goroutine, which feeds it, is going to be started -/
def opensPipe (i : Input) : Bool := isMultipart i && hasForm i

/-- the initial value of `body`: nil, `r.buf`, or the pipe reader -/
def initialBody (i : Input) : Body :=
  if i.payload != .none || hasForm i then (if opensPipe i then .deadPipe else .buffer) else .nobody

/-- `buildHTTP` from `r.buf = bytes.NewBuffer(nil)` to the label `DoneChoosingBodySource`. -/
def choose (env : Env) (i : Input) : ChooseResult :=
  if hasForm i then
    if !isMultipart i then
      .ok ⟨some i.mediaType, encodeForm i.fields, initialBody i, none⟩
    else
      .ok ⟨some (mangleContentType i.mediaType env.boundary), [],
           .stream (env.mpDoc env.boundary (allParts env i)) true, some (allParts env i)⟩
  else
    match i.payload with
    | .none => .ok ⟨none, [], initialBody i, none⟩
    | .readCloser b => .ok ⟨some i.mediaType, [], .stream b true, none⟩
    | .reader b => .ok ⟨some i.mediaType, [], .stream b false, none⟩
    | .value =>
      match env.produce i.mediaType with
      | none => .nilProducerPanic
      | some none => .produceError
      | some (some b) => .ok ⟨some i.mediaType, b, initialBody i, none⟩

/-- the `if CanHaveBody(..) && body != nil && header == ""` after the label -/
def finalHeader (i : Input) (c : Chosen) : Option Bytes :=
  if canHaveBody i.method && c.body != .nobody && (c.header.getD []).isEmpty then some i.mediaType
  else c.header

/-! ### `GetBody` -/

/-- What the `getBody` closure and `getRequestBuffer` can see and change. -/
structure St where
  buf : Bytes
  body : Body
  copied : Bool := false
  closed : Bool := false        -- `closer.Close()` ran on the streaming body
deriving Repr, DecidableEq

/-- `body != nil && (!ok || buf != r.buf)`: the override is installed -/
def overrideInstalled (b : Body) : Bool :=
  match b with
  | .stream _ _ => true
  | .deadPipe => true
  | _ => false

/-- One `GetBody()` call; `none`: the call never returns (`io.Copy` from a pipe nobody writes to — what
F11d was; `build_never_hangs` shows the repaired `choose` never leaves such a pipe as the body). -/
def getBody (override : Bool) (st : St) : Option (St × Bytes) :=
  if !override then some (st, st.buf)                       -- getRequestBuffer
  else if st.copied then some (st, st.buf)
  else
    match st.body with
    | .stream c cl =>
      some ({ buf := st.buf ++ c, body := .buffer, copied := true, closed := st.closed || cl }, st.buf ++ c)
    | .deadPipe => none
    -- not reachable: the override is only installed over a stream (`getBody_unreachable` in Lemmas)
    | .buffer => some ({ st with copied := true }, st.buf)
    | .nobody => some ({ st with copied := true }, st.buf)

/-- `k` calls in a row; the results in call order. -/
def getBodies (override : Bool) : Nat → St → Option (St × List Bytes)
  | 0, st => some (st, [])
  | k + 1, st =>
    match getBody override st with
    | none => none
    | some (st', r) =>
      match getBodies override k st' with
      | none => none
      | some (st'', rs) => some (st'', r :: rs)

/-! ### the whole build -/

/-- What the transport will read from the `*http.Request`. -/
inductive Sent
  | nobody
  | bytes (b : Bytes)
  | never                -- reading the body blocks for ever
deriving Repr, DecidableEq

def sentOf (st : St) : Sent :=
  match st.body with
  | .nobody => .nobody
  | .buffer => .bytes st.buf
  | .stream c _ => .bytes c
  | .deadPipe => .never

structure Built where
  header : Option Bytes
  sent : Sent
  parts : Option (List Part)
  gets : List Bytes
  closedEarly : Bool
deriving Repr

inductive Outcome
  | gateError            -- "none of producers: ... registered"
  | produceError         -- the producer's error is returned
  | nilProducerPanic     -- `producers[mediaType]` is nil and is called
  | hang                 -- the auth writer's GetBody never returns
  | built (b : Built)
deriving Repr

/-- the closure's view when the auth block starts -/
def St.init (c : Chosen) : St := { buf := c.buf, body := c.body }

/-- the auth block: install the override when the body is a stream, let the writer call GetBody -/
def authPhase (i : Input) (c : Chosen) : Option (St × List Bytes) :=
  match i.auth with
  | none => some (St.init c, [])
  | some k => getBodies (overrideInstalled c.body) k (St.init c)

def build (env : Env) (i : Input) : Outcome :=
  if !gatePasses env i.mediaType then .gateError
  else
    match choose env i with
    | .produceError => .produceError
    | .nilProducerPanic => .nilProducerPanic
    | .ok c =>
      match authPhase i c with
      | none => .hang
      | some (st, gets) =>
        .built { header := finalHeader i c, sent := sentOf st, parts := c.parts, gets := gets,
                 closedEarly := st.closed && !hasForm i }

/-! ## What both sides are compared on -/

inductive Wire
  | nobody
  | raw (b : Bytes)
  /-- a well-formed multipart document, delimited by the boundary parameter of the Content-Type
  header, holding these parts in this order -/
  | multipart (parts : List Part)
  | never
  | garbled                -- (implementation only) a boundary was announced but the body does not parse
deriving Repr, DecidableEq

inductive Status
  | ok | gateError | produceError | panic | hang | otherError
deriving Repr, DecidableEq

structure Result where
  status : Status
  ctype : List Bytes          -- the values of the Content-Type header
  wire : Wire
  /-- per `GetBody()` call: were the bytes returned exactly the bytes subsequently sent? -/
  gets : List Bool
  closedEarly : Bool := false
deriving Repr, DecidableEq

def failed (s : Status) : Result := { status := s, ctype := [], wire := .nobody, gets := [] }

def sameAsSent (s : Sent) (g : Bytes) : Bool :=
  match s with
  | .nobody => g.isEmpty
  | .bytes b => g == b
  | .never => false

def resultOf (o : Outcome) : Result :=
  match o with
  | .gateError => failed .gateError
  | .produceError => failed .produceError
  | .nilProducerPanic => failed .panic
  | .hang => failed .hang
  | .built b =>
    { status := .ok,
      ctype := (match b.header with | some h => [h] | none => []),
      wire := (match b.sent, b.parts with
        | .nobody, _ => .nobody
        | .never, _ => .never
        | .bytes _, some ps => .multipart ps
        | .bytes x, none => .raw x),
      gets := b.gets.map (sameAsSent b.sent),
      closedEarly := b.closedEarly }

/-! ## Spec — written from the property text

  Reading choices:
  * payload kinds are those of the quantifier; "form fields only" may be sent in either of the two
    form encodings the text names (url-encoded, or a multipart document of the field values) as long
    as the header says which; a payload together with form data is not a kind the text speaks about
    (tag `~payload+form`, model still compared);
  * "the Content-Type header describes what was sent": producer output and reader bytes — the header
    is exactly the chosen media type; a url-encoded body — the header names (any spelling, any
    parameters) `application/x-www-form-urlencoded`; a multipart document — the header names
    `multipart/form-data` and its boundary parameter delimits the document (`Wire.multipart`);
  * "exactly once": the parts are a permutation of (one part per field value) ++ (one part per file);
  * "base file name" is Go's `filepath.Base` of `Name()`; "sniffed from its content" is
    `http.DetectContentType` of the first ≤ 512 bytes of the content (what a reader that chops its
    data differently delivers first is irrelevant);
  * a request need not be built when the media type has no registered producer (the client refuses)
    or when the producer fails; a *value* under a media type without a producer is outside the
    quantifier ("value with each registered producer");
  * GetBody results are compared with the bytes a transport reads from the built `*http.Request`.
-/

inductive Kind
  | nil | value | reader (b : Bytes) | formOnly | withFiles | mixed
deriving Repr, DecidableEq

/-- the payload kinds of the property's quantifier -/
def kindOf (i : Input) : Kind :=
  if i.fields.isEmpty && i.files.isEmpty then
    match i.payload with
    | .none => .nil
    | .value => .value
    | .reader b => .reader b
    | .readCloser b => .reader b
  else if i.payload != .none then .mixed            -- not a kind the property speaks about
  else if i.files.isEmpty then .formOnly else .withFiles

/-! ### media type of a header value -/

def isSpace (b : UInt8) : Bool := b == 9 || b == 10 || b == 11 || b == 12 || b == 13 || b == 32
def trimSpace (s : Bytes) : Bytes := ((s.dropWhile isSpace).reverse.dropWhile isSpace).reverse

/-- the media type a Content-Type value names: the part before the parameters, trimmed, lower-cased -/
def baseMediaType (h : Bytes) : Bytes := toLower (trimSpace (beforeByte h 59))

/-! ### url-encoded forms (net/url `ParseQuery`, the Spec's decoder) -/

/-- `strings.Cut(s, "=")` -/
def cutEq : Bytes → Bytes × Bytes
  | [] => ([], [])
  | c :: r => if c == 61 then ([], r) else ((c :: (cutEq r).1), (cutEq r).2)

def parseSeg (seg : Bytes) : Option (Bytes × Bytes) :=
  if seg.contains 59 then none
  else
    match GoURL.queryUnescape (cutEq seg).1, GoURL.queryUnescape (cutEq seg).2 with
    | some k, some v => some (k, v)
    | _, _ => none

/-- `url.ParseQuery`: the `key=value` pairs in document order; `none` when it reports an error -/
def parseQuery (q : Bytes) : Option (List (Bytes × Bytes)) :=
  ((splitByte 38 q).filter (fun s => !s.isEmpty)).mapM parseSeg

def valuesOf (pairs : List (Bytes × Bytes)) (k : Bytes) : List Bytes :=
  (pairs.filter (·.1 == k)).map (·.2)

def fieldValues (fields : List (Bytes × List Bytes)) (k : Bytes) : List Bytes :=
  (fields.filter (·.1 == k)).flatMap (·.2)

/-- the decoded pairs are the form fields: under every name the same values in the same order -/
def sameForm (pairs : List (Bytes × Bytes)) (fields : List (Bytes × List Bytes)) : Bool :=
  (pairs.map (·.1) ++ fields.map (·.1)).all fun k => valuesOf pairs k == fieldValues fields k

def isURLEncodingOf (b : Bytes) (fields : List (Bytes × List Bytes)) : Bool :=
  match parseQuery b with
  | some pairs => sameForm pairs fields
  | none => false

/-! ### the parts a multipart document must hold -/

/-- the part a file must appear as: field name, base file name, declared type or else the type
sniffed from (the first `windowLit` bytes of) its content, full content -/
def expectedFilePart (sniff : Bytes → Bytes) (fn : Bytes) (f : FileIn) : Part :=
  ⟨fn, some (GoPath.base f.name),
   some (match f.declared with | some d => d | none => sniff (f.content.take windowLit)), f.content⟩

def expectedParts (sniff : Bytes → Bytes) (i : Input) : List Part :=
  (i.fields.flatMap fun kv => kv.2.map fun v => (⟨kv.1, none, none, v⟩ : Part)) ++
  (i.files.flatMap fun kf => kf.2.map (expectedFilePart sniff kf.1))

/-! ### the property -/

/-- exactly one Content-Type value and it names media type `m` -/
def headerNames (ct : List Bytes) (m : Bytes) : Bool :=
  match ct with
  | [h] => baseMediaType h == m
  | _ => false

def headerIs (ct : List Bytes) (mt : Bytes) : Bool := ct == [mt]

def urlencodedShape (i : Input) (r : Result) : Bool :=
  match r.wire with
  | .raw b => isURLEncodingOf b i.fields && headerNames r.ctype urlencodedLit
  | _ => false

def multipartShape (sniff : Bytes → Bytes) (i : Input) (r : Result) : Bool :=
  match r.wire with
  | .multipart ps => ps.isPerm (expectedParts sniff i) && headerNames r.ctype multipartLit
  | _ => false

/-- "the body the client sends is, by payload kind, …; the Content-Type header describes what was sent" -/
def bodyOk (sniff : Bytes → Bytes) (prod : Option (Option Bytes)) (i : Input) (r : Result) : Bool :=
  match kindOf i with
  | .nil => r.wire == .nobody || r.wire == .raw []
  | .value =>
    (match prod with
     | some (some b) => r.wire == .raw b && headerIs r.ctype i.mediaType
     | _ => true)
  | .reader b => r.wire == .raw b && headerIs r.ctype i.mediaType
  | .formOnly => urlencodedShape i r || multipartShape sniff i r
  | .withFiles => multipartShape sniff i r
  | .mixed => true

/-- "if an authentication writer inspects the body, the bytes it is given are exactly the bytes
subsequently sent, however many times it asks" -/
def authOk (i : Input) (r : Result) : Bool :=
  match i.auth with
  | none => r.gets.isEmpty
  | some k => r.gets.length == k && r.gets.all id

/-- The property, judged on one build.  A request need not be built when the chosen media type has
no registered producer (the client refuses it) or when the producer fails on the value; a value
under a media type without a producer and payload-plus-form mixtures are outside the quantifier. -/
def specOk (sniff : Bytes → Bytes) (prod : Option (Option Bytes)) (i : Input) (r : Result) : Bool :=
  match kindOf i with
  | .mixed => true
  | k =>
    if k == .value && prod == none then true
    else
      match r.status with
      | .ok => (k != .value || prod != some none) && bodyOk sniff prod i r && authOk i r
      | .gateError => prod == none
      | .produceError => k == .value && prod == some none
      | _ => false

/-! ## Known findings (recorded, not repaired) -/

/-- F11b: files under a url-encoded media type — a multipart document is sent under
`application/x-www-form-urlencoded; boundary=…` (pinned by TestBuildRequest_BuildHTTP_Files_URLEncoded).
F11c: form fields only, under a media type that is neither the url-encoded one nor exactly
`multipart/form-data` — a url-encoded body is sent under that media type.
(F11d — a value payload under exactly `multipart/form-data` with a producer registered for it was sent
as a pipe nobody writes to — is repaired: `opensPipe`; such inputs are ordinary `value` inputs now.) -/
inductive Finding
  | F11b | F11c
deriving Repr, DecidableEq

def Finding.name : Finding → String
  | .F11b => "F11b" | .F11c => "F11c"

def known (env : Env) (i : Input) : Option Finding :=
  match kindOf i with
  | .withFiles => if toLower i.mediaType == urlencodedLit then some .F11b else none
  | .formOnly =>
    if i.mediaType != multipartLit && baseMediaType i.mediaType != urlencodedLit && (env.produce i.mediaType).isSome
    then some .F11c else none
  | _ => none

/-! ## Driver entry -/

def decNat (s : String) : Option Nat := s.toNat?

def decLists (s : String) : Option (List (List Bytes)) :=
  if s == "_" then some [] else (s.splitOn "|").mapM decList

def decNats (s : String) : Option (List Nat) :=
  if s == "." then some [] else (s.splitOn ",").mapM decNat

def decFlags (s : String) : List Bool := if s == "_" then [] else s.toList.map (· == '1')

/-- split a flat list into groups of the given sizes -/
def groupBy : List Nat → List α → Option (List (List α))
  | [], [] => some []
  | [], _ :: _ => none
  | n :: ns, l => if l.length < n then none else (groupBy ns (l.drop n)).map (l.take n :: ·)

def mkFiles : List Bytes → List Bool → List Bytes → List Bytes → List Nat → Option (List FileIn)
  | [], [], [], [], [] => some []
  | n :: ns, f :: fs, d :: ds, c :: cs, k :: ks =>
    (mkFiles ns fs ds cs ks).map ({ name := n, declared := if f then some d else none, content := c, chunk := k / 2 } :: ·)
  | _, _, _, _, _ => none

def payloadOf (pk : String) (data : Bytes) : Option Payload :=
  if pk == "n" then some .none
  else if pk == "S" || pk == "Y" || pk == "J" || pk == "M" then some .value
  else if pk == "r" || pk == "b" || pk == "s" then some (.reader data)
  else if pk == "c" then some (.readCloser data)
  else none

def decodeIn (ins : List String) : Option (Input × List Bytes) :=
  match ins with
  | ["B", method, mt, prods, pk, pdata, fnames, fvals, ffnames, counts, names, dflags, decls, contents, chunks, k] => do
    let method ← decField method
    let mt ← decField mt
    let prods ← decList prods
    let payload ← payloadOf pk (← decField pdata)
    let fnames ← decList fnames
    let fvals ← decLists fvals
    let ffnames ← decList ffnames
    let counts ← decNats counts
    let flat ← mkFiles (← decList names) (decFlags dflags) (← decList decls) (← decList contents) (← decNats chunks)
    let groups ← groupBy counts flat
    let auth ← (if k == "-" then some none else (decNat k).map some)
    if fnames.length != fvals.length || ffnames.length != groups.length then none
    else some ({ method := method, mediaType := mt, payload := payload, fields := fnames.zip fvals,
                 files := ffnames.zip groups, auth := auth }, prods)
  | _ => none

def mkParts : List Bytes → List Bool → List Bytes → List Bool → List Bytes → List Bytes → Option (List Part)
  | [], [], [], [], [], [] => some []
  | n :: ns, ff :: ffs, fn :: fns, cf :: cfs, ct :: cts, b :: bs =>
    (mkParts ns ffs fns cfs cts bs).map
      ({ name := n, fileName := if ff then some fn else none, ctype := if cf then some ct else none, body := b } :: ·)
  | _, _, _, _, _, _ => none

/-- the oracle field `<prod>` -/
def decProd (s : String) : Option (Option (Option Bytes)) :=
  if s == "na" || s == "none" then some none
  else if s == "err" then some (some none)
  else if "ok:".toList.isPrefixOf s.toList then (decField (String.ofList (s.toList.drop 3))).map fun b => some (some b)
  else none

def decGets (s : String) (raw : Option Bytes) : Option (List Bool) :=
  if s == "." then some []
  else (s.splitOn ",").mapM fun g =>
    if g == "=" then some true
    else (decField g).map fun b => (match raw with | some r => b == r | none => false)

structure Obs where
  result : Result
  ctMedia : Option Bytes
  prod : Option (Option Bytes)
  sniffs : List Bytes
  uq : Option (List (Bytes × List Bytes))
  dispOk : Bool

/-- `form-data; name="…"; filename="…"` as request.go formats it (`escapeQuotes`) -/
def escapeQuotes (s : Bytes) : Bytes :=
  s.flatMap fun c => if c == 92 then [92, 92] else if c == 34 then [92, 34] else [c]

def dispositionLine (p : Part) : Bytes :=
  match p.fileName with
  | some f => ofStr "form-data; name=\"" ++ escapeQuotes p.name ++ ofStr "\"; filename=\"" ++ escapeQuotes f ++ [34]
  | none => ofStr "form-data; name=\"" ++ escapeQuotes p.name ++ [34]

/-! ### mime's quoted-string reader (the Spec's decoder for `escapeQuotes`) -/

/-- `()<>@,;:\"/[]?=` -/
def isTSpecial (c : UInt8) : Bool :=
  [40, 41, 60, 62, 64, 44, 59, 58, 92, 34, 47, 91, 93, 63, 61].any (· == c)

/-- `mime.consumeValue` inside a quoted-string (after the opening quote): the value and what follows
the closing quote; `none` when there is no closing quote or a bare CR / LF.  A backslash escapes the
next byte only when that byte is a tspecial (Go keeps other backslashes, for MSIE file paths). -/
def unquote : Bytes → Option (Bytes × Bytes)
  | [] => none
  | 34 :: r => some ([], r)
  | 92 :: c :: r =>
    if isTSpecial c then (unquote r).map fun p => (c :: p.1, p.2)
    else (unquote (c :: r)).map fun p => (92 :: p.1, p.2)
  | c :: r => if c == 13 || c == 10 then none else (unquote r).map fun p => (c :: p.1, p.2)

def decodeOut (outs : List String) : Option Obs :=
  match outs with
  | [status, errmsg, ctvals, ctmedia, _boundary, bodykind, raw, pdisp, pname, pfnf, pfn, pctf, pct, pbody, phdrs, prawdisp,
     gb, closed, prod, sniffs, uqs, uqk, uqv] => do
    let errmsg ← decField errmsg
    let ctvals ← decList ctvals
    let ctMedia ← (if ctmedia == "!" then some none else (decField ctmedia).map some)
    let rawB ← (if raw == "*" then some none else (decField raw).map some)
    let pdisp ← decList pdisp
    let parts ← mkParts (← decList pname) (decFlags pfnf) (← decList pfn) (decFlags pctf) (← decList pct) (← decList pbody)
    let phdrs ← decNats phdrs
    let prawdisp ← decList prawdisp
    let prod ← decProd prod
    let sniffs ← decList sniffs
    let uqk ← decList uqk
    let uqv ← decLists uqv
    let wire : Wire :=
      if bodykind == "nobody" then .nobody
      else if bodykind == "raw" then .raw (rawB.getD [])
      else if bodykind == "mp" then .multipart parts
      else if bodykind == "hang" then .never
      else .garbled
    let gets ← decGets gb rawB
    let st : Status :=
      if status == "ok" then .ok
      else if status == "hang" then .hang
      else if errmsg == ofStr "none-of-producers" then .gateError
      else if errmsg == ofStr "producer-failure" || errmsg == ofStr "other" then .produceError
      else .otherError
    -- every part is a `form-data` part with one header line per piece of information, and its
    -- Content-Disposition value is literally what request.go / mime/multipart format
    let dispOk := pdisp.all (· == ofStr "form-data") &&
      (parts.zip phdrs).all (fun ph => ph.2 == (if ph.1.ctype.isSome then 2 else 1)) &&
      ((parts.filter (·.fileName.isSome)).map dispositionLine ==
        ((parts.zip prawdisp).filter (·.1.fileName.isSome)).map (·.2))
    some { result := (if st == .ok then { status := st, ctype := ctvals, wire := wire, gets := gets, closedEarly := closed == "1" }
                      else failed st),
           ctMedia := ctMedia, prod := prod, sniffs := sniffs,
           uq := if uqs == "ok" then some (uqk.zip uqv) else none, dispOk := dispOk }
  | _ => none

/-- the sniffing oracle: the real `http.DetectContentType` on the first ≤ 512 bytes of every file -/
def sniffTable (i : Input) (sniffs : List Bytes) : Bytes → Bytes :=
  let keys := (i.files.flatMap (·.2)).map fun f => f.content.take windowLit
  fun p => ((keys.zip sniffs).find? (·.1 == p)).elim (ofStr "?unknown-to-the-oracle") (·.2)

def renderWire : Wire → String
  | .nobody => "nobody"
  | .raw b => "raw:" ++ encField b
  | .multipart ps => "mp:" ++ ";".intercalate (ps.map fun p =>
      encField p.name ++ "/" ++ (p.fileName.elim "!" encField) ++ "/" ++ (p.ctype.elim "!" encField) ++ "/" ++ encField p.body)
  | .never => "never"
  | .garbled => "garbled"

def renderStatus : Status → String
  | .ok => "ok" | .gateError => "gate-error" | .produceError => "produce-error" | .panic => "panic"
  | .hang => "hang" | .otherError => "other-error"

def render (r : Result) : String :=
  s!"{renderStatus r.status} ct={encList r.ctype} {renderWire r.wire} gets={String.ofList (r.gets.map fun b => if b then '=' else '#')} closed={if r.closedEarly then 1 else 0}"

/-- correspondence: same status, header, wire (parts up to the order Go's map iteration chose), GetBody
relations and early close -/
def ctypeShape (m r : Result) : Bool :=
  match m.wire with
  -- the boundary is random: multipart headers are compared up to the boundary value
  | .multipart _ => m.ctype.map (fun h => beforeByte h 61) == r.ctype.map (fun h => beforeByte h 61)
  | _ => m.ctype == r.ctype

def agrees (m r : Result) : Bool :=
  m.status == r.status && ctypeShape m r && m.gets == r.gets && m.closedEarly == r.closedEarly &&
  (match m.wire, r.wire with
   | .multipart a, .multipart b => a.isPerm b
   | a, b => a == b)

def kindTag (i : Input) : String :=
  match kindOf i with
  | .nil => "nil"
  -- a value under exactly multipart/form-data is the former F11d territory: shown apart in the histogram
  | .value => (if i.mediaType == multipartLit then "value@multipart" else "value")
  | .reader _ => (match i.payload with | .readCloser _ => "readcloser" | _ => "reader")
  | .formOnly => "fields" | .withFiles => (if i.fields.isEmpty then "files" else "fields+files") | .mixed => "~payload+form"

def tagOf (i : Input) (m : Result) : String :=
  let auth := match i.auth with | none => "" | some 0 => "+auth0" | some 1 => "+get1" | some _ => "+getN"
  let shape := match m.status, m.wire with
    | .ok, .multipart _ => ":multipart" | .ok, .raw _ => (if hasForm i then ":urlencoded" else ":raw")
    | .ok, .nobody => ":nobody" | .ok, _ => ":never"
    | .gateError, _ => ":gate-error" | .produceError, _ => ":produce-error" | .panic, _ => ":nil-producer-panic"
    | .hang, _ => ":hang" | .otherError, _ => ":error"
  let sn := if (i.files.flatMap (·.2)).any (fun f => f.declared.isNone) && m.status == .ok then
      (if (i.files.flatMap (·.2)).any (fun f => f.declared.isNone && f.content.length < windowLit) then "+sniff-short" else "+sniff-full")
    else ""
  (if m.status == .gateError && kindOf i != .mixed then "~" else "") ++ kindTag i ++ shape ++ sn ++ auth

def run (ins outs : List String) : Verdict :=
  match decodeIn ins with
  -- an undecodable *input* (only the shrinker of ./check produces them) is not a verdict on the code
  | none => { agree := true, specOk := true, tag := "~malformed-input", model := "C11 input fields" }
  | some (i, prods) =>
    match outs with
    | ["PANIC", msg] =>
      -- the only panic the model knows: a nil producer is called
      let env : Env := { produce := fun mt => if prods.contains mt then some none else none,
                         sniff := fun _ => [], boundary := [], mpDoc := fun _ _ => [] }
      let m := resultOf (build env i)
      { agree := m.status == .panic, specOk := specOk env.sniff (env.produce i.mediaType) i (failed .panic),
        known := ((known env i).map Finding.name).getD "-", tag := tagOf i m, model := render m ++ " impl-panic:" ++ msg }
    | _ =>
      match decodeOut outs with
      | none => .bad "C11 output fields"
      | some o =>
        let registered := prods.contains i.mediaType
        let prod : Option (Option Bytes) := if registered then (if i.payload == .value then o.prod else some none) else none
        let sniff := sniffTable i o.sniffs
        -- stand-ins for the random boundary and for mime/multipart's serialisation (the driver compares parts)
        let env : Env := { produce := fun mt => if mt == i.mediaType then prod else none,
                           sniff := sniff, boundary := ofStr "B", mpDoc := fun b ps => b ++ ps.flatMap dispositionLine }
        let m := resultOf (build env i)
        -- cross-checks of the hand-written decoders against the real ones, on what the code produced
        let mimeOk := match o.result.ctype, o.ctMedia with
          | [h], some mt => baseMediaType h == mt
          | _, _ => true
        let uqOk := match o.result.wire with
          | .raw b => (match parseQuery b, o.uq with
              | some pairs, some kv => kv.all (fun e => valuesOf pairs e.1 == e.2) && pairs.all (fun p => kv.any (·.1 == p.1))
              | none, none => true
              | _, _ => false)
          | _ => true
        let ag := agrees m o.result && o.dispOk && mimeOk && uqOk
        { agree := ag, specOk := specOk sniff prod i o.result, known := ((known env i).map Finding.name).getD "-",
          tag := tagOf i m ++ (if !mimeOk then "!MIME-MODEL" else "") ++ (if !uqOk then "!QUERY-MODEL" else "") ++
                 (if !o.dispOk then "!DISPOSITION" else ""),
          model := render m }

end RtVerif.C11
