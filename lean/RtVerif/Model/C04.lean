import RtVerif.Base.Bytes
import RtVerif.Base.Verdict
import RtVerif.Base.GoPath
import RtVerif.Base.GoURL
import RtVerif.Base.GoQuery
import RtVerif.Model.C01
import RtVerif.Model.C10
import RtVerif.Model.C14
import RtVerif.Gen.Facts
/-
  C04 — client and server agree: what the caller sets is what the handler gets.

  A COMPOSITION property: the model is `serverSees (clientBuilds op values)` per parameter position,
  assembled from the models of the two halves that already exist:

    path      client  C10.urlPath (sequential ReplaceAll of `{name}` by url.PathEscape(value), after
                      path.Join(basePath, pattern), trailing slash reinstated)
              server  C01.dispatch (path.Clean, per-method C05 trie tables, url.PathUnescape of every
                      captured text, 404/405)
    query     client  url.Values.Encode            server  url.ParseQuery (GoQuery), then the untyped
    form(url) client  url.Values.Encode (body)     server  binder's rule: scalar = last value, array(multi) = all
    header    client  http.CanonicalHeaderKey on SetHeaderParam
              wire    textproto canonicalises again
              server  lookup of CanonicalHeaderKey(declared name)
    multipart fields/files, header VALUES, bodies, and the response direction (status, header, body)
              are external encodings on both sides (mime/multipart, net/http, the codecs of C15/C08/C13):
              modelled as the identity and checked by the correspondence stream only.

  Spec (from the property text): the handler of THE SELECTED operation runs and receives, for every
  parameter, the value(s) the caller supplied; the caller's reader receives the handler's status,
  header and body.  Outside the guarantee (stated exclusions): path values that are empty or dot
  segments, and requests whose built path is also an instance of another operation of the same
  method that is at least as literal (an ambiguity of the description, not of the runtime).
-/
namespace RtVerif.C04
open RtVerif Bytes

def slash : UInt8 := 47
def star : UInt8 := 42
def hash : UInt8 := 35

/-! ## the wiring of the two halves (regenerated facts) -/

/-- what the composition below assumes about the source, re-read by factgen on every run: the client
escapes path values with `url.PathEscape`, the router is asked about `URL.EscapedPath()` and
unescapes captured texts with `url.PathUnescape`, query and urlencoded form are written with
`Values.Encode`, and header parameters are looked up under their canonical key -/
def wiringOk : Bool :=
  Facts.c04ClientEscape == [80, 97, 116, 104, 69, 115, 99, 97, 112, 101] &&                  -- "PathEscape"
  Facts.c04ServerUnescape == [80, 97, 116, 104, 85, 110, 101, 115, 99, 97, 112, 101] &&      -- "PathUnescape"
  Facts.c04LookupPathSource == [69, 115, 99, 97, 112, 101, 100, 80, 97, 116, 104] &&         -- "EscapedPath"
  Facts.c04QueryEncoded && Facts.c04FormEncoded && Facts.c04HeaderLookupCanonical

/-! ## path: client side -/

/-- `client.New`: a base path without a leading slash gets one (so `""` becomes `"/"`) -/
def clientBase (b : Bytes) : Bytes := if GoPath.isRooted b then b else slash :: b

/-- the escaped path `request.buildHTTP` hands to `http.NewRequest` -/
def clientPath (api : C01.Api) (op : C01.Op) (params : List (Bytes × Bytes)) : Bytes :=
  C10.urlPath (GoPath.join (clientBase api.basePath) op.template) op.template params

/-! ## path: the wire (`http.NewRequest` → `Request.Write` → `http.ReadRequest` → `URL.EscapedPath`) -/

/-- `shouldEscape(c, encodePath)` of net/url -/
def shouldEscapePath (c : UInt8) : Bool :=
  !(GoURL.isAlnum c || GoURL.isMark c ||
    c == 36 || c == 38 || c == 43 || c == 44 || c == 47 || c == 58 || c == 59 || c == 61 || c == 64)

/-- the bytes `validEncoded(s, encodePath)` of net/url accepts: `! $ & ' ( ) * + , ; = : @ [ ] %` and
everything `shouldEscape` leaves alone -/
def validEncodedByte (c : UInt8) : Bool :=
  c == 33 || c == 36 || c == 38 || c == 39 || c == 40 || c == 41 || c == 42 || c == 43 || c == 44 ||
  c == 59 || c == 61 || c == 58 || c == 64 || c == 91 || c == 93 || c == 37 || !shouldEscapePath c

def escapePathByte (c : UInt8) : Bytes :=
  if shouldEscapePath c then [37, GoURL.upperhex (c.toNat / 16), GoURL.upperhex (c.toNat % 16)] else [c]

/-- the escaped path the server reads for a path string handed to `http.NewRequest`: the string
itself when it is a valid encoding (`URL.RawPath` is kept), else the default encoding of its
unescaped form — which re-reads every escape of the string (stdlib hand model; validated by the
correspondence of stream W) -/
def wirePath (p : Bytes) : Bytes :=
  if p.all validEncodedByte then p
  else match GoURL.pathUnescape p with
    | some u => u.flatMap escapePathByte
    | none => p

/-- what the server's router makes of it -/
def serverRoute (api : C01.Api) (op : C01.Op) (params : List (Bytes × Bytes)) : C01.Out :=
  C01.dispatch api op.method (wirePath (clientPath api op params))

/-! ## simple templates: whole-segment placeholders -/

inductive Seg where
  | lit (b : Bytes)
  | ph (name : Bytes)
deriving Repr, DecidableEq, BEq

/-- the segment as written in the template -/
def Seg.text : Seg → Bytes
  | .lit b => b
  | .ph n => C10.placeholder n

/-- the segment in the router's key (`{name}` ↦ `:name`) -/
def Seg.key : Seg → Bytes
  | .lit b => b
  | .ph n => C01.colon :: n

/-- the segment in the built request path -/
def Seg.sub (params : List (Bytes × Bytes)) : Seg → Bytes
  | .lit b => b
  | .ph n => match C10.lookupParam params n with
    | some v => GoURL.pathEscape v
    | none => C10.placeholder n

def renderSegs (f : Seg → Bytes) (segs : List Seg) : Bytes := GoPath.render true (segs.map f)

def phNames : List Seg → List Bytes
  | [] => []
  | .lit _ :: r => phNames r
  | .ph n :: r => n :: phNames r

/-- bytes of static text that travel unchanged in a request path (unreserved and sub-delimiters);
the router's reserved bytes `: * #`, the separators and `%` are not among them -/
def litByteSafe (c : UInt8) : Bool :=
  GoURL.isAlnum c || GoURL.isMark c ||
  c == 33 || c == 36 || c == 38 || c == 39 || c == 40 || c == 41 || c == 43 || c == 44 ||
  c == 59 || c == 61 || c == 64 || c == 91 || c == 93

/-- static text of a template, loosely: a normal path segment without braces and without the
router's reserved bytes `: * #` (known finding F01c covers `:`/`*` in static text), `?` and `%` -/
def litOkLoose (b : Bytes) : Bool :=
  !b.isEmpty && b != GoPath.dot && b != GoPath.dotdot &&
  b.all fun c => c != slash && c != C10.lbrace && c != C10.rbrace && c != C01.colon && c != star && c != hash &&
    c != 63 && c != 37 && c != 0

/-- static text the theorems cover: additionally every byte travels unchanged in a request path -/
def litOk (b : Bytes) : Bool :=
  !b.isEmpty && b != GoPath.dot && b != GoPath.dotdot && b.all litByteSafe

/-- a placeholder name: non-empty, no `/ { } #`, no newline (the converter's `.` does not match one) -/
def nameOk (n : Bytes) : Bool :=
  !n.isEmpty && n.all fun c => c != slash && c != C10.lbrace && c != C10.rbrace && c != hash && c != C01.newline && c != 0

def segOk (strict : Bool) : Seg → Bool
  | .lit b => if strict then litOk b else litOkLoose b
  | .ph n => nameOk n

def nodupB : List Bytes → Bool
  | [] => true
  | x :: xs => !xs.contains x && nodupB xs

def segsOk (strict : Bool) (segs : List Seg) : Bool := segs.all (segOk strict) && nodupB (phNames segs)

def parseSeg (s : Bytes) : Seg :=
  match s with
  | c :: rest => if c == C10.lbrace && rest.getLast? == some C10.rbrace then .ph rest.dropLast else .lit s
  | [] => .lit []

/-- the segments of a full path when it is a simple template (used by the driver to decide whether a
case meets the hypotheses of the theorems: `strict`; or only the Spec's reading: loose) -/
def simpleSegs (strict : Bool) (fp : Bytes) : Option (List Seg) :=
  if fp == [slash] then some []
  else match GoPath.segs fp with
    | [] :: rest =>
      let segs := rest.map parseSeg
      if segsOk strict segs && renderSegs Seg.text segs == fp then some segs else none
    | _ => none

/-- the property's stated exclusion: empty values and dot segments -/
def pathValueOk (v : Bytes) : Bool := !v.isEmpty && v != GoPath.dot && v != GoPath.dotdot

def valuesOk (segs : List Seg) (params : List (Bytes × Bytes)) : Bool :=
  (phNames segs).all fun n => match C10.lookupParam params n with
    | some v => pathValueOk v
    | none => false

/-- the parameters the handler must receive: the template's names in order, each with its value -/
def expected (segs : List Seg) (params : List (Bytes × Bytes)) : List (Bytes × Bytes) :=
  (phNames segs).map fun n => (n, (C10.lookupParam params n).getD [])

/-! ## operation selection: rivals -/

/-- another record of the same method's table that the built path also selects, at least as
literally as the own key (for a parameter-free own key: only an equal parameter-free key) -/
def isRival (i : Nat) (ownKey path : Bytes) (kv : Bytes × Nat) : Bool :=
  kv.2 != i &&
  (if C05.isParamKey kv.1 then
     C05.isParamKey ownKey && (C05.matchKey false (kv.1 ++ [C05.cTerm]) path).isSome &&
       C05.kindsLe (C05.edgeKinds (kv.1 ++ [C05.cTerm])) (C05.edgeKinds (ownKey ++ [C05.cTerm]))
   else kv.1 == path)

def noRival (api : C01.Api) (i : Nat) (op : C01.Op) (path : Bytes) : Bool :=
  (C01.recordsFor api (toUpper op.method)).all fun kv =>
    !isRival i (C01.convert (C01.fullPath api op)) path kv

/-! ## query and urlencoded form -/

abbrev Values := GoQuery.Values

/-- `req.URL.Query()` / `req.PostForm` of what `Values.Encode` wrote -/
def serverValues (q : Values) : Values := (GoQuery.parseQuery (GoQuery.encode q)).values

/-- `bindValue` for a `type: string` parameter: the last value, `""` when there is none -/
def bindScalar (vs : Option (List Bytes)) : Bytes :=
  match vs with
  | some l => l.getLast?.getD []
  | none => []

/-- `readValue` for `type: array, collectionFormat: multi`: all values in order -/
def bindMulti (vs : Option (List Bytes)) : List Bytes := vs.getD []

/-- what the untyped binder puts in the map for a declared parameter (`multi` = array/multi) -/
def bindDecl (vs : Values) (decl : Bytes × Bool) : Bytes × List Bytes :=
  (decl.1, if decl.2 then bindMulti (GoQuery.Values.get vs decl.1) else [bindScalar (GoQuery.Values.get vs decl.1)])

def boundValues (vs : Values) (decls : List (Bytes × Bool)) : List (Bytes × List Bytes) := decls.map (bindDecl vs)

/-! ## header names -/

abbrev Hdr := List (Bytes × Bytes)

/-- `request.SetHeaderParam(name, value)`: `r.header[http.CanonicalHeaderKey(name)] = []string{value}` -/
def clientSetHeader (h : Hdr) (nv : Bytes × Bytes) : Hdr :=
  (h.filter fun e => !(e.1 == C14.canon nv.1)) ++ [(C14.canon nv.1, nv.2)]

def clientHeaders (pairs : List (Bytes × Bytes)) : Hdr := pairs.foldl clientSetHeader []

/-- the wire: `textproto.Reader.ReadMIMEHeader` files every field under its canonical key -/
def wireHeaders (h : Hdr) : Hdr := h.map fun e => (C14.canon e.1, e.2)

/-- the binder (after the F03c repair): the values under `CanonicalHeaderKey(declared)`, last one -/
def serverHeader (h : Hdr) (declared : Bytes) : Option Bytes :=
  ((h.filter fun e => e.1 == C14.canon declared).map (·.2)).getLast?

/-- header names net/http transmits: non-empty tokens -/
def headerNameOk (n : Bytes) : Bool := !n.isEmpty && n.all C14.isTokenByte

/-! ## Driver entry -/

structure Case where
  api : C01.Api
  op : Nat
  params : List (Bytes × Bytes)
  q : Values
  qdecl : List (Bytes × Bool)
  hdr : List (Bytes × Bytes)
  fkind : String
  f : Values
  fdecl : List (Bytes × Bool)
  files : List (Bytes × Bytes)
  bkind : String
  body : Bytes
  rstatus : Nat
  rhdr : Bytes
  rkind : String
  rbody : Bytes
  auth : String

def decGroups (keys : List Bytes) (s : String) : Option (List (List Bytes)) :=
  if keys.isEmpty then some []
  else
    let gs := s.splitOn "|"
    if gs.length != keys.length then none else gs.mapM decList

def decKinds (n : Nat) (s : String) : Option (List Bool) :=
  let cs := if s == "-" then [] else s.toList
  if cs.length != n then none else some (cs.map (· == 'm'))

def encGroups (gs : List (List Bytes)) : String :=
  if gs.isEmpty then "." else "|".intercalate (gs.map encList)

def decCase : List String → Option Case
  | [base, ms, ts, op, pn, pv, qk, qkinds, qv, hn, hv, fkind, fk, fkinds, fv, fn, fc, bkind, body,
     rstatus, rhdr, rkind, rbody, auth] => do
    let b ← decField base
    let ms ← decList ms
    let ts ← decList ts
    if ms.length != ts.length then none
    let i ← op.toNat?
    let pn ← decList pn
    let pv ← decList pv
    if pn.length != pv.length then none
    let qk ← decList qk
    let qkd ← decKinds qk.length qkinds
    let qv ← decGroups qk qv
    let hn ← decList hn
    let hv ← decList hv
    if hn.length != hv.length then none
    let fk ← decList fk
    let fkd ← decKinds fk.length fkinds
    let fv ← decGroups fk fv
    let fn ← decList fn
    let fc ← decList fc
    if fn.length != fc.length then none
    pure { api := ⟨b, (ms.zip ts).map fun (m, t) => ⟨m, t⟩⟩, op := i, params := pn.zip pv,
           q := qk.zip qv, qdecl := qk.zip qkd, hdr := hn.zip hv, fkind := fkind, f := fk.zip fv,
           fdecl := fk.zip fkd, files := fn.zip fc, bkind := bkind, body := ← decField body,
           rstatus := ← rstatus.toNat?, rhdr := ← decField rhdr, rkind := rkind, rbody := ← decField rbody,
           auth := auth }
  | _ => none

def nodupKeys (vs : Values) : Bool := nodupB (vs.map (·.1))

/-- the non-route part of an output line: what the handler and the caller's reader received -/
def renderRest (q : List (Bytes × List Bytes)) (h : List (Bytes × Bytes)) (f : List (Bytes × List Bytes))
    (files : List (Bytes × Bytes)) (body auth : Bytes) (status : Nat) (rhdr rbody : Bytes) : List String :=
  [encList (q.map (·.1)), encGroups (q.map (·.2)), encList (h.map (·.1)), encList (h.map (·.2)),
   encList (f.map (·.1)), encGroups (f.map (·.2)), encList (files.map (·.1)), encList (files.map (·.2)),
   encField body, encField auth, toString status, encField rhdr, encField rbody]

def authValue (auth : String) : Bytes :=
  if auth == "1" then ofStr "k1" else if auth == "2" then ofStr "got-body" else []

/-- the file as the harness reports it: `file:<name>:<content>` -/
def fileSeen (idx : Nat) (content : Bytes) : Bytes := ofStr s!"file:f{idx}.bin:" ++ content

/-- MODEL of everything but the route: the compositions above -/
def modelRest (c : Case) : List String :=
  let q := boundValues (serverValues c.q) c.qdecl
  let wire := wireHeaders (clientHeaders c.hdr)
  let h := c.hdr.map fun nv => (nv.1, (serverHeader wire nv.1).getD [])
  -- multipart fields are an external encoding: only the binder's rule is applied
  let fvals := if c.fkind == "u" then serverValues c.f else GoQuery.nonEmpty c.f
  let f := boundValues fvals c.fdecl
  let files := c.files.zipIdx.map fun (nv, i) => (nv.1, fileSeen i nv.2)
  renderRest q h f files c.body (authValue c.auth) c.rstatus c.rhdr c.rbody

/-- SPEC of everything but the route, written from the property: the supplied values themselves -/
def specRest (c : Case) : List String :=
  let pick (vs : Values) (d : Bytes × Bool) : Bytes × List Bytes :=
    let supplied := (GoQuery.Values.get vs d.1).getD []
    -- an array parameter receives all the values in order; a scalar one the (last) value set for it
    (d.1, if d.2 then supplied else [supplied.getLast?.getD []])
  let q := c.qdecl.map (pick c.q)
  let f := c.fdecl.map (pick c.f)
  let files := c.files.zipIdx.map fun (nv, i) => (nv.1, fileSeen i nv.2)
  renderRest q c.hdr f files c.body (authValue c.auth) c.rstatus c.rhdr c.rbody

def renderRoute : C01.Out → List String
  | .ran i ps => ["R", toString i, encList (ps.map (·.1)), encList (ps.map (·.2))]
  | .notAllowed _ => ["S", "405"]
  | .notFound => ["S", "404"]
  | .panic => ["PANIC"]

def runW (c : Case) (outs : List String) : Verdict :=
  match c.api.ops[c.op]? with
  | none => if outs == ["INVALID"] then { agree := true, specOk := true, tag := "~invalid-input" } else .bad "op index"
  | some op =>
    let fp := C01.fullPath c.api op
    let path := clientPath c.api op c.params
    let route := serverRoute c.api op c.params
    let segs := simpleSegs false fp
    -- F04b: static text that net/url escapes in a request path is compared unescaped by the router
    let f04b := segs.isSome && (simpleSegs true fp).isNone
    let hdrOk := c.hdr.all (fun nv => headerNameOk nv.1) && nodupB (c.hdr.map fun nv => C14.canon nv.1)
    let keysOk := nodupKeys c.q && nodupKeys c.f
    -- does the case meet the hypotheses of the route theorem?
    let inScope := match segs with
      | some s => valuesOk s c.params && noRival c.api c.op op (GoPath.clean (wirePath path))
      | none => false
    let excluded := match segs with
      | some s => !valuesOk s c.params
      | none => false
    let pos :=
      if !c.files.isEmpty then "files"
      else if c.fkind == "m" then "multipart"
      else if c.fkind == "u" then "urlencoded"
      else if c.bkind != "n" then "body-" ++ c.bkind
      else if !c.q.isEmpty && !c.hdr.isEmpty then "query+header"
      else if !c.q.isEmpty then "query"
      else if !c.hdr.isEmpty then "header"
      else if c.rkind != "n" then "resp-" ++ c.rkind
      else "path-only"
    if C01.dupKeys c.api || C01.buildRefused c.api then
      -- two templates with one converted key (Go's map order decides), or a table the router refuses:
      -- outside C01's model, hence outside this composition
      { agree := true, specOk := true, tag := "~dupkeys-or-refused", model := "-" }
    else if !hdrOk || !keysOk then
      -- invalid or colliding header names / duplicate keys: outside the quantifier
      { agree := true, specOk := true, tag := "~odd-names", model := "-" }
    else if path.take 2 == [slash, slash] then
      -- F10a (recorded for C10): an empty first value makes the path start with "//"; empty path values
      -- are outside C04's guarantee
      { agree := true, specOk := true, tag := "~excluded:F10a", model := "-" }
    else
      let routeOf (l : List String) : List String := if l.head? == some "R" then l.take 4 else l.take 2
      match route with
      | .ran i ps =>
        if i == c.op && !(ps.all fun kv => !kv.2.isEmpty) then
          -- a required path parameter bound to the empty text: the binder answers 422, no handler runs
          let m := renderRoute route ++ ["0", "."]
          { agree := m == outs.take 6, specOk := !inScope, tag := "~excluded:empty-param", model := " ".intercalate m }
        else if i == c.op then
          -- the handler of the selected operation runs; the binder hands it the router's values
          let m := renderRoute route ++ ["1", encList (ps.map (·.2))] ++ modelRest c
          let want := match segs with
            | some s =>
              let e := expected s c.params
              ["R", toString c.op, encList (e.map (·.1)), encList (e.map (·.2)), "1", encList (e.map (·.2))] ++ specRest c
            | none => []
          { agree := m == outs, known := (if f04b then "F04b" else "-"),
            -- composite templates are not judged here (C01 records the splitting of their values as partial)
            specOk := if inScope then want == outs else true,
            tag := (if inScope then s!"ok{(phNames (segs.getD [])).length.min 3}:" else if excluded then "~excluded-but-routed:" else if segs.isSome then "~rival:" else "~composite:") ++ pos,
            model := " ".intercalate m }
        else
          -- another operation was routed: only the route is predicted
          let m := renderRoute route
          { agree := m == routeOf outs, specOk := !inScope, known := (if f04b then "F04b" else "-"),
            tag := if excluded then "~excluded:other-op" else if f04b then "F04b:other-op" else "~rival:other-op", model := " ".intercalate m }
      | _ =>
        let m := renderRoute route ++ ["0", "."]
        { agree := m == outs.take 4, specOk := !inScope, known := (if f04b then "F04b" else "-"),
          tag := if excluded then "~excluded:not-routed" else if f04b then "F04b:not-routed"
                 else if segs.isNone then "~composite:not-routed" else "not-routed", model := " ".intercalate m }

def encValuesSorted (vs : Values) : String :=
  let s := C10.sortValues vs
  encList (s.map (·.1)) ++ " " ++ encGroups (s.map (·.2))

def run (ins outs : List String) : Verdict :=
  match ins with
  | "W" :: rest =>
    if outs == ["INVALID"] then { agree := true, specOk := true, tag := "~invalid-input", model := "-" } else
    match decCase rest with
    | some c =>
      match outs with
      | "PANIC" :: msg => { agree := false, specOk := false, tag := "panic", model := "impl panicked: " ++ " ".intercalate msg }
      | _ => runW c outs
    | none => .bad "W fields"
  | ["V", "E", keys, vals] =>
    match decList keys with
    | some ks =>
      match decGroups ks vals, outs with
      | some vs, [e] =>
        let m := GoQuery.encode (ks.zip vs)
        -- Spec of the pair Encode/ParseQuery: the round trip (keys distinct)
        let back := GoQuery.parseQuery m
        let rt := !nodupB ks || (back.ok && (ks.zip vs).all fun kv =>
          GoQuery.Values.get back.values kv.1 == (if kv.2.isEmpty then none else some kv.2))
        { agree := encField m == e, specOk := rt, tag := s!"V:E{ks.length.min 3}", model := encField m }
      | _, _ => .bad "V E fields"
    | none => .bad "V E keys"
  | ["V", "P", raw] =>
    match decField raw, outs with
    | some r, [ok, ks, vs] =>
      let p := GoQuery.parseQuery r
      let m := (if p.ok then "1" else "0") ++ " " ++ encValuesSorted p.values
      { agree := m == ok ++ " " ++ ks ++ " " ++ vs, specOk := true,
        tag := (if p.ok then "V:P-ok" else "V:P-err") ++ s!"{p.values.length.min 3}", model := m }
    | _, _ => .bad "V P fields"
  | ["V", "K", name] =>
    match decField name, outs with
    | some n, [e] => { agree := encField (C14.canon n) == e, specOk := true,
                       tag := (if n.all C14.isTokenByte then "V:K-token" else "V:K-invalid"), model := encField (C14.canon n) }
    | _, _ => .bad "V K fields"
  | _ => .bad "C04 stream"

end RtVerif.C04
