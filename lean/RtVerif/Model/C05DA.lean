import RtVerif.Model.C05
/-
  C05DA — the BASE/CHECK double array of denco, inside the model.

  `Model/C05.lean` treats the router as a DFS over the implicit trie of the raw keys and abstracts
  the double array as the child function of that trie.  This file is the executable model of the
  double array itself (`middleware/denco/router.go`: `doubleArray`, `baseCheck`, `build`, `arrange`,
  `findBase`, `findEmptyIndex`, `makeSiblings`, `SetBase/SetCheck`, `nextIndex`, `lookup`,
  `Router.Build`, `Router.Lookup`), transcribed statement by statement.  `Props/C05DA.lean` proves
  that it refines the trie model, so that every C05 theorem transfers to the array level.

  Representation choices (each one is exercised by the correspondence stream, which compares the
  REAL arrays element for element with the ones computed here):
  * an element of `bc` (a `uint32`: BASE 22 bits | flags 2 bits | CHECK 8 bits) is the record
    `Elem`; `Elem.encode` is the `uint32`.  `SetBase`/`SetCheck` OR into the word, as in Go.
  * a record carries its REMAINING key (`Key[depth:]`) instead of `(Key, depth)`: all records handed
    to one `build` call share `Key[:depth]`, so sorting by `Key` is sorting by the remaining key.
  * Go slices are immutable lists (the sub-slices `srcs[start:end]` of the siblings are disjoint).
  * `usedBase` (a Go map used as a set) is a list.
  * Go's recursion (`build`, `lookup`) is unbounded; here it runs on fuel, running out of fuel is the
    explicit outcome `fuel` (Props/C05DA: it never happens for the fuel `Router.Build` provides).
  * a Go run-time panic (index out of range, nil dereference, slice bounds) is the outcome `panic`.
-/
namespace RtVerif.C05DA
open RtVerif Bytes
open RtVerif.C05 (Rec cParam cWild cTerm cSep isReserved notKeySep notPathSep sortRecs)

/-! ## `baseCheck` -/

/-- One element of `doubleArray.bc`. -/
structure Elem where
  base : Nat := 0        -- bits 10..31
  single : Bool := false -- bit 8  (`paramTypeSingle`)
  wild : Bool := false   -- bit 9  (`paramTypeWildcard`)
  check : UInt8 := 0     -- bits 0..7
deriving Repr, DecidableEq, BEq, Inhabited

/-- `MaxSize = 1<<22 - 1` -/
def maxSize : Nat := 4194303

/-- the `uint32` -/
def Elem.encode (e : Elem) : Nat :=
  1024 * e.base + (if e.wild then 512 else 0) + (if e.single then 256 else 0) + e.check.toNat

/-- `IsEmpty`: `bc & 0xfffffcff == 0` — BASE and CHECK are zero, the flags are not looked at. -/
def Elem.isEmpty (e : Elem) : Bool := e.base == 0 && e.check == 0
/-- `IsAnyParam` -/
def Elem.isAnyParam (e : Elem) : Bool := e.single || e.wild
/-- `SetBase`: `*bc |= baseCheck(base) << flagsBits` (the conversion keeps 22 bits of `base`) -/
def Elem.setBase (e : Elem) (b : Nat) : Elem := { e with base := e.base ||| (b % 4194304) }
/-- `SetCheck`: `*bc |= baseCheck(check)` -/
def Elem.setCheck (e : Elem) (c : UInt8) : Elem := { e with check := e.check ||| c }
def Elem.setSingle (e : Elem) : Elem := { e with single := true }
def Elem.setWild (e : Elem) : Elem := { e with wild := true }

/-- an entry of `doubleArray.node` -/
structure Node where
  names : List Bytes
  val : Nat
deriving Repr, DecidableEq, BEq

abbrev BC := Array Elem

/-- `da.bc[i]` read where the Go code has made sure that `i` is in range -/
def el (bc : BC) (i : Nat) : Elem := bc.getD i {}

/-- `da.bc[i].Set…()`; out of range leaves the array alone (callers that can be out of range in Go
test the index first and panic) -/
def upd (bc : BC) (i : Nat) (f : Elem → Elem) : BC := bc.modify i f

/-- `nextIndex(base, c) = base ^ int(c)` -/
def nextIndex (base : Nat) (c : UInt8) : Nat := base ^^^ c.toNat

/-- `rootIndex` -/
def rootIndex : Nat := 1

/-- `isFree`: the root is never unused -/
def isFree (bc : BC) (i : Nat) : Bool := i != rootIndex && (el bc i).isEmpty

/-! ## `findEmptyIndex`, `findBase` -/

def findEmptyFrom (bc : BC) : Nat → Nat → Nat
  | 0, i => i
  | n + 1, i => if i < bc.size then (if isFree bc i then i else findEmptyFrom bc n (i + 1)) else i

/-- `findEmptyIndex(start)`: the first unused element at or after `start`, else `len(bc)`
(`start` itself when it is beyond the array). -/
def findEmptyIndex (bc : BC) (start : Nat) : Nat := findEmptyFrom bc (bc.size - start) start

/-- `da.bc = append(da.bc, make([]baseCheck, next-len(da.bc)+1)...)` when `len(da.bc) <= next` -/
def grow (bc : BC) (next : Nat) : BC :=
  if bc.size ≤ next then bc ++ Array.replicate (next + 1 - bc.size) ({} : Elem) else bc

/-- the inner loop of `findBase`: are the places of all siblings unused? (grows `bc` on the way) -/
def tryBase (base : Nat) : List UInt8 → BC → BC × Bool
  | [], bc => (bc, true)
  | c :: cs, bc =>
    let bc := grow bc (nextIndex base c)
    if isFree bc (nextIndex base c) then tryBase base cs bc else (bc, false)

/-- the outer loop of `findBase` from the candidate `idx` on -/
def findBaseLoop (used : List Nat) (first : UInt8) (cs : List UInt8) : Nat → Nat → BC → Option (BC × Nat)
  | 0, _, _ => none
  | fuel + 1, idx, bc =>
    let base := nextIndex idx first
    if used.contains base then findBaseLoop used first cs fuel (findEmptyIndex bc (idx + 1)) bc
    else
      let r := tryBase base cs bc
      if r.2 then some (r.1, base)
      else findBaseLoop used first cs fuel (findEmptyIndex r.1 (idx + 1)) r.1

def listMax : List Nat → Nat
  | [] => 0
  | x :: xs => max x (listMax xs)

/-- iterations `findBase` can need: every candidate index beyond all elements in use and all used
bases succeeds (Lemmas/C05DATotal `findBase_total`) -/
def findBaseFuel (bc : BC) (used : List Nat) : Nat := bc.size + listMax used + 600

/-- `findBase(siblings, start, usedBase)`; `none` = out of fuel.  `cs` are the sibling characters. -/
def findBase (bc : BC) (used : List Nat) (cs : List UInt8) (start : Nat) : Option (BC × Nat) :=
  match cs with
  | [] => none   -- `siblings[0]`: `arrange` never calls it without siblings
  | first :: _ => findBaseLoop used first cs (findBaseFuel bc used) (start + 1) bc

/-! ## `makeSiblings` -/

structure Sib where
  start : Nat
  stop : Nat
  c : UInt8
deriving Repr, DecidableEq, BEq

inductive Err where
  | reserved        -- Build: a parameterised key contains '#' or NUL
  | tooManyRecords  -- Build: more than MaxSize records
  | tooManyElems    -- arrange: BASE beyond MaxSize
  | dupName         -- makeNode: duplicated parameter name
  | notSorted       -- makeSiblings: "BUG: routing table hasn't been sorted"
  | panic           -- a Go run-time panic
  | fuel            -- the model ran out of fuel
deriving Repr, DecidableEq, BEq

/-- `sib[n-1].end = i` -/
def closeLast : List Sib → Nat → List Sib
  | [], _ => []
  | s :: t, i => { s with stop := i } :: t

/-- the loop of `makeSiblings`; `acc` holds the siblings found so far, the latest first -/
def mkSibsLoop : List Rec → Nat → UInt8 → List Sib → Option Rec → Except Err (List Sib × Option Rec)
  | [], i, _, acc, leaf => .ok ((closeLast acc i).reverse, leaf)
  | r :: rs, i, pc, acc, leaf =>
    match r.key with
    | [] => mkSibsLoop rs (i + 1) pc acc (some r)
    | c :: _ =>
      if pc < c then mkSibsLoop rs (i + 1) c (⟨i, 0, c⟩ :: closeLast acc i) leaf
      else if pc == c then mkSibsLoop rs (i + 1) pc acc leaf
      else .error .notSorted

/-- `makeSiblings(records, depth)` on the remaining keys -/
def mkSiblings (rs : List Rec) : Except Err (List Sib × Option Rec) := mkSibsLoop rs 0 0 [] none

/-! ## `build` -/

structure St where
  bc : BC
  node : Array (Option Node)
  used : List Nat
deriving Repr

/-- `arrange` after `makeSiblings`: nothing to place without siblings; else find a BASE, refuse it
beyond `MaxSize`, store it in the element `idx`.  Returns the BASE (0 when there are no siblings:
it is not used then). -/
def arrange (sibs : List Sib) (idx : Nat) (st : St) : Except Err (St × Nat) :=
  if sibs.isEmpty then .ok (st, 0)
  else
    match findBase st.bc st.used (sibs.map (·.c)) idx with
    | none => .error .fuel
    | some (bc, base) =>
      if base > maxSize then .error .tooManyElems
      else if idx < bc.size then
        .ok ({ st with bc := upd bc idx (·.setBase base), used := base :: st.used }, base)
      else .error .panic

/-- `makeNode`: a record whose parameter names are not distinct is refused -/
def leafStep (leaf : Option Rec) (idx : Nat) (st : St) : Except Err St :=
  match leaf with
  | none => .ok st
  | some r =>
    if C05.hasDup r.names then .error .dupName
    else if idx < st.bc.size then
      .ok { st with bc := upd st.bc idx (·.setBase st.node.size), node := st.node.push (some ⟨r.names, r.val⟩) }
    else .error .panic

/-- `for _, sib := range siblings { da.setCheck(nextIndex(base, sib.c), sib.c) }` -/
def setChecks (base : Nat) : List Sib → BC → Except Err BC
  | [], bc => .ok bc
  | s :: t, bc =>
    if nextIndex base s.c < bc.size then setChecks base t (upd bc (nextIndex base s.c) (·.setCheck s.c))
    else .error .panic

/-- the ':' case: `name := r.Key[depth+1:next]; r.Key = r.Key[next:]` -/
def stripSingle (r : Rec) : Rec :=
  { r with key := (r.key.drop 1).dropWhile notKeySep,
           names := r.names ++ [(r.key.drop 1).takeWhile notKeySep] }

/-- the '*' case: `name := r.Key[depth+1:len(r.Key)-1]; r.Key = ""` -/
def stripWild (r : Rec) : Rec :=
  { r with key := [], names := r.names ++ [(r.key.drop 1).dropLast] }

/-- the default case: the child looks at `depth+1` -/
def dropHead (r : Rec) : Rec := { r with key := r.key.drop 1 }

/-- `srcs[sib.start:sib.end]` -/
def slice (srcs : List Rec) (s : Sib) : List Rec := (srcs.drop s.start).take (s.stop - s.start)

/-- the second loop over the siblings in `build`; `rec` is `build` with less fuel -/
def buildSibs (rec : List Rec → Nat → St → Except Err St) (srcs : List Rec) (base idx : Nat) :
    List Sib → St → Except Err St
  | [], st => .ok st
  | s :: rest, st =>
    let records := slice srcs s
    let next := nextIndex base s.c
    if s.c == cParam then
      -- a record with an exhausted key in the slice: `r.Key[depth+1:next]` panics
      if records.any (fun r => r.key.isEmpty) then .error .panic
      else
        match rec (records.map stripSingle) next { st with bc := upd st.bc idx (·.setSingle) } with
        | .error e => .error e
        | .ok st' => buildSibs rec srcs base idx rest st'
    else if s.c == cWild then
      -- `r.Key[depth+1:len(r.Key)-1]` panics unless something follows the '*'
      if records.any (fun r => r.key.length < 2) then .error .panic
      else
        match rec (records.map stripWild) next { st with bc := upd st.bc idx (·.setWild) } with
        | .error e => .error e
        | .ok st' => buildSibs rec srcs base idx rest st'
    else
      match rec (records.map dropHead) next st with
      | .error e => .error e
      | .ok st' => buildSibs rec srcs base idx rest st'

/-- `doubleArray.build(srcs, idx, depth, usedBase)` -/
def build : Nat → List Rec → Nat → St → Except Err St
  | 0, _, _, _ => .error .fuel
  | fuel + 1, srcs, idx, st =>
    let srcs := sortRecs srcs
    match mkSiblings srcs with
    | .error e => .error e
    | .ok (sibs, leaf) =>
      match arrange sibs idx st with
      | .error e => .error e
      | .ok (st1, base) =>
        match leafStep leaf idx st1 with
        | .error e => .error e
        | .ok st2 =>
          match setChecks base sibs st2.bc with
          | .error e => .error e
          | .ok bc3 => buildSibs (build fuel) srcs base idx sibs { st2 with bc := bc3 }

/-! ## `Router.Build` -/

structure Router where
  statics : List (Bytes × Nat)
  bc : BC
  node : Array (Option Node)
  fuel : Nat   -- ghost: bound of the recursion depth of `lookup` (total length of the keys + 1)
deriving Repr

/-- `newDoubleArray` -/
def St.new : St := ⟨#[{}], #[none], []⟩

def buildFuel (recs : List (Bytes × Nat)) : Nat := C05.weight (C05.paramRecs recs) + 1

/-- `Router.Build` -/
def routerBuild (recs : List (Bytes × Nat)) : Except Err Router :=
  if (recs.filter fun kv => C05.isParamKey kv.1).any (fun kv => C05.isBadKey kv.1) then .error .reserved
  else if (C05.paramRecs recs).length > maxSize then .error .tooManyRecords
  else
    match build (buildFuel recs) (C05.paramRecs recs) rootIndex St.new with
    | .error e => .error e
    | .ok st => .ok ⟨recs.filter fun kv => !C05.isParamKey kv.1, st.bc, st.node, buildFuel recs⟩

/-! ## `doubleArray.lookup` -/

/-- how the literal walk (the `for i` loop) ends -/
inductive Walk where
  | done (idx : Nat) (indices : List (Nat × Nat))   -- the path is used up at element `idx`
  | back (indices : List (Nat × Nat))               -- `goto BACKTRACKING`
  | panic
deriving Repr, DecidableEq

/-- the `for i := 0; i < len(path); i++` loop; `indices` latest first -/
def walk (bc : BC) : Bytes → Nat → Nat → List (Nat × Nat) → Walk
  | [], _, idx, ind => .done idx ind
  | c :: rest, i, idx, ind =>
    if idx < bc.size then
      let ind := if (el bc idx).isAnyParam then (i, idx) :: ind else ind
      if isReserved c then .back ind
      else
        let n := nextIndex (el bc idx).base c
        if n ≥ bc.size then .back ind
        else if (el bc n).check != c then .back ind
        else walk bc rest (i + 1) n ind
    else .panic

inductive LRes where
  | found (nd : Option Node) (vals : List Bytes)
  | miss
  | panic
  | fuel
deriving Repr, DecidableEq

/-- after the loop: the termination edge -/
def termStep (bc : BC) (node : Array (Option Node)) (idx : Nat) : Option (Option (Option Node)) :=
  -- none = panic; some none = no termination edge; some (some nd) = `return da.node[...]`
  if idx < bc.size then
    let next := nextIndex (el bc idx).base cTerm
    if next < bc.size && (el bc next).check == cTerm then
      match node[(el bc next).base]? with
      | some nd => some (some nd)
      | none => none
    else some none
  else none

/-- the wildcard branch of BACKTRACKING (taken when `IsWildcardParam`) -/
def wildStep (bc : BC) (node : Array (Option Node)) (path : Bytes) (vals : List Bytes) (i idx : Nat) : LRes :=
  let nextIdx := nextIndex (el bc idx).base cWild
  if nextIdx < bc.size then
    match node[(el bc nextIdx).base]? with
    | some nd => .found nd (vals ++ [path.drop i])
    | none => .panic
  else .panic

/-- `if da.bc[idx].IsWildcardParam() { return … }`, else go on -/
def wildOr (bc : BC) (node : Array (Option Node)) (path : Bytes) (vals : List Bytes) (i idx : Nat)
    (more : Unit → LRes) : LRes :=
  if (el bc idx).wild then wildStep bc node path vals i idx else more ()

/-- `if da.bc[idx].IsSingleParam() { … }`: the parameter takes `path[i:next]` up to the next '/',
the rest of the path is looked up from the ':' child; when that fails, go on -/
def singleOr (rec : Bytes → List Bytes → Nat → LRes) (bc : BC) (path : Bytes) (vals : List Bytes)
    (i idx : Nat) (otherwise : Unit → LRes) : LRes :=
  if (el bc idx).single then
    if nextIndex (el bc idx).base cParam ≥ bc.size then .miss   -- `break`
    else
      -- `next := nextPathSeparator(path, i)`; `path[i:next]`, `path[next:]`
      match rec ((path.drop i).dropWhile notPathSep) (vals ++ [(path.drop i).takeWhile notPathSep])
          (nextIndex (el bc idx).base cParam) with
      | .found nd vs => .found nd vs
      | .panic => .panic
      | .fuel => .fuel
      | .miss => otherwise ()
  else otherwise ()

/-- the BACKTRACKING loop, from the deepest recorded element; `rec` is `lookup` with less fuel -/
def backtrack (rec : Bytes → List Bytes → Nat → LRes) (bc : BC) (node : Array (Option Node))
    (path : Bytes) (vals : List Bytes) : List (Nat × Nat) → LRes
  | [] => .miss
  | (i, idx) :: more =>
    singleOr rec bc path vals i idx fun _ =>
      wildOr bc node path vals i idx fun _ => backtrack rec bc node path vals more

/-- what follows the literal walk: the termination edge when the path is used up, else (or when
there is none) BACKTRACKING -/
def finish (rec : Bytes → List Bytes → Nat → LRes) (bc : BC) (node : Array (Option Node))
    (path : Bytes) (vals : List Bytes) : Walk → LRes
  | .panic => .panic
  | .back ind => backtrack rec bc node path vals ind
  | .done idx ind =>
    match termStep bc node idx with
    | none => .panic
    | some (some nd) => .found nd vals
    | some none => backtrack rec bc node path vals ind

/-- `doubleArray.lookup(path, params, idx)` -/
def lookupF (bc : BC) (node : Array (Option Node)) : Nat → Bytes → List Bytes → Nat → LRes
  | 0, _, _, _ => .fuel
  | fuel + 1, path, vals, idx =>
    finish (lookupF bc node fuel) bc node path vals (walk bc path 0 idx [])

/-! ## `Router.Lookup` -/

inductive Out where
  | found (val : Nat) (names vals : List Bytes)
  | notFound
  | panic
  | fuel
deriving Repr, DecidableEq, BEq

def ofC05 : C05.LookupOut → Out
  | .found v ns vs => .found v ns vs
  | .notFound => .notFound

/-- `Router.Lookup` -/
def routerLookup (rt : Router) (path : Bytes) : Out :=
  match C05.staticLookup rt.statics path with
  | some v => .found v [] []
  | none =>
    if rt.node.size == 1 then .notFound
    else
      match lookupF rt.bc rt.node rt.fuel path [] rootIndex with
      | .miss => .notFound
      | .panic => .panic
      | .fuel => .fuel
      | .found none _ => .panic                      -- `nd.paramNames` on a nil node
      | .found (some nd) vals =>
        -- `params[i].Name = nd.paramNames[i]` for every value
        if nd.names.length < vals.length then .panic else .found nd.val (nd.names.take vals.length) vals

/-! ## the abstract invariant, as a decidable check (the Spec the driver applies to the REAL arrays) -/

def allBytes : List UInt8 := (List.range 255).map fun n => UInt8.ofNat (n + 1)

/-- the child of a trie node on the byte `c` (as `C05.look` follows it) -/
def childOf (c : UInt8) (rs : List Rec) : List Rec :=
  if c == cParam then C05.advSingle rs else if c == cWild then C05.advWild rs else C05.advLit c rs

/-- Does the element `idx` represent the trie node with the candidate list `rs`?
* a node whose keys are used up (a leaf): its BASE indexes the node-table entry made from the record
  `makeSiblings` keeps (the last one);
* else: for every byte `c ≠ 0` the CHECK of the element at `BASE xor c` is `c` exactly when the trie
  node has a child on `c`, that element represents the child, and the flags of `idx` tell whether
  there is a single-parameter / wildcard child. -/
def reprB (bc : BC) (node : Array (Option Node)) : Nat → Nat → List Rec → Bool
  | 0, _, _ => false
  | fuel + 1, idx, rs =>
    idx < bc.size &&
    if rs.all (fun r => r.key.isEmpty) then
      match C05.leafOf rs with
      | some r => decide (node[(el bc idx).base]? = some (some ⟨r.names, r.val⟩))
      | none => false
    else
      rs.all (fun r => !r.key.isEmpty) &&
      (el bc idx).single == C05.hasSingle rs &&
      (el bc idx).wild == !(C05.advWild rs).isEmpty &&
      allBytes.all fun c =>
        if (childOf c rs).isEmpty then (el bc (nextIndex (el bc idx).base c)).check != c
        else (el bc (nextIndex (el bc idx).base c)).check == c &&
          reprB bc node fuel (nextIndex (el bc idx).base c) (childOf c rs)

/-! ## Driver entry -/

def encodeBC (bc : BC) : Bytes :=
  bc.toList.flatMap fun e =>
    let n := e.encode
    [UInt8.ofNat (n / 16777216), UInt8.ofNat (n / 65536), UInt8.ofNat (n / 256), UInt8.ofNat n]

def decodeBC : Bytes → Option (List Elem)
  | [] => some []
  | a :: b :: c :: d :: rest =>
    let n := 16777216 * a.toNat + 65536 * b.toNat + 256 * c.toNat + d.toNat
    (decodeBC rest).map fun t =>
      (⟨n / 1024, (n / 256) % 2 == 1, (n / 512) % 2 == 1, UInt8.ofNat (n % 256)⟩ : Elem) :: t
  | _ => none

def natBytes (n : Nat) : Bytes := (toString n).toUTF8.toList

def encodeNode : Option Node → Bytes
  | none => [110, 105, 108]   -- "nil"
  | some nd => natBytes nd.val ++ nd.names.flatMap fun nm => cTerm :: nm

def bytesNat? (b : Bytes) : Option Nat :=
  if b.isEmpty then none else b.foldlM (fun acc x => if 48 ≤ x ∧ x ≤ 57 then some (10 * acc + (x.toNat - 48)) else none) 0

def decodeNode (b : Bytes) : Option (Option Node) :=
  if b == [110, 105, 108] then some none
  else
    match splitByte cTerm b with
    | v :: names => (bytesNat? v).map fun n => some ⟨names, n⟩
    | [] => none

def renderOut : Out → String
  | .found v names vals => s!"F:{v}:{encList names}:{encList vals}"
  | .notFound => "N"
  | .panic => "P"
  | .fuel => "X"

def parseOut (s : String) : Option Out :=
  match s.splitOn ":" with
  | ["N"] => some .notFound
  | ["P"] => some .panic
  | ["F", v, names, vals] => do
    let v ← v.toNat?
    let ns ← decList names
    let vs ← decList vals
    pure (.found v ns vs)
  | _ => none

def errName : Err → String
  | .reserved => "reserved" | .tooManyRecords => "toomany" | .tooManyElems => "toobig"
  | .dupName => "dup" | .notSorted => "unsorted" | .panic => "panic" | .fuel => "fuel"

/-- stream `A <keys> <paths> => E <kind> | D <bc> <nodes> <result>…` -/
def run (ins outs : List String) : Verdict :=
  match ins with
  | ["A", keys, paths] =>
    match decList keys, decList paths with
    | some ks, some ps =>
      let recs := ks.zipIdx
      let trie := C05.build recs
      match routerBuild recs with
      | .error e =>
        let specOk := match trie, outs with
          | .errReserved, ["E", "reserved"] => true
          | .errDupName, ["E", "dup"] => true
          | _, _ => false
        { agree := outs == ["E", errName e], specOk := specOk, tag := s!"~builderr-{errName e}",
          model := s!"E {errName e}" }
      | .ok rt =>
        let mres := ps.map fun p => renderOut (routerLookup rt p)
        let mline := ["D", encField (encodeBC rt.bc), encList (rt.node.toList.map encodeNode)] ++ mres
        let specOk := match trie, outs with
          | .ok t, "D" :: rbc :: rnodes :: rres =>
            match (decField rbc).bind decodeBC, (decList rnodes).bind (·.mapM decodeNode) with
            | some relems, some rnodes =>
              -- the REAL arrays represent the trie, and every REAL answer is the trie model's answer
              (t.params.isEmpty || reprB relems.toArray rnodes.toArray (C05.weight t.params + 1) rootIndex t.params) &&
              rres.map parseOut == ps.map fun p => some (ofC05 (C05.lookup t p))
            | _, _ => false
          | _, _ => false
        let nparam := (ks.filter C05.isParamKey).length
        let tag := if nparam == 0 then "~static-only" else
          s!"elems{if rt.bc.size < 16 then "<16" else if rt.bc.size < 64 then "<64" else if rt.bc.size < 256 then "<256" else ">=256"}"
        { agree := outs == mline, specOk := specOk, tag := tag, model := " ".intercalate mline }
    | _, _ => .bad "A fields"
  | _ => .bad "C05DA stream"

end RtVerif.C05DA
