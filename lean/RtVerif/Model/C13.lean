import RtVerif.Base.Bytes
import RtVerif.Base.Verdict
import RtVerif.Gen.Facts
/-
  C13 — "Responses reach the reader with the right consumer; concurrent calls are safe".

  Model of `client.Runtime.Submit` (client/runtime.go) from the point where the HTTP client and the
  context are chosen, through the round trip, to the selection of the consumer and the call of the
  caller's `ClientResponseReader` with the response adapter (client/response.go).

  External, hand-modelled and differentially validated (stream M and every S case): Go's
  `mime.ParseMediaType` restricted to what Submit feeds it (the part of the Content-Type value in
  front of the first `;`), `strconv.Quote` (`%q`) on ASCII, `http.Header.Get/Values` as a
  case-insensitive lookup, `sync.Once` as an atomic check-and-set, `http.Client.Do` as "the
  response to the request it was given".
-/
namespace RtVerif.C13
open RtVerif Bytes

/-! ## Go's `mime` grammar (hand model; mime/grammar.go, mime/mediatype.go) -/

/-- `()<>@,;:\\"/[]?=` (byte literals so that the kernel can compute with them) -/
def tspecials : Bytes := [40, 41, 60, 62, 64, 44, 59, 58, 92, 34, 47, 91, 93, 63, 61]

/-- `mime.isTokenChar` -/
def isTokenChar (b : UInt8) : Bool := 0x20 < b && b < 0x7f && !tspecials.any (· == b)

/-- `mime.consumeToken`: the longest prefix of token characters and the rest. -/
def consumeToken (v : Bytes) : Bytes × Bytes := (v.takeWhile isTokenChar, v.dropWhile isTokenChar)

inductive MimeErr
  | noMediaType | expectedSlash | expectedTokenAfterSlash | unexpectedContent
deriving Repr, DecidableEq

def MimeErr.msg : MimeErr → Bytes
  | .noMediaType => ofStr "mime: no media type"
  | .expectedSlash => ofStr "mime: expected slash after first token"
  | .expectedTokenAfterSlash => ofStr "mime: expected token after slash"
  | .unexpectedContent => ofStr "mime: unexpected content after media subtype"

/-- second half of `mime.checkMediaTypeDisposition`: what follows the `/` -/
def checkSubtype (afterSlash : Bytes) : Option MimeErr :=
  if (consumeToken afterSlash).1.isEmpty then some .expectedTokenAfterSlash
  else if !(consumeToken afterSlash).2.isEmpty then some .unexpectedContent
  else none

/-- `mime.checkMediaTypeDisposition` -/
def checkMediaType (s : Bytes) : Option MimeErr :=
  if (consumeToken s).1.isEmpty then some .noMediaType
  else match (consumeToken s).2 with
    | [] => none
    | c :: rest => if c != 47 then some .expectedSlash else checkSubtype rest

/-- ASCII white space of `strings.TrimSpace` -/
def isSpace (b : UInt8) : Bool := b == 9 || b == 10 || b == 11 || b == 12 || b == 13 || b == 32

def trimLeft (s : Bytes) : Bytes := s.dropWhile isSpace
def trimRight (s : Bytes) : Bytes := (s.reverse.dropWhile isSpace).reverse
def trimSpace (s : Bytes) : Bytes := trimRight (trimLeft s)

/-- `mime.ParseMediaType(base)` for a `base` without `;` (no parameters to look at):
`mediatype = TrimSpace(ToLower(base))`, then `checkMediaTypeDisposition`. -/
def parseMediaType (base : Bytes) : Except MimeErr Bytes :=
  match checkMediaType (trimSpace (toLower base)) with
  | some e => .error e
  | none => .ok (trimSpace (toLower base))

/-! ## `%q` (strconv.Quote) on ASCII -/

def hexLow (n : Nat) : UInt8 := if n < 10 then UInt8.ofNat (48 + n) else UInt8.ofNat (87 + n)

def quoteByte (b : UInt8) : Bytes :=
  if b == 34 then [92, 34] else if b == 92 then [92, 92]
  else if 0x20 ≤ b && b < 0x7f then [b]
  else if b == 7 then [92, 97] else if b == 8 then [92, 98] else if b == 12 then [92, 102]
  else if b == 10 then [92, 110] else if b == 13 then [92, 114] else if b == 9 then [92, 116]
  else if b == 11 then [92, 118]
  else [92, 120, hexLow (b.toNat / 16), hexLow (b.toNat % 16)]

def goQuote (s : Bytes) : Bytes := [34] ++ s.flatMap quoteByte ++ [34]

/-! ## Response, headers, the adapter -/

abbrev Headers := List (Bytes × Bytes)

/-- `http.Header.Values(name)`: the values stored under the canonical form of `name`, in order.
Canonicalisation of token names identifies exactly the ASCII-case-insensitively equal names. -/
def headerValues (h : Headers) (name : Bytes) : List Bytes :=
  (h.filter fun e => equalFold e.1 name).map (·.2)

/-- `http.Header.Get(name)`: first value or `""`. -/
def headerGet (h : Headers) (name : Bytes) : Bytes := (headerValues h name).headD []

structure Resp where
  code : Nat
  status : Bytes
  headers : Headers
  body : Bytes
deriving Repr, DecidableEq

/-- What a `ClientResponseReader` can observe through `runtime.ClientResponse`, for the header
names it asks about. -/
structure View where
  code : Nat
  message : Bytes
  first : List Bytes
  all : List (List Bytes)
  body : Bytes
deriving Repr, DecidableEq

/-- client/response.go: `Code`, `Message`, `GetHeader`, `GetHeaders`, `Body` forward to the
`*http.Response`. -/
def adapterView (r : Resp) (queries : List Bytes) : View :=
  { code := r.code, message := r.status,
    first := queries.map (headerGet r.headers), all := queries.map (headerValues r.headers),
    body := r.body }

/-! ## Consumer selection (Submit, after the round trip) -/

/-- `Content-Type` (the Spec's literal) -/
def contentTypeName : Bytes := [67, 111, 110, 116, 101, 110, 116, 45, 84, 121, 112, 101]
/-- `*/*` (the Spec's literal: the catch-all consumer of the property text) -/
def catchAll : Bytes := [42, 47, 42]

/-- the header Submit reads: `runtime.HeaderContentType`, regenerated from constants.go -/
def ctHeader : Bytes := Facts.c13ContentTypeHeader
/-- the key of the fallback consumer: the literal in `r.Consumers["…"]`, regenerated from Submit -/
def fallbackKey : Bytes := Facts.c13FallbackKey

/-- `ct := res.Header.Get(runtime.HeaderContentType); if ct == "" { ct = r.DefaultMediaType }` -/
def contentTypeOf (h : Headers) (dflt : Bytes) : Bytes :=
  if (headerGet h ctHeader).isEmpty then dflt else headerGet h ctHeader

def noConsumerMsg (ct : Bytes) : Bytes := ofStr "no consumer: " ++ goQuote ct
def parseErrMsg (ct : Bytes) (e : MimeErr) : Bytes :=
  ofStr "parse content type " ++ goQuote ct ++ ofStr ": " ++ e.msg

/-- the `*/*` fallback and the two error exits -/
def fallback {κ : Type} (reg : Bytes → Option κ) (errMsg : Bytes) : Except Bytes κ :=
  match reg fallbackKey with
  | some c => .ok c
  | none => .error errMsg

/-- `base, _, _ := strings.Cut(ct, ";"); mt, _, err := mime.ParseMediaType(base)`; exact lookup of
`mt` in `r.Consumers` when it parsed; else `r.Consumers["*/*"]`; else an error quoting `ct`.
The registry is any partial map from keys to consumers. -/
def selectConsumer {κ : Type} (reg : Bytes → Option κ) (ct : Bytes) : Except Bytes κ :=
  match parseMediaType (beforeByte ct 59) with
  | .ok mt =>
    match reg mt with
    | some c => .ok c
    | none => fallback reg (noConsumerMsg ct)
  | .error e => fallback reg (parseErrMsg ct e)

/-! ## Choice of HTTP client and context -/

inductive ClientTok | op | preset | rt
deriving Repr, DecidableEq

inductive CtxTok | op | rt | bg
deriving Repr, DecidableEq

/-- a context as far as Submit and the wire care: absent (nil), live, already cancelled, or live
with a deadline -/
inductive CtxState | absent | live | cancelled | deadline
deriving Repr, DecidableEq

/-- what `r.clientOnce.Do(...)` leaves in `r.client`: the client given to `NewWithClient`, else a
client built from `r.Transport`/`r.Jar` -/
def sharedClient (preset : Bool) : ClientTok := if preset then .preset else .rt

/-- `if operation.Client != nil { client = operation.Client } else { client = r.client }`.
Which client the `!= nil` test prefers is regenerated from Submit (`Facts.c13ClientFirst`);
`r.client` is never nil once the Once has run, so testing it first would always pick it. -/
def chooseClient (opClient : Bool) (shared : ClientTok) : ClientTok :=
  if Facts.c13ClientFirst = 0 then (if opClient then .op else shared) else shared

/-- one `case x != nil: parentCtx = x` of the switch (0 = operation.Context, 1 = r.Context) -/
def ctxSource (opCtx rtCtx : CtxState) (code : Nat) : Option (CtxTok × CtxState) :=
  if code = 0 then (if opCtx = .absent then none else some (.op, opCtx))
  else if code = 1 then (if rtCtx = .absent then none else some (.rt, rtCtx))
  else none

/-- `switch { case operation.Context != nil: …; case r.Context != nil: …; default: Background }`:
the first case that applies, in the order of the cases in Submit (`Facts.c13CtxOrder`). -/
def chooseCtx (opCtx rtCtx : CtxState) : CtxTok × CtxState :=
  (Facts.c13CtxOrder.findSome? (ctxSource opCtx rtCtx)).getD (.bg, .live)

/-! ## Submit -/

/-- per-call inputs -/
structure Op where
  client : Bool          -- operation.Client given
  ctx : CtxState         -- operation.Context
  timeout : Nat          -- request.timeout (0 = none)
  readerErr : Bool       -- the caller's reader returns an error (else a value)
  queries : List Bytes   -- header names the caller's reader looks at
  token : Nat := 0       -- what distinguishes this call's request on the wire
deriving Repr, DecidableEq

/-- transport-wide configuration: read, never written, by Submit -/
structure Cfg (κ : Type) where
  dflt : Bytes
  reg : Bytes → Option κ
  preset : Bool
  rtCtx : CtxState
  debug : Bool := false

inductive Outcome (κ : Type)
  | transportError                                        -- `client.Do` failed: no response
  | failed (msg : Bytes)                                  -- Submit's own error
  | read (cons : κ) (view : View) (readerErr : Bool)      -- the reader ran; Submit returns what it returned
deriving Repr, DecidableEq

structure Result (κ : Type) where
  out : Outcome κ
  client : ClientTok
  ctx : CtxTok
  deadline : Bool
deriving Repr, DecidableEq

/-- Submit once client and context are chosen. The wire fails the round trip exactly when the
context that governs the request is already cancelled. `cfg.debug` only dumps and restores. -/
def finish {κ : Type} (cfg : Cfg κ) (op : Op) (resp : Resp) (cl : ClientTok) (cx : CtxTok × CtxState) :
    Result κ :=
  let dl := op.timeout != 0 || cx.2 == .deadline
  if cx.2 == .cancelled then ⟨.transportError, cl, cx.1, dl⟩
  else match selectConsumer cfg.reg (contentTypeOf resp.headers cfg.dflt) with
    | .error msg => ⟨.failed msg, cl, cx.1, dl⟩
    | .ok c => ⟨.read c (adapterView resp op.queries) op.readerErr, cl, cx.1, dl⟩

def submit {κ : Type} (cfg : Cfg κ) (op : Op) (resp : Resp) : Result κ :=
  finish cfg op resp (chooseClient op.client (sharedClient cfg.preset)) (chooseCtx op.ctx cfg.rtCtx)

/-! ## Spec (from the property text, not from the code)

"The caller's response reader is handed the consumer registered for the response's media type
(parameters ignored; the default media type when the header is absent), else the catch-all
consumer, and otherwise the call fails with an error naming the content type - never a different
consumer - and it sees the response's status, headers and body unchanged. A per-operation HTTP
client or context takes precedence over the transport-wide one, …" -/

def isToken (t : Bytes) : Bool := !t.isEmpty && t.all isTokenChar

/-- everything behind the first `c` -/
def afterByte (s : Bytes) (c : UInt8) : Bytes := (s.dropWhile (· != c)).drop 1

/-- `type "/" subtype` with both parts tokens (RFC 7231 §3.1.1.1); like Go's parser, a lone token
is let through as well (it can only matter if a consumer is registered under that lone token). -/
def wellFormedType (m : Bytes) : Bool :=
  isToken m || (isToken (beforeByte m 47) && isToken (afterByte m 47))

/-- The media type of a Content-Type value, parameters ignored: what stands in front of the first
`;`, in lower case, without surrounding white space (media types are case-insensitive; registry
keys are taken as spelled, i.e. lower case). `none`: the value shows no media type (malformed). -/
def mediaTypeOf (ct : Bytes) : Option Bytes :=
  if wellFormedType (trimSpace (toLower (beforeByte ct 59)))
  then some (trimSpace (toLower (beforeByte ct 59))) else none

/-- the content type of a response: its header, or the default when the header is absent/empty -/
def specContentType (h : Headers) (dflt : Bytes) : Bytes :=
  match (h.filter fun e => equalFold e.1 contentTypeName).map (·.2) with
  | [] => dflt
  | v :: _ => if v.isEmpty then dflt else v

inductive Expect (κ : Type)
  | consumer (c : κ)
  | failNaming
deriving Repr, DecidableEq

/-- registered consumer, else catch-all, else failure -/
def expected {κ : Type} (reg : Bytes → Option κ) (ct : Bytes) : Expect κ :=
  match (mediaTypeOf ct).bind reg with
  | some c => .consumer c
  | none =>
    match reg catchAll with
    | some c => .consumer c
    | none => .failNaming

def isInfixB (p : Bytes) : Bytes → Bool
  | [] => p.isEmpty
  | a :: t => p.isPrefixOf (a :: t) || isInfixB p t

/-- "an error naming the content type": the message shows the value, verbatim or Go-quoted -/
def names (ct msg : Bytes) : Bool := isInfixB (goQuote ct) msg || (!ct.isEmpty && isInfixB ct msg)

def specClient (cfg : Cfg κ) (op : Op) : ClientTok :=
  if op.client then .op else if cfg.preset then .preset else .rt

/-- which context governs the call, and its state -/
def specCtx (cfg : Cfg κ) (op : Op) : CtxTok × CtxState :=
  if op.ctx != .absent then (.op, op.ctx)
  else if cfg.rtCtx != .absent then (.rt, cfg.rtCtx)
  else (.bg, .live)

/-- The property, judged on an outcome (the model's or the real code's). The round trip is the
environment: it fails iff the governing context is already cancelled; then there is no response
and nothing for the reader to see. -/
def specOk {κ : Type} [DecidableEq κ] (cfg : Cfg κ) (op : Op) (resp : Resp) (r : Result κ) : Bool :=
  r.client == specClient cfg op && r.ctx == (specCtx cfg op).1 &&
  (if (specCtx cfg op).2 == .cancelled then r.out == .transportError
   else match expected cfg.reg (specContentType resp.headers cfg.dflt) with
     | .consumer c =>
       r.out == .read c ⟨resp.code, resp.status,
         op.queries.map (fun q => ((resp.headers.filter fun e => equalFold e.1 q).map (·.2)).headD []),
         op.queries.map (fun q => (resp.headers.filter fun e => equalFold e.1 q).map (·.2)),
         resp.body⟩ op.readerErr
     | .failNaming =>
       match r.out with
       | .failed msg => names (specContentType resp.headers cfg.dflt) msg
       | _ => false)

/-! ## Concurrency model

N calls of Submit on one Runtime. Shared: the immutable configuration `cfg` (maps and fields that
Submit only reads) and the lazily created `r.client`, written only inside `r.clientOnce.Do`.
Everything else is local to a call. A call is a sequence of atomic steps; a schedule is any list of
call indices. `sync.Once` is modelled as one atomic check-and-set step (that, and the absence of
data races on the reads, is the runtime's business — see `FullStatement` in Props). -/

structure Shared where
  client : Option ClientTok      -- r.client (nil until the Once has run, unless NewWithClient)
deriving Repr, DecidableEq

structure Call (κ : Type) where
  op : Op
  pc : Nat := 0
  ctx : Option (CtxTok × CtxState) := none
  client : Option ClientTok := none
  resp : Option Resp := none
  result : Option (Result κ) := none

def Call.fresh {κ : Type} (op : Op) : Call κ := { op := op }

/-- the shared state `New` / `NewWithClient` start with -/
def Shared.init {κ : Type} (cfg : Cfg κ) : Shared := ⟨if cfg.preset then some .preset else none⟩

/-- One atomic step of one call. `net` is the wire: the response to a given request. -/
def step {κ : Type} (cfg : Cfg κ) (net : Op → Resp) (sh : Shared) (c : Call κ) : Shared × Call κ :=
  match c.pc with
  | 0 => (sh, { c with pc := 1 })                                      -- createHttpRequest (local)
  | 1 => (⟨some (sh.client.getD .rt)⟩, { c with pc := 2 })             -- r.clientOnce.Do(create)
  | 2 => (sh, { c with pc := 3, ctx := some (chooseCtx c.op.ctx cfg.rtCtx) })
  | 3 => (sh, { c with pc := 4, client := if c.op.client then some .op else sh.client })  -- reads r.client
  | 4 => (sh, { c with pc := 5, resp := some (net c.op) })             -- client.Do(req)
  | 5 => (sh, { c with pc := 6, result :=
            match c.client, c.ctx, c.resp with
            | some cl, some cx, some rs => some (finish cfg c.op rs cl cx)
            | _, _, _ => none })                                        -- nil client: would panic
  | _ => (sh, c)

def upd {α : Type} (f : Nat → α) (i : Nat) (a : α) : Nat → α := fun j => if j = i then a else f j

/-- run a schedule: each entry lets that call take one step -/
def runSched {κ : Type} (cfg : Cfg κ) (net : Op → Resp) :
    List Nat → Shared × (Nat → Call κ) → Shared × (Nat → Call κ)
  | [], s => s
  | i :: rest, s => runSched cfg net rest ((step cfg net s.1 (s.2 i)).1, upd s.2 i (step cfg net s.1 (s.2 i)).2)

/-! ## Driver entry -/

def decNat (s : String) : Option Nat := s.toNat?

def ClientTok.name : ClientTok → String
  | .op => "op" | .preset => "preset" | .rt => "rt"
def CtxTok.name : CtxTok → String
  | .op => "op" | .rt => "rt" | .bg => "bg"

def ctxOfDigit : Char → Option CtxState
  | '0' => some .absent | '1' => some .live | '2' => some .cancelled | '3' => some .deadline
  | '4' => some .live   -- context.Background() passed explicitly: present, never ends
  | _ => none

def bit (b : Bool) : String := if b then "1" else "0"

def encLists (ls : List (List Bytes)) : String :=
  if ls.isEmpty then "_" else "|".intercalate (ls.map encList)

def decLists (s : String) : Option (List (List Bytes)) :=
  if s == "_" then some [] else (s.splitOn "|").mapM decList

/-- the 13 output fields of stream S -/
def render (r : Result Bytes) : List String :=
  let tail := [encField (ofStr r.client.name), encField (ofStr r.ctx.name), bit r.deadline]
  match r.out with
  | .transportError => ["err", encField (ofStr "ctx-canceled"), "0", "-", "0", "-", ".", "_", "-", "-"] ++ tail
  | .failed msg => ["err", encField msg, "0", "-", "0", "-", ".", "_", "-", "-"] ++ tail
  | .read c v e =>
    [if e then "err" else "ok", if e then encField (ofStr "reader-error") else "-", "1", encField c,
      toString v.code, encField v.message, encList v.first, encLists v.all, encField v.body,
      if e then "-" else encField (ofStr "reader-result")] ++ tail

def clientOfName (b : Bytes) : Option ClientTok :=
  if b == ofStr "op" then some .op else if b == ofStr "preset" then some .preset
  else if b == ofStr "rt" then some .rt else none

def ctxOfName (b : Bytes) : Option CtxTok :=
  if b == ofStr "op" then some .op else if b == ofStr "rt" then some .rt
  else if b == ofStr "bg" then some .bg else none

/-- read the real code's output back as a `Result` (none: not a shape Submit should produce) -/
def decodeOut (outs : List String) : Option (Result Bytes) :=
  match outs with
  | [kind, msg, called, cons, code, message, first, all, body, ret, cl, cx, dl] => do
    let msg ← decField msg
    let cons ← decField cons
    let code ← decNat code
    let message ← decField message
    let first ← decList first
    let all ← decLists all
    let body ← decField body
    let ret ← decField ret
    let cl ← clientOfName (← decField cl)
    let cx ← ctxOfName (← decField cx)
    let dl := dl == "1"
    if called == "1" then
      if kind == "ok" && msg.isEmpty && ret == ofStr "reader-result" then
        some ⟨.read cons ⟨code, message, first, all, body⟩ false, cl, cx, dl⟩
      else if kind == "err" && msg == ofStr "reader-error" && ret.isEmpty then
        some ⟨.read cons ⟨code, message, first, all, body⟩ true, cl, cx, dl⟩
      else none
    else if kind == "err" && ret.isEmpty then
      if msg == ofStr "ctx-canceled" then some ⟨.transportError, cl, cx, dl⟩
      else some ⟨.failed msg, cl, cx, dl⟩
    else none
  | _ => none

/-- Correspondence on one case: same client, context, deadline and outcome; two failures correspond
when both name the content type or neither does (the wording of the message is not part of the
observable behaviour the model commits to; the model's own text is shown in the replay). -/
def agrees (ct : Bytes) (m r : Result Bytes) : Bool :=
  m.client == r.client && m.ctx == r.ctx && m.deadline == r.deadline &&
  (match m.out, r.out with
   | .failed a, .failed b => names ct a == names ct b
   | a, b => a == b)

def flagAt (flags : List Char) (letter : Char) : Char :=
  match flags with
  | a :: b :: rest => if a == letter then b else flagAt rest letter
  | _ => '0'

def regOfKeys (keys : List Bytes) : Bytes → Option Bytes := fun k => if keys.contains k then some k else none

def selTag (cfg : Cfg Bytes) (op : Op) (resp : Resp) : String :=
  let ct := contentTypeOf resp.headers cfg.dflt
  let d := if (headerGet resp.headers ctHeader).isEmpty then "/dflt" else ""
  let p := if ct.contains 59 then "+params" else ""
  let o := if op.client || op.ctx != .absent then "+op" else ""
  if (chooseCtx op.ctx cfg.rtCtx).2 == .cancelled then "S:ctx-cancelled" ++ o
  else match parseMediaType (beforeByte ct 59) with
    | .ok mt =>
      (if (cfg.reg mt).isSome then "S:registered" ++ p
       else if (cfg.reg fallbackKey).isSome then "S:catchall" ++ p else "S:no-consumer" ++ p) ++ d ++ o
    | .error _ =>
      (if (cfg.reg fallbackKey).isSome then "S:malformed-catchall" else "S:malformed-error") ++ d ++ o

def run (ins outs : List String) : Verdict :=
  match ins, outs with
  | _, [ "PANIC", msg ] => { agree := false, specOk := false, tag := "panic", model := "no-panic expected; impl: " ++ msg }
  | ["S", names, vals, dflt, keys, code, status, queries, body, flags], outs =>
    match decList names, decList vals, decField dflt, decList keys, decNat code, decField status,
          decList queries, decField body with
    | some ns, some vs, some d, some ks, some code, some st, some qs, some b =>
      let fl := flags.toList
      match ctxOfDigit (flagAt fl 'o'), ctxOfDigit (flagAt fl 'r') with
      | some oc, some rc =>
        let cfg : Cfg Bytes := { dflt := d, reg := regOfKeys ks, preset := flagAt fl 'p' == '1', rtCtx := rc,
                                 debug := flagAt fl 'g' == '1' }
        let op : Op := { client := flagAt fl 'c' == '1', ctx := oc,
                         timeout := (match flagAt fl 't' with | '0' => 0 | '2' => 3600 | _ => 30),
                         readerErr := flagAt fl 'e' == '1', queries := qs }
        let resp : Resp := ⟨code, st, ns.zip vs, b⟩
        let m := submit cfg op resp
        let sp := match decodeOut outs with
          | some r => specOk cfg op resp r
          | none => false
        let ag := match decodeOut outs with
          | some r => agrees (contentTypeOf resp.headers cfg.dflt) m r
          | none => false
        { agree := ag, specOk := sp, tag := selTag cfg op resp, model := " ".intercalate (render m) }
      | _, _ => .bad "S flags"
    | _, _, _, _, _, _, _, _ => .bad "S fields"
  | ["M", v], [mt, msg] =>
    match decField v with
    | some v =>
      let m := match parseMediaType (beforeByte v 59) with
        | .ok t => [encField t, "-"]
        | .error e => ["-", encField e.msg]
      -- the property does not speak about the parser; the model's parser must be Go's
      { agree := m == [mt, msg], specOk := true,
        tag := (match parseMediaType (beforeByte v 59) with
          | .ok _ => "~M:ok"
          | .error e => "~M:" ++ (match e with
            | .noMediaType => "no-media-type" | .expectedSlash => "expected-slash"
            | .expectedTokenAfterSlash => "expected-subtype" | .unexpectedContent => "unexpected-content")),
        model := " ".intercalate m }
    | none => .bad "M fields"
  | ["R", n, _, rounds], [ok, served] =>
    match decNat n, decNat rounds with
    | some n, some k =>
      -- model: every call completes with the response to its own request (Props: non-interference)
      let m := [toString (n * k), toString (n * k)]
      { agree := m == [ok, served], specOk := ok == toString (n * k), tag := "R:n=" ++ (if n ≤ 4 then "2-4" else if n ≤ 16 then "5-16" else "17+"), model := " ".intercalate m }
    | _, _ => .bad "R fields"
  | _, _ => .bad "C13 stream"

end RtVerif.C13
