import RtVerif.Base.Bytes
import RtVerif.Base.Verdict
import RtVerif.Base.Stream
import RtVerif.Gen.Facts
/-
  C17 — probing a request for a body (request.go: `HasBody`, `newPeekingReader`, `peekingReader`).

  Model: a request is `ContentLength`, the value of `Header.Get("Content-Length")`, and a body.
  The body is `none` (nil interface) or a tower of `depth` peeking layers (each `HasBody` that gets
  past the length checks wraps `r.Body` in a NEW `peekingReader` with its own `bufio.Reader`) over
  a scripted stream.  A typed-nil `*peekingReader` (what `HasBody` stores for a nil body) behaves as
  an empty stream that ignores `Close` (`Read`: `0, io.EOF`; `Close`: `nil` since the fix
  "closing the body after HasBody probed a request without body no longer panics").
  Histories are arbitrary lists of `HasBody | Read k | Close | Drain k`.
  The scripted stream at the bottom carries the two counters the harness reports: the `Close` calls
  it saw, and the `Read` calls it received after it had been closed (`CSrc.late`).

  Spec: written from the property text, judged on an observed trace (see "Spec" below).
-/
namespace RtVerif.C17
open RtVerif Bytes _root_.RtVerif.Stream

/-! ## Model -/

/-- The scripted stream as the harness instruments it: `late` counts the `Read` calls that reached
it after it had been closed (`c17Src.Read`: `if s.closes > 0 { s.late++; return 0, errClosed }`). -/
structure CSrc where
  s : Src
  late : Nat := 0

def CSrc.isClosed (c : CSrc) : Bool := c.s.checksClosed && decide (0 < c.s.closes)

def csrcReader : Reader CSrc where
  read := fun c k => ((c.s.read k).1, { s := (c.s.read k).2, late := if c.isClosed then c.late + 1 else c.late })
  close := fun c => (c.s.close.1, { c with s := c.s.close.2 })

/-- The reader state under `r.Body` after `n` wrapping probes. -/
def Stack : Nat → Type
  | 0 => CSrc
  | n + 1 => PR × Stack n

def tower : (n : Nat) → Reader (Stack n)
  | 0 => csrcReader
  | n + 1 => wrap (tower n)

/-- What the request's original `Body` was. `nilpr`: the nil interface (after a probe: a typed-nil
`*peekingReader`). -/
inductive Kind where
  | src | nobody | nilpr
deriving DecidableEq, Repr

structure Body where
  kind : Kind
  depth : Nat
  st : Stack depth

structure Req where
  cl : Int                 -- r.ContentLength
  hdr : Bytes              -- r.Header.Get("Content-Length")
  body : Option Body       -- none: r.Body == nil
  limit : Nat              -- call budget of the harness's drain loop

inductive Op where
  | hasBody | read (k : Nat) | close | drain (k : Nat)
deriving DecidableEq, Repr

inductive Out where
  | has (b : Bool)
  | rd (d : Bytes) (e : Option Err)
  | dr (d : Bytes) (e : Option Err) (cap : Bool)
  | cl (e : Option Err) (direct : Bool)
  | nilBody                -- r.Body is the nil interface: there is nothing to call
deriving DecidableEq, Repr

/-- A nil `*peekingReader`: `Read` returns `0, io.EOF`, `Close` returns nil, nothing is counted. -/
def nilSrc : CSrc := { s := { data := [], term := .eof, together := false, sched := [], checksClosed := false } }

/-- `HasBody`. -/
def hasBody (r : Req) : Bool × Req :=
  if 0 < r.cl then (true, r)
  else if !r.hdr.isEmpty then (false, r)
  else match r.body with
    | none =>
      -- newPeekingReader(nil) = nil; r.Body = (*peekingReader)(nil); nil.HasContent() = false
      (false, { r with body := some ⟨.nilpr, 0, nilSrc⟩ })
    | some b =>
      let h := hasContent (tower b.depth) {} b.st
      (h.1, { r with body := some ⟨b.kind, b.depth + 1, (({ b := h.2.1 } : PR), h.2.2)⟩ })

/-- Is `r.Body` still the caller's own stream (not a wrapper made by `HasBody`)? -/
def Body.direct (b : Body) : Bool := b.depth == 0 && b.kind != .nilpr

def readOp (r : Req) (b : Body) (k : Nat) : Out × Req :=
  let x := (tower b.depth).read b.st k
  (.rd x.1.1 x.1.2, { r with body := some { b with st := x.2 } })

def closeOp (r : Req) (b : Body) : Out × Req :=
  let x := (tower b.depth).close b.st
  (.cl x.1 b.direct, { r with body := some { b with st := x.2 } })

def drainOp (r : Req) (b : Body) (k : Nat) : Out × Req :=
  let x := drainLoop (tower b.depth) r.limit b.st k
  (.dr x.1.1 x.1.2.1 x.1.2.2, { r with body := some { b with st := x.2 } })

def step (r : Req) (op : Op) : Out × Req :=
  match op with
  | .hasBody => let h := hasBody r; (.has h.1, h.2)
  | .read k => match r.body with
    | none => (.nilBody, r)
    | some b => readOp r b k
  | .close => match r.body with
    | none => (.nilBody, r)
    | some b => closeOp r b
  | .drain k => match r.body with
    | none => (.nilBody, r)
    | some b => drainOp r b k

def runOps (r : Req) : List Op → List Out × Req
  | [] => ([], r)
  | op :: ops =>
    let x := step r op
    let t := runOps x.2 ops
    (x.1 :: t.1, t.2)

/-- Close counter of the stream at the bottom of the tower. -/
def botCloses : (n : Nat) → Stack n → Nat
  | 0, c => c.s.closes
  | n + 1, ps => botCloses n ps.2

/-- Late-read counter of the stream at the bottom of the tower. -/
def botLate : (n : Nat) → Stack n → Nat
  | 0, c => c.late
  | n + 1, ps => botLate n ps.2

/-- The scenario a case describes. -/
structure Scenario where
  kind : Kind
  data : Bytes
  term : Err
  together : Bool
  sched : List Nat
  cerr : Option Err
  cl : Int
  hdr : Bytes

def Scenario.req (g : Scenario) : Req :=
  { cl := g.cl, hdr := g.hdr, limit := g.data.length + g.sched.length + 2,
    body := match g.kind with
      | .src => some ⟨.src, 0, { s := { data := g.data, term := g.term, together := g.together,
                                        sched := g.sched, cerr := g.cerr } }⟩
      | .nobody => some ⟨.nobody, 0, nilSrc⟩     -- http.NoBody: Read 0,EOF; Close nil
      | .nilpr => none }

/-- What the harness reports as `<closes>`: the scripted stream's counter (0 without one). -/
def reportedCloses (g : Scenario) (r : Req) : Nat :=
  match g.kind, r.body with
  | .src, some b => botCloses b.depth b.st
  | _, _ => 0

/-- What the harness reports as `<late>`: the `Read` calls the scripted stream received after it had
been closed (0 without a scripted stream). -/
def reportedLate (g : Scenario) (r : Req) : Nat :=
  match g.kind, r.body with
  | .src, some b => botLate b.depth b.st
  | _, _ => 0

/-- The trace, `<closes>`, `<late>`. -/
def model (g : Scenario) (ops : List Op) : List Out × Nat × Nat :=
  let x := runOps g.req ops
  (x.1, reportedCloses g x.2, reportedLate g x.2)

/-! ## Spec (from the property text, not from the code)

"Asking whether a request has a body leaves the body stream intact: afterwards the request body
yields exactly the original byte sequence followed by the original terminal condition, for any
chunking of the underlying stream, and asking again gives the same answer. The answer is true
exactly when a positive length is declared or, no length being declared, at least one byte can be
read; closing the body closes the underlying stream exactly once, and reads after close fail rather
than returning stale data."

The Spec walks an observed trace with the *ideal* view of the body: `rest`, the original bytes not
yet handed out.  Readings:
* a length is declared by the `Content-Length` header, else by a positive `ContentLength` (a client
  request before it is written); header and field are assumed consistent, as net/http makes them
  (`lenWF`); the answer is not judged on requests where they are not;
* "at least one byte can be read" refers to the stream at the time of asking: not closed and
  `rest ≠ []`;
* a `Read` may return fewer bytes than asked (also none) — what it returns must be the next bytes
  of `rest`, an error may only come once `rest` is exhausted and must be the original terminal;
  "yields exactly…": reading until an error (`drain`) returns all of `rest`, then the terminal;
* after a `Close`: no `Read` returns data, and a `Read` into a non-empty buffer returns an error;
* "closing the body … reads after close …" speak of the body as it is after asking.  Once `HasBody`
  has been asked on a request whose length is not declared (no `Content-Length` header,
  `ContentLength ≤ 0`: `undeclared`) and whose `Body` is not nil, the body the request holds IS the
  library's (`probed`): no later `Close` on `req.Body` may be observed as a direct `Close` of the
  caller's own stream, all of them together close the underlying stream exactly once, and no `Read`
  after such a `Close` reaches the underlying stream (`specLate`; the harness counts the `Read`
  calls the scripted stream receives after it was closed);
* a request with a declared length is left alone by `HasBody`, and a `Close` the caller makes
  directly on its own stream BEFORE any probe is the caller's own (`directs`): each counts as one
  close of the underlying stream, and the reads that reach a stream the caller itself closed before
  asking (the probe must read) are not held against the library;
* streams whose runs of zero-length reads reach bufio's `maxConsecutiveEmptyReads` (100) are
  outside the claim (`okRuns`): bufio reports `io.ErrNoProgress` on them by design.
-/

def Scenario.sData (g : Scenario) : Bytes := if g.kind = .src then g.data else []
def Scenario.sTerm (g : Scenario) : Err := if g.kind = .src then g.term else .eof

def digitVal (c : UInt8) : Option Nat := if 48 ≤ c ∧ c ≤ 57 then some (c.toNat - 48) else none

def parseDecAux : Nat → Bytes → Option Nat
  | acc, [] => some acc
  | acc, c :: r => match digitVal c with
    | some d => parseDecAux (10 * acc + d) r
    | none => none

/-- a non-empty string of ASCII digits -/
def parseDec (s : Bytes) : Option Nat := if s.isEmpty then none else parseDecAux 0 s

/-- Header and field agree, as they do on requests produced by net/http. -/
def lenWF (g : Scenario) : Bool :=
  g.hdr.isEmpty || (match parseDec g.hdr with | some n => g.cl == (n : Int) | none => false)

def declared (g : Scenario) : Option Int :=
  if !g.hdr.isEmpty then (parseDec g.hdr).map Int.ofNat
  else if 0 < g.cl then some g.cl else none

structure Track where
  rest : Bytes
  closed : Bool := false
  directs : Nat := 0
  lib : Bool := false
  probed : Bool := false

/-- No length is declared, in the two places `HasBody` can see one. On requests whose header and
field agree (`lenWF`) this is `declared g = none` (`undeclared_iff` in Props). -/
def undeclared (g : Scenario) : Bool := g.hdr.isEmpty && !decide (0 < g.cl)

/-- A probe of this request looks at the body (and from then on the body is the library's). -/
def takesOver (g : Scenario) : Bool := undeclared g && g.kind != .nilpr

def specAnswer (g : Scenario) (t : Track) : Bool :=
  match declared g with
  | some n => decide (0 < n)
  | none => !t.closed && !t.rest.isEmpty

def specStep (g : Scenario) (t : Track) (op : Op) (o : Out) : Bool × Track :=
  match op, o with
  | .hasBody, .has b => (!lenWF g || b == specAnswer g t, { t with probed := t.probed || takesOver g })
  | .hasBody, _ => (false, t)
  | _, .nilBody => (g.kind == .nilpr, t)
  | .read k, .rd d e =>
    if t.closed then (d.isEmpty && (k == 0 || e.isSome), t)
    else
      (decide (d.length ≤ k) && d.isPrefixOf t.rest &&
        (match e with
         | none => true
         | some x => x == g.sTerm && (t.rest.drop d.length).isEmpty),
       { t with rest := t.rest.drop d.length })
  | .drain k, .dr d e cap =>
    if k == 0 then (d.isEmpty, t)
    else if t.closed then (d.isEmpty && e.isSome && !cap, t)
    else (d == t.rest && e == some g.sTerm && !cap, { t with rest := [] })
  | .close, .cl _ direct =>
    -- after a probe took the body over, a `Close` that lands directly on the caller's stream is wrong
    (!(t.probed && direct),
     { t with closed := true, directs := if direct then t.directs + 1 else t.directs,
              lib := t.lib || !direct })
  | _, _ => (false, t)

def specGo (g : Scenario) : Track → List Op → List Out → Bool × Track
  | t, [], [] => (true, t)
  | t, op :: ops, o :: outs =>
    let x := specStep g t op o
    let y := specGo g x.2 ops outs
    (x.1 && y.1, y.2)
  | t, _, _ => (false, t)

/-- The caller's own closes (all made before any probe, `specStep` rejects later ones) plus ONE for
all the `Close` calls made through the library's body. -/
def specCloses (g : Scenario) (t : Track) (closes : Nat) : Bool :=
  g.kind != .src || closes == t.directs + (if t.lib then 1 else 0)

/-- Unless the caller closed its own stream before asking, no `Read` ever reaches the underlying
stream after it was closed. -/
def specLate (g : Scenario) (t : Track) (late : Nat) : Bool :=
  g.kind != .src || t.directs != 0 || late == 0

def specTrace (g : Scenario) (ops : List Op) (outs : List Out) (closes late : Nat) : Bool :=
  !okRuns g.sched ||
    (let y := specGo g { rest := g.sData } ops outs
     y.1 && specCloses g y.2 closes && specLate g y.2 late)

/-! ## Driver entry -/

def parseErr (s : String) : Option (Option Err) :=
  match s with
  | "ok" => some none
  | "eof" => some (some .eof)
  | "ueof" => some (some .ueof)
  | "noprog" => some (some .noProgress)
  | "already" => some (some .already)
  | "srcclosed" => some (some .srcClosed)
  | "buffull" => some (some .bufFull)
  | _ => if s.startsWith "e" then (s.drop 1).toNat?.map fun n => some (.user n) else none

def parseTerm (s : String) : Option Err :=
  match parseErr s with
  | some (some e) => if s == "eof" || s.startsWith "e" then some e else none
  | _ => none

def parseOp (s : String) : Option Op :=
  if s == "h" then some .hasBody
  else if s == "c" then some .close
  else if s.startsWith "r" then (s.drop 1).toNat?.map .read
  else if s.startsWith "d" then (s.drop 1).toNat?.map .drain
  else none

def parseOps (s : String) : Option (List Op) :=
  if s == "." then some [] else (s.splitOn ",").mapM parseOp

def parseSched (s : String) : Option (List Nat) :=
  if s == "." then some [] else (s.splitOn ",").mapM (·.toNat?)

def parseOut (s : String) : Option Out :=
  match s.splitOn ":" with
  | ["h0"] => some (.has false)
  | ["h1"] => some (.has true)
  | ["x"] => some .nilBody
  | ["r", d, e] => do let d ← decField d; let e ← parseErr e; pure (.rd d e)
  | ["d", d, "cap"] => do let d ← decField d; pure (.dr d none true)
  | ["d", d, e] => do let d ← decField d; let e ← parseErr e; pure (.dr d e false)
  | ["c", e, "0"] => do let e ← parseErr e; pure (.cl e false)
  | ["c", e, "1"] => do let e ← parseErr e; pure (.cl e true)
  | _ => none

def parseScenario (f : List String) : Option (Scenario × List Op) :=
  match f with
  | [kind, data, term, tog, sched, cerr, cl, hdr, ops] => do
    let kind ← (match kind with | "src" => some Kind.src | "nobody" => some .nobody | "nil" => some .nilpr | _ => none)
    let data ← decField data
    let term ← parseTerm term
    let tog ← (match tog with | "0" => some false | "1" => some true | _ => none)
    let sched ← parseSched sched
    let cerr ← cerr.toNat?
    let cl ← cl.toInt?
    let hdr ← (if hdr == "~" then some [] else decField hdr)
    let ops ← parseOps ops
    pure ({ kind, data, term, together := tog, sched, cerr := if cerr == 0 then none else some (.user cerr),
            cl, hdr }, ops)
  | _ => none

def maxDepth (g : Scenario) (ops : List Op) : Nat :=
  match (runOps g.req ops).2.body with
  | some b => b.depth
  | none => 0

/-- A probe that found nothing is followed by a `Close` (tag letter `E`): the histories on which a
body that was not taken over would show. -/
def emptyProbeClosed : List Op → List Out → Bool
  | .hasBody :: ops, .has false :: outs => ops.contains .close || emptyProbeClosed ops outs
  | _ :: ops, _ :: outs => emptyProbeClosed ops outs
  | _, _ => false

def tagOf (g : Scenario) (ops : List Op) : String :=
  if ops.isEmpty then "~noops"
  else if !okRuns g.sched then "~longzerorun"
  else
    let k := match g.kind with | .src => "src" | .nobody => "nobody" | .nilpr => "nil"
    let l := if !lenWF g then "X" else if 0 < g.cl then "P" else if !g.hdr.isEmpty then "Z" else "U"
    let c := if ops.contains .close then "c" else ""
    let d := if ops.any (fun o => match o with | .drain _ => true | _ => false) then "d" else ""
    let sz := if g.sData.length ≥ bufSize then "B" else if g.sData.isEmpty then "e" else "s"
    let e := if takesOver g && emptyProbeClosed ops (runOps g.req ops).1 then "E" else ""
    s!"{k}{sz}:{l}:w{min (maxDepth g ops) 3}{c}{d}{e}"

def renderErr : Option Err → String
  | none => "ok"
  | some .eof => "eof" | some .ueof => "ueof" | some .noProgress => "noprog"
  | some .already => "already" | some .srcClosed => "srcclosed" | some .bufFull => "buffull"
  | some (.user n) => s!"e{n}"

def renderOut : Out → String
  | .has b => if b then "h1" else "h0"
  | .rd d e => s!"r:{d.length}B:{renderErr e}"
  | .dr d e cap => s!"d:{d.length}B:{if cap then "cap" else renderErr e}"
  | .cl e direct => s!"c:{renderErr e}:{if direct then 1 else 0}"
  | .nilBody => "x"

def run (ins outs : List String) : Verdict :=
  match ins with
  | "H" :: f =>
    match parseScenario f with
    | none => { agree := true, specOk := true, tag := "~badinput", model := "input does not parse" }
    | some (g, ops) =>
      match outs with
      | ["PANIC", msg] =>
        { agree := false, specOk := false, tag := "panic", model := "no panic expected; impl: " ++ msg }
      | _ =>
        match outs.dropLast.getLast?.bind (·.toNat?), outs.getLast?.bind (·.toNat?),
              outs.dropLast.dropLast.mapM parseOut with
        | some closes, some late, some os =>
          let m := model g ops
          { agree := m.1 == os && m.2.1 == closes && m.2.2 == late,
            specOk := specTrace g ops os closes late,
            tag := tagOf g ops,
            model := " ".intercalate (m.1.map renderOut) ++ s!" closes={m.2.1} late={m.2.2}" }
        | _, _, _ => { agree := false, specOk := false, tag := "unparsed-output", model := "" }
  | _ => .bad "C17 stream"

end RtVerif.C17
