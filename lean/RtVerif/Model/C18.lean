import RtVerif.Base.Bytes
import RtVerif.Base.Verdict
import RtVerif.Gen.Facts
/-
  C18 — TLS client options (`client.TLSClientAuth`, `TLSTransport`, `TLSClient`).

  Model: the option lattice is abstracted to *material slots*. Certificates, keys and CA
  certificates are numbered; a certificate carries the number of the key its public key belongs
  to, so "the key matches the certificate" is equality of key numbers. What crypto/x509 and
  crypto/tls do with concrete bytes (PEM parsing, key marshalling, the public-key comparison inside
  `tls.X509KeyPair`, `CertPool.AddCert/AppendCertsFromPEM`) is abstracted to the slot states
  (modelled, not verified; validated differentially on generated RSA/EC/ed25519 material).
  `tlsAuth` transcribes `TLSClientAuth` branch by branch, in the order of the Go code.

  `MinVersion` is the regenerated fact `Facts.tlsMinVersion` (read from the Go source on every run).
-/
namespace RtVerif.C18
open RtVerif Bytes

/-! ## Inputs: the option lattice -/

/-- A certificate: its number and the number of the key pair its public key belongs to. In a
configuration, `key` is the key pair of the private key attached to the certificate. -/
structure CertRef where
  cert : Nat
  key : Nat
deriving DecidableEq, Repr

/-- `Certificate` (path of a PEM file). `garbage`: a readable file without a PEM certificate. -/
inductive CertFile where
  | absent | unreadable | garbage
  | ok (c : CertRef)
deriving DecidableEq, Repr

/-- `Key` (path of a PEM file); any key type crypto/tls can parse (PKCS#1, PKCS#8, SEC1). -/
inductive KeyFile where
  | absent | unreadable | garbage
  | ok (key : Nat)
deriving DecidableEq, Repr

/-- `LoadedCertificate`. `malformed`: a non-nil `*x509.Certificate` whose `Raw` does not parse. -/
inductive LoadedCert where
  | none | malformed
  | ok (c : CertRef)
deriving DecidableEq, Repr

/-- `LoadedKey` (a `crypto.PrivateKey`, i.e. `any`), by dynamic type. -/
inductive LoadedKey where
  /-- nil interface -/
  | none
  /-- `*rsa.PrivateKey`; `usable = false`: nil pointer or a key failing `Validate` -/
  | rsa (usable : Bool) (key : Nat)
  /-- `*ecdsa.PrivateKey`; `usable = false`: nil pointer or a curve x509 cannot marshal -/
  | ec (usable : Bool) (key : Nat)
  /-- any other dynamic type (ed25519.PrivateKey, rsa.PrivateKey by value, ...) -/
  | other
deriving DecidableEq, Repr

/-- `CA` (path of a PEM file): the CA certificates found in it (`ok []`: readable, none found). -/
inductive CAFile where
  | absent | unreadable
  | ok (roots : List Nat)
deriving DecidableEq, Repr

structure Opts where
  certFile : CertFile
  loadedCert : LoadedCert
  keyFile : KeyFile
  loadedKey : LoadedKey
  caFile : CAFile
  /-- `LoadedCA` -/
  loadedCA : Option Nat
  /-- `LoadedCAPool`: `none` = nil, `some l` = a pool holding the CA certificates `l` -/
  pool : Option (List Nat)
  serverName : Bytes
  insecure : Bool
  /-- `VerifyPeerCertificate`: 0 = nil, otherwise the identity of the function value -/
  callback : Nat
  ticketsDisabled : Bool
  /-- `ClientSessionCache`: 0 = nil, otherwise the identity of the cache -/
  cache : Nat
deriving DecidableEq, Repr

/-! ## Outputs -/

inductive Stage where
  /-- `tls client cert: ...` -/
  | clientCert
  /-- `tls client priv key: ...` -/
  | privKey
  /-- `tls client ca: ...` -/
  | ca
  /-- an error with a prefix the model does not know (never produced by the model; lets the driver
  still judge the Spec on such an outcome) -/
  | unknown
deriving DecidableEq, Repr

/-- The observable part of the returned `*tls.Config`. -/
structure Cfg where
  minVersion : Nat
  insecure : Bool
  serverName : Bytes
  /-- `RootCAs`: `none` = nil (crypto/tls then uses the system pool), `some l` = exactly the CA
  certificates `l` (ascending, no duplicates) -/
  roots : Option (List Nat)
  /-- `Certificates`: leaf certificate and the key pair of the attached private key -/
  certs : List CertRef
  callback : Nat
  ticketsDisabled : Bool
  cache : Nat
deriving DecidableEq, Repr

inductive Out where
  | err (s : Stage)
  | cfg (c : Cfg)
deriving DecidableEq, Repr

/-! ## Model (transcription of `TLSClientAuth`) -/

/-- Sets of CA certificates are rendered ascending without duplicates. -/
def ins (x : Nat) : List Nat → List Nat
  | [] => [x]
  | y :: ys => if x < y then x :: y :: ys else if x = y then y :: ys else y :: ins x ys

def norm : List Nat → List Nat
  | [] => []
  | x :: xs => ins x (norm xs)

/-- `tls.LoadX509KeyPair(opts.Certificate, opts.Key)`: both files are read and parsed and the
private key must belong to the certificate; every failure is wrapped as `tls client cert:`. An
empty `Key` path (`absent`) cannot be opened. -/
def loadFilePair (cf : CertFile) (kf : KeyFile) : Except Stage CertRef :=
  match cf, kf with
  | .ok c, .ok k => if c.key = k then .ok c else .error .clientCert
  | _, _ => .error .clientCert

/-- The type switch on `opts.LoadedKey` (PKCS#1 for RSA, SEC1 for EC, `default:` error).
After the repair `fix: reject nil or invalid loaded keys` a nil pointer / invalid RSA key / nil EC
pointer is an error of the same stage as an unmarshalable curve. -/
def marshalKey : LoadedKey → Except Stage Nat
  | .rsa true k => .ok k
  | .rsa false _ => .error .privKey
  | .ec true k => .ok k
  | .ec false _ => .error .privKey
  | .none => .error .privKey
  | .other => .error .privKey

/-- `tls.X509KeyPair(certPem, keyPem)` on the re-encoded in-memory material. -/
def pairInMemory (lc : LoadedCert) (k : Nat) : Except Stage CertRef :=
  match lc with
  | .ok c => if c.key = k then .ok c else .error .clientCert
  | _ => .error .clientCert

def loadMemPair (lc : LoadedCert) (lk : LoadedKey) : Except Stage CertRef :=
  match marshalKey lk with
  | .error s => .error s
  | .ok k => pairInMemory lc k

/-- `if opts.Certificate != "" {...} else if opts.LoadedCertificate != nil {...}` -/
def clientCerts (o : Opts) : Except Stage (List CertRef) :=
  match o.certFile with
  | .absent =>
    match o.loadedCert with
    | .none => .ok []
    | lc => (loadMemPair lc o.loadedKey).map fun c => [c]
  | cf => (loadFilePair cf o.keyFile).map fun c => [c]

/-- `basePool`: the caller's pool, or a fresh empty one. -/
def basePool : Option (List Nat) → List Nat
  | none => []
  | some p => p

/-- The `switch` assembling `RootCAs`. -/
def rootsOf (o : Opts) : Except Stage (Option (List Nat)) :=
  match o.loadedCA with
  | some r => .ok (some (norm (basePool o.pool ++ [r])))
  | none =>
    match o.caFile with
    | .unreadable => .error .ca
    | .ok rs => .ok (some (norm (basePool o.pool ++ rs)))
    | .absent => .ok (o.pool.map norm)

def tlsAuth (o : Opts) : Out :=
  match clientCerts o with
  | .error s => .err s
  | .ok cs =>
    match rootsOf o with
    | .error s => .err s
    | .ok rs =>
      .cfg { minVersion := Facts.tlsMinVersion
             -- `cfg.InsecureSkipVerify = opts.InsecureSkipVerify`, reset by the server-name override
             insecure := if o.serverName ≠ [] then false else o.insecure
             serverName := o.serverName
             roots := rs
             certs := cs
             callback := o.callback
             ticketsDisabled := o.ticketsDisabled
             cache := o.cache }

/-- `TLSTransport` / `TLSClient`: the configuration of `TLSClientAuth` placed, unchanged, in
`http.Transport.TLSClientConfig`; the error is passed on (with a nil transport / client). -/
def tlsTransport (o : Opts) : Out := tlsAuth o
def tlsClient (o : Opts) : Out := tlsTransport o

/-! ## Spec (from the property text, not from the code)

"For every combination of TLS client options, the resulting configuration never negotiates below
TLS 1.2, skips server-certificate verification only when that was explicitly requested and no
server-name override is given, trusts exactly the supplied roots (the system pool only when none
are supplied), carries the given server name, verification callback and session settings
unchanged, and presents exactly the supplied client certificate. Unusable certificate or key
material yields an error, never a configuration that silently lacks the client certificate."

Readings (least demanding faithful ones; the documented precedence of the option struct is part of
"the supplied" material):
* R1 "the supplied client certificate" is `Certificate` (file) when set, else `LoadedCertificate`
  (struct comment: "This field is ignored if Certificate is set"). A key — usable or not — given
  without any certificate supplies no client certificate: nothing is presented, nothing is dropped,
  no error is demanded.
* R2 "the supplied roots" are `LoadedCA` ∪ pool when `LoadedCA` is set (struct comment on `CA`:
  "This field is ignored if LoadedCA is set"), else CA-file ∪ pool, else the pool. A readable CA file
  in which no certificate is found supplies the empty set (the configuration then trusts nothing
  beyond the pool: fail-closed, never the system pool).
* R3 the minimum version is the *effective* one: crypto/tls treats `MinVersion = 0` on a client as
  TLS 1.2 (`Config.supportedVersions`, Go ≥ 1.18; assumption, exercised by the handshake stream).
* R4 "unusable material ⇒ error" speaks of the material that makes up the supplied client
  certificate (R1): its file/value and the key slot that goes with it (Key for Certificate,
  LoadedKey for LoadedCertificate).
-/

def tls12 : Nat := 0x0303

/-- crypto/tls's client-side default when `MinVersion` is 0 (R3). -/
def goClientDefaultMin : Nat := 0x0303

def effMin (v : Nat) : Nat := if v = 0 then goClientDefaultMin else v

/-- R1: the certificate the caller supplied for client authentication. -/
def suppliedCert (o : Opts) : Option CertRef :=
  match o.certFile with
  | .ok c => some c
  | .absent => match o.loadedCert with
    | .ok c => some c
    | _ => none
  | _ => none

/-- Was any certificate option set at all? -/
def certGiven (o : Opts) : Bool :=
  o.certFile ≠ .absent || o.loadedCert ≠ .none

/-- R4: is the material of the designated client identity usable (readable, parsable, of a
supported type, key belonging to the certificate)? -/
def identityUsable (o : Opts) : Bool :=
  match o.certFile with
  | .ok c => o.keyFile == .ok c.key
  | .absent =>
    match o.loadedCert with
    | .ok c => o.loadedKey == .rsa true c.key || o.loadedKey == .ec true c.key
    | _ => false
  | _ => false

/-- Was any root option set? -/
def rootsGiven (o : Opts) : Bool :=
  o.caFile ≠ .absent || o.loadedCA.isSome || o.pool.isSome

def caFileRoots : CAFile → List Nat
  | .ok rs => rs
  | _ => []

/-- R2: the roots the caller supplied, under the documented precedence. -/
def suppliedRoots (o : Opts) : List Nat :=
  basePool o.pool ++ (match o.loadedCA with
    | some r => [r]
    | none => caFileRoots o.caFile)

def sameSet (a b : List Nat) : Bool :=
  a.all (fun x => b.contains x) && b.all (fun x => a.contains x)

/-- system pool only when no roots were supplied; otherwise exactly the supplied ones -/
def rootsClause (o : Opts) : Option (List Nat) → Bool
  | none => !rootsGiven o
  | some rs => rootsGiven o && sameSet rs (suppliedRoots o)

def specCfg (o : Opts) (c : Cfg) : Bool :=
  -- never below TLS 1.2
  decide (tls12 ≤ effMin c.minVersion)
  -- verification skipped only when requested and no server-name override
  && (!c.insecure || (o.insecure && o.serverName == []))
  -- system pool only when no roots were supplied; otherwise exactly the supplied ones
  && rootsClause o c.roots
  -- server name, callback, session settings unchanged
  && c.serverName == o.serverName && c.callback == o.callback
  && c.ticketsDisabled == o.ticketsDisabled && c.cache == o.cache
  -- exactly the supplied client certificate (with its own private key)
  && (if certGiven o then
        (match suppliedCert o with
         | some x => c.certs == [x]
         | none => false)   -- a certificate option was set but is unusable: no configuration at all
      else c.certs == [])

/-- The property, judged on an outcome. -/
def spec (o : Opts) : Out → Bool
  | .cfg c => specCfg o c && (!certGiven o || identityUsable o)
  | .err _ => true

/-! ## Handshake (support stream H): a hand model of what crypto/tls does with the configuration

Assumptions (crypto/tls, not verified): the negotiated version is the server's maximum when it is at
least the client's effective minimum, otherwise the handshake fails; the server chain (one leaf
signed by CA `srvRoot`, DNS name `srvName`) verifies iff verification is skipped or `srvRoot` is in
`RootCAs` and the name equals the effective server name (`ServerName`, else the dialled host, which
is what `http.Transport` fills in); the test CAs are not in the system pool; a non-nil
`VerifyPeerCertificate` is then called (the harness' callbacks always reject); the client presents
`Certificates[0]` when the server asks for a certificate. -/

structure Scn where
  srvRoot : Nat
  srvName : Bytes
  srvMax : Nat
  dial : Bytes
deriving DecidableEq, Repr

inductive Why where
  | version | verify | callback
  /-- a failure the harness could not classify (never produced by the model) -/
  | other
deriving DecidableEq, Repr

inductive HsOut where
  | cfgErr (s : Stage)
  | fail (w : Why)
  | ok (version : Nat) (presented : Option Nat)
deriving DecidableEq, Repr

def effName (sn dial : Bytes) : Bytes := if sn ≠ [] then sn else dial

def verifyOk (c : Cfg) (s : Scn) : Bool :=
  c.insecure ||
    ((match c.roots with
      | none => false
      | some rs => rs.contains s.srvRoot) && effName c.serverName s.dial == s.srvName)

def handshake (c : Cfg) (s : Scn) : HsOut :=
  if s.srvMax < effMin c.minVersion then .fail .version
  else if !verifyOk c s then .fail .verify
  else if c.callback ≠ 0 then .fail .callback
  else .ok s.srvMax (c.certs.head?.map (·.cert))

def hsRun (o : Opts) (s : Scn) : HsOut :=
  match tlsAuth o with
  | .err st => .cfgErr st
  | .cfg c => handshake c s

/-- The property seen from the wire: a handshake that *succeeds* did so at TLS ≥ 1.2, with the
server verified against the supplied roots and the given/dialled name unless skipping was requested
without a server-name override, with the rejecting callback absent, and with exactly the supplied
client certificate presented. -/
def specHs (o : Opts) (s : Scn) : HsOut → Bool
  | .ok v p =>
    decide (tls12 ≤ v)
    && ((o.insecure && o.serverName == []) ||
        (rootsGiven o && (suppliedRoots o).contains s.srvRoot
          && effName o.serverName s.dial == s.srvName))
    && o.callback == 0
    && p == (suppliedCert o).map (·.cert)
    && (!certGiven o || identityUsable o)
  | .fail _ => true
  | .cfgErr _ => true

/-! ## Driver entry -/

def natOf (s : String) : Option Nat := s.toNat?

def natList (s : String) : Option (List Nat) :=
  if s == "." then some [] else (s.splitOn ",").mapM natOf

def certRefOf (s : String) : Option CertRef :=
  match s.splitOn ":" with
  | [a, b] => do pure ⟨← natOf a, ← natOf b⟩
  | _ => none

def certRefList (s : String) : Option (List CertRef) :=
  if s == "." then some [] else (s.splitOn ",").mapM certRefOf

def decCertFile (s : String) : Option CertFile :=
  if s == "a" then some .absent else if s == "u" then some .unreadable
  else if s == "g" then some .garbage else (certRefOf s).map .ok

def decKeyFile (s : String) : Option KeyFile :=
  if s == "a" then some .absent else if s == "u" then some .unreadable
  else if s == "g" then some .garbage else (natOf s).map .ok

def decLoadedCert (s : String) : Option LoadedCert :=
  if s == "n" then some .none else if s == "z" then some .malformed else (certRefOf s).map .ok

def decLoadedKey (s : String) : Option LoadedKey :=
  if s == "n" then some .none
  else if s == "o" then some .other
  else if s == "rn" || s == "rz" then some (.rsa false 0)
  else if s == "en" || s == "eb" then some (.ec false 0)
  else match s.splitOn ":" with
    | ["r", k] => (natOf k).map (.rsa true)
    | ["e", k] => (natOf k).map (.ec true)
    | _ => none

def decCAFile (s : String) : Option CAFile :=
  if s == "a" then some .absent else if s == "u" then some .unreadable else (natList s).map .ok

def decOptNat (s : String) : Option (Option Nat) :=
  if s == "n" then some none else (natOf s).map some

def decPool (s : String) : Option (Option (List Nat)) :=
  if s == "n" then some none else (natList s).map some

def decBool (s : String) : Option Bool :=
  if s == "0" then some false else if s == "1" then some true else none

def decOpts : List String → Option Opts
  | [cf, lc, kf, lk, ca, lca, pool, sn, isv, cb, std, cache] => do
    pure { certFile := ← decCertFile cf, loadedCert := ← decLoadedCert lc, keyFile := ← decKeyFile kf,
           loadedKey := ← decLoadedKey lk, caFile := ← decCAFile ca, loadedCA := ← decOptNat lca,
           pool := ← decPool pool, serverName := ← decField sn, insecure := ← decBool isv,
           callback := ← natOf cb, ticketsDisabled := ← decBool std, cache := ← natOf cache }
  | _ => none

def encNatList (l : List Nat) : String :=
  if l.isEmpty then "." else ",".intercalate (l.map toString)

def encRoots : Option (List Nat) → String
  | none => "n"
  | some l => encNatList l

def encCerts (l : List CertRef) : String :=
  if l.isEmpty then "." else ",".intercalate (l.map fun c => s!"{c.cert}:{c.key}")

def encBool (b : Bool) : String := if b then "1" else "0"

def Stage.enc : Stage → String
  | .clientCert => "cc" | .privKey => "pk" | .ca => "ca" | .unknown => "other"

def decStage (s : String) : Option Stage :=
  if s == "cc" then some .clientCert else if s == "pk" then some .privKey
  else if s == "ca" then some .ca else if s.startsWith "other" then some .unknown else none

/-- wire form of an outcome; `others` (exported `tls.Config` fields the model does not mention and
that are non-zero) must be empty, an error comes with a nil result. -/
def Out.enc : Out → String
  | .err s => s!"err {s.enc} 1"
  | .cfg c => s!"ok {c.minVersion} {encBool c.insecure} {encField c.serverName} {encRoots c.roots} {encCerts c.certs} {c.callback} {encBool c.ticketsDisabled} {c.cache} ."

def decOut : List String → Option Out
  | ["err", s, _] => (decStage s).map .err
  | ["ok", mv, isv, sn, roots, certs, cb, std, cache, _] => do
    pure (.cfg { minVersion := ← natOf mv, insecure := ← decBool isv, serverName := ← decField sn,
                 roots := ← decPool roots, certs := ← certRefList certs, callback := ← natOf cb,
                 ticketsDisabled := ← decBool std, cache := ← natOf cache })
  | _ => none

def decScn : List String → Option Scn
  | [root, name, mx, dial] => do
    pure { srvRoot := ← natOf root, srvName := ← decField name, srvMax := ← natOf mx, dial := ← decField dial }
  | _ => none

def Why.enc : Why → String
  | .version => "version" | .verify => "verify" | .callback => "callback" | .other => "other"

def HsOut.enc : HsOut → String
  | .cfgErr s => s!"cfgerr {s.enc}"
  | .fail w => s!"fail {w.enc}"
  | .ok v p => s!"ok {v} {match p with | none => "n" | some c => toString c}"

def decHsOut : List String → Option HsOut
  | ["cfgerr", s] => (decStage s).map .cfgErr
  | ["fail", w] =>
    if w == "version" then some (.fail .version) else if w == "verify" then some (.fail .verify)
    else if w == "callback" then some (.fail .callback)
    else if w.startsWith "other" then some (.fail .other) else none
  | ["ok", v, p] => do pure (.ok (← natOf v) (← decOptNat p))
  | _ => none

/-- model branch, for the evidence histogram -/
def idTag (o : Opts) : String :=
  match o.certFile with
  | .absent =>
    match o.loadedCert with
    | .none => if o.keyFile ≠ .absent || o.loadedKey ≠ .none then "keyonly" else "noid"
    | lc =>
      match marshalKey o.loadedKey with
      | .error _ => "mem-badkey"
      | .ok k => match pairInMemory lc k with
        | .ok _ => (if o.keyFile ≠ .absent then "mem-ok+keyfile" else "mem-ok")
        | .error _ => "mem-mismatch"
  | cf =>
    match loadFilePair cf o.keyFile with
    | .ok _ => if o.loadedCert ≠ .none then "file-ok+loaded" else "file-ok"
    | .error _ => "file-bad"

def rootTag (o : Opts) : String :=
  match o.loadedCA with
  | some _ => if o.caFile ≠ .absent then "lca>file" else "lca"
  | none =>
    match o.caFile with
    | .unreadable => "file-unreadable"
    | .ok rs => if rs.isEmpty then "file-empty" else "file"
    | .absent => if o.pool.isSome then "pool" else "sys"

def isvTag (o : Opts) : String :=
  if o.insecure then (if o.serverName ≠ [] then "isv-overridden" else "isv") else
    (if o.serverName ≠ [] then "sn" else "-")

def trivial (o : Opts) : Bool :=
  !certGiven o && o.keyFile == .absent && o.loadedKey == .none && !rootsGiven o && !o.insecure
    && o.serverName == [] && o.callback == 0 && !o.ticketsDisabled && o.cache == 0

def tagOf (stream : String) (o : Opts) : String :=
  (if trivial o then "~" else "") ++
    (if stream == "A" then s!"{stream}:{idTag o}/{rootTag o}/{isvTag o}" else s!"{stream}:{idTag o}/{rootTag o}")

def runCfg (stream : String) (f : Opts → Out) (ins outs : List String) : Verdict :=
  match decOpts ins with
  | none => .bad "C18 option fields"
  | some o =>
    let m := f o
    match outs with
    | ["PANIC", msg] =>
      { agree := false, specOk := false, tag := tagOf stream o ++ "!panic",
        model := m.enc ++ " ;impl panicked: " ++ msg }
    | _ =>
      match decOut outs with
      | none => .bad "C18 output fields"
      | some r =>
        { agree := m.enc == " ".intercalate outs, specOk := spec o r, tag := tagOf stream o, model := m.enc }

def run (ins outs : List String) : Verdict :=
  match ins with
  | "A" :: rest => runCfg "A" tlsAuth rest outs
  | "T" :: rest => runCfg "T" tlsTransport rest outs
  | "C" :: rest => runCfg "C" tlsClient rest outs
  | "H" :: rest =>
    match decOpts (rest.take 12), decScn (rest.drop 12) with
    | some o, some s =>
      let m := hsRun o s
      let tag := s!"H:{match m with | .cfgErr _ => "cfgerr" | .fail w => "fail-" ++ w.enc | .ok v p => s!"ok{v}" ++ (if p.isSome then "+cert" else "")}/{isvTag o}"
      match outs with
      | ["PANIC", msg] => { agree := false, specOk := false, tag := tag ++ "!panic", model := m.enc ++ " ;impl panicked: " ++ msg }
      | _ =>
        match decHsOut outs with
        | none => .bad "C18 H output fields"
        | some r => { agree := m.enc == " ".intercalate outs, specOk := specHs o s r, tag := tag, model := m.enc }
    | _, _ => .bad "C18 H fields"
  | _ => .bad "C18 stream"

end RtVerif.C18
