import RtVerif.Base.Bytes
import RtVerif.Base.Verdict
import RtVerif.Gen.Facts
/-
  C07 — Accept negotiation.

  Model: byte-level transcription of `middleware/header.ParseAccept` (with `expectTokenSlash`,
  `skipSpace`, `expectQuality`) and of `middleware.NegotiateContentType` /
  `NegotiateContentEncoding` / `normalizeOffer`.

  q-values are exact: `int + num / 10^digits` where only the first `Facts.maxQDigits` fractional
  digits are accumulated (that constant is regenerated from the source on every run).
-/
namespace RtVerif.C07
open RtVerif Bytes

/-! ## octet classes (header.go `init`) -/

def isSpaceB (b : UInt8) : Bool := b == 32 || b == 9 || b == 13 || b == 10

def isSeparatorB (b : UInt8) : Bool :=
  -- " \t\"(),/:;<=>?@[]\\{}"
  b == 32 || b == 9 || b == 34 || b == 40 || b == 41 || b == 44 || b == 47 || b == 58 ||
  b == 59 || b == 60 || b == 61 || b == 62 || b == 63 || b == 64 || b == 91 || b == 93 ||
  b == 92 || b == 123 || b == 125

def isTokenB (b : UInt8) : Bool := b ≤ 127 && !(b ≤ 31 || b == 127) && !isSeparatorB b

def isTokSlash (b : UInt8) : Bool := isTokenB b || b == 47

def skipSpace (s : Bytes) : Bytes := s.dropWhile isSpaceB

def expectTokenSlash (s : Bytes) : Bytes × Bytes := (s.takeWhile isTokSlash, s.dropWhile isTokSlash)

/-! ## q-values -/

/-- A parsed quality: `int + num / 10^digits`. -/
structure Q where
  int : Nat
  num : Nat
  digits : Nat
deriving Repr, DecidableEq, BEq

/-- The value in units of `10^-cap` (exact whenever `digits ≤ cap`, which the parser guarantees). -/
def Q.units (q : Q) : Nat :=
  -- operand order matters to the kernel: `Nat.mul`/`Nat.add` recurse on their second argument, which
  -- must be a stuck term, never the literal `10^cap`
  10 ^ Facts.maxQDigits * q.int + q.num * 10 ^ (Facts.maxQDigits - q.digits)

def Q.le (a b : Q) : Bool := a.units ≤ b.units
def Q.lt (a b : Q) : Bool := a.units < b.units
def Q.isZero (a : Q) : Bool := a.units == 0

def isDigit (b : UInt8) : Bool := 48 ≤ b && b ≤ 57

/-- The digit loop of `expectQuality`: consumes every digit, accumulates the first `cap`. -/
def digitsLoop (cap : Nat) : Bytes → Nat → Nat → Nat → (Nat × Nat) × Bytes
  | [], _, n, k => ((n, k), [])
  | b :: r, i, n, k =>
    if isDigit b then
      if i < cap then digitsLoop cap r (i + 1) (n * 10 + (b.toNat - 48)) (k + 1)
      else digitsLoop cap r (i + 1) n k
    else ((n, k), b :: r)

/-- the part of `expectQuality` after the leading `0`/`1`: optional `.` and digits -/
def fracPart (int : Nat) (s : Bytes) : Option Q × Bytes :=
  match s with
  | 46 :: t =>
    (some ⟨int, (digitsLoop Facts.maxQDigits t 0 0 0).1.1, (digitsLoop Facts.maxQDigits t 0 0 0).1.2⟩,
     (digitsLoop Facts.maxQDigits t 0 0 0).2)
  | _ => (some ⟨int, 0, 0⟩, s)

/-- `expectQuality`: `none` is the Go result `-1` (with rest `""`). -/
def expectQuality (s : Bytes) : Option Q × Bytes :=
  match s with
  | [] => (none, [])
  | b :: r =>
    if b == 48 then fracPart 0 r
    else if b == 49 then fracPart 1 r
    else if b == 46 then fracPart 0 (b :: r)
    else (none, [])

/-! ## ParseAccept -/

structure Spec where
  value : Bytes
  q : Q
deriving Repr, DecidableEq, BEq

def qPrefix : Bytes := [113, 61]  -- "q="

theorem length_dropWhile_le {α} (p : α → Bool) (l : List α) : (l.dropWhile p).length ≤ l.length := by
  induction l with
  | nil => simp
  | cons a t ih => simp only [List.dropWhile]; split <;> simp <;> omega

/-- the `for !HasPrefix(s,"q=") && s != "" && !HasPrefix(s,",")` scanner -/
def scanQ (s : Bytes) : Bytes :=
  match s with
  | [] => []
  | b :: r =>
    if hasPrefix (b :: r) qPrefix || b == 44 then b :: r else scanQ (skipSpace r)
termination_by s.length
decreasing_by
  have := length_dropWhile_le isSpaceB r
  simp only [skipSpace, List.length_cons]; omega

theorem scanQ_length_le (s : Bytes) : (scanQ s).length ≤ s.length := by
  induction s using scanQ.induct with
  | case1 => simp [scanQ]
  | case2 b r h => rw [scanQ]; simp [h]
  | case3 b r h ih =>
    rw [scanQ]; simp only [h]
    have := length_dropWhile_le isSpaceB r
    simp only [skipSpace] at ih ⊢
    simp only [Bool.false_eq_true, ↓reduceIte, List.length_cons]; omega

theorem digitsLoop_length_le (cap : Nat) (s : Bytes) (i n k : Nat) :
    (digitsLoop cap s i n k).2.length ≤ s.length := by
  induction s generalizing i n k with
  | nil => simp [digitsLoop]
  | cons b r ih =>
    simp only [digitsLoop]
    split
    · split
      · have := ih (i+1) (n * 10 + (b.toNat - 48)) (k+1); simp only [List.length_cons]; omega
      · have := ih (i+1) n k; simp only [List.length_cons]; omega
    · simp

theorem fracPart_length_le (int : Nat) (s : Bytes) : (fracPart int s).2.length ≤ s.length := by
  unfold fracPart
  split
  · rename_i t
    have := digitsLoop_length_le Facts.maxQDigits t 0 0 0
    simp only [List.length_cons]; omega
  · simp

theorem expectQuality_length_le (s : Bytes) : (expectQuality s).2.length ≤ s.length := by
  unfold expectQuality
  cases s with
  | nil => simp
  | cons b r =>
    simp only []
    split
    · have := fracPart_length_le 0 r; simp only [List.length_cons]; omega
    · split
      · have := fracPart_length_le 1 r; simp only [List.length_cons]; omega
      · split
        · exact fracPart_length_le 0 (b :: r)
        · simp

/-- One turn of the Go inner `for {}` loop. `none`: nothing appended, line abandoned;
`some (sp, none)`: `sp` appended, line finished; `some (sp, some rest)`: appended, continue. -/
def parseOne (s : Bytes) : Option (Spec × Option Bytes) :=
  let value := (expectTokenSlash s).1
  let s1 := (expectTokenSlash s).2
  if value.isEmpty then none
  else
    let s2 := skipSpace s1
    let qs : Option (Q × Bytes) :=
      match s2 with
      | 59 :: t =>
        let s3 := scanQ (skipSpace t)
        if hasPrefix s3 qPrefix then
          match expectQuality (s3.drop 2) with
          | (some q, rest) => some (q, rest)
          | (none, _) => none
        else some (⟨1, 0, 0⟩, s3)
      | _ => some (⟨1, 0, 0⟩, s2)
    match qs with
    | none => none
    | some (q, s4) =>
      match skipSpace s4 with
      | 44 :: t => some (⟨value, q⟩, some (skipSpace t))
      | _ => some (⟨value, q⟩, none)

theorem parseOne_shorter {s : Bytes} {sp : Spec} {rest : Bytes}
    (h : parseOne s = some (sp, some rest)) : rest.length < s.length := by
  unfold parseOne at h
  simp only at h
  split at h
  · cases h
  · have h1 : (expectTokenSlash s).2.length ≤ s.length := length_dropWhile_le _ _
    have h2 : (skipSpace (expectTokenSlash s).2).length ≤ (expectTokenSlash s).2.length :=
      length_dropWhile_le _ _
    -- the remaining text after the optional parameters is no longer than s2
    have key : ∀ q s4,
        (match skipSpace (expectTokenSlash s).2 with
          | 59 :: t =>
            if hasPrefix (scanQ (skipSpace t)) qPrefix then
              match expectQuality ((scanQ (skipSpace t)).drop 2) with
              | (some q, rest) => some (q, rest)
              | (none, _) => none
            else some (⟨1, 0, 0⟩, scanQ (skipSpace t))
          | _ => some (⟨1, 0, 0⟩, skipSpace (expectTokenSlash s).2)) = some (q, s4) →
        s4.length ≤ (skipSpace (expectTokenSlash s).2).length := by
      intro q s4 hq
      split at hq
      · rename_i t heq
        rw [heq]
        have a1 : (skipSpace t).length ≤ t.length := length_dropWhile_le _ _
        have a2 := scanQ_length_le (skipSpace t)
        split at hq
        · have a3 := expectQuality_length_le ((scanQ (skipSpace t)).drop 2)
          split at hq
          · rename_i q' rest' heq'
            rw [heq'] at a3
            simp only [Option.some.injEq, Prod.mk.injEq] at hq
            obtain ⟨_, rfl⟩ := hq
            simp only [List.length_drop, List.length_cons] at a3 ⊢; omega
          · cases hq
        · simp only [Option.some.injEq, Prod.mk.injEq] at hq
          obtain ⟨_, rfl⟩ := hq
          simp only [List.length_cons]; omega
      · simp only [Option.some.injEq, Prod.mk.injEq] at hq
        obtain ⟨_, rfl⟩ := hq
        exact Nat.le_refl _
    split at h
    · cases h
    · rename_i q s4 hq
      have hk := key q s4 hq
      have h3 : (skipSpace s4).length ≤ s4.length := length_dropWhile_le _ _
      split at h
      · rename_i t heq
        simp only [Option.some.injEq, Prod.mk.injEq] at h
        obtain ⟨_, rfl⟩ := h
        have h4 : (skipSpace t).length ≤ t.length := length_dropWhile_le _ _
        rw [heq] at h3
        simp only [List.length_cons] at h3; omega
      · simp at h

/-- One header line (the Go inner `for {}` loop); terminates because every turn consumes input. -/
def parseLine (s : Bytes) : List Spec :=
  match h : parseOne s with
  | none => []
  | some (sp, none) => [sp]
  | some (sp, some rest) => sp :: parseLine rest
termination_by s.length
decreasing_by exact parseOne_shorter h

def parseAccept (lines : List Bytes) : List Spec := lines.flatMap parseLine

/-! ## Negotiation -/

def normalizeOffer (o : Bytes) : Bytes := beforeByte o 59

def starSlashStar : Bytes := [42, 47, 42]
def slashStar : Bytes := [47, 42]

/-- Which kind of range `spec` is for `offer` (0 exact, 1 `type/*`, 2 `*/*`), if it matches. -/
def matchWild (specValue offer : Bytes) : Option Nat :=
  if specValue == starSlashStar then some 2
  else if hasSuffix specValue slashStar then
    if hasPrefix offer (specValue.take (specValue.length - 1)) then some 1 else none
  else if specValue == offer then some 0 else none

structure Best where
  offer : Bytes
  q : Option Q      -- `none` is the initial -1.0
  wild : Nat
deriving Repr, DecidableEq, BEq

def qGtBest (q : Q) (best : Option Q) : Bool :=
  match best with | none => true | some b => Q.lt b q
def qLtBest (q : Q) (best : Option Q) : Bool :=
  match best with | none => false | some b => Q.lt q b

/-- one turn of the inner `for _, spec := range specs` loop -/
def stepSpec (raw offer : Bytes) (st : Best) (sp : Spec) : Best :=
  if sp.q.isZero then st
  else if qLtBest sp.q st.q then st
  else match matchWild sp.value offer with
    | none => st
    | some w => if qGtBest sp.q st.q || st.wild > w then ⟨raw, some sp.q, w⟩ else st

def stepOffer (specs : List Spec) (st : Best) (raw : Bytes) : Best :=
  specs.foldl (stepSpec raw (normalizeOffer raw)) st

def negotiateContentType (specs : List Spec) (offers : List Bytes) (dflt : Bytes) : Bytes :=
  match offers with
  | [] => dflt
  | first :: _ =>
    if specs.isEmpty then first
    else (offers.foldl (stepOffer specs) ⟨dflt, none, 3⟩).offer

/-! ### Content encoding -/

def star : Bytes := [42]
def identity : Bytes := ofStr "identity"

def encStep (offer : Bytes) (st : Bytes × Option Q) (sp : Spec) : Bytes × Option Q :=
  if qGtBest sp.q st.2 && (sp.value == star || sp.value == offer) then (offer, some sp.q) else st

def negotiateContentEncoding (specs : List Spec) (offers : List Bytes) : Bytes :=
  let r := offers.foldl (fun st o => specs.foldl (encStep o) st) (identity, none)
  match r.2 with
  | some q => if q.isZero then [] else r.1
  | none => r.1


/-! ## Spec (from the property text, not from the code)

"the chosen response type is always one of the offered types (or the stated default when nothing
matches), namely the offer matched by the acceptable media range of highest quality, ties broken by
the more specific range and then by offer order; ranges with quality 0 never select an offer and a
missing Accept header selects the first offer." -/

/-- An (offer, range) pair in which the range has q > 0 and matches the offer. -/
structure Cand where
  raw : Bytes
  q : Q
  wild : Nat
deriving Repr, DecidableEq, BEq

/-- strictly better: higher quality, or equal quality and more specific -/
def Cand.better (a b : Cand) : Bool :=
  Q.lt b.q a.q || (a.q.units == b.q.units && a.wild < b.wild)

def candsFor (specs : List Spec) (raw : Bytes) : List Cand :=
  specs.filterMap fun sp =>
    if sp.q.isZero then none
    else (matchWild sp.value (normalizeOffer raw)).map fun w => ⟨raw, sp.q, w⟩

/-- all candidates, in offer order -/
def candidates (specs : List Spec) (offers : List Bytes) : List Cand :=
  offers.flatMap (candsFor specs)

/-- the first of the maximal elements -/
def firstMax : List Cand → Option Cand
  | [] => none
  | c :: cs =>
    match firstMax cs with
    | none => some c
    | some m => if m.better c then some m else some c

def specChoice (specs : List Spec) (offers : List Bytes) (dflt : Bytes) : Bytes :=
  match offers with
  | [] => dflt
  | first :: _ =>
    if specs.isEmpty then first
    else match firstMax (candidates specs offers) with
      | none => dflt
      | some c => c.raw

/-- Accept-Encoding (doc comment of `NegotiateContentEncoding`): best q among ranges equal to the
offer or `*`, earlier offer on ties, `identity` when nothing matches, `""` when the best q is 0. -/
def encCands (specs : List Spec) (offers : List Bytes) : List Cand :=
  offers.flatMap fun o => specs.filterMap fun sp =>
    if sp.value == star || sp.value == o then some ⟨o, sp.q, 0⟩ else none

def specEncoding (specs : List Spec) (offers : List Bytes) : Bytes :=
  match firstMax (encCands specs offers) with
  | none => identity
  | some c => if c.q.isZero then [] else c.raw

/-! ## Driver entry -/

def floatOfQ (q : Q) : Float :=
  Float.ofNat q.int + Float.ofNat q.num / Float.ofNat (10 ^ q.digits)

def hex16 (n : UInt64) : String :=
  String.ofList ((List.range 16).reverse.map fun i => hexDigit ((n.toNat >>> (4 * i)) % 16))

def renderSpecs (sps : List Spec) : String :=
  encList (sps.map (·.value)) ++ " " ++
    (if sps.isEmpty then "." else ",".intercalate (sps.map fun sp => hex16 (floatOfQ sp.q).toBits))

def run (ins outs : List String) : Verdict :=
  match ins, outs with
  | ["P", lines], [vals, qs] =>
    match decList lines with
    | some ls =>
      let m := renderSpecs (parseAccept ls)
      let ok := m == vals ++ " " ++ qs
      -- the property's demand on parsing is totality (no panic); the parse itself is the model's
      { agree := ok, specOk := true, tag := (if (parseAccept ls).isEmpty then "~P:n=0" else s!"P:n={(parseAccept ls).length.min 6}"), model := m }
    | none => .bad "P fields"
  | ["N", lines, offers, dflt], [chosen] =>
    match decList lines, decList offers, decField dflt, decField chosen with
    | some ls, some os, some d, some c =>
      let specs := parseAccept ls
      let m := negotiateContentType specs os d
      let sp := specChoice specs os d
      let kind := if os.isEmpty then "~nooffers" else if specs.isEmpty then "noaccept"
        else match firstMax (candidates specs os) with
          | none => "nomatch"
          | some b => s!"w{b.wild}{if (candidates specs os).length > 1 then "+" else ""}"
      { agree := m == c, specOk := sp == c && (c == d || os.contains c), tag := (if kind.startsWith "~" then "~N:" ++ kind.drop 1 else "N:" ++ kind), model := encField m }
    | _, _, _, _ => .bad "N fields"
  | ["E", lines, offers], [chosen] =>
    match decList lines, decList offers, decField chosen with
    | some ls, some os, some c =>
      let specs := parseAccept ls
      let m := negotiateContentEncoding specs os
      { agree := m == c, specOk := specEncoding specs os == c,
        tag := (if (encCands specs os).isEmpty then "~E:0" else s!"E:{(encCands specs os).length.min 3}"), model := encField m }
    | _, _, _ => .bad "E fields"
  | ["T", _lines], ["ok"] =>
    -- a TEST, not a theorem: the other exported parsers of header.go (ParseAccept2, ParseList,
    -- ParseValueAndParams, ParseTime, Copy) returned on these header lines without panicking
    { agree := true, specOk := true, tag := "~test:totality", model := "ok" }
  | _, [ "PANIC", msg ] => { agree := false, specOk := false, tag := "panic", model := "no-panic expected; impl: " ++ msg }
  | _, _ => .bad "C07 stream"

end RtVerif.C07
