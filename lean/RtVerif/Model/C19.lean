import RtVerif.Base.Bytes
import RtVerif.Base.Verdict
import RtVerif.Gen.Facts
/-
  C19 — API validation passes exactly when registrations match the description.

  Model: transcription of `middleware/untyped/api.go` (`Register*` normalisation, `validate`,
  `verify`, `ConsumersFor/ProducersFor/AuthenticatorsFor/OperationHandlerFor`) and of the
  request-time tables `middleware/router.go` `AddRoute`/`buildAuthenticators` builds from them.
  Go maps are modelled by their key lists (set semantics: `addKey`); every place where the code
  iterates a map and then sorts is modelled by sorting, and `verify_perm` (Props) shows the
  iteration order is irrelevant.

  What go-openapi/analysis says about the description (`RequiredConsumes`, `RequiredProduces`,
  `RequiredSecuritySchemes`, `OperationMethodPaths`, and per operation `ConsumesFor`, `ProducesFor`,
  `SecurityRequirementsFor`) and the keys of `SecurityDefinitions` are INPUTS (`Desc`), constrained by
  the stated hypotheses `OpHyp`; the harness passes the real analyzer's values on every case.

  The list of categories `validate` checks, their order, their section names and what is compared
  with what come from `Facts.validateChecks`, regenerated from the source on every run.
-/
namespace RtVerif.C19
open RtVerif Bytes

/-! ## Go string order (`sort.Strings`) and a structural insertion sort -/

/-- `a <= b` for Go strings (bytewise lexicographic). -/
def ble : Bytes → Bytes → Bool
  | [], _ => true
  | _ :: _, [] => false
  | a :: as, b :: bs =>
    if a.toNat < b.toNat then true else if b.toNat < a.toNat then false else ble as bs

def insertS (x : Bytes) : List Bytes → List Bytes
  | [] => [x]
  | y :: ys => if ble x y then x :: y :: ys else y :: insertS x ys

def isort : List Bytes → List Bytes
  | [] => []
  | x :: xs => insertS x (isort xs)

/-- keys of a Go set built by inserting every element (one representative per value) -/
def dedup : List Bytes → List Bytes
  | [] => []
  | a :: l => if a ∈ l then dedup l else a :: dedup l

/-! ## `verify` -/

structure VErr where
  sect : String
  missingSpec : List Bytes   -- `unspecified`: registered but not in the description
  missingReg : List Bytes    -- `unregistered`: required by the description but not registered
deriving Repr, DecidableEq

/-- `(*API).verify`: both inputs sorted; `unspecified` = the registrations (in sorted order) that are
not expected; `unregistered` = the keys left in the `expected` set after deleting everything seen,
sorted. `none` is the Go `nil` error. -/
def verify (sect : String) (regs exps : List Bytes) : Option VErr :=
  let unspecified := (isort regs).filter (fun v => decide (v ∉ exps))
  let unregistered := isort (dedup (exps.filter (fun v => decide (v ∉ regs))))
  if unregistered.isEmpty && unspecified.isEmpty then none
  else some ⟨sect, unspecified, unregistered⟩

/-! ## The API object and its registrations -/

structure Api where
  defConsumes : Bytes
  defProduces : Bytes
  consumers : List Bytes
  producers : List Bytes
  auths : List Bytes
  operations : List (Bytes × Bytes)      -- keys (METHOD, path) of the two-level map
deriving Repr, DecidableEq

/-- `m[k] = v` on the key set -/
def addKey {α} [DecidableEq α] (m : List α) (k : α) : List α := if k ∈ m then m else m ++ [k]

/-- the `strings` function a `Register*` method applies to its key (name regenerated from the source) -/
def applyNorm (fn : String) (b : Bytes) : Bytes :=
  if fn == "ToLower" then toLower b else if fn == "ToUpper" then toUpper b else b

def jsonMime : Bytes := Facts.jsonMimeBytes

/-- `untyped.NewAPI(doc)` (JSON consumer/producer registered, JSON defaults) or
`untyped.NewAPI(doc).WithoutJSONDefaults()` -/
def newApi (jsonDefaults : Bool) : Api :=
  if jsonDefaults then ⟨jsonMime, jsonMime, [jsonMime], [jsonMime], [], []⟩
  else ⟨[], [], [], [], [], []⟩

def registerConsumer (a : Api) (mt : Bytes) : Api :=
  { a with consumers := addKey a.consumers (applyNorm Facts.registerConsumerNorm mt) }
def registerProducer (a : Api) (mt : Bytes) : Api :=
  { a with producers := addKey a.producers (applyNorm Facts.registerProducerNorm mt) }
def registerAuth (a : Api) (s : Bytes) : Api :=
  { a with auths := addKey a.auths (applyNorm Facts.registerAuthNorm s) }
def registerOperation (a : Api) (mp : Bytes × Bytes) : Api :=
  { a with operations := addKey a.operations (applyNorm Facts.registerOperationNorm mp.1, mp.2) }

/-- the `Register*` calls of one case, in call order -/
structure Regs where
  jsonDefaults : Bool
  consumers : List Bytes
  producers : List Bytes
  auths : List Bytes
  operations : List (Bytes × Bytes)
deriving Repr

def build (r : Regs) : Api :=
  r.operations.foldl registerOperation
    (r.auths.foldl registerAuth
      (r.producers.foldl registerProducer
        (r.consumers.foldl registerConsumer (newApi r.jsonDefaults))))

/-- `fmt.Sprintf("%s %s", strings.ToUpper(m), p)` in `validate` (and `analysis.OperationMethodPaths`) -/
def opKey (mp : Bytes × Bytes) : Bytes := toUpper mp.1 ++ 32 :: mp.2

/-! ## The description, as the analyzer reports it -/

structure Op where
  method : Bytes
  path : Bytes
  consumesFor : List Bytes
  producesFor : List Bytes
  secReqs : List (List Bytes)     -- `SecurityRequirementsFor`: alternatives of scheme names (`""` = anonymous)
deriving Repr, DecidableEq

structure Desc where
  reqConsumes : List Bytes
  reqProduces : List Bytes
  reqSchemes : List Bytes
  opKeys : List Bytes             -- `OperationMethodPaths`
  secDefs : List Bytes            -- keys of `spec.SecurityDefinitions`
deriving Repr, DecidableEq

/-! ## `validate` -/

def regsOf (a : Api) (d : Desc) (src : String) : Option (List Bytes) :=
  if src == "d.consumers" then some a.consumers
  else if src == "d.producers" then some a.producers
  else if src == "d.authenticators" then some a.auths
  else if src == "d.operations" then some (a.operations.map opKey)
  else if src == "d.spec.Spec().SecurityDefinitions" then some d.secDefs
  else none

def expsOf (d : Desc) (src : String) : Option (List Bytes) :=
  if src == "RequiredConsumes" then some d.reqConsumes
  else if src == "RequiredProduces" then some d.reqProduces
  else if src == "OperationMethodPaths" then some d.opKeys
  else if src == "RequiredSecuritySchemes" then some d.reqSchemes
  else none

inductive VResult where
  | ok
  | err (e : VErr)
  | badFact (what : String)     -- the regenerated check list names something the model does not know
deriving Repr, DecidableEq

/-- one `if err := d.verify(section, regs, exps); err != nil { return err }` -/
def checkOne (a : Api) (d : Desc) (c : String × String × String) : VResult :=
  match regsOf a d c.2.1, expsOf d c.2.2 with
  | some regs, some exps =>
    match verify c.1 regs exps with
    | some e => .err e
    | none => .ok
  | _, _ => .badFact (c.2.1 ++ "/" ++ c.2.2)

def validateWith (a : Api) (d : Desc) : List (String × String × String) → VResult
  | [] => .ok
  | c :: rest =>
    match checkOne a d c with
    | .ok => validateWith a d rest
    | r => r

/-- `(*API).Validate` -/
def validate (a : Api) (d : Desc) : VResult := validateWith a d Facts.validateChecks

/-! ## Request-time tables (`AddRoute`, `buildAuthenticators`) -/

/-- `normalizeOffer`: `strings.SplitN(orig, ";", 2)[0]` -/
def normalizeOffer (o : Bytes) : Bytes := beforeByte o 59

/-- `swag.ContainsStringsCI` (ASCII folding) -/
def containsCI (l : List Bytes) (s : Bytes) : Bool := l.any (fun x => equalFold x s)

/-- "add API defaults if not part of the spec" -/
def withDefault (l : List Bytes) (dflt : Bytes) : List Bytes :=
  if !dflt.isEmpty && !containsCI l dflt then l ++ [dflt] else l

def routeConsumes (a : Api) (op : Op) : List Bytes := withDefault op.consumesFor a.defConsumes
def routeProduces (a : Api) (op : Op) : List Bytes := withDefault op.producesFor a.defProduces

/-- keys of the map `ConsumersFor(mediaTypes)` / `ProducersFor(mediaTypes)` returns (sorted for display) -/
def tableFor (keys mts : List Bytes) : List Bytes := isort (dedup (mts.filter (fun mt => decide (mt ∈ keys))))

def routeConsumers (a : Api) (op : Op) : List Bytes :=
  tableFor a.consumers ((routeConsumes a op).map normalizeOffer)
def routeProducers (a : Api) (op : Op) : List Bytes :=
  tableFor a.producers ((routeProduces a op).map normalizeOffer)

/-- `OperationHandlerFor` / `HandlerFor(method, path)`: the route exists iff this succeeds -/
def handlerFor (a : Api) (method path : Bytes) : Bool := decide ((toUpper method, path) ∈ a.operations)

/-- keys of `AuthenticatorsFor(SecurityDefinitionsForRequirements(reqs))` for one alternative: a scheme
gets an authenticator only through its *definition* -/
def altAuths (a : Api) (d : Desc) (alt : List Bytes) : List Bytes :=
  isort (dedup (alt.filter (fun s => decide (s ∈ d.secDefs) && decide (s ∈ a.auths))))

def authTables (a : Api) (d : Desc) (op : Op) : List (List Bytes × List Bytes) :=
  op.secReqs.map (fun alt => (isort alt, altAuths a d alt))

/-! ## Answer to a well-formed request, as far as registrations decide it -/

inductive Class where
  | ok | noroute | unauth | noconsumer | noproducer
deriving Repr, DecidableEq

def Class.name : Class → String
  | .ok => "ok" | .noroute => "noroute" | .unauth => "unauth"
  | .noconsumer => "noconsumer" | .noproducer => "noproducer"

/-- every named scheme of the alternative has an authenticator in the route's table -/
def altComplete (a : Api) (d : Desc) (alt : List Bytes) : Bool :=
  alt.all (fun s => s.isEmpty || decide (s ∈ altAuths a d alt))

def headMethod : Bytes := [72, 69, 65, 68]

/-- the fallback of `Context.Respond`: `ProducersFor(normalizeOffers([DefaultProduces]))[DefaultProduces]` -/
def defaultProducerFound (a : Api) : Bool :=
  decide (normalizeOffer a.defProduces ∈ a.producers) && normalizeOffer a.defProduces == a.defProduces

/-- `validation.contentType`: `cons, ok := v.route.Consumers[ct]` fails (only asked when there is a body) -/
def consumerMissing (a : Api) (op : Op) : Option Bytes → Bool
  | some c => !decide (c ∈ routeConsumers a op)
  | none => false

/-- Stages in the order the middleware runs them: router (no route when `HandlerFor` failed in
`AddRoute`), security (stub authenticators accept, so only a scheme without authenticator can
fail), `validation.contentType` (consumer lookup by the request's media type), `Respond` (producer
lookup by the negotiated format, then the default producer, else panic).
`ct`: media type of the request body if there is one; `format`: the negotiated response format. -/
def serveClass (a : Api) (d : Desc) (op : Op) (ct : Option Bytes) (format : Bytes) : Class :=
  if !handlerFor a op.method op.path then .noroute
  else if !op.secReqs.all (altComplete a d) then .unauth
  else if consumerMissing a op ct then .noconsumer
  else if op.method == headMethod then .ok
  else if decide (format ∈ routeProducers a op) || defaultProducerFound a then .ok
  else .noproducer

/-- the format a well-formed request negotiates: its `Accept` (one of the declared produces), or, when
the operation declares none and the request has no `Accept`, the default -/
def formatOf (a : Api) (accept : Option Bytes) : Bytes :=
  match accept with
  | some f => f
  | none => a.defProduces

/-! ## Spec (from the property text)

"Validation of an API's registrations succeeds exactly when the registered consumers, producers,
operation handlers and authenticators coincide with those the API description requires and every
declared security definition is used, and otherwise reports every missing and every superfluous
item of the first failing category by name. For descriptions whose media types are lower-case,
parameter-free and wildcard-free, an API that passes validation serves every declared operation
without ever failing a request for lack of a registered consumer, producer, handler or
authenticator."

Readings. (1) "registered X" are the keys the documented `Register*` calls leave in the API
(media types lower-cased, methods upper-cased). (2) The text fixes no order of categories: "first"
refers to the order of the code's checks, which is regenerated (`Facts.validateChecks`); WHAT each
category compares is written here by hand (`specCat`), keyed by the section name that the error
carries. (3) A description may require a scheme it does not declare (invalid Swagger 2.0: "the name
used for each property MUST correspond to a security scheme declared in the Security Definitions").
The code refuses such descriptions in the category "security definitions", naming the undeclared
schemes; the text is silent. The Spec adopts `DescValid` as part of "succeeds exactly when", because
an authenticator is reached at request time only through its definition — see `specV_exact`. -/

/-- Reading (1): what the documented `Register*` calls leave registered — media types lower-cased,
methods upper-cased, scheme names and paths as spelled; re-registering replaces. Written without
reference to the regenerated normalisation facts (`build_eq_specApi` in Props ties the two). -/
def specApi (r : Regs) : Api :=
  { defConsumes := (newApi r.jsonDefaults).defConsumes
    defProduces := (newApi r.jsonDefaults).defProduces
    consumers := (r.consumers.map toLower).foldl addKey (newApi r.jsonDefaults).consumers
    producers := (r.producers.map toLower).foldl addKey (newApi r.jsonDefaults).producers
    auths := r.auths.foldl addKey (newApi r.jsonDefaults).auths
    operations := (r.operations.map fun mp => (toUpper mp.1, mp.2)).foldl addKey
      (newApi r.jsonDefaults).operations }

def subset (a b : List Bytes) : Bool := a.all (fun x => decide (x ∈ b))
def setEq (a b : List Bytes) : Bool := subset a b && subset b a
def diff (a b : List Bytes) : List Bytes := a.filter (fun x => decide (x ∉ b))

structure Cat where
  regs : List Bytes
  exps : List Bytes

/-- the five comparisons the property names -/
def specCat (a : Api) (d : Desc) (sect : String) : Option Cat :=
  if sect == "consumes" then some ⟨a.consumers, d.reqConsumes⟩
  else if sect == "produces" then some ⟨a.producers, d.reqProduces⟩
  else if sect == "operation" then some ⟨a.operations.map opKey, d.opKeys⟩
  else if sect == "auth scheme" then some ⟨a.auths, d.reqSchemes⟩
  else if sect == "security definitions" then some ⟨d.secDefs, d.reqSchemes⟩
  else none

/-- "the registered consumers, producers, operation handlers and authenticators coincide with those
the description requires and every declared security definition is used" -/
def Coincide (a : Api) (d : Desc) : Bool :=
  setEq a.consumers d.reqConsumes && setEq a.producers d.reqProduces &&
  setEq (a.operations.map opKey) d.opKeys && setEq a.auths d.reqSchemes &&
  subset d.secDefs d.reqSchemes

/-- every required scheme is declared (Swagger 2.0 validity of the description) -/
def DescValid (d : Desc) : Bool := subset d.reqSchemes d.secDefs

inductive VOut where
  | ok
  | err (sect : String) (missingReg missingSpec : List Bytes)
deriving Repr, DecidableEq

def catOk (a : Api) (d : Desc) (sect : String) : Bool :=
  match specCat a d sect with
  | some c => setEq c.regs c.exps
  | none => false

/-- the property's first sentence, judged on an observed result of `Validate` -/
def specV (a : Api) (d : Desc) (order : List String) : VOut → Bool
  | .ok => Coincide a d && DescValid d
  | .err sect mr ms =>
    match specCat a d sect with
    | none => false
    | some c =>
      decide (sect ∈ order) &&
      (order.takeWhile (· != sect)).all (catOk a d) &&      -- it is the FIRST failing category
      setEq mr (diff c.exps c.regs) &&                      -- every missing item, by name
      setEq ms (diff c.regs c.exps) &&                      -- every superfluous item, by name
      !(mr.isEmpty && ms.isEmpty)

def checkOrder : List String := Facts.validateChecks.map (·.1)

/-- lower-case, parameter-free, wildcard-free (and not the empty string) -/
def simpleMT (mt : Bytes) : Bool :=
  !mt.isEmpty && toLower mt == mt && !mt.contains 59 && !mt.contains 42

def Simple (d : Desc) : Bool := d.reqConsumes.all simpleMT && d.reqProduces.all simpleMT

/-- what the analyzer guarantees about one operation of the description (hypotheses of the serving
theorems; the driver checks them on the real analyzer's values on every case) -/
def OpHyp (d : Desc) (op : Op) : Bool :=
  subset op.consumesFor d.reqConsumes && subset op.producesFor d.reqProduces &&
  op.secReqs.all (fun alt => alt.all (fun s => s.isEmpty || decide (s ∈ d.reqSchemes))) &&
  decide (opKey (op.method, op.path) ∈ d.opKeys) &&
  !op.method.contains 32 && toUpper op.method == op.method

/-- registered method names are HTTP tokens at least in that they hold no space
(`RegisterOperation("GET /a", "b")` and `RegisterOperation("GET", "/a b")` share the key `GET /a b`) -/
def MethodsAreTokens (a : Api) : Bool := a.operations.all (fun mp => !mp.1.contains 32)

/-- the default media types of the API object have a consumer/producer (true for `NewAPI` with or
without JSON defaults; the exported fields `DefaultConsumes/DefaultProduces` could be set otherwise) -/
def DefaultsRegistered (a : Api) : Bool :=
  (a.defConsumes.isEmpty || (decide (a.defConsumes ∈ a.consumers) && !a.defConsumes.contains 59)) &&
  (a.defProduces.isEmpty || (decide (a.defProduces ∈ a.producers) && !a.defProduces.contains 59))

/-- observed request-time facts of one operation -/
structure SObs where
  valid : Bool
  route : Bool
  consumers : List Bytes
  producers : List Bytes
  auths : List (List Bytes × List Bytes)
  cls : String
  bind : String      -- `Context.BindValidRequest` on the same request

/-- the property's second sentence, judged on what the real code built and answered -/
def specS (a : Api) (d : Desc) (op : Op) (o : SObs) : Bool :=
  if o.valid && Simple d && MethodsAreTokens a && DefaultsRegistered a then
    o.route &&
    subset op.consumesFor o.consumers &&
    subset op.producesFor o.producers &&
    o.auths.all (fun t => t.1.all (fun s => s.isEmpty || decide (s ∈ t.2))) &&
    o.cls != "noroute" && o.cls != "unauth" && o.cls != "noconsumer" && o.bind != "noconsumer" &&
    (o.cls != "noproducer" || op.producesFor.isEmpty)
  else true

/-! ## Driver entry -/

def splitBar (o : Bytes) : Bytes × Bytes := (o.takeWhile (· != 124), (o.dropWhile (· != 124)).drop 1)

def joinNul : List Bytes → Bytes
  | [] => []
  | [x] => x
  | x :: y :: r => x ++ 0 :: joinNul (y :: r)

def encTable (t : List Bytes × List Bytes) : Bytes := joinNul t.1 ++ 1 :: joinNul t.2

def decTable (b : Bytes) : List Bytes × List Bytes :=
  let s := b.takeWhile (· != 1)
  let k := (b.dropWhile (· != 1)).drop 1
  (splitByte 0 s, if k.isEmpty then [] else splitByte 0 k)

def nth (l : List Bytes) (i : Nat) : Option Bytes :=
  if l.isEmpty then none else l[i % l.length]?

def renderV : VResult → String
  | .ok => "OK"
  | .err e => s!"ERR {encField (ofStr e.sect)} {encList e.missingReg} {encList e.missingSpec}"
  | .badFact w => "BADFACT " ++ w

def decRegs (jd rc rp ra ro : String) : Option Regs := do
  let rc ← decList rc
  let rp ← decList rp
  let ra ← decList ra
  let ro ← decList ro
  pure ⟨jd != "0", rc, rp, ra, ro.map splitBar⟩

def decDesc (f1 f2 f3 f4 f5 : String) : Option Desc := do
  pure ⟨← decList f1, ← decList f2, ← decList f3, ← decList f4, ← decList f5⟩

def strOfBytes (b : Bytes) : String := String.ofList (b.map fun x => Char.ofNat x.toNat)

def short (n : Nat) : String := if n ≥ 2 then "2+" else toString n

def run (ins outs : List String) : Verdict :=
  match ins, outs with
  | _, ["LOADERR"] => { agree := true, specOk := true, tag := "~loaderr", model := "-" }
  | ["V", jd, _, _, _, _, _, _, rc, rp, ra, ro], f1 :: f2 :: f3 :: f4 :: f5 :: res =>
    match decRegs jd rc rp ra ro, decDesc f1 f2 f3 f4 f5 with
    | some r, some d =>
      let a := build r
      let m := validate a d
      let obs : Option VOut :=
        match res with
        | ["OK"] => some .ok
        | ["ERR", s, mr, ms] =>
          match decField s, decList mr, decList ms with
          | some s, some mr, some ms => some (.err (strOfBytes s) mr ms)
          | _, _, _ => none
        | _ => none
      match obs with
      | none => .bad "V result"
      | some o =>
        let tag := match m with
          | .ok => "V:ok"
          | .err e => s!"V:{e.sect.replace " " "_"}:m{short e.missingReg.length}s{short e.missingSpec.length}"
          | .badFact _ => "V:badfact"
        { agree := renderV m == " ".intercalate res, specOk := specV (specApi r) d checkOrder o, tag := tag, model := renderV m }
    | _, _ => .bad "V fields"
  | "S" :: _, [_, _, _, _, _, _, _, _, _, _, _, "BADREQ"] => { agree := true, specOk := true, tag := "~S:badreq", model := "-" }
  | "S" :: _, [_, _, _, _, _, "NOOPS"] => { agree := true, specOk := true, tag := "~S:noops", model := "-" }
  | ["S", jd, _, _, _, _, _, _, rc, rp, ra, ro, _, cti, aci],
    [f1, f2, f3, f4, f5, om, opath, cf, pf, sr, valid, route, ck, pk, atb, cls, bvr] =>
    match decRegs jd rc rp ra ro, decDesc f1 f2 f3 f4 f5, decField om, decField opath, decList cf, decList pf,
          decList sr, decList ck, decList pk, decList atb, decField cls, decField bvr with
    | some r, some d, some om, some opath, some cf, some pf, some sr, some ck, some pk, some atb, some cls, some bvr =>
      let a := build r
      let op : Op := ⟨om, opath, cf, pf, sr.map (splitByte 0)⟩
      if !OpHyp d op then .bad "analyzer hypothesis OpHyp does not hold on this case"
      else
        let v := validate a d == .ok
        let mroute := handlerFor a op.method op.path
        let mck := if mroute then routeConsumers a op else []
        let mpk := if mroute then routeProducers a op else []
        let mat := if mroute then authTables a d op else []
        let ct := nth cf cti.toNat!
        let acc := nth pf aci.toNat!
        let simple := Simple d
        -- The answer is modelled over simple descriptions (elsewhere content negotiation C06/C07/C08 decides),
        -- and only where it does not depend on how the OR-of-ANDs of C02 treats a scheme without
        -- authenticator: validated APIs (tables complete by `valid_lookups`), unrouted operations, and
        -- operations all of whose alternatives are complete.
        let mcls : Option String :=
          if !simple then none
          else if v || !mroute || op.secReqs.all (altComplete a d) then
            some (serveClass a d op ct (formatOf a acc)).name
          else none
        -- `Context.BindValidRequest` (typed APIs) consults the same consumer table
        let mbvr : Option String :=
          if !mroute then some "-" else if !simple then none
          else some (if consumerMissing a op ct then "noconsumer" else "ok")
        let obs : SObs := ⟨valid == "1", route == "1", ck, pk, atb.map decTable, strOfBytes cls, strOfBytes bvr⟩
        let tablesAgree := (v == obs.valid) && (mroute == obs.route) && mck == ck && mpk == pk &&
          mat.map encTable == atb
        let clsAgree := (match mcls with
          | some c => c == obs.cls
          | none => true) && (match mbvr with
          | some c => c == obs.bind
          | none => true)
        let tag :=
          (if v then (if simple then "S:valid:" ++ obs.cls else "S:valid-notsimple:" ++ obs.cls)
           else "S:invalid:" ++ (match mcls with
             | some c => c
             | none => if simple then "auth-incomplete" else "notsimple"))
        { agree := tablesAgree && clsAgree, specOk := specS (specApi r) d op obs, tag := tag,
          model := s!"valid={v} route={mroute} consumers={encList mck} producers={encList mpk} auth={encList (mat.map encTable)} class={mcls} bind={mbvr}" }
    | _, _, _, _, _, _, _, _, _, _, _, _ => .bad "S fields"
  | _, ["PANIC", msg] => { agree := false, specOk := false, tag := "panic", model := "no-panic expected; impl: " ++ msg }
  | _, _ => .bad "C19 stream"

end RtVerif.C19
