import RtVerif.Base.Bytes
import RtVerif.Base.Verdict
import RtVerif.Gen.Facts
/-
  C16 — CSV codec (csv.go, csv_options.go).

  The CSV *grammar* is `encoding/csv` (external by design: the property itself speaks of "a
  standard CSV parse").  What a run of the codec sees of the input is therefore modelled as the
  EVENT STREAM a standard parse yields under the reader options: records `r₁ … rₙ`, then `eof` or
  the parser's error.  The harness obtains it by running `encoding/csv` itself on the same source.

  Everything the repository adds on top is modelled here:
    * the two kind dispatches (type switch order, the default clause's reflect switch, pointer /
      nil / element-type guards) — order, option application and transfer function of every
      clause come from the regenerated `Facts`;
    * `pipeCSV` (record by record, early return when the skipped lines exhaust the input, Flush and
      Error at the end) and `bufferedCSV` (ReadAll then WriteAll);
    * the three writers the code pipes into: `csv.Writer` over a sink (bufio: nothing reaches the
      sink before Flush; invalid delimiter; failing sink), a caller supplied `CSVWriter`, and the
      internal records container;
    * `csv.Reader.ReuseRecord`: a heap of backing arrays; a reusing reader overwrites the array it
      handed out last when its capacity suffices — so aliasing between delivered records shows;
    * the `*[][]string` destination: reflect `SetLen/Grow/SetCap/Copy` on a (length, capacity,
      backing array) model with their panic conditions, for every pre-state;
    * closing of streams.
  A Go panic is an explicit result constructor.
-/
namespace RtVerif.C16
open RtVerif Bytes

abbrev Field := Bytes
abbrev Record := List Field

/-! ## What a standard CSV parse yields -/

inductive Term where
  | eof
  | err (msg : Bytes)
deriving DecidableEq, Repr

structure Events where
  recs : List Record
  term : Term
deriving DecidableEq, Repr

/-! ## Options -/

structure WOpts where
  comma : Nat        -- rune; after `applyToWriter` (0 never survives: NewWriter sets ',')
  crlf : Bool
deriving DecidableEq, Repr

/-- `csvOpts` as far as the plumbing looks at it (separator, comment, lazy quotes, trimmed space and
fields per record only steer the parser: they are inside the event stream). -/
structure Opts where
  reuse : Bool       -- csvReader.ReuseRecord
  wcomma : Nat       -- csvWriter.Comma (0 = unset)
  crlf : Bool        -- csvWriter.UseCRLF
  skip : Nat         -- skippedLines (negative counts behave as 0)
  close : Bool       -- closeStream
deriving DecidableEq, Repr

def defaultW : WOpts := ⟨44, false⟩

/-- `applyToWriter` on a fresh `csv.NewWriter`. -/
def effW (o : Opts) : WOpts := ⟨if o.wcomma = 0 then 44 else o.wcomma, o.crlf⟩

/-! ## Results -/

inductive Res where
  | ok
  | err (msg : Bytes)
  | panic (msg : Bytes)
deriving DecidableEq, Repr

def Res.isPanic : Res → Bool
  | .panic _ => true
  | _ => false

def Res.isErr : Res → Bool
  | .err _ => true
  | _ => false

/-- bytes of an ASCII string (kernel-reducible, unlike `String.toUTF8`) -/
def ascii (s : String) : Bytes := s.toList.map fun c => UInt8.ofNat c.toNat

/-! messages (stdlib, repository, harness scripted failures) -/
def msgInvalidDelim : Bytes := ascii "csv: invalid field or comment delimiter"
def msgNoReader : Bytes := ascii "CSVConsumer requires a reader"
def msgNilDest : Bytes := ascii "nil destination for CSVConsumer"
def msgNotPointer : Bytes := ascii "destination must be a pointer"
def msgNoWriter : Bytes := ascii "CSVProducer requires a writer"
def msgNilData : Bytes := ascii "nil data for CSVProducer"
def msgUnsupported : Bytes := ascii "unsupported"       -- canonicalised by the harness (the text holds an address)
def msgSink : Bytes := ascii "boom-sink"
def msgCwWrite : Bytes := ascii "boom-cw-write"
def msgCwFlush : Bytes := ascii "boom-cw-flush"
def msgReadFrom : Bytes := ascii "boom-readfrom"
def msgUnmarshal : Bytes := ascii "boom-unmarshal"
def msgWriteTo : Bytes := ascii "boom-writeto"
def msgMarshal : Bytes := ascii "boom-marshal"
def msgClosedPipe : Bytes := ascii "io: read/write on closed pipe"
def panicTypeOnZero : Bytes := ascii "reflect: call of reflect.Value.Type on zero Value"
def panicSetCap : Bytes := ascii "reflect: slice capacity out of range in SetCap"
def panicSetLen : Bytes := ascii "reflect: slice length out of range in SetLen"
def panicCopy : Bytes := ascii "reflect.Copy"
def panicUnknownOp : Bytes := ascii "model: reflect call not modelled"

/-! ## The standard CSV writer (`encoding/csv.Writer.Write`), byte for byte -/

/-- `validDelim` of encoding/csv. -/
def validDelim (r : Nat) : Bool :=
  r != 0 && r != 34 && r != 13 && r != 10 && (r < 0xD800 || (0xE000 ≤ r && r ≤ 0x10FFFF)) && r != 0xFFFD

/-- UTF-8 encoding of a valid rune. -/
def utf8 (r : Nat) : Bytes :=
  if r < 0x80 then [UInt8.ofNat r]
  else if r < 0x800 then [UInt8.ofNat (0xC0 + r / 64), UInt8.ofNat (0x80 + r % 64)]
  else if r < 0x10000 then
    [UInt8.ofNat (0xE0 + r / 4096), UInt8.ofNat (0x80 + r / 64 % 64), UInt8.ofNat (0x80 + r % 64)]
  else [UInt8.ofNat (0xF0 + r / 262144), UInt8.ofNat (0x80 + r / 4096 % 64),
        UInt8.ofNat (0x80 + r / 64 % 64), UInt8.ofNat (0x80 + r % 64)]

def isInfix (p : Bytes) : Bytes → Bool
  | [] => p.isEmpty
  | b :: s => p.isPrefixOf (b :: s) || isInfix p s

/-- `unicode.IsSpace` of the first rune of the field (White_Space code points, by their encodings). -/
def leadingSpace (f : Field) : Bool :=
  match f with
  | [] => false
  | b :: _ =>
    (b == 9 || b == 10 || b == 11 || b == 12 || b == 13 || b == 32) ||
    [[0xC2, 0x85], [0xC2, 0xA0], [0xE1, 0x9A, 0x80], [0xE2, 0x80, 0xA8], [0xE2, 0x80, 0xA9],
     [0xE2, 0x80, 0xAF], [0xE2, 0x81, 0x9F], [0xE3, 0x80, 0x80]].any (fun (p : Bytes) => p.isPrefixOf f) ||
    (match f with
     | 0xE2 :: 0x80 :: c :: _ => 0x80 ≤ c && c ≤ 0x8A
     | _ => false)

def fieldNeedsQuotes (w : WOpts) (f : Field) : Bool :=
  if f.isEmpty then false
  else if f == [92, 46] then true
  else if f.any (fun c => c == 10 || c == 13 || c == 34) then true
  else if isInfix (utf8 w.comma) f then true
  else leadingSpace f

def quoteBody (crlf : Bool) : Bytes → Bytes
  | [] => []
  | b :: r =>
    if b == 34 then 34 :: 34 :: quoteBody crlf r
    else if b == 13 then (if crlf then quoteBody crlf r else 13 :: quoteBody crlf r)
    else if b == 10 then (if crlf then 13 :: 10 :: quoteBody crlf r else 10 :: quoteBody crlf r)
    else b :: quoteBody crlf r

def encFieldCsv (w : WOpts) (f : Field) : Bytes :=
  if fieldNeedsQuotes w f then 34 :: (quoteBody w.crlf f ++ [34]) else f

def encFields (w : WOpts) : List Field → Bytes
  | [] => []
  | [f] => encFieldCsv w f
  | f :: g :: r => encFieldCsv w f ++ utf8 w.comma ++ encFields w (g :: r)

def eol (w : WOpts) : Bytes := if w.crlf then [13, 10] else [10]

def encRecord (w : WOpts) (r : Record) : Bytes := encFields w r ++ eol w

/-- What a standard CSV writer with options `w` emits for the records `rs`. -/
def stdEncode (w : WOpts) (rs : List Record) : Bytes := rs.flatMap (encRecord w)

/-! ## Heap of backing arrays: Go slices of strings -/

structure Slice where
  arr : Nat
  len : Nat
  cap : Nat
deriving DecidableEq, Repr

structure Heap where
  next : Nat
  cell : Nat → List Field

def Heap.empty : Heap := ⟨0, fun _ => []⟩

/-- `make([]string, len(v))` filled with `v`. -/
def Heap.alloc (h : Heap) (v : List Field) : Heap × Nat :=
  (⟨h.next + 1, fun i => if i = h.next then v else h.cell i⟩, h.next)

/-- overwrite the first `len v` cells of array `a` -/
def Heap.store (h : Heap) (a : Nat) (v : List Field) : Heap :=
  ⟨h.next, fun i => if i = a then v ++ (h.cell a).drop v.length else h.cell i⟩

def Heap.deref (h : Heap) (s : Slice) : Record := (h.cell s.arr).take s.len

/-- `csv.Reader` as far as allocation goes: `lastRecord` (none = nil). -/
structure RState where
  heap : Heap
  last : Option Slice

def freshRec (reuse : Bool) (rs : RState) (r : Record) : RState × Slice :=
  let s : Slice := ⟨rs.heap.next, r.length, r.length⟩
  (⟨(rs.heap.alloc r).1, if reuse then some s else none⟩, s)

/-- `Reader.Read` on the next record `r` of the event stream: with `ReuseRecord` the previous
slice's backing array is overwritten when its capacity suffices (`readRecord(r.lastRecord)`). -/
def readRec (reuse : Bool) (rs : RState) (r : Record) : RState × Slice :=
  match (if reuse then rs.last else none) with
  | none => freshRec reuse rs r
  | some l =>
    if l.cap < r.length then freshRec reuse rs r
    else
      let s : Slice := ⟨l.arr, r.length, l.cap⟩
      (⟨rs.heap.store l.arr r, some s⟩, s)

/-! ## The writers the code pipes into -/

inductive Wr where
  /-- `csv.Writer` over a sink; `fails`: the sink's Write returns an error -/
  | std (w : WOpts) (fails : Bool)
  /-- caller supplied CSVWriter: its `failAt`-th Write fails; `Error()` reports an error after Flush -/
  | custom (failAt : Option Nat) (flushErr : Bool)
  /-- the internal `csvRecordsWriter` -/
  | container
deriving DecidableEq, Repr

/-- `Write(record)` as the `nw`-th write; returns the slice the writer keeps. -/
def wWrite (clones : Bool) (wr : Wr) (h : Heap) (nw : Nat) (s : Slice) : Except Bytes (Heap × Slice) :=
  match wr with
  | .std w _ => if validDelim w.comma then .ok (h, s) else .error msgInvalidDelim
  | .custom failAt _ => if failAt = some nw then .error msgCwWrite else .ok (h, s)
  | .container =>
    if clones then .ok ((h.alloc (h.deref s)).1, ⟨h.next, s.len, s.len⟩) else .ok (h, s)

/-- `Flush(); return Error()` after `nw` successful writes -/
def wFinish (wr : Wr) (nw : Nat) : Option Bytes :=
  match wr with
  | .std _ fails => if fails && nw != 0 then some msgSink else none
  | .custom _ flushErr => if flushErr then some msgCwFlush else none
  | .container => none

structure PipeRes where
  err : Option Bytes
  /-- the records handed to `Write` successfully, by their value at that moment -/
  vals : List Record
  /-- the slices the container kept -/
  tbl : List Slice
  flushed : Bool
  heap : Heap

/-- the skipped-lines loop shared by pipeCSV and bufferedCSV; `none`: input exhausted -/
def skipLoop (reuse : Bool) : Nat → RState → List Record → RState × Option (List Record)
  | 0, rs, l => (rs, some l)
  | _ + 1, rs, [] => (rs, none)
  | k + 1, rs, r :: l => skipLoop reuse k (readRec reuse rs r).1 l

def pipeLoop (clones reuse : Bool) (wr : Wr) (t : Term) : RState → Nat → List Record → PipeRes
  | rs, nw, [] =>
    match t with
    | .eof => ⟨wFinish wr nw, [], [], true, rs.heap⟩
    | .err e => ⟨some e, [], [], false, rs.heap⟩
  | rs, nw, r :: more =>
    let rd := readRec reuse rs r
    match wWrite clones wr rd.1.heap nw rd.2 with
    | .error e => ⟨some e, [], [], false, rd.1.heap⟩
    | .ok (h, kept) =>
      let res := pipeLoop clones reuse wr t ⟨h, rd.1.last⟩ (nw + 1) more
      { res with vals := rd.1.heap.deref rd.2 :: res.vals, tbl := kept :: res.tbl }

def exhausted (t : Term) (h : Heap) : PipeRes :=
  match t with
  | .eof => ⟨none, [], [], false, h⟩       -- `return nil` without Flush
  | .err e => ⟨some e, [], [], false, h⟩

def pipeCSV (clones reuse : Bool) (wr : Wr) (skip : Nat) (ev : Events) : PipeRes :=
  match skipLoop reuse skip ⟨Heap.empty, none⟩ ev.recs with
  | (rs, none) => exhausted ev.term rs.heap
  | (rs, some rest) => pipeLoop clones reuse wr ev.term rs 0 rest

/-- `ReadAll` then `WriteAll` (always into a `csv.Writer`); `ReadAll` never reuses records. -/
def bufferedCSV (reuse : Bool) (w : WOpts) (fails : Bool) (skip : Nat) (ev : Events) : PipeRes :=
  match skipLoop reuse skip ⟨Heap.empty, none⟩ ev.recs with
  | (rs, none) => exhausted ev.term rs.heap
  | (rs, some rest) =>
    match ev.term with
    | .err e => ⟨some e, [], [], false, rs.heap⟩
    | .eof =>
      if rest.isEmpty then ⟨none, [], [], true, rs.heap⟩
      else if validDelim w.comma then ⟨wFinish (.std w fails) rest.length, rest, [], true, rs.heap⟩
      else ⟨some msgInvalidDelim, [], [], false, rs.heap⟩

def transfer (buffered clones reuse : Bool) (w : WOpts) (fails : Bool) (skip : Nat) (ev : Events) : PipeRes :=
  if buffered then bufferedCSV reuse w fails skip ev else pipeCSV clones reuse (.std w fails) skip ev

/-- bytes that reached the sink of a `csv.Writer` (small outputs: bufio holds everything until Flush) -/
def sinkBytes (w : WOpts) (fails : Bool) (p : PipeRes) : Bytes :=
  if p.flushed && !fails then stdEncode w p.vals else []

def resOf (e : Option Bytes) : Res :=
  match e with
  | none => .ok
  | some m => .err m

/-! ## The `*[][]string` destination: reflect.Value operations on a slice header -/

inductive Cell where
  | old (i : Nat)      -- i-th record the destination held before
  | zero               -- nil record (grown area / spare capacity)
  | new (s : Slice)    -- a record of the container
deriving DecidableEq, Repr

/-- slice header: backing array (its length is the capacity) and length -/
structure Tab where
  arr : List Cell
  len : Nat
deriving DecidableEq, Repr

def Tab.pre (len cap : Nat) : Tab := ⟨(List.range len).map Cell.old ++ List.replicate (cap - len) Cell.zero, len⟩

def Tab.visible (t : Tab) : List Cell := t.arr.take t.len

inductive TabOp where
  | setLen0 | setLenN | grow0 | growN | setCap0 | setCapN | copy | unknown
deriving DecidableEq, Repr

def TabOp.ofString : String → TabOp
  | "SetLen:0" => .setLen0
  | "SetLen:n" => .setLenN
  | "Grow:0" => .grow0
  | "Grow:n" => .growN
  | "SetCap:0" => .setCap0
  | "SetCap:n" => .setCapN
  | "Copy:n" => .copy
  | _ => .unknown

def tabSetLen (k : Nat) (t : Tab) : Except Bytes Tab :=
  if k > t.arr.length then .error panicSetLen else .ok ⟨t.arr, k⟩

/-- `Value.Grow(k)`: room for k more elements; a new backing array keeps the first `len` elements
(the exact new capacity is the runtime's business: any value ≥ len+k; `SetCap` follows) -/
def tabGrow (k : Nat) (t : Tab) : Except Bytes Tab :=
  if t.len + k ≤ t.arr.length then .ok t
  else .ok ⟨t.arr.take t.len ++ List.replicate k Cell.zero, t.len⟩

def tabSetCap (k : Nat) (t : Tab) : Except Bytes Tab :=
  if k < t.len || k > t.arr.length then .error panicSetCap else .ok ⟨t.arr.take k, t.len⟩

/-- `reflect.Copy(v, records)`; it panics unless both element types are identical -/
def tabCopy (elemOk : Bool) (src : List Slice) (t : Tab) : Except Bytes Tab :=
  if !elemOk then .error panicCopy
  else
    let m := min t.len src.length
    .ok ⟨(src.take m).map Cell.new ++ t.arr.drop m, t.len⟩

def tabStep (elemOk : Bool) (src : List Slice) (op : TabOp) (t : Tab) : Except Bytes Tab :=
  match op with
  | .setLen0 => tabSetLen 0 t
  | .setLenN => tabSetLen src.length t
  | .grow0 => tabGrow 0 t
  | .growN => tabGrow src.length t
  | .setCap0 => tabSetCap 0 t
  | .setCapN => tabSetCap src.length t
  | .copy => tabCopy elemOk src t
  | .unknown => .error panicUnknownOp

/-- the calls in source order; the first panic wins and leaves the table as it was then -/
def tabRun (elemOk : Bool) (src : List Slice) : List TabOp → Tab → Tab × Option Bytes
  | [], t => (t, none)
  | op :: ops, t =>
    match tabStep elemOk src op t with
    | .error m => (t, some m)
    | .ok t' => tabRun elemOk src ops t'

/-! ## Configuration read off the source by factgen -/

/-- clause of a dispatch: the five interface clauses, then the three reflect clauses -/
inductive Br where
  | csvPtr    -- *csv.Writer / *csv.Reader
  | csvIface  -- CSVWriter / CSVReader
  | io        -- io.Writer / io.Reader
  | xfer      -- io.ReaderFrom / io.WriterTo
  | bin       -- encoding.BinaryUnmarshaler / encoding.BinaryMarshaler
  | table | bytes | str
deriving DecidableEq, Repr

def Br.isCap : Br → Bool
  | .csvPtr | .csvIface | .io | .xfer | .bin => true
  | _ => false

def Br.ofLabel : String → Option Br
  | "*csv.Writer" | "*csv.Reader" => some .csvPtr
  | "CSVWriter" | "CSVReader" => some .csvIface
  | "io.Writer" | "io.Reader" => some .io
  | "io.ReaderFrom" | "io.WriterTo" => some .xfer
  | "encoding.BinaryUnmarshaler" | "encoding.BinaryMarshaler" => some .bin
  | "default:table" => some .table
  | "default:bytes" => some .bytes
  | "default:string" => some .str
  | _ => none

structure Case where
  br : Br
  applyR : Bool
  applyW : Bool
  buffered : Bool
deriving DecidableEq, Repr

def Case.ofFact (f : String × Bool × Bool × String) : Option Case :=
  (Br.ofLabel f.1).map fun b => ⟨b, f.2.1, f.2.2.1, f.2.2.2 == "bufferedCSV"⟩

structure Cfg where
  consCases : List Case
  prodCases : List Case
  consReaderOpts : Bool
  prodWriterOpts : Bool
  consNilGuard : Bool
  prodNilGuard : Bool
  consExact : Bool
  prodExact : Bool
  tableOps : List TabOp
  clones : Bool
  wtCloseWithErr : Bool
deriving DecidableEq, Repr

/-- the working tree, as factgen read it -/
def Cfg.repo : Cfg where
  consCases := Facts.csvConsumerCases.filterMap Case.ofFact
  prodCases := Facts.csvProducerCases.filterMap Case.ofFact
  consReaderOpts := Facts.csvConsumerReaderOpts
  prodWriterOpts := Facts.csvProducerWriterOpts
  consNilGuard := Facts.csvConsumerNilGuard
  prodNilGuard := Facts.csvProducerNilGuard
  consExact := Facts.csvConsumerTableExact
  prodExact := Facts.csvProducerTableExact
  tableOps := Facts.csvTableOps.map TabOp.ofString
  clones := Facts.csvContainerClones
  wtCloseWithErr := Facts.csvProducerPipeCloseWithError

/-- a type switch takes the first clause whose interface the value implements -/
def capCase (cases : List Case) (caps : List Br) : Option Case :=
  cases.find? fun c => c.br.isCap && caps.contains c.br

def shapeCase (cases : List Case) (b : Br) : Option Case :=
  cases.find? fun c => c.br == b

/-! ## What the codec is called with, what is observed afterwards -/

/-- value shapes that reach the default clause -/
inductive Shape where
  | tab       -- [][]string (consumer: *[][]string)
  | ntab      -- a named table type whose elements are []string
  | nrow      -- a table of a named row type
  | nstr      -- a table of rows of a named string type
  | bytes | str
  | nilPtr    -- typed nil pointer
  | nonPtr    -- consumer only: a table passed by value
  | other     -- an int
deriving DecidableEq, Repr

structure Dst where
  caps : List Br      -- interfaces the destination object implements ([] : a plain value)
  shape : Shape       -- plain values
  isNil : Bool        -- untyped nil
  len : Nat           -- table pre-state
  cap : Nat
  failAt : Option Nat -- CSVWriter object: number of the Write that fails
  fails : Bool        -- sink Write / CSVWriter.Error / ReadFrom / UnmarshalBinary fails
deriving DecidableEq, Repr

structure KIn where
  opts : Opts
  evOpt : Events      -- standard parse under the reader options
  evDef : Events      -- standard parse under csv.NewReader's defaults
  srcNil : Bool
  srcCloser : Bool
  dst : Dst
deriving DecidableEq, Repr

structure Out where
  res : Res
  sink : Option Bytes            -- bytes at a byte destination
  recs : Option (List Record)    -- records at a record destination (table content, CSVWriter calls)
  alias : Nat                    -- pairs of delivered records sharing a backing array
  srcClose : Nat
  dstClose : Nat
  flushes : Nat
  len : Nat
  cap : Nat
deriving DecidableEq, Repr

def Out.fail (r : Res) : Out := ⟨r, none, none, 0, 0, 0, 0, 0, 0⟩

def oldRecord (i : Nat) : Record := [ascii ("o" ++ toString i)]

def cellValue (h : Heap) : Cell → Record
  | .old i => oldRecord i
  | .zero => []
  | .new s => h.deref s

def cellArr : Cell → Option Nat
  | .new s => if s.len = 0 then none else some s.arr
  | _ => none

/-- number of pairs of delivered records sharing a backing array -/
def aliasPairs : List Cell → Nat
  | [] => 0
  | c :: cs =>
    (match cellArr c with
     | none => 0
     | some a => (cs.filter fun d => cellArr d == some a).length) + aliasPairs cs

/-! ## CSVConsumer -/

def dstPre (d : Dst) : Bytes := if d.len = 0 then [] else ascii "old"   -- pre-content of *[]byte / *string

/-- the destination as the caller built it, untouched, with result `r` -/
def Dst.idle (d : Dst) (r : Res) : Out :=
  if d.isNil then Out.fail r
  else if d.caps.contains .csvPtr then { Out.fail r with sink := some [] }
  else if d.caps.contains .csvIface then { Out.fail r with recs := some [] }
  else if !d.caps.isEmpty then { Out.fail r with sink := some [] }
  else match d.shape with
    | .tab | .ntab =>
      { Out.fail r with recs := some ((Tab.pre d.len d.cap).visible.map (cellValue Heap.empty)),
                        len := (Tab.pre d.len d.cap).len, cap := (Tab.pre d.len d.cap).arr.length }
    | .bytes | .str => { Out.fail r with sink := some (dstPre d) }
    | _ => Out.fail r

/-- the table clause: pipe into the container, then the reflect calls -/
def consumeTable (cfg : Cfg) (reuse : Bool) (skip : Nat) (ev : Events) (d : Dst) (elemOk : Bool) : Out :=
  let p := pipeCSV cfg.clones reuse .container skip ev
  match p.err with
  | some e => d.idle (.err e)
  | none =>
    let r := tabRun elemOk p.tbl cfg.tableOps (Tab.pre d.len d.cap)
    if elemOk then
      { res := (match r.2 with | none => .ok | some m => .panic m),
        sink := none, recs := some (r.1.visible.map (cellValue p.heap)), alias := aliasPairs r.1.visible,
        srcClose := 0, dstClose := 0, flushes := 0, len := r.1.len, cap := r.1.arr.length }
    else Out.fail (match r.2 with | none => .ok | some m => .panic m)

/-- a clause that encodes into a `csv.Writer` over the destination's own sink -/
def consumeStream (w : WOpts) (c : Case) (reuse : Bool) (skip : Nat) (ev : Events) (d : Dst) : Out :=
  let p := transfer c.buffered false reuse w d.fails skip ev
  { Out.fail (resOf p.err) with sink := some (sinkBytes w d.fails p) }

/-- a clause that pipes into the caller's CSVWriter -/
def consumeCustom (reuse : Bool) (skip : Nat) (ev : Events) (d : Dst) : Out :=
  let p := pipeCSV false reuse (.custom d.failAt d.fails) skip ev
  { Out.fail (resOf p.err) with recs := some p.vals, flushes := if p.flushed then 1 else 0 }

/-- a clause that encodes into a private buffer and hands the bytes over afterwards -/
def consumeBuffered (w : WOpts) (c : Case) (reuse : Bool) (skip : Nat) (ev : Events) (d : Dst)
    (handErr : Option Bytes) : Out :=
  let p := transfer c.buffered false reuse w false skip ev
  match p.err with
  | some e => d.idle (.err e)
  | none =>
    match (if d.fails then handErr else none) with
    | some e => d.idle (.err e)
    | none => { Out.fail .ok with sink := some (sinkBytes w false p) }

def consumeBody (cfg : Cfg) (x : KIn) : Out :=
  let ev := if cfg.consReaderOpts then x.evOpt else x.evDef
  let reuse := cfg.consReaderOpts && x.opts.reuse
  let skip := x.opts.skip
  let d := x.dst
  let wOf (c : Case) : WOpts := if c.applyW then effW x.opts else defaultW
  match capCase cfg.consCases d.caps with
  | some c =>
    match c.br with
    | .csvIface =>
      -- a *csv.Writer object also satisfies CSVWriter: it then encodes with its own (default) options
      if d.caps.contains .csvPtr then consumeStream (wOf c) c reuse skip ev d
      else consumeCustom reuse skip ev d
    | .xfer => consumeBuffered (wOf c) c reuse skip ev d (some msgReadFrom)
    | .bin => consumeBuffered (wOf c) c reuse skip ev d (some msgUnmarshal)
    | _ => consumeStream (wOf c) c reuse skip ev d
  | none =>
    match d.shape with
    | .nonPtr => d.idle (.err msgNotPointer)
    | .nilPtr => if cfg.consNilGuard then d.idle (.err msgNilDest) else d.idle (.panic panicTypeOnZero)
    | .other => d.idle (.err msgUnsupported)
    | .bytes =>
      match shapeCase cfg.consCases .bytes with
      | some c => consumeBuffered (wOf c) c reuse skip ev d none
      | none => d.idle (.err msgUnsupported)
    | .str =>
      match shapeCase cfg.consCases .str with
      | some c => consumeBuffered (wOf c) c reuse skip ev d none
      | none => d.idle (.err msgUnsupported)
    | sh =>
      -- tab, ntab, nrow, nstr
      let exactElem := sh == .tab || sh == .ntab
      match shapeCase cfg.consCases .table with
      | some _ =>
        if cfg.consExact && !exactElem then d.idle (.err msgUnsupported)
        else consumeTable cfg reuse skip ev d exactElem
      | none => d.idle (.err msgUnsupported)

def consume (cfg : Cfg) (x : KIn) : Out :=
  if x.srcNil then x.dst.idle (.err msgNoReader)
  else if x.dst.isNil then x.dst.idle (.err msgNilDest)
  else { consumeBody cfg x with srcClose := if x.opts.close && x.srcCloser then 1 else 0 }

/-! ## CSVProducer -/

structure Src where
  caps : List Br       -- interfaces of the source object
  closer : Bool        -- it also has Close() (io.ReadCloser when it reads)
  shape : Shape
  isNil : Bool
  fails : Bool         -- WriteTo (after writing everything) / MarshalBinary returns an error
deriving DecidableEq, Repr

structure PIn where
  opts : Opts
  evOpt : Events
  evDef : Events
  table : List Record   -- content of a record-table source
  src : Src
  sinkNil : Bool
  sinkFails : Bool
  sinkCloser : Bool
deriving DecidableEq, Repr

def produceStream (w : WOpts) (c : Case) (reuse : Bool) (skip : Nat) (ev : Events) (sinkFails : Bool) : Out :=
  let p := transfer c.buffered false reuse w sinkFails skip ev
  { Out.fail (resOf p.err) with sink := some (sinkBytes w sinkFails p) }

def produceBody (cfg : Cfg) (x : PIn) : Out :=
  let w := if cfg.prodWriterOpts then effW x.opts else defaultW
  let skip := x.opts.skip
  let s := x.src
  let evOf (c : Case) : Events := if c.applyR then x.evOpt else x.evDef
  let reuseOf (c : Case) : Bool := c.applyR && x.opts.reuse
  match capCase cfg.prodCases s.caps with
  | some c =>
    match c.br with
    | .csvIface =>
      -- the caller's reader carries its own configuration (the harness gives it the same options)
      produceStream w c x.opts.reuse skip x.evOpt x.sinkFails
    | .xfer =>
      -- errgroup keeps the first error. WriteTo's own failure arrives while pipeCSV is still busy; a
      -- parser's error and a WriteTo failure race (the generator does not combine them).
      -- When pipeCSV gives up before draining the pipe (a reader that refuses its delimiters never
      -- reads), the blocked WriteTo fails too: with `CloseWithError` it fails with the same error;
      -- with a plain Close it fails with io.ErrClosedPipe and the scheduler decides which error is
      -- reported — the model then takes the adverse choice.
      let o := produceStream w c (reuseOf c) skip (evOf c) x.sinkFails
      if s.fails && (evOf c).term == .eof then { o with res := .err msgWriteTo }
      else if !cfg.wtCloseWithErr && (evOf c).recs.isEmpty && (evOf c).term == .err msgInvalidDelim then
        { o with res := .err msgClosedPipe }
      else o
    | .bin =>
      if s.fails then { Out.fail (.err msgMarshal) with sink := some [] }
      else produceStream w c (reuseOf c) skip (evOf c) x.sinkFails
    | _ => produceStream w c (reuseOf c) skip (evOf c) x.sinkFails
  | none =>
    match s.shape with
    | .nilPtr =>
      if cfg.prodNilGuard then { Out.fail (.err msgNilData) with sink := some [] }
      else { Out.fail (.panic panicTypeOnZero) with sink := some [] }
    | .other | .nonPtr => { Out.fail (.err msgUnsupported) with sink := some [] }
    | .bytes =>
      match shapeCase cfg.prodCases .bytes with
      | some c => produceStream w c (reuseOf c) skip (evOf c) x.sinkFails
      | none => { Out.fail (.err msgUnsupported) with sink := some [] }
    | .str =>
      match shapeCase cfg.prodCases .str with
      | some c => produceStream w c (reuseOf c) skip (evOf c) x.sinkFails
      | none => { Out.fail (.err msgUnsupported) with sink := some [] }
    | sh =>
      let exactElem := sh == .tab || sh == .ntab
      match shapeCase cfg.prodCases .table with
      | some c =>
        if exactElem then produceStream w c false skip ⟨x.table, .eof⟩ x.sinkFails
        else if cfg.prodExact then { Out.fail (.err msgUnsupported) with sink := some [] }
        else { Out.fail (.panic panicCopy) with sink := some [] }
      | none => { Out.fail (.err msgUnsupported) with sink := some [] }

def produce (cfg : Cfg) (x : PIn) : Out :=
  if x.sinkNil then Out.fail (.err msgNoWriter)
  else if x.src.isNil then { Out.fail (.err msgNilData) with sink := some [] }
  else { produceBody cfg x with
         srcClose := if x.src.closer && x.src.caps.contains .io then 1 else 0,
         dstClose := if x.opts.close && x.sinkCloser then 1 else 0 }

/-! ## Spec — written from the property text

"For every supported source and destination kind … and every option set …, the records delivered
are exactly those a standard CSV parse of the input yields after dropping the skipped lines — same
count, order and field text — and all kinds agree with one another on the same input.  Malformed
input yields the parser's error instead of partial success, and no destination state or option
makes the codec panic or makes delivered records alias one another."

Readings.
 * "a standard CSV parse of the input" is the event stream `evOpt` (records, then eof or the
   parser's error) of `encoding/csv` under the reader options of the option set.
 * What must be delivered: `expected = drop skip records`.
 * A *record destination* (record table, caller's CSVWriter) holds delivered records as such: they
   must equal `expected` and no two may share a backing array.  A *byte destination* (CSV writer
   object, byte stream, ReaderFrom, BinaryUnmarshaler, byte slice, string) holds the records as
   CSV text: it must be exactly what a standard CSV writer with the writer options of the option
   set emits for `expected` (`stdEncode`; the separator and CRLF options act here).
 * The kind of a value is decided by the documented priority of the interfaces it implements.
 * Malformed input (the stream ends in an error): the call returns that very error.
 * When the environment is scripted to fail (failing sink / CSVWriter / ReadFrom / UnmarshalBinary /
   WriteTo / MarshalBinary, or a writer separator no CSV writer accepts) the property text is
   silent; demanded then: no panic, never success on malformed input, and success only together
   with a complete delivery.
 * Unsupported values (untyped or typed nil, non-pointer destination, tables of named row or
   string types, other types): an error, never a panic.
-/

def expected (ev : Events) (skip : Nat) : List Record := ev.recs.drop skip

inductive Kind where
  | bytes      -- delivered as CSV text
  | records    -- delivered as records
  | unsupported
deriving DecidableEq, Repr

/-- documented priority: *csv.Writer, CSVWriter, io.Writer, io.ReaderFrom, encoding.BinaryUnmarshaler,
then *[][]string, *[]byte, *string -/
def dstKind (d : Dst) : Kind :=
  if d.isNil then .unsupported
  else if d.caps.contains .csvPtr then .bytes
  else if d.caps.contains .csvIface then .records
  else if d.caps.contains .io || d.caps.contains .xfer || d.caps.contains .bin then .bytes
  else match d.shape with
    | .tab | .ntab => .records
    | .bytes | .str => .bytes
    | _ => .unsupported

/-- the environment of the call is scripted to fail somewhere -/
def dstEnvFails (o : Opts) (d : Dst) : Bool :=
  match dstKind d with
  | .records => d.caps.contains .csvIface && (d.failAt.isSome || d.fails)
  | .bytes => (d.fails && !d.caps.isEmpty) || !validDelim (effW o).comma
  | .unsupported => false

def deliveredOk (k : Kind) (w : WOpts) (exp : List Record) (o : Out) : Bool :=
  match k with
  | .records => o.recs == some exp && o.alias == 0
  | .bytes => o.sink == some (stdEncode w exp)
  | .unsupported => false

def specCore (k : Kind) (envFails : Bool) (w : WOpts) (ev : Events) (skip : Nat) (o : Out) : Bool :=
  !o.res.isPanic &&
  match k with
  | .unsupported => o.res.isErr
  | _ =>
    match ev.term with
    | .err e => if envFails then o.res.isErr else o.res == .err e
    | .eof =>
      (o.res != .ok || deliveredOk k w (expected ev skip) o) && (envFails || o.res == .ok)

def KSpec (x : KIn) (o : Out) : Bool :=
  if x.srcNil then o.res.isErr
  else specCore (dstKind x.dst) (dstEnvFails x.opts x.dst) (effW x.opts) x.evOpt x.opts.skip o

/-- documented priority: *csv.Reader, CSVReader, io.Reader, io.WriterTo, encoding.BinaryMarshaler,
then [][]string, []byte, string (or pointers to those); the producer's destination is a byte stream -/
def srcSupported (s : Src) : Bool :=
  !s.isNil &&
  (s.caps.any Br.isCap ||
   match s.shape with
   | .tab | .ntab | .bytes | .str => true
   | _ => false)

/-- a record-table source: its records are the parse -/
def srcIsTable (s : Src) : Bool :=
  !s.caps.any Br.isCap && (s.shape == .tab || s.shape == .ntab)

def srcEvents (x : PIn) : Events := if srcIsTable x.src then ⟨x.table, .eof⟩ else x.evOpt

def srcEnvFails (x : PIn) : Bool :=
  x.sinkFails || !validDelim (effW x.opts).comma ||
  (x.src.fails && !x.src.caps.contains .csvPtr && !x.src.caps.contains .csvIface && !x.src.caps.contains .io &&
    (x.src.caps.contains .xfer || x.src.caps.contains .bin))

def PSpec (x : PIn) (o : Out) : Bool :=
  if x.sinkNil then o.res.isErr
  else specCore (if srcSupported x.src then .bytes else .unsupported) (srcEnvFails x) (effW x.opts)
    (srcEvents x) x.opts.skip o

/-! ## Driver entry -/

def decRecord (s : String) : Option Record :=
  if s == "_" then some [] else (s.splitOn ",").mapM decField

def decRecords (s : String) : Option (List Record) :=
  if s == "." then some [] else (s.splitOn "|").mapM decRecord

def encRecords (rs : List Record) : String :=
  if rs.isEmpty then "." else "|".intercalate (rs.map fun r => if r.isEmpty then "_" else ",".intercalate (r.map Bytes.encField))

def decTerm (s : String) : Option Term :=
  if s == "eof" then some .eof
  else if s.startsWith "e:" then (decField (s.drop 2).toString).map Term.err else none

def decRes (s : String) : Option Res :=
  if s == "ok" then some .ok
  else if s.startsWith "e:" then (decField (s.drop 2).toString).map Res.err
  else if s.startsWith "panic:" then (decField (s.drop 6).toString).map Res.panic else none

def encRes : Res → String
  | .ok => "ok"
  | .err m => "e:" ++ Bytes.encField m
  | .panic m => "panic:" ++ Bytes.encField m

def decInts (s : String) : Option (List Int) := (s.splitOn ",").mapM String.toInt?

def decCap : String → Option Br
  | "csvptr" => some .csvPtr
  | "csviface" => some .csvIface
  | "io" => some .io
  | "xfer" => some .xfer
  | "bin" => some .bin
  | _ => none

def decCaps (s : String) : Option (List Br × Bool) :=
  if s == "-" then some ([], false)
  else
    let parts := s.splitOn "+"
    (parts.filter (· != "closer")).mapM decCap |>.map fun cs => (cs, parts.contains "closer")

/-- shape names of both sides; `nil` is the untyped nil -/
def decShape : String → Option (Shape × Bool)
  | "-" => some (.other, false)
  | "tab" | "ptab" => some (.tab, false)
  | "ntab" | "pntab" => some (.ntab, false)
  | "nrow" | "pnrow" => some (.nrow, false)
  | "nstr" | "pnstr" => some (.nstr, false)
  | "bytes" | "pbytes" => some (.bytes, false)
  | "str" | "pstr" => some (.str, false)
  | "nilptab" | "nilpstr" => some (.nilPtr, false)
  | "nonptr" => some (.nonPtr, false)
  | "int" | "pint" => some (.other, false)
  | "nil" => some (.other, true)
  | _ => none

def decOpts (s : String) : Option Opts :=
  match decInts s with
  | some [_, _, _, _, _, reuse, wc, crlf, skip, close] =>
    some ⟨reuse != 0, wc.toNat, crlf != 0, skip.toNat, close != 0⟩
  | _ => none

def decOut (res sink recs alias misc : String) : Option Out := do
  let r ← decRes res
  let sk ← if sink == "*" then some none else (decField sink).map some
  let rc ← if recs == "*" then some none else (decRecords recs).map some
  let al ← alias.toNat?
  match decInts misc with
  | some [a, b, c, d, e] => some ⟨r, sk, rc, al, a.toNat, b.toNat, c.toNat, d.toNat, e.toNat⟩
  | _ => none

def encOut (o : Out) : String :=
  s!"{encRes o.res};{match o.sink with | none => "*" | some b => Bytes.encField b};{match o.recs with | none => "*" | some r => encRecords r};{o.alias};{o.srcClose},{o.dstClose},{o.flushes},{o.len},{o.cap}"

/-- correspondence: everything observable; a panic is compared by its message prefix, and the
capacity left behind by an interrupted sequence of reflect calls is the runtime's choice -/
def outAgree (m o : Out) : Bool :=
  (match m.res, o.res with
   | .panic a, .panic b => a.isPrefixOf b
   | a, b => a == b) &&
  m.sink == o.sink && m.recs == o.recs && m.alias == o.alias && m.srcClose == o.srcClose &&
  m.dstClose == o.dstClose && m.flushes == o.flushes && m.len == o.len &&
  (m.res.isPanic || m.cap == o.cap)

/-- records that `encoding/csv` itself does not carry through Writer then Reader: a record that is
one empty field (or no field) is written as an empty line, and carriage returns inside fields are
rewritten.  Outside this class the re-parse of a byte destination must give the records back. -/
def rtSafe (rs : List Record) : Bool :=
  rs.all fun r => !(r.all List.isEmpty && r.length ≤ 1) && r.all fun f => !f.contains 13

def reparseOk (k : Kind) (w : WOpts) (exp : List Record) (o : Out) (reparse : String) : Bool :=
  if k == .bytes && o.res == .ok && validDelim w.comma && rtSafe exp then
    reparse == encRecords exp
  else true

def outcomeTag (o : Out) (t : Term) : String :=
  match o.res with
  | .ok => "ok"
  | .panic _ => "panic"
  | .err m => if t == .err m then "parse-error" else if m == msgUnsupported || m == msgNilDest || m == msgNilData || m == msgNotPointer || m == msgNoReader || m == msgNoWriter then "rejected" else "env-error"

def brName : Br → String
  | .csvPtr => "csvptr" | .csvIface => "csviface" | .io => "io" | .xfer => "xfer" | .bin => "bin"
  | .table => "table" | .bytes => "bytes" | .str => "string"

def shapeBr : Shape → String
  | .tab | .ntab => "table" | .nrow | .nstr => "namedelem" | .bytes => "bytes" | .str => "string"
  | .nilPtr => "nilptr" | .nonPtr => "nonptr" | .other => "other"

def run (ins outs : List String) : Verdict :=
  match ins, outs with
  | ["K", opts, _text, srcspec, dst], [eoR, eoT, edR, edT, res, sink, reparse, recs, alias, misc] =>
    match decOpts opts, decInts srcspec, dst.splitOn "/", decRecords eoR, decTerm eoT, decRecords edR, decTerm edT,
        decOut res sink recs alias misc with
    | some o, some [_, closer, srcNil], [caps, shape, len, cap, failAt, fails], some r1, some t1, some r2, some t2, some obs =>
      match decCaps caps, decShape shape, len.toNat?, cap.toNat?, failAt.toInt?, fails.toNat? with
      | some (cs, _), some (sh, isNil), some l, some c, some fa, some fl =>
        let d : Dst := ⟨cs, sh, isNil, l, c, if fa < 0 then none else some fa.toNat, fl != 0⟩
        let x : KIn := ⟨o, ⟨r1, t1⟩, ⟨r2, t2⟩, srcNil != 0, closer != 0, d⟩
        let m := consume Cfg.repo x
        let k := dstKind d
        let br := match capCase Cfg.repo.consCases d.caps with
          | some c => brName c.br
          | none => if isNil then "nil" else shapeBr sh
        let trivial := r1.isEmpty && t1 == .eof && l == 0
        let extra := (if o.reuse && br == "table" then "+reuse" else "") ++ (if sh == .tab && cs.isEmpty && l != 0 then (if l > (expected ⟨r1, t1⟩ o.skip).length then "+longer" else "+pre") else "")
        { agree := outAgree m obs,
          specOk := KSpec x obs && reparseOk k (effW o) (expected x.evOpt o.skip) obs reparse,
          tag := (if trivial then "~" else "") ++ s!"K:{br}:{outcomeTag obs t1}{extra}", model := encOut m }
      | _, _, _, _, _, _ => .bad "K dst"
    | _, _, _, _, _, _, _, _ => .bad "K fields"
  | ["P", opts, _text, table, src, sinkspec], [eoR, eoT, edR, edT, res, sink, reparse, recs, alias, misc] =>
    match decOpts opts, decRecords (if table == "*" then "." else table), src.splitOn "/", decInts sinkspec,
        decRecords eoR, decTerm eoT, decRecords edR, decTerm edT, decOut res sink recs alias misc with
    | some o, some tb, [caps, shape, fails, _failAfter], some [sinkFails, sinkCloser, sinkNil, _repeat], some r1, some t1, some r2, some t2, some obs =>
      match decCaps caps, decShape shape, fails.toNat? with
      | some (cs, closer), some (sh, isNil), some fl =>
        let s : Src := ⟨cs, closer, sh, isNil, fl != 0⟩
        let x : PIn := ⟨o, ⟨r1, t1⟩, ⟨r2, t2⟩, tb, s, sinkNil != 0, sinkFails != 0, sinkCloser != 0⟩
        let m := produce Cfg.repo x
        let ev := srcEvents x
        let br := match capCase Cfg.repo.prodCases s.caps with
          | some c => brName c.br
          | none => if isNil then "nil" else shapeBr sh
        let trivial := ev.recs.isEmpty && ev.term == .eof
        let k := if srcSupported s then Kind.bytes else Kind.unsupported
        { agree := outAgree m obs,
          specOk := PSpec x obs && reparseOk k (effW o) (expected ev o.skip) obs reparse,
          tag := (if trivial then "~" else "") ++ s!"P:{br}:{outcomeTag obs ev.term}", model := encOut m }
      | _, _, _ => .bad "P src"
    | _, _, _, _, _, _, _, _, _ => .bad "P fields"
  | _, [ "BADINPUT" ] => { agree := true, specOk := true, tag := "~badinput", model := "not a case" }
  | _, [ "PANIC", msg ] => { agree := false, specOk := false, tag := "panic", model := "harness panic: " ++ msg }
  | _, _ => .bad "C16 stream"

end RtVerif.C16
