import RtVerif.Base.Bytes
import RtVerif.Base.Num
import RtVerif.Base.Verdict
import RtVerif.Gen.Facts
/-
  C03 — Declared parameters are bound to exactly the value their text denotes, or 422.

  Model: transcription of `middleware/parameter.go` (`untypedParamBinder.Bind / readValue /
  bindValue / setFieldValue / setSliceFieldValue / setSliceDefault / typeForSchema /
  tryUnmarshaler`), of the per-parameter loop of `UntypedRequestBinder.Bind` (map target) with the
  call of the parameter validator, of `runtime.Values.GetOK`, `RouteParams.GetOK`, of
  `swag.SplitByFormat` / `swag.ConvertBool`, of `http.CanonicalHeaderKey` (ASCII) and — through
  `Base.Num` — of `strconv.ParseInt` and of the accept set of `strconv.ParseFloat`.

  `typeForSchema` and the kind switch of `setFieldValue` are NOT restated here: the model reads the
  tables `Facts.c03TypeTable` / `Facts.c03SetKinds` that factgen extracts from the Go source on every
  run. A (type, format) pair without entry is the `nil` type — the nil-pointer dereference in
  `UntypedRequestBinder.Bind` — and is an explicit `panic` outcome of the model.

  External (parameters of the model, given per case by the harness as the graph of the external
  function on the texts of the case; never proved): `strfmt` text unmarshalling and format validation.
  Hand-modelled from go-openapi/validate (checked by correspondence only): the required-string rule of
  `stringValidator`, min/max, enum, length and item-count validations.
-/
namespace RtVerif.C03
open RtVerif Bytes

/-! ## Declarations -/

inductive Loc where
  | query | header | path | form | mform
deriving Repr, DecidableEq, BEq

/-- The Go type a declaration is bound to (`reflect.Kind` of the target), as far as binding cares. -/
inductive SKind where
  | bool
  | int (w : Nat)
  | float (w : Nat)
  | str
  /-- a type registered in the `strfmt` registry; `named = true` when it is a named string type -/
  | reg (named : Bool) (goName : String)
  /-- a kind outside the `case` labels of `setFieldValue` (file, map, slice of slice, …) -/
  | other (goName : String)
deriving Repr, DecidableEq, BEq

inductive Kind where
  | scalar (k : SKind)
  | slice (k : SKind)
deriving Repr, DecidableEq, BEq

inductive DefScalar where
  | int (v : Int)
  | num (text : Bytes)      -- a JSON number literal
  | str (s : Bytes)
  | bool (b : Bool)
deriving Repr, DecidableEq, BEq

inductive Default where
  | scalar (d : DefScalar)
  | arr (items : List DefScalar)
deriving Repr, DecidableEq, BEq

inductive Validation where
  | max (v : Int) | min (v : Int)
  | enumS (xs : List Bytes) | enumI (xs : List Int)
  | maxLength (n : Nat) | minLength (n : Nat)
  | maxItems (n : Nat) | minItems (n : Nat) | unique
deriving Repr, DecidableEq, BEq

/-- the graph of the external `strfmt` functions on the candidate texts of a case:
text ↦ (result of `UnmarshalText`: rendering of the value, `none` = error; `Validates(format, text)`) -/
structure Ext where
  named : Bool
  goName : String
  graph : List (Bytes × Option Bytes × Bool)
deriving Repr

structure Decl where
  name : Bytes
  loc : Loc
  ty : String
  format : String
  itemsTy : String
  itemsFormat : String
  cf : String                 -- collectionFormat as spelled ("" when not declared)
  required : Bool
  allowEmpty : Bool
  default : Option Default
  valid : List Validation
  ext : Option Ext            -- `some` iff the (items) format is registered in the strfmt registry
deriving Repr

/-- What the client sent under one key. `values = none`: the key is not sent. -/
structure Req where
  key : Bytes
  values : Option (List Bytes)
deriving Repr

/-! ## Values and outcomes -/

inductive Scalar where
  | int (w : Nat) (v : Int)
  | bool (b : Bool)
  | str (s : Bytes)
  /-- IEEE bit pattern; `none`: a finite value the model does not compute -/
  | float (w : Nat) (bits : Option Nat)
  | reg (goName : String) (rendering : Bytes)
deriving Repr, DecidableEq, BEq

inductive Val where
  | scalar (s : Scalar)
  | list (tag : String) (items : List Scalar)
deriving Repr, DecidableEq, BEq

inductive BindOut where
  | value (v : Val)
  /-- status 422; the message names the parameter; `code` is the go-openapi error code -/
  | e422 (code : Nat)
  /-- another client error (415 for a form parameter without form content type, …) -/
  | e4xx (status : Nat)
  | panic (why : String)
deriving Repr, DecidableEq, BEq

/-! ## typeForSchema (table regenerated from the source) -/

def skindOfGo (g : String) : SKind :=
  if g == "bool" then .bool
  else if g == "int8" then .int 8 else if g == "int16" then .int 16
  else if g == "int32" then .int 32 else if g == "int64" then .int 64
  else if g == "float32" then .float 32 else if g == "float64" then .float 64
  else if g == "string" then .str
  else .other g

/-- the `reflect.Kind` name `setFieldValue` switches on -/
def SKind.reflectName : SKind → String
  | .bool => "Bool"
  | .int 8 => "Int8" | .int 16 => "Int16" | .int 32 => "Int32" | .int _ => "Int64"
  | .float 32 => "Float32" | .float _ => "Float64"
  | .str => "String"
  | .reg _ n => n
  | .other n => n

/-- is the kind one of the `case` labels of `setFieldValue`'s `switch target.Kind()` -/
def SKind.handled (k : SKind) : Bool := Facts.c03SetKinds.contains k.reflectName

/-- look (type, format) up: exact format first, then the `default:` arm ("*") of that type -/
def lookupTable (tbl : List (String × String × String)) (ty fmt : String) : Option String :=
  match tbl.find? (fun e => e.1 == ty && e.2.1 == fmt) with
  | some e => some e.2.2
  | none => (tbl.find? (fun e => e.1 == ty && e.2.1 == "*")).map (·.2.2)

/-- `typeForSchema` for a non-array type. `none` is Go's `nil` type. -/
def scalarKind (ext : Option Ext) (ty fmt : String) : Option SKind :=
  match lookupTable Facts.c03TypeTable ty fmt with
  | none => none
  | some g =>
    if g == "registry|string" then
      match ext with
      | some e => some (.reg e.named e.goName)
      | none => some .str
    else some (skindOfGo g)

def typeForSchema (d : Decl) : Option Kind :=
  if d.ty == "array" then
    match lookupTable Facts.c03TypeTable "array" "*" with
    | none => none
    | some _ => (scalarKind d.ext d.itemsTy d.itemsFormat).map .slice
  else (scalarKind d.ext d.ty d.format).map .scalar

/-! ## Looking the texts up (`GetOK` per location) -/

def isTokenChar (b : UInt8) : Bool :=
  -- net/textproto `validHeaderFieldByte`
  (48 ≤ b && b ≤ 57) || (65 ≤ b && b ≤ 90) || (97 ≤ b && b ≤ 122) ||
  b == 33 || b == 35 || b == 36 || b == 37 || b == 38 || b == 39 || b == 42 || b == 43 ||
  b == 45 || b == 46 || b == 94 || b == 95 || b == 96 || b == 124 || b == 126

def canonLoop : Bool → Bytes → Bytes
  | _, [] => []
  | up, c :: r => (if up then toUpperB c else toLowerB c) :: canonLoop (c == 45) r

/-- `http.CanonicalHeaderKey` (`textproto.CanonicalMIMEHeaderKey`): a key with a byte outside the
token alphabet is returned unchanged. -/
def canonHeader (s : Bytes) : Bytes := if s.all isTokenChar then canonLoop true s else s

/-- the key under which the request's map holds what the client sent under `k` -/
def storedKey (loc : Loc) (k : Bytes) : Bytes :=
  match loc with
  | .header => canonHeader k     -- net/http canonicalises header names when it reads the request
  | _ => k

/-- the key the binder asks the map for -/
def lookupKey (loc : Loc) (name : Bytes) : Bytes :=
  match loc with
  | .header => if Facts.c03HeaderLookupCanonical then canonHeader name else name
  | _ => name

/-- `GetOK`: (values, hasKey, hasValue). Route parameters hold one value per name (first match). -/
def getOK (d : Decl) (r : Req) : List Bytes × Bool × Bool :=
  match r.values with
  | none => ([], false, false)
  | some vs =>
    if storedKey d.loc r.key == lookupKey d.loc d.name then
      match d.loc with
      | .path =>
        match vs with
        | [] => ([], false, false)
        | v :: _ => ([v], true, !v.isEmpty)
      | _ => (vs, true, !vs.isEmpty)
    else ([], false, false)

/-! ## swag.SplitByFormat -/

/-- ASCII white space as `strings.TrimSpace` sees it -/
def isSpaceB (b : UInt8) : Bool := b == 32 || (9 ≤ b && b ≤ 13)

def trimLeft (s : Bytes) : Bytes := s.dropWhile isSpaceB
def trimSpace (s : Bytes) : Bytes := (trimLeft (trimLeft s).reverse).reverse

def sepOf (cf : String) : Option UInt8 :=
  if cf == "ssv" then some 32
  else if cf == "tsv" then some 9
  else if cf == "pipes" then some 124
  else if cf == "multi" then none
  else some 44

/-- the `for _, s := range strings.Split(data, sep)` loop -/
def splitLoop : List Bytes → List Bytes
  | [] => []
  | s :: r => if (trimSpace s).isEmpty then splitLoop r else trimSpace s :: splitLoop r

def splitByFormat (data : Bytes) (cf : String) : List Bytes :=
  if data.isEmpty then []
  else match sepOf cf with
    | none => []
    | some sep => splitLoop (splitByte sep data)

/-! ## Converting one text -/

def trueSet : List Bytes :=
  -- "true", "1", "yes", "ok", "y", "on", "selected", "checked", "t", "enabled"
  [[116, 114, 117, 101], [49], [121, 101, 115], [111, 107], [121], [111, 110],
   [115, 101, 108, 101, 99, 116, 101, 100], [99, 104, 101, 99, 107, 101, 100], [116],
   [101, 110, 97, 98, 108, 101, 100]]

/-- `swag.ConvertBool`: never fails -/
def convertBool (s : Bytes) : Bool := trueSet.contains (toLower s)

def extLookup (e : Option Ext) (t : Bytes) : Option (Option Bytes × Bool) :=
  match e with
  | none => none
  | some e => (e.graph.find? (fun g => g.1 == t)).map (·.2)

/-! ### floats: accept set from `Base.Num`, value by exact rounding (hand model, differential only) -/

/-- round the positive rational `n/d` to a binary float with `mb` mantissa bits (without the hidden
bit) and minimal normal exponent `emin` (= -1022 / -126); result `(m, e)` meaning `m · 2^e`, with
round-half-even. -/
def roundPos (n d mb : Nat) (emin : Int) : Nat × Int :=
  -- e0 ≈ floor(log2 (n/d)), within one
  let e0 : Int := (Nat.log2 n : Int) - (Nat.log2 d : Int)
  let scaled (e : Int) : Nat × Nat :=   -- n/d / 2^e as a fraction
    if e ≥ 0 then (n, d * 2 ^ e.toNat) else (n * 2 ^ (-e).toNat, d)
  -- fix e so that 2^e ≤ n/d < 2^(e+1)
  let e1 : Int := if (scaled e0).1 < (scaled e0).2 then e0 - 1 else e0
  let e2 : Int := if (scaled (e1 + 1)).1 ≥ (scaled (e1 + 1)).2 then e1 + 1 else e1
  let e : Int := if e2 < emin then emin else e2
  -- quantum 2^(e - mb)
  let q := e - (mb : Int)
  let (a, b) := scaled q
  let m := a / b
  let rem := a % b
  let m' := if 2 * rem > b || (2 * rem == b && m % 2 == 1) then m + 1 else m
  (m', q)

/-- bits of the float `m · 2^q` produced by `roundPos` (`m ≤ 2^(mb+1)`), or `none` on overflow -/
def packFloat (neg : Bool) (m : Nat) (q : Int) (mb eb : Nat) : Option Nat :=
  let bias : Int := 2 ^ (eb - 1) - 1
  let sign := if neg then 2 ^ (mb + eb) else 0
  if m == 0 then some sign
  else
    let (m, q) := if m == 2 ^ (mb + 1) then (2 ^ mb, q + 1) else (m, q)
    if m < 2 ^ mb then some (sign + m)     -- subnormal (q = emin - mb)
    else
      let e := q + mb + bias               -- biased exponent
      if e ≥ 2 ^ eb - 1 then none
      else some (sign + 2 ^ mb * e.toNat + (m - 2 ^ mb))

/-- the float64 nearest to the exact value, `none` = out of range (`ErrRange`) -/
def toFloat64 (x : Num.Exact) : Option Nat :=
  if x.mant == 0 then packFloat x.neg 0 0 52 11
  else
    let base : Nat := if x.hex then 2 else 10
    let digits := Nat.log2 x.mant / 3 + 1      -- ≥ number of decimal digits
    -- far outside the representable range: decided without building the power
    if x.exp > 5000 then none
    else if x.exp + (if x.hex then (Nat.log2 x.mant : Int) + 1 else (digits : Int)) < -5000 then
      packFloat x.neg 0 0 52 11
    else
      let (n, d) : Nat × Nat :=
        if x.exp ≥ 0 then (x.mant * base ^ x.exp.toNat, 1) else (x.mant, base ^ (-x.exp).toNat)
      let (m, q) := roundPos n d 52 (-1022)
      packFloat x.neg m q 52 11

/-- exact value `(neg, n, d)` of a finite float64 bit pattern -/
def ratOfBits64 (bits : Nat) : Bool × Nat × Nat :=
  let neg : Bool := decide (bits ≥ 2 ^ 63)
  let b : Nat := bits % 2 ^ 63
  let e : Nat := b / 2 ^ 52
  let f : Nat := b % 2 ^ 52
  let (m, q) : Nat × Int := if e == 0 then (f, -1074) else (2 ^ 52 + f, (e : Int) - 1075)
  if q ≥ 0 then (neg, m * 2 ^ q.toNat, 1) else (neg, m, 2 ^ (-q).toNat)

/-- `float32(f)` for a finite float64 `f`; `none` when the result is not finite -/
def toFloat32 (bits64 : Nat) : Option Nat :=
  let (neg, n, d) := ratOfBits64 bits64
  if n == 0 then packFloat neg 0 0 23 8
  else
    let (m, q) := roundPos n d 23 (-126)
    packFloat neg m q 23 8

def maxFloat32Bits64 : Nat := 0x47EFFFFFE0000000

/-- `reflect.Value.OverflowFloat` for a float32 target, on a finite float64 -/
def overflowFloat32 (bits64 : Nat) : Bool := bits64 % 2 ^ 63 > maxFloat32Bits64

inductive FloatRes where
  | ok (bits : Nat)
  | reject
deriving Repr, DecidableEq

/-- `strconv.ParseFloat(text, 64)`, then `OverflowFloat` and the conversion for a float32 target -/
def parseFloatFor (w : Nat) (text : Bytes) : FloatRes :=
  match Num.floatLex text with
  | .bad => .reject
  | .special (.inf neg) =>
    -- ±Inf is not an overflow for `OverflowFloat` (`x <= MaxFloat64` fails)
    if w == 32 then .ok (if neg then 0xFF800000 else 0x7F800000)
    else .ok (if neg then 0xFFF0000000000000 else 0x7FF0000000000000)
  | .special .nan => if w == 32 then .ok 0x7FC00000 else .ok 0x7FF8000000000001
  | .finite x =>
    match toFloat64 x with
    | none => .reject
    | some b64 =>
      if w == 32 then
        if overflowFloat32 b64 then .reject
        else match toFloat32 b64 with
          | some b32 => .ok b32
          | none => .reject
      else .ok b64

/-! ### one scalar text -/

inductive ItemOut where
  | ok (v : Scalar)
  | err (code : Nat)
deriving Repr, DecidableEq

def zeroScalar : SKind → Scalar
  | .bool => .bool false
  | .int w => .int w 0
  | .float w => .float w (some 0)
  | .str => .str []
  | .reg _ n => .reg n []
  | .other n => .reg n []

/-- a registered format: the text goes through the type's `UnmarshalText` (external) -/
def unmarshalReg (ext : Option Ext) (n : String) (text : Bytes) : ItemOut :=
  match extLookup ext text with
  | some (some r, _) => .ok (.reg n r)
  | _ => .err 601

/-- `strconv.ParseInt(text, 10, 64)` then `target.OverflowInt` -/
def convertInt (w : Nat) (text : Bytes) : ItemOut :=
  match Num.parseInt10 64 text with
  | .error _ => .err 601
  | .ok v => if Num.fitsInt w v then .ok (.int w v) else .err 601

/-- `strconv.ParseFloat(text, 64)` then `target.OverflowFloat` -/
def convertFloat (w : Nat) (text : Bytes) : ItemOut :=
  match parseFloatFor w text with
  | .ok b => .ok (.float w (some b))
  | .reject => .err 601

/-- the value a well-typed declared default denotes for a kind (`defVal.Convert…` in the code) -/
def defaultScalar (ext : Option Ext) (k : SKind) (d : DefScalar) : ItemOut :=
  match k, d with
  | .int w, .int v => .ok (.int w v)
  | .bool, .bool b => .ok (.bool b)
  | .str, .str s => .ok (.str s)
  | .float w, .int v => convertFloat w (Num.formatInt v)
  | .float w, .num t => convertFloat w t
  -- (fixed code) the default's text goes through the type's `UnmarshalText`
  | .reg _ n, .str s => unmarshalReg ext n s
  | _, _ => .err 0       -- ill-typed default: outside `Decl.wf`

/-- `setFieldValue` on a NON-EMPTY text -/
def convertText (ext : Option Ext) (k : SKind) (text : Bytes) : ItemOut :=
  match k with
  | .reg _ n => unmarshalReg ext n text
  | .bool => .ok (.bool (convertBool text))
  | .int w => convertInt w text
  | .float w => convertFloat w text
  | .str => .ok (.str text)
  | .other _ => .err 601

/-- the first test of `setFieldValue` -/
def requiredFails (d : Decl) (hasKey : Bool) (text : Bytes) : Bool :=
  (!hasKey || (!d.allowEmpty && text.isEmpty)) && d.required && d.default.isNone

def SKind.isReg : SKind → Bool
  | .reg .. => true
  | _ => false

/-- the value bound for the EMPTY text when there is no default: the zero value; a registered type
unmarshals the empty text (`tryUnmarshaler`) -/
def emptyNoDefault (ext : Option Ext) (k : SKind) : ItemOut :=
  match k with
  | .reg _ n => unmarshalReg ext n []
  | _ => .ok (zeroScalar k)

def emptyValue (ext : Option Ext) (k : SKind) (dflt : Option DefScalar) : ItemOut :=
  match dflt with
  | some dv => defaultScalar ext k dv
  | none => emptyNoDefault ext k

/-- `setFieldValue(target, defaultValue, data, hasKey)` for a settable target -/
def setFieldValue (d : Decl) (k : SKind) (dflt : Option DefScalar) (text : Bytes) (hasKey : Bool) : ItemOut :=
  if requiredFails d hasKey text then .err 602
  else if !k.handled && !k.isReg then .err 601
  else if text.isEmpty then emptyValue d.ext k dflt
  else convertText d.ext k text

/-! ## setSliceFieldValue -/

def sliceRequiredFails (d : Decl) (hasKey : Bool) (data : List Bytes) : Bool :=
  (!hasKey || (!d.allowEmpty && (data.isEmpty || data == [[]]))) && d.required && d.default.isNone

def collect : List ItemOut → Except Nat (List Scalar)
  | [] => .ok []
  | .err c :: _ => .error c
  | .ok v :: r =>
    match collect r with
    | .ok vs => .ok (v :: vs)
    | .error c => .error c

def tagOf : SKind → String
  | .bool => "b"
  | .int w => s!"i{w}"
  | .float w => s!"f{w}"
  | .str => "s"
  | .reg _ n => "x" ++ n
  | .other n => "?" ++ n

def listOut (k : SKind) (l : List ItemOut) : BindOut :=
  match collect l with
  | .ok vs => .value (.list (tagOf k) vs)
  | .error c => .e422 c

/-- `setSliceDefault` / the zero slice -/
def sliceDefault (d : Decl) (k : SKind) : BindOut :=
  match d.default with
  -- setSliceDefault: every item through `setFieldValue(elem, item, "", true)`
  | some (.arr items) => listOut k (items.map fun it => setFieldValue d k (some it) [] true)
  | some (.scalar _) => .e422 601
  | none => .value (.list (tagOf k) [])

def setSliceFieldValue (d : Decl) (k : SKind) (data : List Bytes) (hasKey : Bool) : BindOut :=
  if sliceRequiredFails d hasKey data then .e422 602
  else if data.isEmpty then sliceDefault d k
  else listOut k (data.map fun t => setFieldValue d k none t hasKey)

/-! ## The parameter validator (hand model of go-openapi/validate on the bound value) -/

def scalarInt? : Scalar → Option Int
  | .int _ v => some v
  | _ => none

def validateScalar (vs : List Validation) (v : Scalar) : Option Nat :=
  -- stringValidator: maxLength, minLength; numberValidator: minimum then maximum; common: enum
  match v with
  | .str s =>
    match vs.find? (fun x => match x with | .maxLength n => s.length > n | _ => false) with
    | some _ => some 603
    | none =>
      match vs.find? (fun x => match x with | .minLength n => s.length < n | _ => false) with
      | some _ => some 604
      | none =>
        match vs.find? (fun x => match x with | .enumS xs => !xs.contains s | _ => false) with
        | some _ => some 606
        | none => none
  | .int _ i =>
    match vs.find? (fun x => match x with | .min m => i < m | _ => false) with
    | some _ => some 609
    | none =>
      match vs.find? (fun x => match x with | .max m => i > m | _ => false) with
      | some _ => some 608
      | none =>
        match vs.find? (fun x => match x with | .enumI xs => !xs.contains i | _ => false) with
        | some _ => some 606
        | none => none
  | _ => none

/-- equality as the uniqueness validation sees it (`reflect.DeepEqual` on the bound items, i.e. Go's `==`
on floats): `-0` and `+0` are the same number, a NaN equals nothing — not even itself; everything else
by value. -/
def Scalar.sameValue : Scalar → Scalar → Bool
  | .float w (some a), .float w' (some b) =>
    let expAll := if w == 32 then 0x7F800000 else 0x7FF0000000000000
    let signBit := if w == 32 then 0x80000000 else 0x8000000000000000
    let mag (x : Nat) := x % signBit
    let isNaN (x : Nat) := decide (mag x > expAll)
    w == w' && !isNaN a && !isNaN b && (a == b || (mag a == 0 && mag b == 0))
  | x, y => x == y

def hasDup : List Scalar → Bool
  | [] => false
  | x :: r => r.any (Scalar.sameValue x) || hasDup r

def validateList (vs : List Validation) (items : List Scalar) : Option Nat :=
  match vs.find? (fun x => match x with | .minItems n => items.length < n | _ => false) with
  | some _ => some 612
  | none =>
    match vs.find? (fun x => match x with | .maxItems n => items.length > n | _ => false) with
    | some _ => some 611
    | none => if vs.contains .unique && hasDup items then some 610 else none

/-- `stringValidator`: `Required && !AllowEmptyValue && (Default == nil || Default == "")` and the
string is empty -/
def strRule (d : Decl) (s : Bytes) : Bool :=
  d.required && !d.allowEmpty && (d.default.isNone || d.default == some (.scalar (.str []))) && s.isEmpty

/-- the format validator on the text of a named string format (external `Validates`) -/
def formatRejects (ext : Option Ext) (r : Bytes) : Bool :=
  match ext with
  | some e =>
    e.named && (match extLookup ext r with
      | some (_, true) => false
      | _ => true)
  | none => false

def isNamed (ext : Option Ext) : Bool :=
  match ext with
  | some e => e.named
  | none => false

/-- `binder.validator.Validate(validatedValue(target))` -/
def validate (d : Decl) (v : Val) : Option Nat :=
  match v with
  | .scalar (.str s) => if strRule d s then some 602 else validateScalar d.valid (.str s)
  | .scalar (.reg _ r) =>
    -- named string formats are validated as their text: string validator, then format validator
    if isNamed d.ext && strRule d r then some 602
    else if formatRejects d.ext r then some 601 else none
  | .scalar s => validateScalar d.valid s
  | .list _ items => validateList d.valid items

/-! ## bind -/

def allowsMulti (l : Loc) : Bool :=
  match l with
  | .query | .form | .mform => true
  | _ => false

def lastOr (l : List Bytes) : Bytes := l.getLast?.getD []

def scalarDefault (d : Decl) : Option DefScalar :=
  match d.default with
  | some (.scalar x) => some x
  | _ => none

def itemOut : ItemOut → BindOut
  | .ok v => .value (.scalar v)
  | .err c => .e422 c

def bindScalar (d : Decl) (r : Req) (k : SKind) : BindOut :=
  itemOut (setFieldValue d k (scalarDefault d) (lastOr (getOK d r).1) (getOK d r).2.1)

def bindSlice (d : Decl) (r : Req) (k : SKind) : BindOut :=
  if d.cf == "multi" then
    if !allowsMulti d.loc then .e422 601     -- errors.InvalidCollectionFormat
    else setSliceFieldValue d k (getOK d r).1 (getOK d r).2.1
  else if !(getOK d r).2.2 then setSliceFieldValue d k [] (getOK d r).2.1
  else setSliceFieldValue d k (splitByFormat (lastOr (getOK d r).1) d.cf) (getOK d r).2.1

/-- `untypedParamBinder.Bind` for one non-body parameter into a map target. -/
def bindRaw (d : Decl) (r : Req) : BindOut :=
  match typeForSchema d with
  | none => .panic "nil type: typeForSchema has no entry; param.Schema is nil"
  | some (.scalar k) => bindScalar d r k
  | some (.slice k) => bindSlice d r k

/-- then the validator -/
def validated (d : Decl) (o : BindOut) : BindOut :=
  match o with
  | .value v =>
    (match validate d v with
    | some c => .e422 c
    | none => .value v)
  | o => o

def bind (d : Decl) (r : Req) : BindOut := validated d (bindRaw d r)

/-! ## Spec (from the property text, not from the code)

"the handler receives for that parameter exactly the value its declared type denotes for the text the
client sent: the last occurrence for scalars, the split or repeated items for arrays, the declared
default when the parameter is absent or empty, looked up by the declared name under the rules of its
location (header names case-insensitively). If the text is not a valid in-range literal of the declared
type, a required parameter is missing, or a declared validation fails, the answer is 422 naming the
parameter and the handler does not run; binding never panics for any declaration the description
language allows."

Readings (each is the least demanding one that is still faithful to the text):
* R1 an absent (or empty) optional parameter without default is bound to the zero value of its type
  (the text fixes no value; an untyped handler always finds an entry in its map);
* R2 `allowEmptyValue` makes the empty text acceptable for a required parameter: it then counts as
  "empty" and yields the default / zero value;
* R3 array items are the pieces between separators, trimmed of white space, empty pieces dropped
  (swagger's csv/ssv/tsv/pipes); `multi` is only meaningful in query/formData — elsewhere the
  declaration is not one the description language allows and only "no panic, no handler" is demanded;
* R4 boolean literals are swag's truthy words and their falsy counterparts, case-insensitively;
* R5 number literals are decimal literals `[+-]?(d+(.d*)?|.d+)([eE][+-]?d+)?`; the value is the nearest
  float of the declared width (computed by the hand model `parseFloatFor`, not proved);
* R6 declared validations are judged on the bound value; when that value is the zero value bound for an
  absent optional parameter (R1) the text does not say whether validations apply: both outcomes are
  accepted (flagged in the evidence, see `Expect.either`);
* R8 with `multi` every occurrence is an item; an empty occurrence is an empty item (the zero value of the
  item type; a missing required value when the parameter is required without allowEmptyValue/default);
  the array counts as absent only when there is no occurrence at all;
* R7 a required string parameter whose declared default is the empty string: "default when absent" and
  "required parameter is missing" conflict; both outcomes are accepted.
-/

/-- the declared type read as the property text reads it -/
def specSKind (ext : Option Ext) (ty fmt : String) : Option SKind :=
  if ty == "boolean" then some .bool
  else if ty == "integer" then
    some (.int (if fmt == "int8" then 8 else if fmt == "int16" then 16 else if fmt == "int32" then 32 else 64))
  else if ty == "number" then some (.float (if fmt == "float" then 32 else 64))
  else if ty == "string" then
    match ext with
    | some e => some (.reg e.named e.goName)
    | none => some .str
  else none

def specKind (d : Decl) : Option Kind :=
  if d.ty == "array" then (specSKind d.ext d.itemsTy d.itemsFormat).map .slice
  else (specSKind d.ext d.ty d.format).map .scalar

/-- the texts sent for the parameter, by the rules of its location -/
def specTexts (d : Decl) (r : Req) : Option (List Bytes) :=
  match r.values with
  | none => none
  | some vs =>
    let same := match d.loc with
      | .header => equalFold d.name r.key
      | _ => d.name == r.key
    if same then some vs else none

def falseSet : List Bytes :=
  -- "false", "0", "no", "ko", "n", "off", "unselected", "unchecked", "f", "disabled"
  [[102, 97, 108, 115, 101], [48], [110, 111], [107, 111], [110], [111, 102, 102],
   [117, 110, 115, 101, 108, 101, 99, 116, 101, 100], [117, 110, 99, 104, 101, 99, 107, 101, 100], [102],
   [100, 105, 115, 97, 98, 108, 101, 100]]

def digits? (ds : Bytes) : Option Nat :=
  if !ds.isEmpty && ds.all Num.isDigit then some (Num.natOfDigits ds) else none

/-- `[+-]?[0-9]+` with its denotation (decision procedure for `Num.IntLit`) -/
def intLit? (t : Bytes) : Option Int :=
  match t with
  | 43 :: ds => (match digits? ds with | some n => some (n : Int) | none => none)
  | 45 :: ds => (match digits? ds with | some n => some (-(n : Int)) | none => none)
  | ds => (match digits? ds with | some n => some (n : Int) | none => none)

/-- decimal float literal `[+-]?(d+(.d*)?|.d+)([eE][+-]?d+)?` -/
def isDecimalLit (t : Bytes) : Bool :=
  let t := match t with | 43 :: r => r | 45 :: r => r | _ => t
  let ip := t.takeWhile Num.isDigit
  let r1 := t.dropWhile Num.isDigit
  let (fp, r2, dot) : Bytes × Bytes × Bool := match r1 with
    | 46 :: r => (r.takeWhile Num.isDigit, r.dropWhile Num.isDigit, true)
    | _ => ([], r1, false)
  let _ := dot
  if ip.isEmpty && fp.isEmpty then false
  else match r2 with
    | [] => true
    | e :: r =>
      if e == 101 || e == 69 then
        let ds := match r with | 43 :: x => x | 45 :: x => x | _ => r
        !ds.isEmpty && ds.all Num.isDigit
      else false

/-- the float nearest to a decimal text (R5: hand model of the rounding) -/
def specFloat (w : Nat) (t : Bytes) : Option Scalar :=
  match parseFloatFor w t with
  | .ok b => some (.float w (some b))
  | .reject => none

/-- what a NON-EMPTY text denotes for a kind; `none` = not a valid in-range literal -/
def specLiteral (ext : Option Ext) (k : SKind) (t : Bytes) : Option Scalar :=
  match k with
  | .bool =>
    if trueSet.contains (toLower t) then some (.bool true)
    else if falseSet.contains (toLower t) then some (.bool false) else none
  | .int w =>
    match intLit? t with
    | some v => if Num.fitsInt w v then some (.int w v) else none
    | none => none
  | .float w => if isDecimalLit t then specFloat w t else none
  | .str => some (.str t)
  | .reg _ n =>
    -- the registered type reads the text (external); whether a named string format accepts it is
    -- judged on the value (`formatInvalid`)
    (match extLookup ext t with
    | some (some r, _) => some (.reg n r)
    | _ => none)
  | .other _ => none

/-- what a declared default denotes (a JSON value of the declared type) -/
def specDefaultScalar (ext : Option Ext) (k : SKind) (dv : DefScalar) : Option Scalar :=
  match k, dv with
  | .int w, .int v => some (.int w v)
  | .bool, .bool b => some (.bool b)
  | .str, .str s => some (.str s)
  | .float w, .int v => specFloat w (Num.formatInt v)
  | .float w, .num t => specFloat w t
  | .reg _ n, .str s =>
    (match extLookup ext s with
    | some (some r, _) => some (.reg n r)
    | _ => none)
  | _, _ => none

inductive Expect where
  | value (v : Val)
  | reject
  /-- R6/R7: the handler receives `v`, or the request is rejected with 422 -/
  | either (v : Val)
  /-- the declaration is not one the description language allows: no panic, and the handler does not run -/
  | invalidDecl
deriving Repr, DecidableEq

def mapM? {α β} (f : α → Option β) : List α → Option (List β)
  | [] => some []
  | a :: r =>
    match f a, mapM? f r with
    | some b, some bs => some (b :: bs)
    | _, _ => none

/-- a value of a named string format whose text the format does not accept (external `Validates`) -/
def formatInvalid (d : Decl) : Scalar → Bool
  | .reg _ r => formatRejects d.ext r
  | _ => false

/-- declared validations on a value (the meaning of format / min / max / enum / length / item counts) -/
def violates (d : Decl) (v : Val) : Bool :=
  match v with
  | .scalar s => formatInvalid d s || (validateScalar d.valid s).isSome
  | .list _ items => (validateList d.valid items).isSome

def emptyDefaultConflict (d : Decl) : Bool :=
  d.required && !d.allowEmpty && d.default == some (.scalar (.str []))

/-- absent / empty: the default, else required → 422, else the zero value (R1, R2, R6, R7).
`dflt`: what the declared default denotes (`none`: it is not a value of the declared type). -/
def specAbsent (d : Decl) (presentEmpty : Bool) (dflt : Option Val) (zero : Val) : Expect :=
  match d.default, dflt with
  | some _, some v =>
    if emptyDefaultConflict d then .either v
    else if violates d v then .reject else .value v
  | some _, none => .invalidDecl
  | none, _ =>
    if d.required && !(presentEmpty && d.allowEmpty) then .reject
    else if d.required then (if violates d zero then .reject else .value zero)
    else if violates d zero then .either zero else .value zero

/-- the zero value of a kind; for a registered format, what the empty text unmarshals to -/
def specZero (ext : Option Ext) (k : SKind) : Scalar :=
  match k, extLookup ext [] with
  | .reg _ n, some (some r0, _) => .reg n r0
  | _, _ => zeroScalar k

/-- one array item: a literal, or — for an empty repeated occurrence — the empty item (R8) -/
def specItem (d : Decl) (k : SKind) (t : Bytes) : Option Scalar :=
  if t.isEmpty then
    (if d.required && !d.allowEmpty && d.default.isNone then none else some (specZero d.ext k))
  else specLiteral d.ext k t

/-- the items of an array parameter (R3, R8) -/
def specItems (d : Decl) (texts : Option (List Bytes)) : List Bytes :=
  if d.cf == "multi" then texts.getD []
  else
    match sepOf d.cf with
    | some sep => ((splitByte sep (lastOr (texts.getD []))).map trimSpace).filter (fun x => !x.isEmpty)
    | none => []

def specScalarDefault (d : Decl) (k : SKind) : Option Val :=
  match d.default with
  | some (.scalar dv) => (specDefaultScalar d.ext k dv).map .scalar
  | _ => none

def specArrayDefault (d : Decl) (k : SKind) : Option Val :=
  match d.default with
  | some (.arr ds) => (mapM? (specDefaultScalar d.ext k) ds).map (.list (tagOf k))
  | _ => none

/-- a value, unless a declared validation fails on it -/
def specValue (d : Decl) (v : Val) : Expect := if violates d v then .reject else .value v

def specScalar (d : Decl) (texts : Option (List Bytes)) (k : SKind) : Expect :=
  if (lastOr (texts.getD [])).isEmpty then
    specAbsent d texts.isSome (specScalarDefault d k) (.scalar (specZero d.ext k))
  else
    match specLiteral d.ext k (lastOr (texts.getD [])) with
    | none => .reject
    | some v => specValue d (.scalar v)

def specSlice (d : Decl) (texts : Option (List Bytes)) (k : SKind) : Expect :=
  if (specItems d texts).isEmpty then
    specAbsent d texts.isSome (specArrayDefault d k) (.list (tagOf k) [])
  else
    match mapM? (specItem d k) (specItems d texts) with
    | none => .reject
    | some vs => specValue d (.list (tagOf k) vs)

def specExpect (d : Decl) (r : Req) : Expect :=
  match specKind d with
  | none => .invalidDecl
  | some (.scalar k) => specScalar d (specTexts d r) k
  | some (.slice k) =>
    if d.cf == "multi" && !allowsMulti d.loc then .invalidDecl
    else specSlice d (specTexts d r) k

def isE422 : BindOut → Bool
  | .e422 _ => true
  | _ => false

def okFor : Expect → BindOut → Bool
  | _, .panic _ => false
  | .value v, out => decide (out = .value v)
  | .reject, out => isE422 out
  | .either v, out => decide (out = .value v) || isE422 out
  | .invalidDecl, out => (match out with | .value _ => false | _ => true)

def specOk (d : Decl) (r : Req) (out : BindOut) : Bool := okFor (specExpect d r) out

/-! ## Known findings (recorded, not repaired) -/

/-- the texts that get converted: the last one, or the items -/
def convertedTexts (d : Decl) (r : Req) : List Bytes :=
  let g := getOK d r
  if d.ty == "array" then
    if d.cf == "multi" then g.1 else splitByFormat (lastOr g.1) d.cf
  else [lastOr g.1]

def declaredSKind (d : Decl) : Option SKind :=
  match specKind d with
  | some (.scalar k) => some k
  | some (.slice k) => some k
  | none => none

def floatAccepts (w : Nat) (t : Bytes) : Bool :=
  match parseFloatFor w t with
  | .ok _ => true
  | .reject => false

/-- F03d: a `number` text that `strconv.ParseFloat` accepts although it is no decimal literal
(inf, infinity, nan, hex floats, digit-separating underscores).
F03e: a `boolean` text that is neither a truthy nor a falsy word: bound to `false`, never rejected. -/
def textKnown (k : SKind) (t : Bytes) : Option String :=
  match k with
  | .float w => if !t.isEmpty && !isDecimalLit t && floatAccepts w t then some "F03d" else none
  | .bool =>
    if !t.isEmpty && !trueSet.contains (toLower t) && !falseSet.contains (toLower t) then some "F03e" else none
  | _ => none

def known (d : Decl) (r : Req) : Option String :=
  match declaredSKind d with
  | some k => (convertedTexts d r).findSome? (textKnown k)
  | none => none

/-! ## Well-formed declarations (what the description language allows and the harness generates) -/

def defaultFits (k : SKind) : DefScalar → Bool
  | .int v => (match k with
      | .int w => decide (Num.fitsInt w v) && v.natAbs < 2 ^ 53
      | .float _ => v.natAbs < 2 ^ 24
      | _ => false)
  | .num t => (match k with | .float _ => isDecimalLit t | _ => false)
  | .str _ => (match k with | .str => true | .reg .. => true | _ => false)
  | .bool _ => k == .bool

/-- what is assumed of the external `strfmt` graph: the empty text unmarshals (true for every format
the harness uses), and a named string type renders as the text it was given -/
def Ext.wf (e : Ext) : Bool :=
  (match e.graph.find? (fun g => g.1 == []) with
    | some (_, some _, _) => true
    | _ => false) &&
  (!e.named || e.graph.all (fun g => match g.2.1 with | some r => r == g.1 | none => true))

def Decl.wf (d : Decl) : Bool :=
  (match d.ext with | some e => e.wf | none => true) &&
  (match d.loc with | .header => d.name.all isTokenChar | _ => true) &&
  match specKind d with
  | none => false
  | some (.scalar k) =>
    (match d.default with
      | none => true
      | some (.scalar dv) => defaultFits k dv
      | some (.arr _) => false)
  | some (.slice k) =>
    (match k with | .reg true _ => false | _ => true) &&
    (d.cf != "multi" || allowsMulti d.loc) &&
    (match d.default with
      | none => true
      | some (.arr ds) => ds.all (defaultFits k)
      | some (.scalar _) => false)

/-- what is assumed of a request: a key that is sent carries at least one value; header names are
tokens (HTTP); a route holds exactly one value per path parameter -/
def Req.wf (d : Decl) (r : Req) : Bool :=
  (match r.values with | some [] => false | _ => true) &&
  (match d.loc with
    | .header => r.key.all isTokenChar
    | .path => (match r.values with | some (_ :: _ :: _) => false | _ => true)
    | _ => true)

/-! ## Driver entry -/

def strOfBytes (b : Bytes) : String := String.ofList (b.map fun x => Char.ofNat x.toNat)

def hexNat (s : String) : Option Nat :=
  s.toList.foldlM (fun acc c => (hexVal c).map fun v => 16 * acc + v) 0

def hexPad (n width : Nat) : String :=
  String.ofList ((List.range width).reverse.map fun i => hexDigit ((n >>> (4 * i)) % 16))

def renderScalarPayload : Scalar → String
  | .int _ v => toString v
  | .bool b => if b then "1" else "0"
  | .str s => encField s
  | .float w (some b) => hexPad b (if w == 32 then 8 else 16)
  | .float _ none => "?"
  | .reg _ r => encField r

def scalarTag : Scalar → String
  | .int w _ => s!"i{w}"
  | .bool _ => "b"
  | .str _ => "s"
  | .float w _ => s!"f{w}"
  | .reg n _ => "x" ++ n

def renderVal : Val → String
  | .scalar s => scalarTag s ++ ":" ++ renderScalarPayload s
  | .list tag items => "[" ++ tag ++ "]" ++ ";".intercalate (items.map renderScalarPayload)

def renderOut : BindOut → String
  | .value v => "V " ++ renderVal v
  | .e422 c => s!"E 422 1 {c}"
  | .e4xx st => s!"E {st}"
  | .panic why => "PANIC " ++ why

def parseScalar (tag payload : String) : Option Scalar :=
  if tag == "b" then (if payload == "1" then some (.bool true) else if payload == "0" then some (.bool false) else none)
  else if tag == "s" then (decField payload).map .str
  else if tag == "i8" then payload.toInt?.map (.int 8)
  else if tag == "i16" then payload.toInt?.map (.int 16)
  else if tag == "i32" then payload.toInt?.map (.int 32)
  else if tag == "i64" then payload.toInt?.map (.int 64)
  else if tag == "f32" then (hexNat payload).map fun b => .float 32 (some b)
  else if tag == "f64" then (hexNat payload).map fun b => .float 64 (some b)
  else if tag.startsWith "x" then (decField payload).map (.reg (tag.drop 1).toString)
  else none

def parseVal (s : String) : Option Val :=
  if s.startsWith "[" then
    match (s.drop 1).toString.splitOn "]" with
    | [tag, rest] =>
      if rest.isEmpty then some (.list tag [])
      else ((rest.splitOn ";").mapM (parseScalar tag)).map (.list tag)
    | _ => none
  else
    match s.splitOn ":" with
    | [tag, payload] => (parseScalar tag payload).map .scalar
    | _ => none

/-- what the real code did, as a `BindOut` (a 422 that does not name the parameter is not an `e422`) -/
def parseImpl (outs : List String) : Option BindOut :=
  match outs with
  | ["V", v] => (parseVal v).map .value
  | ["E", st, named, code] =>
    if st == "422" && named == "1" then code.toNat?.map .e422 else st.toNat?.map .e4xx
  | ["PANIC", m] => some (.panic m)
  | ["U"] => some (.e4xx 0)
  | _ => none

def parseDefScalar (s : String) : Option DefScalar :=
  if s.startsWith "I:" then (s.drop 2).toString.toInt?.map .int
  else if s.startsWith "F:" then (decField (s.drop 2).toString).map .num
  else if s.startsWith "S:" then (decField (s.drop 2).toString).map .str
  else if s.startsWith "B:" then some (.bool ((s.drop 2).toString == "1"))
  else none

def parseDefault (s : String) : Option (Option Default) :=
  if s == "-" then some none
  else if s.startsWith "A:" then
    let body := (s.drop 2).toString
    if body.isEmpty then some (some (.arr []))
    else ((body.splitOn ";").mapM parseDefScalar).map fun l => some (.arr l)
  else (parseDefScalar s).map fun d => some (.scalar d)

def parseValidation (s : String) : Option Validation :=
  match s.splitOn ":" with
  | ["unique"] => some .unique
  | k :: rest =>
    let arg := ":".intercalate rest
    if k == "max" then arg.toInt?.map .max
    else if k == "min" then arg.toInt?.map .min
    else if k == "maxLength" then arg.toNat?.map .maxLength
    else if k == "minLength" then arg.toNat?.map .minLength
    else if k == "maxItems" then arg.toNat?.map .maxItems
    else if k == "minItems" then arg.toNat?.map .minItems
    else if k == "enum" then
      match (arg.splitOn ";").mapM parseDefScalar with
      | some ds =>
        if ds.all (fun d => match d with | .str _ => true | _ => false) then
          some (.enumS (ds.filterMap fun d => match d with | .str x => some x | _ => none))
        else if ds.all (fun d => match d with | .int _ => true | _ => false) then
          some (.enumI (ds.filterMap fun d => match d with | .int x => some x | _ => none))
        else none
      | none => none
    else none
  | [] => none

def parseValid (s : String) : Option (List Validation) :=
  if s == "-" then some [] else (s.splitOn ",").mapM parseValidation

def parseExtEntry (s : String) : Option (Bytes × Option Bytes × Bool) :=
  match s.splitOn ":" with
  | [t, res, ok] =>
    match decField t with
    | some tb =>
      if res == "!" then some (tb, none, ok == "1")
      else (decField res).map fun rb => (tb, some rb, ok == "1")
    | none => none
  | _ => none

def parseExt (s : String) : Option (Option Ext) :=
  if s == "." then some none
  else
    match s.splitOn "," with
    | hd :: entries =>
      -- header `R<s|o>.<GoName>`
      match hd.splitOn "." with
      | [k, name] =>
        (entries.mapM parseExtEntry).map fun g => some { named := k == "Rs", goName := name, graph := g }
      | _ => none
    | [] => none

def parseLoc (s : String) : Option Loc :=
  if s == "query" then some .query else if s == "header" then some .header
  else if s == "path" then some .path else if s == "form" then some .form
  else if s == "mform" then some .mform else none

def parseCase (ins : List String) (ext : String) : Option (String × Decl × Req) :=
  match ins with
  | [stream, name, loc, ty, fmt, ity, ifmt, cf, req, ae, dflt, valid, key, values] => do
    let name ← decField name
    let loc ← parseLoc loc
    let fmt ← decField fmt
    let ifmt ← decField ifmt
    let dflt ← parseDefault dflt
    let valid ← parseValid valid
    let key ← decField key
    let values ← (if values == "." then some none else (decList values).map some)
    let ext ← parseExt ext
    pure (stream,
      { name := name, loc := loc, ty := ty, format := strOfBytes fmt,
        itemsTy := (if ity == "-" then "" else ity), itemsFormat := strOfBytes ifmt,
        cf := (if cf == "-" then "" else cf), required := req == "1", allowEmpty := ae == "1",
        default := dflt, valid := valid, ext := ext },
      { key := key, values := values })
  | _ => none

def locTag : Loc → String
  | .query => "q" | .header => "h" | .path => "p" | .form => "f" | .mform => "m"

def kindTag (d : Decl) : String :=
  match typeForSchema d with
  | none => "nil"
  | some (.scalar k) => tagOf k
  | some (.slice k) => "[" ++ tagOf k ++ "]" ++ (if d.cf == "multi" then "multi" else "")

def situation (d : Decl) (r : Req) : String :=
  let g := getOK d r
  let texts := convertedTexts d r
  if !g.2.1 then (if d.default.isSome then "absent+default" else if d.required then "absent+required" else "absent")
  else if texts.all (·.isEmpty) then
    (if d.default.isSome then "empty+default" else if d.required then (if d.allowEmpty then "empty+required+allowEmpty" else "empty+required") else "empty")
  else if g.1.length > 1 then "repeated" else "text"

def outTag : BindOut → String
  | .value _ => "value"
  | .e422 c => s!"e{c}"
  | .e4xx st => s!"http{st}"
  | .panic _ => "panic"

def runCase (ins : List String) (ext : String) (res : List String) : Verdict :=
  match parseCase ins ext, parseImpl res with
  | some (_stream, d, r), some impl =>
    let m := bind d r
    let sit := situation d r
    let trivial := sit == "absent" && d.valid.isEmpty
    { agree := renderOut m == renderOut impl,
      specOk := specOk d r impl,
      known := (known d r).getD "-",
      tag := (if trivial then "~" else "") ++ (if d.wf && Req.wf d r then "" else "!wf:") ++
        (if d.loc == .header then "h:" else "") ++ s!"{kindTag d}/{sit}/{outTag m}",
      model := (renderOut m).replace " " "_" }
  | none, _ => .bad "C03 input fields"
  | _, none => .bad "C03 output fields"

/-- Output fields: `<ext> <result…>`; a panic is reported without `ext` (it happened inside the real
code), `INVALID` marks input fields that describe no declaration (met only while shrinking). -/
def run (ins outs : List String) : Verdict :=
  match outs with
  | ["INVALID"] => { agree := true, specOk := true, tag := "~invalid-input", model := "-" }
  | ["PANIC", m] => runCase ins "." ["PANIC", m]
  | ext :: res => runCase ins ext res
  | [] => .bad "C03 no output"

end RtVerif.C03
