import RtVerif.Base.Bytes
import RtVerif.Base.Verdict
import RtVerif.Gen.Facts
import RtVerif.Model.C07
/-
  C08 — responses carry the declared status, the negotiated type and that type's encoding.

  Model: transcription of `middleware.Context.Respond` (offers with the default last, format from
  the per-request memo or from the C07 negotiation, Responder / error / plain-value branches, the
  two producer look-ups, the fall-back to the API's default producer, the panics), of
  `errorResp.WriteResponse`, of `security.BasicAuthRealm` (the realm marker) and of the stages in
  front of `Respond` in the handler that `Context.APIHandler` builds for an operation protected by
  at most one basic-auth scheme (`newSecureAPI` / `Context.Authorize` / `RouteAuthenticators`,
  `validation.responseFormat` → 406, the operation handler).

  Producers are identified by the key they are registered under; what a producer writes for the
  value at hand is a parameter `enc` of the model (the harness observes it by running the real
  producers), and so is the body `errors.ServeError` writes (`ebody`).
-/
namespace RtVerif.C08
open RtVerif Bytes

/-! ## configuration and request -/

structure Cfg where
  /-- `api.DefaultProduces` -/
  dflt : Bytes
  /-- keys of the API's producer registry (`RegisterProducer` lower-cases them) -/
  reg : List Bytes
deriving Repr

/-- What a producer does with the value at hand: the bytes it writes and whether it returns nil. -/
structure ProdRes where
  ok : Bool
  out : Bytes
deriving Repr, DecidableEq

/-- The matched route: `route.Produces` as the router built it, whether `route.Operation` is set and
what `Operation.SuccessResponse()` answers (`none` = not ok: no 2xx response declared). -/
structure Route where
  produces : List Bytes
  hasOp : Bool
  success : Option Nat
deriving Repr

/-- the error classes the harness can tell apart -/
inductive ErrV
  | api (code : Nat)       -- an `errors.Error` with that code
  | plain                  -- any other Go error
  | compApi (code : Nat)   -- `*errors.CompositeError` whose first element is an `errors.Error`
  | compPlain
  | compEmpty
deriving Repr, DecidableEq

inductive Data
  | value                      -- neither a Responder nor an error (nil included)
  | custom                     -- a Responder (records the producer it is handed, writes status 209)
  | errResponder               -- both an error and a Responder
  | errorResp (code : Nat)     -- `middleware.Error(code, payload)` / `NotImplemented`
  | error (e : ErrV) (supplied : Bool)   -- supplied: the very error object a handler / auth function returned
deriving Repr, DecidableEq

structure Req where
  method : Bytes
  specs : List C07.Spec
  /-- the response format memoised in the request context (`ctxResponseFormat`) -/
  memo : Option Bytes
  /-- `security.FailedBasicAuth(r)`: the realm a basic authenticator marked the request with, or "" -/
  marker : Bytes
deriving Repr

/-! ## observable result -/

inductive Outcome
  | ok
  | panicNoProducer   -- `panic(errors.New(500, "can't find a producer for …"))`
  | panicProduce      -- `panic(err)` with the producer's error
  | panicNil          -- nil `route` dereferenced in the Responder branch
deriving Repr, DecidableEq

structure ErrCall where
  cls : ErrV
  supplied : Bool
  ct : Bytes     -- Content-Type header when the error responder is entered
  www : Bytes    -- WWW-Authenticate header when the error responder is entered
deriving Repr, DecidableEq

structure Out where
  outcome : Outcome := .ok
  status : Nat := 0                  -- 0: WriteHeader never called
  ct : Bytes := []
  www : List Bytes := []
  calls : List (Bytes × Bool) := []  -- producer key, called with the expected payload
  body : Bytes := []
  handed : List Bytes := []          -- key of the producer a custom Responder received
  errcalls : List ErrCall := []
  ran : Bool := false                -- the operation handler ran
deriving Repr, DecidableEq

/-! ## constants -/

def jsonMime : Bytes := Facts.jsonMimeB
/-- literal in go-openapi/errors.ServeError (external) -/
def errorsJSON : Bytes :=  -- "application/json" (byte literals reduce in the kernel, `ofStr` does not)
  [97, 112, 112, 108, 105, 99, 97, 116, 105, 111, 110, 47, 106, 115, 111, 110]
def headB : Bytes := [72, 69, 65, 68]  -- "HEAD"

/-! ## small pieces of `Respond` -/

/-- the offers loop: every produces entry different from the default, then the default -/
def offersOf (dflt : Bytes) (produces : List Bytes) : List Bytes :=
  produces.filter (· != dflt) ++ [dflt]

/-- `Context.ResponseFormat` -/
def responseFormat (memo : Option Bytes) (specs : List C07.Spec) (offers : List Bytes) : Bytes :=
  match memo with
  | some v => v
  | none => C07.negotiateContentType specs offers []

/-- `api.ProducersFor(normalizeOffers(list))` has key `k` -/
def producersForHas (cfg : Cfg) (list : List Bytes) (k : Bytes) : Bool :=
  (list.map C07.normalizeOffer).contains k && cfg.reg.contains k

/-- `route.Producers` has key `k` (router.go: `ProducersFor(normalizeOffers(produces))`) -/
def routeHas (cfg : Cfg) (r : Route) (k : Bytes) : Bool := producersForHas cfg r.produces k

/-- `prods := ProducersFor(normalizeOffers([default])); prods[default]` -/
def dfltProducer (cfg : Cfg) : Option Bytes :=
  if producersForHas cfg [cfg.dflt] cfg.dflt then some cfg.dflt else none

/-- The key of the two plain-value look-ups. `Facts.respondRawProducerLookups` counts the index
expressions `producers[format]` in `Respond` (regenerated from the source): 0 since the F08a fix. -/
def lookupKey (format : Bytes) : Bytes :=
  if Facts.respondRawProducerLookups == 0 then C07.normalizeOffer format else format

/-- producer for the Responder branch and for the plain branch of a route with an operation -/
def pickProducer (cfg : Cfg) (r : Route) (k : Bytes) : Option Bytes :=
  if routeHas cfg r k then some k else dfltProducer cfg

def produce (enc : Bytes → ProdRes) (k : Bytes) (o : Out) : Out :=
  { o with calls := o.calls ++ [(k, true)], body := o.body ++ (enc k).out }

/-- `prod.Produce(rw, data)`, `panic(err)` on error -/
def produceOrPanic (enc : Bytes → ProdRes) (k : Bytes) (o : Out) : Out :=
  if (enc k).ok then produce enc k o else { produce enc k o with outcome := .panicProduce }

/-! ### strconv.Quote for printable ASCII (`fmt.Sprintf("Basic realm=%q", realm)`) -/

def goQuote (s : Bytes) : Bytes :=
  [34] ++ s.flatMap (fun b => if b == 34 || b == 92 then [92, b] else [b]) ++ [34]

def basicRealmEq : Bytes := [66, 97, 115, 105, 99, 32, 114, 101, 97, 108, 109, 61]  -- "Basic realm="

def challenge (realm : Bytes) : Bytes := basicRealmEq ++ goQuote realm

/-! ### errors.ServeError (external, go-openapi/errors): status only -/

def asHTTPCode (c : Nat) : Nat := if c ≥ 600 then 422 else c

def serveStatus : ErrV → Nat
  | .api c => asHTTPCode c
  | .compApi c => asHTTPCode c
  | .plain => 500
  | .compPlain => 500
  | .compEmpty => 500

/-- `c.api.ServeErrorFor(id)(rw, r, err)`: the API's error responder sees the headers as they are;
in the harness it is `errors.ServeError`, which sets the status, a JSON content type and a body -/
def callErrorResponder (e : ErrV) (supplied : Bool) (ebody : Bytes) (o : Out) : Out :=
  { o with
    errcalls := o.errcalls ++ [⟨e, supplied, o.ct, o.www.headD []⟩]
    status := serveStatus e
    ct := errorsJSON
    body := o.body ++ ebody }

/-- the error branch of `Respond`: JSON content type when nothing was negotiated, the challenge
when the request is marked, then the API's error responder -/
def respondError (req : Req) (format : Bytes) (e : ErrV) (supplied : Bool) (ebody : Bytes) (o : Out) : Out :=
  callErrorResponder e supplied ebody
    { o with
      ct := if format == [] then jsonMime else format
      www := if req.marker != [] then [challenge req.marker] else [] }

/-- the Responder branch -/
def respondResponder (cfg : Cfg) (route : Option Route) (format : Bytes) (d : Data)
    (enc : Bytes → ProdRes) (o : Out) : Out :=
  match route with
  | none => { o with outcome := .panicNil }
  | some r =>
    match pickProducer cfg r (C07.normalizeOffer format) with
    | none => { o with outcome := .panicNoProducer }
    | some k =>
      match d with
      | .errorResp code =>
        -- errorResp.WriteResponse: status, then Produce; a producer error is only logged
        produce enc k { o with status := if code > 0 then code else 500 }
      | _ => { o with handed := [k], status := 209 }

/-- the plain-value branch without an operation (`route == nil || route.Operation == nil`) -/
def respondPlainNoOp (cfg : Cfg) (req : Req) (offers : List Bytes) (format : Bytes)
    (enc : Bytes → ProdRes) (o : Out) : Out :=
  let o1 := { o with status := 200 }
  if req.method == headB then o1
  else if producersForHas cfg offers (lookupKey format) then produceOrPanic enc (lookupKey format) o1
  else { o1 with outcome := .panicNoProducer }

/-- the plain-value branch of a route with an operation -/
def respondPlainOp (cfg : Cfg) (r : Route) (req : Req) (format : Bytes)
    (enc : Bytes → ProdRes) (ebody : Bytes) (o : Out) : Out :=
  match r.success with
  | some code =>
    let o1 := { o with status := code }
    if code == 204 || req.method == headB then o1
    else match pickProducer cfg r (lookupKey format) with
      | some k => produceOrPanic enc k o1
      | none => { o1 with outcome := .panicNoProducer }
  | none => callErrorResponder (.api 500) false ebody o   -- "can't produce response"

def routeHasOp : Option Route → Option Route
  | some r => if r.hasOp then some r else none
  | none => none

/-- `Context.Respond(rw, r, produces, route, data)` -/
def respond (cfg : Cfg) (produces : List Bytes) (route : Option Route) (req : Req) (d : Data)
    (enc : Bytes → ProdRes) (ebody : Bytes) : Out :=
  let offers := offersOf cfg.dflt produces
  let format := responseFormat req.memo req.specs offers
  let o : Out := { ct := format }
  match d with
  | .custom => respondResponder cfg route format d enc o
  | .errResponder => respondResponder cfg route format d enc o
  | .errorResp _ => respondResponder cfg route format d enc o
  | .error e s => respondError req format e s ebody o
  | .value =>
    match routeHasOp route with
    | none => respondPlainNoOp cfg req offers format enc o
    | some r => respondPlainOp cfg r req format enc ebody o

/-! ## the stages in front of `Respond` -/

/-- the user's `UserPassAuthentication` callback -/
inductive AuthFn
  | ok            -- a principal
  | nilnil        -- (nil, nil): outside the callback's contract ("a principal or an error")
  | err (e : ErrV)
deriving Repr, DecidableEq

def effRealm (realm : Bytes) : Bytes := if realm == [] then Facts.defaultRealmNameB else realm

/-- `security.BasicAuthRealm(realm, fn)` on a request: the marker it leaves ("" = none) -/
def basicMarker (realm : Bytes) (creds : Bool) (fn : AuthFn) : Bytes :=
  if creds then
    match fn with
    | .err _ => effRealm realm
    | _ => []
  else effRealm realm

inductive AuthRes
  | pass
  | fail (e : ErrV) (supplied : Bool)
deriving Repr, DecidableEq

/-- `Context.Authorize` for a route with the single requirement `[basic]` and no authorizer -/
def authorize (creds : Bool) (fn : AuthFn) : AuthRes :=
  if creds then
    match fn with
    | .ok => .pass
    | .nilnil => .fail (.api 401) false        -- usr == nil → Unauthenticated("invalid credentials")
    | .err e => .fail e true                   -- lastError is returned as it is
  else .fail (.api 401) false                  -- !applies → Unauthenticated("invalid credentials")

/-- `swag.ContainsStringsCI` (ASCII) -/
def containsCI (l : List Bytes) (x : Bytes) : Bool := l.any (equalFold · x)

/-- router.go `AddRoute`: the API default is appended unless present (case-insensitively) -/
def routeProduces (dflt : Bytes) (ps : List Bytes) : List Bytes :=
  if dflt != [] && !containsCI ps dflt then ps ++ [dflt] else ps

structure ApiCase where
  cfg : Cfg
  route : Route
  method : Bytes
  specs : List C07.Spec
  /-- the realm configured for the basic scheme protecting the operation, if it is protected -/
  sec : Option Bytes
  creds : Bool
  fn : AuthFn
  data : Data
deriving Repr

/-- `validation.responseFormat`: produces non-empty and nothing negotiated over `route.Produces` -/
def notAcceptable (c : ApiCase) : Bool :=
  C07.negotiateContentType c.specs c.route.produces [] == [] && !c.route.produces.isEmpty

/-- after the security stage: `BindAndValidate` (only the response-format check can fail here),
the operation handler, `Respond` -/
def afterAuth (c : ApiCase) (enc : Bytes → ProdRes) (ebody : Bytes) : Out :=
  let req : Req := ⟨c.method, c.specs, none, []⟩
  if notAcceptable c then
    respond c.cfg c.route.produces (some c.route) req (.error (.compApi 406) false) enc ebody
  else
    { respond c.cfg c.route.produces (some c.route) req c.data enc ebody with ran := true }

/-- the handler `Context.APIHandler` serves a matched request with -/
def serve (c : ApiCase) (enc : Bytes → ProdRes) (ebody : Bytes) : Out :=
  match c.sec with
  | none => afterAuth c enc ebody
  | some realm =>
    match authorize c.creds c.fn with
    | .pass => afterAuth c enc ebody
    | .fail e s =>
      respond c.cfg c.route.produces (some c.route)
        ⟨c.method, c.specs, none, basicMarker realm c.creds c.fn⟩ (.error e s) enc ebody

/-! ## Spec (from the property text, not from the code)

"When a handler returns a result for an operation, the response status is the operation's declared
success status, the Content-Type header is the negotiated media type, and the body is exactly what
the producer registered for that media type (parameters ignored) writes for the result; no body is
written for HEAD requests or 204 responses, and a result that knows how to write itself is handed
that same producer. When the handler or an earlier stage returns an error, the API's error
responder is invoked with it (JSON content type if nothing was negotiated), and a failed basic-auth
attempt carries a WWW-Authenticate challenge naming the configured realm."  And from C07: "a
request whose Accept header admits none of the types its operation declares is answered 406 and the
handler does not run." -/

/-- "parameters ignored": everything from the first `;` on is dropped -/
def stripParams (mt : Bytes) : Bytes := mt.takeWhile (· != 59)

/-- The negotiated media type: what was negotiated for this request before, else the C07 choice
among "its produces list plus the API's default type, last" ("" when nothing matches). -/
def negotiated (cfg : Cfg) (produces : List Bytes) (req : Req) : Bytes :=
  match req.memo with
  | some v => v
  | none => C07.specChoice req.specs (produces.filter (· != cfg.dflt) ++ [cfg.dflt]) []

/-- a producer is registered for media type `k` of this operation: `k` is registered in the API and
is one of the operation's produces entries (parameters ignored, compared as spelled) -/
def registeredFor (cfg : Cfg) (r : Route) (k : Bytes) : Bool :=
  cfg.reg.contains k && (r.produces.map stripParams).contains k

/-- the declared success status of an operation: its lowest declared 2xx code -/
def declaredSuccess (codes : List Nat) : Option Nat :=
  (codes.filter fun c => 200 ≤ c && c < 300).foldl
    (fun acc c => match acc with | none => some c | some m => some (min m c)) none

/-- the error clause: exactly one call of the error responder, with this error, JSON content type
if nothing was negotiated (the negotiated type otherwise) and the challenge for a failed basic
attempt (`failedBasic` = the configured realm, "" standing for the documented default name) -/
def specError (neg : Bytes) (e : ErrV) (supplied : Bool) (failedBasic : Option Bytes) (o : Out) : Bool :=
  match o.errcalls with
  | [c] =>
    c.cls == e && c.supplied == supplied &&
    c.ct == (if neg == [] then jsonMime else neg) &&
    (match failedBasic with
     | some realm =>
       let ch := basicRealmEq ++ goQuote (if realm == [] then Facts.defaultRealmNameB else realm)
       c.www == ch && o.www == [ch]
     | none => true)
  | _ => false

/-- Spec of one `Respond` call. `failedBasic`: a basic-auth attempt on this request failed (no basic
credentials, or the authentication function returned an error) for that configured realm. -/
def specRespond (cfg : Cfg) (produces : List Bytes) (route : Option Route) (req : Req)
    (failedBasic : Option Bytes) (d : Data) (enc : Bytes → ProdRes) (o : Out) : Bool :=
  let neg := negotiated cfg produces req
  let k := stripParams neg
  match d with
  | .error e s => specError neg e s failedBasic o
  | .value =>
    match routeHasOp route with
    | some r =>
      match r.success with
      | some code =>
        o.status == code && o.ct == neg &&
        (if code == 204 || req.method == headB then o.body == [] && o.calls == []
         else if registeredFor cfg r k then o.calls == [(k, true)] && o.body == (enc k).out
         else true)
      | none => true      -- no success status is declared: the text is silent
    | none => true        -- no operation
  | _ =>
    -- a result that knows how to write itself
    match route with
    | some r =>
      if registeredFor cfg r k then
        (match d with
         | .errorResp _ => o.calls == [(k, true)]
         | _ => o.handed == [k])
      else true
    | none => true

/-- Spec of a request served through the API handler. -/
def specServe (c : ApiCase) (enc : Bytes → ProdRes) (o : Out) : Bool :=
  let req : Req := ⟨c.method, c.specs, none, []⟩
  let neg := negotiated c.cfg c.route.produces req
  let authPassed : Bool := match c.sec with
    | none => true
    | some _ => c.creds && c.fn == .ok
  let failed : Option (Bytes × Option ErrV) := match c.sec with
    | none => none
    | some realm =>
      if !c.creds then some (realm, none)
      else match c.fn with
        | .err e => some (realm, some e)
        | _ => none
  match failed with
  | some (realm, some e) => !o.ran && specError neg e true (some realm) o
  | some (realm, none) =>
    -- no credentials: some error reaches the responder, with the challenge
    !o.ran && (match o.errcalls with
      | [ec] => specError neg ec.cls false (some realm) o
      | _ => false)
  | none =>
    if authPassed then
      if !c.route.produces.isEmpty && C07.specChoice c.specs c.route.produces [] == [] then
        -- the Accept header admits none of the declared types
        o.status == 406 && !o.ran && specError neg (.compApi 406) false none o
      else o.ran && specRespond c.cfg c.route.produces (some c.route) req none c.data enc o
    else true   -- credentials for which the callback answered (nil, nil): outside its contract

/-! ## Driver entry -/

def renderErrV : ErrV → Bytes
  | .api c => ofStr s!"a{c}"
  | .plain => ofStr "p"
  | .compApi c => ofStr s!"ca{c}"
  | .compPlain => ofStr "cp"
  | .compEmpty => ofStr "c-"

def natOfBytes (b : Bytes) : Option Nat := (String.ofList (b.map fun x => Char.ofNat x.toNat)).toNat?

def parseErrV (b : Bytes) : Option ErrV :=
  match b with
  | [112] => some .plain
  | [99, 112] => some .compPlain
  | [99, 45] => some .compEmpty
  | 99 :: 97 :: r => (natOfBytes r).map .compApi
  | 97 :: r => (natOfBytes r).map .api
  | _ => none

def renderErrCall (c : ErrCall) : Bytes :=
  renderErrV c.cls ++ [0] ++ (if c.supplied then [49] else [48]) ++ [0] ++ c.ct ++ [0] ++ c.www

def parseErrCall (b : Bytes) : Option ErrCall :=
  match splitByte 0 b with
  | [cls, [s], ct, www] => (parseErrV cls).map fun e => ⟨e, s == 49, ct, www⟩
  | _ => none

def renderCall (c : Bytes × Bool) : Bytes := c.1 ++ [124] ++ (if c.2 then [49] else [48])

def parseCall (b : Bytes) : Option (Bytes × Bool) :=
  match b.reverse with
  | f :: 124 :: r => some (r.reverse, f == 49)
  | _ => none

def renderOutcome : Outcome → String
  | .ok => "ok"
  | .panicNoProducer => "pnp"
  | .panicProduce => "ppe"
  | .panicNil => "pnil"

def parseOutcome : String → Option Outcome
  | "ok" => some .ok
  | "pnp" => some .panicNoProducer
  | "ppe" => some .panicProduce
  | "pnil" => some .panicNil
  | _ => none

def renderOut (o : Out) : String :=
  " ".intercalate [renderOutcome o.outcome, toString o.status, encList [o.ct], encList o.www,
    encList (o.calls.map renderCall), encField o.body, encList o.handed,
    encList (o.errcalls.map renderErrCall), (if o.ran then "1" else "0")]

def parseOut (f : List String) : Option Out :=
  match f with
  | [oc, st, ct, www, calls, body, handed, errcalls, ran] => do
    let oc ← parseOutcome oc
    let st ← st.toNat?
    let ct ← decList ct
    let www ← decList www
    let calls ← (← decList calls).mapM parseCall
    let body ← decField body
    let handed ← decList handed
    let ecs ← (← decList errcalls).mapM parseErrCall
    match ct with
    | [c] => pure ⟨oc, st, c, www, calls, body, handed, ecs, ran == "1"⟩
    | _ => none
  | _ => none

def parseData (tok : String) : Option Data :=
  if tok.startsWith "v" then some .value
  else if tok == "rc" then some .custom
  else if tok == "er" then some .errResponder
  else if tok == "ni" then some (.errorResp 501)
  else if tok.startsWith "re" then (tok.drop 2).toNat?.map .errorResp
  else if tok.startsWith "ea" then (tok.drop 2).toNat?.map fun c => .error (.api c) true
  else if tok.startsWith "ec" then (tok.drop 2).toNat?.map fun c => .error (.compApi c) true
  else if tok == "ep" then some (.error .plain true)
  else none

def parseFn : String → Option AuthFn
  | "o" => some .ok
  | "n" => some .nilnil
  | "u" => some (.err (.api 401))
  | "f" => some (.err (.api 403))
  | "p" => some (.err .plain)
  | _ => none

def parseCodes (s : String) : Option (List Nat) :=
  if s == "." then some [] else (s.splitOn ",").mapM (·.toNat?)

/-- the environment table: what the producer registered under `k` writes (last registration wins) -/
def encOf (keys : List Bytes) (encs : List Bytes) (k : Bytes) : ProdRes :=
  match (keys.zip encs).reverse.find? (·.1 == k) with
  | some (_, 111 :: out) => ⟨true, out⟩
  | some (_, _ :: out) => ⟨false, out⟩
  | _ => ⟨false, []⟩

/-- `rprod` (route.Produces as observed) is what router.go builds from some ordering of the
distinct operation produces (`analysis.ProducesFor` returns them in map order) -/
def rprodConsistent (dflt : Bytes) (opProduces rprod : List Bytes) : Bool :=
  let distinct := opProduces.eraseDups
  let appended := dflt != [] && !containsCI distinct dflt
  let core := if appended then rprod.dropLast else rprod
  (if appended then rprod.getLast? == some dflt else true) &&
  core.length == distinct.length && distinct.all core.contains

def dataTag : Data → String
  | .value => "plain"
  | .custom => "responder"
  | .errResponder => "errResponder"
  | .errorResp _ => "errorResp"
  | .error _ _ => "error"

/-- which branch of the model a `Respond` call takes (for the evidence histogram) -/
def respondTag (cfg : Cfg) (produces : List Bytes) (route : Option Route) (req : Req) (d : Data) : String :=
  let format := responseFormat req.memo req.specs (offersOf cfg.dflt produces)
  let params := if C07.normalizeOffer format != format then "+params" else ""
  let memo := if req.memo.isSome then "+memo" else ""
  let mark := if req.marker != [] then "+www" else ""
  match d with
  | .error _ _ => s!"error{if format == [] then ":json" else ""}{mark}{memo}"
  | .value =>
    match routeHasOp route with
    | none => s!"plain-noop{params}{memo}"
    | some r =>
      match r.success with
      | none => "plain:default-only"
      | some code =>
        if code == 204 then "plain:204"
        else if req.method == headB then "plain:head"
        else if routeHas cfg r (lookupKey format) then s!"plain:body{params}{memo}"
        else if (dfltProducer cfg).isSome then s!"~plain:fallback{params}{memo}"
        else "~plain:noproducer"
  | _ =>
    match route with
    | none => "~" ++ dataTag d ++ ":nilroute"
    | some r =>
      if routeHas cfg r (C07.normalizeOffer format) then s!"{dataTag d}{params}{memo}"
      else s!"~{dataTag d}:fallback"

def run (ins outs : List String) : Verdict :=
  match ins, outs with
  | _, ["PANIC", msg] =>
    -- the harness itself gave up on the case: the message (hex) says what it saw, e.g. the two entry
    -- points disagreeing on 406 (`c08TypedEntryAgrees`)
    { agree := false, specOk := false, tag := "harness-report", model := "impl (hex message): " ++ msg }
  | [stream, dflt, regKeys, _regKinds, opProduces, codes, hasDefault, method, accept, sec, realm, cred, fn,
      data, mode, argProduces, memo],
    [oc, st, ct, www, calls, body, handed, errcalls, ran, succ, rprod, encs, ebody] =>
    match decField dflt, decList regKeys, decList opProduces, parseCodes codes, decField method,
      decList accept, decField realm, parseFn fn, parseData data, decList argProduces, decField memo,
      decList rprod, decList encs, decField ebody, parseOut [oc, st, ct, www, calls, body, handed, errcalls, ran] with
    | some dflt, some regKeys, some opProduces, some codes, some method, some accept, some realm,
      some fn, some data, some argProduces, some memo, some rprod, some encs, some ebody, some obs =>
      let cfg : Cfg := ⟨dflt, regKeys.map toLower⟩
      let enc := encOf (regKeys.map toLower) encs
      let specs := C07.parseAccept accept
      let success := declaredSuccess codes
      let succOk := succ == (match success with | some c => toString c | none => "-")
      let envOk := succOk && rprodConsistent dflt opProduces rprod
      let creds := cred == "2"
      let observed := " ".intercalate [oc, st, ct, www, calls, body, handed, errcalls, ran]
      let _ := hasDefault
      if stream == "A" then
        let c : ApiCase := ⟨cfg, ⟨rprod, true, success⟩, method, specs,
          (if sec == "1" then some realm else none), creds, fn, data⟩
        let m := serve c enc ebody
        let tag :=
          match c.sec, authorize creds fn with
          | some _, .fail _ _ =>
            s!"A:auth:{if creds then (if fn == .nilnil then "nilnil" else "rejected") else "absent"}"
          | _, _ =>
            if notAcceptable c then "A:406"
            else
              let t := respondTag cfg rprod (some c.route) ⟨method, specs, none, []⟩ data
              if t.startsWith "~" then "~A:" ++ t.drop 1 else "A:" ++ t
        { agree := envOk && renderOut m == observed, specOk := specServe c enc obs, tag := tag,
          model := renderOut m ++ (if envOk then "" else " [environment: SuccessResponse/route.Produces differ from their models]") }
      else if stream == "R" then
        let route : Option Route :=
          if mode == "N" then none else some ⟨rprod, mode == "R", success⟩
        let produces := if mode == "N" then argProduces else rprod
        let marker := if sec == "1" then basicMarker realm creds fn else []
        let req : Req := ⟨method, specs, (if memo == [] then none else some memo), marker⟩
        let failedBasic : Option Bytes :=
          if sec == "1" && (!creds || (match fn with | .err _ => true | _ => false)) then some realm else none
        -- in stream R the error handed to Respond is the data itself
        let m := respond cfg produces route req data enc ebody
        let t := respondTag cfg produces route req data
        { agree := envOk && renderOut m == observed,
          specOk := specRespond cfg produces route req failedBasic data enc obs,
          tag := (if t.startsWith "~" then "~R:" ++ t.drop 1 else "R:" ++ t),
          model := renderOut m ++ (if envOk then "" else " [environment: SuccessResponse/route.Produces differ from their models]") }
      else .bad "C08 stream"
    | _, _, _, _, _, _, _, _, _, _, _, _, _, _, _ => .bad "C08 fields"
  | _, ["INVALID", _] =>
    -- the harness refused the input line (not a case; produced by the shrinker): nothing was observed
    { agree := true, specOk := true, tag := "~invalid-input", model := "INVALID" }
  | _, _ => .bad "C08 line"

end RtVerif.C08
