import RtVerif.Base.Bytes
import RtVerif.Base.Verdict
import RtVerif.Gen.Facts
import RtVerif.Model.C07
/-
  C06 — a body is decoded only by the consumer of an admitted media type, else 415.

  Model: transcription of
    * `runtime.HasBody`                         (request.go)        → `hasBody`
    * `runtime.ContentType`                     (headers.go)        → `runtimeContentType`
    * `middleware.validateContentType`          (validation.go)     → `validateContentType`
    * `defaultRouteBuilder.AddRoute` (consumes + API default; `Consumers` = `ConsumersFor` of the
      listed types cut at `;`) and `untyped.API.RegisterConsumer/ConsumersFor`
                                                                    → `routeConsumes`, `routeConsumer`
    * `validation.contentType` (reflective entry point, behind `Context.BindAndValidate`)
                                                                    → `untypedRaw`
    * the head of `Context.BindValidRequest` (entry point of generated servers) → `typedRaw`
    * the WHOLE of `Context.BindValidRequest` (head, response-format check, binder call, returned
      error) → `typedFull`; the whole of `validateRequest` + `Context.BindAndValidate`
      (`validation.contentType`, `validation.responseFormat` / `Context.ResponseFormat`,
      `validation.parameters`) → `untypedFull`. The Accept negotiation is C07's model
      (`C07.parseAccept`, `C07.negotiateContentType`); `route.Produces` is `routeProduces`
    * `errors.ServeError` on a composite error (serves the first error)          → `observe`

  `mime.ParseMediaType` is a PARAMETER `pmt : Bytes → Option Bytes` (`none` = any error, `some t` =
  the media type it returns). The peek into the body stream done by `HasBody` (C17) is the boolean
  `streamHasData`.
-/
namespace RtVerif.C06
open RtVerif Bytes

/-- `mime.ParseMediaType` as far as the gate uses it: `none` = error, `some t` = media type. -/
abbrev Pmt := Bytes → Option Bytes

/-- What the API author configured. -/
structure Api where
  /-- `analyzer.ConsumesFor(operation)`, as spelled in the spec -/
  opConsumes : List Bytes
  /-- `api.DefaultConsumes()` (`[]` = none) -/
  dflt : Bytes
  /-- the media types passed to `RegisterConsumer`, in call order; a consumer's id is its position -/
  registered : List Bytes
deriving Repr

structure ReqHead where
  method : Bytes
  /-- `Header["Content-Type"]` -/
  ctLines : List Bytes
  /-- `Request.ContentLength` -/
  contentLength : Int
  /-- `Header.Get("Content-Length")` -/
  clHeader : Bytes
  /-- `peekingReader.HasContent()`: the body stream yields at least one byte (false for a nil Body) -/
  streamHasData : Bool
deriving Repr

/-! ## small pieces -/

/-- `swag.ContainsStringsCI` (ASCII folding) -/
def containsCI (coll : List Bytes) (item : Bytes) : Bool := coll.any fun a => equalFold a item

/-- `d.consumers[key]` after the calls `RegisterConsumer(registered[i], consumer i)`, each of which
stores under `strings.ToLower(mediaType)`: the LAST registration whose lower-cased name is `key`. -/
def regLookupFrom (i : Nat) : List Bytes → Bytes → Option Nat
  | [], _ => none
  | m :: ms, key =>
    match regLookupFrom (i + 1) ms key with
    | some k => some k
    | none => if toLower m == key then some i else none

def regLookup (registered : List Bytes) (key : Bytes) : Option Nat := regLookupFrom 0 registered key

/-- router.go `AddRoute`: "add API defaults if not part of the spec" -/
def routeConsumes (api : Api) : List Bytes :=
  if !api.dflt.isEmpty && !containsCI api.opConsumes api.dflt then api.opConsumes ++ [api.dflt]
  else api.opConsumes

/-- negotiate.go `normalizeOffer`: the part before the first `;` -/
def normalizeOffer (o : Bytes) : Bytes := beforeByte o 59

/-- `route.Consumers[ct]` where `Consumers = api.ConsumersFor(normalizeOffers(consumes))` -/
def routeConsumer (api : Api) (ct : Bytes) : Option Nat :=
  if ((routeConsumes api).map normalizeOffer).contains ct then regLookup api.registered ct else none

/-- request.go `HasBody` -/
def hasBody (h : ReqHead) : Bool :=
  if h.contentLength > 0 then true
  else if !h.clHeader.isEmpty then false
  else h.streamHasData

/-- `http.Header.Get`: the first line, `""` when there is none -/
def headerGet (lines : List Bytes) : Bytes := lines.headD []

/-- the string `runtime.ContentType` hands to `mime.ParseMediaType` -/
def effCT (h : ReqHead) : Bytes :=
  if (headerGet h.ctLines).isEmpty then Facts.defaultMime else headerGet h.ctLines

inductive CT where
  | err
  | ok (mt : Bytes)
deriving Repr, DecidableEq

/-- headers.go `ContentType` (media type only; the charset plays no part in the gate) -/
def runtimeContentType (pmt : Pmt) (h : ReqHead) : CT :=
  if (effCT h).isEmpty then .ok []
  else match pmt (effCT h) with
    | none => .err
    | some mt => .ok mt

def starSlashStar : Bytes := [42, 47, 42]
def slashStar : Bytes := [47, 42]

/-- `parts := strings.Split(actual, "/"); len(parts) == 2` → `parts[0]+"/*"` -/
def typeWildcard (actual : Bytes) : Option Bytes :=
  match splitByte 47 actual with
  | [a, _] => some (a ++ slashStar)
  | _ => none

def wildAdmits (allowed : List Bytes) (actual : Bytes) : Bool :=
  match typeWildcard actual with
  | some w => containsCI allowed w
  | none => false

/-- the three `ContainsStringsCI` tests of `validateContentType` -/
def admittedBy (allowed : List Bytes) (mt actual : Bytes) : Bool :=
  containsCI allowed mt || containsCI allowed starSlashStar || wildAdmits allowed actual

/-- validation.go `validateContentType`; `true` = nil error, `false` = 415 -/
def validateContentType (pmt : Pmt) (allowed : List Bytes) (actual : Bytes) : Bool :=
  if Facts.emptyAllowsAll && allowed.isEmpty then true
  else match pmt actual with
    | none => false
    | some mt => admittedBy allowed mt actual

inductive Err where
  | badRequest     -- errors.NewParseError            (400)
  | unsupported    -- errors.InvalidContentType       (415)
  | noConsumer     -- "no consumer registered for %s" (500)
deriving Repr, DecidableEq

def Err.code : Err → Nat
  | .badRequest => 400
  | .unsupported => 415
  | .noConsumer => 500

/-- What a gate leaves behind: the error list and `route.Consumer`. -/
structure Raw where
  errs : List Err
  selected : Option Nat
deriving Repr, DecidableEq

/-! ## the reflective entry point: `validation.contentType` -/

/-- `ct, _, req, err := v.context.ContentType(v.request)` -/
def uStep1 (pmt : Pmt) (h : ReqHead) : List Err × Bytes :=
  match runtimeContentType pmt h with
  | .err => ([.badRequest], [])
  | .ok mt => ([], mt)

/-- `if len(v.result) == 0 { if err := validateContentType(...); err != nil { append } }` -/
def uStep2 (pmt : Pmt) (api : Api) (res : List Err) (ct : Bytes) : List Err :=
  if res.isEmpty then
    if validateContentType pmt (routeConsumes api) ct then res else res ++ [.unsupported]
  else res

/-- `if ct != "" && v.route.Consumer == nil { cons, ok := v.route.Consumers[ct] … }`
(`route.Consumer` is nil: every lookup returns a fresh `MatchedRoute`) -/
def uStep3 (api : Api) (res : List Err) (ct : Bytes) : Raw :=
  if ct.isEmpty then ⟨res, none⟩
  else match routeConsumer api ct with
    | none => ⟨res ++ [.noConsumer], none⟩
    | some k => ⟨res, some k⟩

/-- `none`: the gate was not applied (`HasBody` false). -/
def untypedRaw (pmt : Pmt) (api : Api) (h : ReqHead) : Option Raw :=
  if hasBody h then
    some (uStep3 api (uStep2 pmt api (uStep1 pmt h).1 (uStep1 pmt h).2) (uStep1 pmt h).2)
  else none

/-! ## the entry point of generated servers: head of `Context.BindValidRequest` -/

def tStep (pmt : Pmt) (api : Api) (ct : Bytes) : Raw :=
  if validateContentType pmt (routeConsumes api) ct then
    match routeConsumer api ct with
    | none => ⟨[.noConsumer], none⟩
    | some k => ⟨[], some k⟩
  else ⟨[.unsupported], none⟩

def tAfterCT (pmt : Pmt) (api : Api) : CT → Raw
  | .err => ⟨[.badRequest], none⟩
  | .ok ct => tStep pmt api ct

def typedRaw (pmt : Pmt) (api : Api) (h : ReqHead) : Option Raw :=
  if hasBody h then some (tAfterCT pmt api (runtimeContentType pmt h)) else none

/-! ## what can be observed of a gate -/

inductive GateOut where
  | skipped
  | consumer (k : Nat)
  | e415
  | e400
  | e500NoConsumer
  /-- the gate raised no error for a body-carrying request yet left `route.Consumer` nil: the
  binder then calls `Consume` on a nil interface (a Go panic). Unreachable for a parser that never
  returns an empty type (`gate_never_passes_without_consumer`). -/
  | passNoConsumer
  /-- only for observations of the real code: a status the gate has no business producing -/
  | unexpected (code : Nat)
deriving Repr, DecidableEq

def GateOut.ofErr : Err → GateOut
  | .badRequest => .e400
  | .unsupported => .e415
  | .noConsumer => .e500NoConsumer

/-- `errors.ServeError` on `CompositeValidationError(errs...)` serves `errs[0]`. -/
def observe : Option Raw → GateOut
  | none => .skipped
  | some ⟨[], some k⟩ => .consumer k
  | some ⟨[], none⟩ => .passNoConsumer
  | some ⟨e :: _, _⟩ => .ofErr e

def gateUntyped (pmt : Pmt) (api : Api) (h : ReqHead) : GateOut := observe (untypedRaw pmt api h)
def gateTyped (pmt : Pmt) (api : Api) (h : ReqHead) : GateOut := observe (typedRaw pmt api h)

/-- which consumer's `Consume` runs afterwards (body parameter binder / generated binder) -/
def consumerRan : GateOut → Option Nat
  | .consumer k => some k
  | _ => none

/-- whether the operation handler runs afterwards -/
def handlerRan : GateOut → Bool
  | .skipped => true
  | .consumer _ => true
  | _ => false

/-- status of the complete handler (`none` = the nil-consumer panic) when nothing else fails -/
def status : GateOut → Option Nat
  | .skipped => some 200
  | .consumer _ => some 200
  | .e415 => some 415
  | .e400 => some 400
  | .e500NoConsumer => some 500
  | .passNoConsumer => none
  | .unexpected c => some c

/-! ## Spec — written from the property text

"A request that carries a body is decoded by the consumer registered for its media type, and only if
that media type (compared case-insensitively, ignoring parameters such as charset) is admitted by the
operation's consumes list - to which the API's default media type is always added - directly or
through a wildcard entry; a request without a body is not subjected to the check. Otherwise the answer
is 415 (400 when the Content-Type header cannot be parsed) and neither a consumer nor the handler
runs; the two binding entry points … accept or refuse the same requests and pick the same consumer."

Readings:
* "carries a body": positive `ContentLength`, or no Content-Length header and a body stream that
  yields data (chunked transfer).
* "its media type": the type `mime.ParseMediaType` extracts (lower-cased, parameters dropped) from
  the Content-Type header; an absent/empty header stands for `runtime.DefaultMime`.
* "admitted": some entry of `consumes ∪ {default}` equals the type up to ASCII case (directly), or is
  `*/*`, or is `major/*` where the type is `major/sub` (wildcard entries). Entries are compared as
  spelled: an entry carrying parameters admits nothing.
* "the consumer registered for its media type": the API's registration for exactly that type
  (registrations are stored under their lower-cased name, the last one wins).
* An admitted type for which the ROUTE holds no consumer is answered 500 without consumer or
  handler; the text does not speak about this case. The Spec accepts it exactly when nothing is
  registered for the type or the type is not itself spelled in the list (admitted through a wildcard
  or a case variant only) — for a type that is listed as spelled and registered, the registered
  consumer is demanded.
-/

def carriesBody (h : ReqHead) : Bool :=
  h.contentLength > 0 || (h.clHeader.isEmpty && h.streamHasData)

/-- the operation's consumes list "to which the API's default media type is always added" -/
def allConsumes (api : Api) : List Bytes :=
  if api.dflt.isEmpty then api.opConsumes else api.opConsumes ++ [api.dflt]

/-- the request's media type: `none` when the header cannot be parsed -/
def mediaType (pmt : Pmt) (h : ReqHead) : Option Bytes :=
  match h.ctLines with
  | [] => pmt Facts.defaultMime
  | l :: _ => if l.isEmpty then pmt Facts.defaultMime else pmt l

/-- `major/*` for a type of the shape `major/sub` -/
def majorWildcard (t : Bytes) : Option Bytes :=
  match splitByte 47 t with
  | [a, _] => some (a ++ [47, 42])
  | _ => none

/-- one entry admits the type: directly (case-insensitively), or as `*/*`, or as `major/*` -/
def entryAdmits (t : Bytes) (e : Bytes) : Bool :=
  equalFold e t || equalFold e [42, 47, 42] ||
    (match majorWildcard t with | some w => equalFold e w | none => false)

def admitted (consumes : List Bytes) (t : Bytes) : Bool := consumes.any (entryAdmits t)

/-- the type itself is spelled in the list -/
def listedAsSpelled (consumes : List Bytes) (t : Bytes) : Bool := consumes.contains t

def Spec (pmt : Pmt) (api : Api) (h : ReqHead) (out : GateOut) : Bool :=
  if !carriesBody h then out == .skipped
  else match mediaType pmt h with
    | none => out == .e400
    | some t =>
      if !admitted (allConsumes api) t then out == .e415
      else match out with
        | .consumer k => regLookup api.registered t == some k
        | .e500NoConsumer =>
          regLookup api.registered t == none || !listedAsSpelled (allConsumes api) t
        | _ => false

/-- What is seen of one entry point on one request. -/
structure Obs where
  out : GateOut
  ran : Option Nat
  handled : Bool
deriving Repr, DecidableEq

/-- "neither a consumer nor the handler runs" on refusal; the selected consumer is the one that
decodes; nothing is decoded when there is no body. -/
def SpecObs (pmt : Pmt) (api : Api) (h : ReqHead) (o : Obs) : Bool :=
  Spec pmt api h o.out &&
    (match o.out with
     | .consumer k => o.ran == some k && o.handled
     | .skipped => o.ran == none && o.handled
     | _ => o.ran == none && !o.handled)

def modelObs (out : GateOut) : Obs := ⟨out, consumerRan out, handlerRan out⟩

/-- The property quantifies over "consumes lists spelled in lower case". -/
def WF (api : Api) : Bool := api.opConsumes.all fun e => toLower e == e

/-! ## reading an observation of the real code as a gate outcome -/

def outOfCode (c : Nat) : GateOut :=
  if c == 400 then .e400 else if c == 415 then .e415 else if c == 500 then .e500NoConsumer
  else .unexpected c

/-- the observable outcome of an entry point from what the harness saw of the real code -/
def obsOut (carries : Bool) (codes : List Nat) (ran : Option Nat) : GateOut :=
  match codes with
  | c :: _ => outOfCode c
  | [] => match ran with
    | some k => .consumer k
    | none => if carries then .passNoConsumer else .skipped

/-! ## the whole functions: content-type gate, response-format check, binder

`Context.BindValidRequest(request, route, binder)` (generated servers) and
`validateRequest` behind `Context.BindAndValidate` (reflective). Additional inputs: the parsed Accept
header (`header.ParseAccept(r.Header, "Accept")`, C07's `parseAccept` of the header lines),
`route.Produces`, and — for the generated entry point — the binder handed in and what it returns. -/

/-- an error appended to `res` / `v.result` -/
inductive FErr where
  | gate (e : Err)
  | notAcceptable          -- errors.InvalidResponseFormat (406)
deriving Repr, DecidableEq

def FErr.code : FErr → Nat
  | .gate e => e.code
  | .notAcceptable => 406

/-- what `binder.BindRequest` returns: nil, or an error value (shown by its code; 599 = an error
that is not an `errors.Error`) -/
inductive BinderRes where
  | ok
  | fail (code : Nat)
deriving Repr, DecidableEq

structure TailIn where
  /-- `header.ParseAccept(request.Header, "Accept")` -/
  specs : List C07.Spec
  /-- `route.Produces` -/
  produces : List Bytes
  /-- `none`: a nil binder -/
  binder : Option BinderRes
deriving Repr

/-- the `error` an entry point returns -/
inductive Ret where
  | nil
  /-- `errors.CompositeValidationError(res...)` -/
  | composite (errs : List FErr)
  /-- the binder's own error value, handed back unchanged (not wrapped) -/
  | asIs (code : Nat)
deriving Repr, DecidableEq

structure Full where
  ret : Ret
  /-- `binder.BindRequest` / `route.Binder.Bind` was called -/
  binderRan : Bool
  /-- `route.Consumer` afterwards -/
  selected : Option Nat
deriving Repr, DecidableEq

/-- router.go `AddRoute`: `analyzer.ProducesFor(operation)` plus the API default "if not part of
the spec" (the analyzer returns the operation's list without duplicates in map order; the harness
checks the observed `route.Produces` against this list up to the order of the operation's part). -/
def routeProduces (opProduces : List Bytes) (dprod : Bytes) : List Bytes :=
  if !dprod.isEmpty && !containsCI opProduces dprod then opProduces ++ [dprod] else opProduces

def rawErrs : Option Raw → List FErr
  | none => []
  | some r => r.errs.map .gate

def rawSel : Option Raw → Option Nat
  | none => none
  | some r => r.selected

/-- `NegotiateContentType(request, offers, "") == ""` -/
def noFormat (specs : List C07.Spec) (offers : List Bytes) : Bool :=
  (C07.negotiateContentType specs offers []).isEmpty

/-- context.go, "check and validate the response format":
`if len(res) == 0 && len(route.Produces) > 0 { if NegotiateContentType(request, route.Produces, "") == "" { append 406 } }` -/
def tRespCheck (res : List FErr) (t : TailIn) : List FErr :=
  if res.isEmpty && !t.produces.isEmpty then
    if noFormat t.specs t.produces then res ++ [.notAcceptable] else res
  else res

/-- "now bind the request with the provided binder" and the returns of `BindValidRequest` -/
def tBind (res : List FErr) (sel : Option Nat) : Option BinderRes → Full
  | none => match res with
    | [] => ⟨.nil, false, sel⟩
    | e :: es => ⟨.composite (e :: es), false, sel⟩
  | some b => match res with
    | [] => match b with
      | .ok => ⟨.nil, true, sel⟩
      | .fail c => ⟨.asIs c, true, sel⟩
    | e :: es => ⟨.composite (e :: es), false, sel⟩

/-- `Context.BindValidRequest` -/
def typedFull (pmt : Pmt) (api : Api) (h : ReqHead) (t : TailIn) : Full :=
  tBind (tRespCheck (rawErrs (typedRaw pmt api h)) t) (rawSel (typedRaw pmt api h)) t.binder

/-- validation.go: `if len(validate.result) == 0 { validate.responseFormat() }` with
`responseFormat`: `if str, _ := ResponseFormat(request, route.Produces); str == "" && len(route.Produces) > 0 { append 406 }`
(`Context.ResponseFormat` on a request without a cached format is `NegotiateContentType(r, offers, "")`) -/
def uRespCheck (res : List FErr) (t : TailIn) : List FErr :=
  if res.isEmpty then
    if noFormat t.specs t.produces && !t.produces.isEmpty then res ++ [.notAcceptable] else res
  else res

/-- `if len(validate.result) == 0 { validate.parameters() }` (the route's own parameter binder; in
the harness its body parameter accepts every value) and the returns of `BindAndValidate` -/
def uBind (res : List FErr) (sel : Option Nat) : Full :=
  match res with
  | [] => ⟨.nil, true, sel⟩
  | e :: es => ⟨.composite (e :: es), false, sel⟩

/-- `validateRequest` + `Context.BindAndValidate` (the binder of `t` plays no part) -/
def untypedFull (pmt : Pmt) (api : Api) (h : ReqHead) (t : TailIn) : Full :=
  uBind (uRespCheck (rawErrs (untypedRaw pmt api h)) t) (rawSel (untypedRaw pmt api h))

/-- the consumer whose `Consume` runs: the selected one, when a binder that decodes ran -/
def Full.decoded (f : Full) : Option Nat :=
  match f.ret with
  | .nil => if f.binderRan then f.selected else none
  | _ => none

def Ret.codes : Ret → List Nat
  | .nil => []
  | .composite es => es.map FErr.code
  | .asIs c => [c]

def Ret.isAsIs : Ret → Bool
  | .asIs _ => true
  | _ => false

/-- The transcription of the tail as it stood before the repair of F06b (kept to state what was
wrong, `Props/C06.lean` `old_tail_differs_iff`): the request's own media type — set only when a
body was admitted and its consumer found — was the DEFAULT offer of the negotiation, `*/*` standing
in when there was neither a produces list nor a body. -/
def tRespCheckOld (res : List FErr) (rct : Bytes) (t : TailIn) : List FErr :=
  if res.isEmpty then
    if (C07.negotiateContentType t.specs t.produces
          (if t.produces.isEmpty && rct.isEmpty then starSlashStar else rct)).isEmpty
    then res ++ [.notAcceptable] else res
  else res

/-! ## Spec for the whole functions — from the property texts

C06: "Otherwise the answer is 415 (400 …) and neither a consumer nor the handler runs; the two
binding entry points … accept or refuse the same requests and pick the same consumer."
C07: "Given the client's Accept header and the media types an operation can produce (its produces
list plus the API's default type, last) … ranges with quality 0 never select an offer and a missing
Accept header selects the first offer. Through the API handler, a request whose Accept header admits
none of the types its operation declares is answered 406 and the handler does not run."

Readings:
* "the types its operation declares": the operation's produces list plus the API's default type.
* "admits": the header is missing (or yields no range at all), or some range of quality > 0
  matches some declared type — exactly, as `type/*` for a type of that major type, or as `*/*`;
  the declared type is compared without its parameters (C07's `matchWild` on `normalizeOffer`).
* An operation that declares NO type (no produces list and an API without default type) is not
  subjected to the check: there is nothing the header could admit or exclude, and both entry points
  say so in their comments ("the API designer chose not to specify the format for responses").
* The check does not depend on the request body: the request's own media type is not a declared
  type (this is what F06b was about).
* Order of the answers: the content-type gate comes first (400/415/500 as in `Spec`), then 406;
  406 stands alone. Only when no check failed is the binder called (generated entry point: the one
  handed in, if any; reflective: the route's parameter binder), and the error of the binder handed
  in is returned as the very value it returned.
* "the handler does not run": a refused request reaches neither binder, consumer nor handler. -/

/-- the operation's produces list plus the API's default type, last -/
def declaredTypes (opProduces : List Bytes) (dprod : Bytes) : List Bytes :=
  if dprod.isEmpty then opProduces else opProduces ++ [dprod]

/-- the range `sp` (quality > 0) matches the declared type `o` -/
def rangeAdmits (o : Bytes) (sp : C07.Spec) : Bool :=
  !sp.q.isZero && (C07.matchWild sp.value (C07.normalizeOffer o)).isSome

/-- the Accept header admits one of the declared types -/
def acceptAdmits (specs : List C07.Spec) (declared : List Bytes) : Bool :=
  specs.isEmpty || declared.any fun o => specs.any (rangeAdmits o)

/-- What is seen of one entry point on one request (whole function). -/
structure FullObs where
  /-- codes of the returned error(s), in order -/
  codes : List Nat
  /-- the returned error is the very value the binder returned -/
  asIs : Bool
  binderRan : Bool
  /-- `route.Consumer` afterwards -/
  selected : Option Nat
  /-- the consumer whose `Consume` ran -/
  decoded : Option Nat
deriving Repr, DecidableEq

def obsOfFull (f : Full) : FullObs := ⟨f.ret.codes, f.ret.isAsIs, f.binderRan, f.selected, f.decoded⟩

/-- the codes that speak about the content-type gate: not the binder's own error, not 406 -/
def gateCodes (o : FullObs) : List Nat := if o.asIs then [] else o.codes.filter (· != 406)

/-- the outcome of the content-type gate as far as it shows -/
def gateSeen (h : ReqHead) (o : FullObs) : GateOut := obsOut (carriesBody h) (gateCodes o) o.selected

def SpecFull (pmt : Pmt) (api : Api) (h : ReqHead) (specs : List C07.Spec) (declared : List Bytes)
    (binder : Option BinderRes) (o : FullObs) : Bool :=
  Spec pmt api h (gateSeen h o) &&
  match gateSeen h o with
  | .skipped | .consumer _ =>
    if !declared.isEmpty && !acceptAdmits specs declared then
      o.codes == [406] && !o.asIs && !o.binderRan && o.decoded == none
    else match binder with
      | none => o.codes == [] && !o.asIs && !o.binderRan && o.decoded == none
      | some .ok => o.codes == [] && !o.asIs && o.binderRan && o.decoded == consumerRan (gateSeen h o)
      | some (.fail c) => o.codes == [c] && o.asIs && o.binderRan && o.decoded == none
  | _ => !o.asIs && !o.binderRan && o.decoded == none

/-- what the checks (gate, response format) answered: `none` = nothing to object -/
def checksVerdict (o : FullObs) : Option Nat := if o.asIs then none else o.codes.head?

/-- produces lists in the property's quantifier: spelled in lower case (as the consumes lists), no
empty entry -/
def WFp (opProduces : List Bytes) (dprod : Bytes) : Bool :=
  (opProduces.all fun e => toLower e == e && !e.isEmpty) && toLower dprod == dprod

/-- No recorded finding class (F06a was repaired: see known_findings.txt). -/
def Known (_api : Api) (_h : ReqHead) : Option String := none

/-! ## Driver entry -/

/-- the parser as observed on this case: `eff ↦ p1`, and `p1`'s type `↦ p2` -/
def obsPmt (eff : Bytes) (p1 p2 : Option Bytes) : Pmt := fun x =>
  if x == eff then p1 else if some x == p1 then p2 else none

/-- the hypotheses the theorems put on `pmt`, checked on the observed values -/
def obsHypsOk (p1 p2 : Option Bytes) : Bool :=
  match p1 with
  | none => true
  | some t => p2 == some t && !t.isEmpty && !t.contains 59

def decParse (s : String) : Option (Option Bytes) :=
  if s == "E" then some none else (decField s).map some

def decCodes (s : String) : Option (List Nat) :=
  if s == "." then some [] else (s.splitOn ",").mapM String.toNat?

def decId (s : String) : Option (Option Nat) :=
  if s == "-1" then some none else s.toNat?.map some

def encCodes (l : List Err) : String :=
  if l.isEmpty then "." else ",".intercalate (l.map fun e => toString e.code)

def encId : Option Nat → String
  | none => "-1"
  | some k => toString k

def renderRaw (r : Option Raw) (out : GateOut) : String :=
  match r with
  | none => s!". -1 {encId (consumerRan out)}"
  | some x => s!"{encCodes x.errs} {encId x.selected} {encId (consumerRan out)}"

def bodySignal (h : ReqHead) : String :=
  if h.contentLength > 0 then "cl" else "stream"

def tagOf (pmt : Pmt) (api : Api) (h : ReqHead) : String :=
  match untypedRaw pmt api h with
  | none => if !h.clHeader.isEmpty then "skip:clheader" else if h.ctLines.isEmpty then "~skip:plain" else "skip:nodata"
  | some r =>
    let hdr := if (headerGet h.ctLines).isEmpty then "absent" else "hdr"
    let base :=
      match observe (some r) with
      | .e400 => "e400"
      | .e415 =>
        (if r.errs.length > 1 then "e415+500" else "e415") ++
          (if (routeConsumes api).isEmpty then ":empty" else "")
      | .e500NoConsumer =>
        (match mediaType pmt h with
         | some t =>
           if regLookup api.registered t == none then "e500:unregistered"
           else "e500:notlisted"
         | none => "e500:?")
      | .consumer _ =>
        (match mediaType pmt h with
         | some t =>
           if containsCI (routeConsumes api) t then "ok:direct"
           else if containsCI (routeConsumes api) starSlashStar then "ok:star" else "ok:typewild"
         | none => "ok:?")
      | .passNoConsumer => "passNoConsumer"
      | _ => "other"
    s!"{base}/{hdr}/{bodySignal h}"

/-! ### stream H: the whole functions -/

def decBinder (s : String) : Option (Option BinderRes) :=
  if s == "0" then some none
  else if s == "1" then some (some .ok)
  else if s == "2" then some (some (.fail 422))
  else if s == "3" then some (some (.fail 599))
  else none

def encNats (l : List Nat) : String :=
  if l.isEmpty then "." else ",".intercalate (l.map toString)

/-- the observed `route.Produces` is `routeProduces` of the operation's list without duplicates, up
to the order of the operation's part (the analyzer hands it over in map order) -/
def routeProducesOK (opProduces : List Bytes) (dprod : Bytes) (rp : List Bytes) : Bool :=
  let u := opProduces.eraseDups
  let want := routeProduces u dprod
  rp.length == want.length && want.all rp.contains && rp.all want.contains &&
    (want.length == u.length || rp.getLast? == some dprod)

def renderFull (f : Full) : String :=
  s!"{encNats f.ret.codes} {encId f.selected} {if f.binderRan then 1 else 0} {encId f.decoded} {if f.ret.isAsIs then 1 else 0}"

def binderTag : Option BinderRes → String
  | none => "nil"
  | some .ok => "ok"
  | some (.fail c) => s!"f{c}"

def tagFull (pmt : Pmt) (api : Api) (h : ReqHead) (t : TailIn) : String :=
  let g := match gateTyped pmt api h with
    | .skipped => "skip" | .consumer _ => "ok" | .e400 => "e400" | .e415 => "e415"
    | .e500NoConsumer => "e500" | _ => "other"
  let reached := handlerRan (gateTyped pmt api h)
  let fmt :=
    if !reached then "-"
    else if t.produces.isEmpty then "noproduces"
    else if t.specs.isEmpty then "noaccept"
    else if noFormat t.specs t.produces then "406"
    else match C07.firstMax (C07.candidates t.specs t.produces) with
      | some b => s!"w{b.wild}"
      | none => "?"
  s!"H:{g}/{fmt}/{binderTag t.binder}"

def run (ins outs : List String) : Verdict :=
  match ins, outs with
  | _, ["PANIC", msg] =>
    { agree := false, specOk := false, tag := "panic", model := "no panic expected; impl: " ++ msg }
  | _, ["INVALID"] =>
    -- the harness refused the line (a method without a route: produced by the shrinker only)
    { agree := true, specOk := true, tag := "~not-an-input", model := "INVALID" }
  | ["R", cons, dflt, _paramKind], [rc] =>
    -- stream R: what the router files as the operation's consumes list — `routeConsumes`, the operation's own
    -- list (in the analyzer's map order, duplicates dropped) plus the API default, LAST, unless it is in
    -- the list already; whatever parameters the operation declares
    match decList cons, decField dflt, decList rc with
    | some cons, some dflt, some rc' =>
      let u := cons.eraseDups
      let want := routeConsumes ⟨u, dflt, []⟩
      let ok := rc'.length == want.length && want.all rc'.contains && rc'.all want.contains &&
        (want.length == u.length || rc'.getLast? == some dflt)
      -- Spec: the default type is always among them
      let spec := dflt.isEmpty || containsCI rc' dflt
      { agree := ok, specOk := ok && spec, tag := s!"R:n={u.length.min 3}:{if want.length == u.length then "has" else "adds"}",
        model := encList want }
    | _, _, _ => .bad "C06 R fields"
  | ["G", cons, dflt, reg, meth, cts, cl, clh, mode],
    [hb, eff, p1, p2, uC, uS, uR, tC, tS, tR, sSt, sR, sH] =>
    match decList cons, decField dflt, decList reg, decField meth, decList cts, cl.toInt?,
          decField clh, mode.toNat? with
    | some cons, some dflt, some reg, some meth, some cts, some cl, some clh, some mode =>
      match decField eff, decParse p1, decParse p2, decCodes uC, decId uR, decCodes tC, decId tR,
            sSt.toNat?, decId sR, sH.toNat? with
      | some eff', some p1, some p2, some uC', some uR', some tC', some tR', some sSt', some sR',
        some sH' =>
        let api : Api := ⟨cons, dflt, reg⟩
        let h : ReqHead := ⟨meth, cts, cl, clh, mode == 2⟩
        let pmt := obsPmt eff' p1 p2
        let u := untypedRaw pmt api h
        let t := typedRaw pmt api h
        let gu := observe u
        let gt := observe t
        let stat := match status gu with | some c => toString c | none => "PANIC"
        let m := s!"{if hasBody h then 1 else 0} {encField (effCT h)} {renderRaw u gu} {renderRaw t gt} {stat} {encId (consumerRan gu)} {if handlerRan gu then 1 else 0}"
        let impl := s!"{hb} {eff} {uC} {uS} {uR} {tC} {tS} {tR} {sSt} {sR} {sH}"
        let hyps := obsHypsOk p1 p2
        let carries := carriesBody h
        let oU : Obs := ⟨obsOut carries uC' uR', uR', uC'.isEmpty⟩
        let oT : Obs := ⟨obsOut carries tC' tR', tR', tC'.isEmpty⟩
        let oS : Obs := ⟨obsOut carries (if sSt' == 200 then [] else [sSt']) sR', sR', sH' == 1⟩
        -- outside the property's quantifier (a consumes entry not in lower case) only the
        -- correspondence is checked
        let specOk := !WF api || (SpecObs pmt api h oU && SpecObs pmt api h oT && SpecObs pmt api h oS &&
          oU.out == oT.out && oT.out == oS.out && sH' ≤ 1)
        { agree := m == impl && hyps, specOk := specOk,
          known := (Known api h).getD "-",
          tag := if !hyps then "PMT-HYPOTHESIS-FAILED"
            else if WF api then tagOf pmt api h else "~mixedcase:" ++ tagOf pmt api h, model := m }
      | _, _, _, _, _, _, _, _, _, _ => .bad "C06 output fields"
    | _, _, _, _, _, _, _, _ => .bad "C06 input fields"
  | ["H", cons, dflt, reg, meth, cts, cl, clh, mode, oprod, dprod, acc, bnd],
    [hb, eff, p1, p2, rp, uC, uS, uR, tC, tS, tB, tR, tI, sSt, sR, sH] =>
    match decList cons, decField dflt, decList reg, decField meth, decList cts, cl.toInt?,
          decField clh, mode.toNat? with
    | some cons, some dflt, some reg, some meth, some cts, some cl, some clh, some mode =>
      match decList oprod, decField dprod, decList acc, decBinder bnd, decList rp with
      | some oprod, some dprod, some acc, some bnd, some rp' =>
        match decField eff, decParse p1, decParse p2, decCodes uC, decId uS, decId uR, decCodes tC, decId tS with
        | some eff', some p1, some p2, some uC', some uS', some uR', some tC', some tS' =>
          match tB.toNat?, decId tR, tI.toNat?, sSt.toNat?, decId sR, sH.toNat? with
          | some tB', some tR', some tI', some sSt', some sR', some sH' =>
            let api : Api := ⟨cons, dflt, reg⟩
            let h : ReqHead := ⟨meth, cts, cl, clh, mode == 2⟩
            let pmt := obsPmt eff' p1 p2
            let specs := C07.parseAccept acc
            let t : TailIn := ⟨specs, rp', bnd⟩
            let fU := untypedFull pmt api h t
            let fT := typedFull pmt api h t
            let rpok := routeProducesOK oprod dprod rp'
            -- S: the complete handler (not run for an API without default producer: `Respond`
            -- needs one — C08's subject)
            let sModel :=
              if dprod.isEmpty then "0 -1 0"
              else if gateUntyped pmt api h == .passNoConsumer then "PANIC -1 0"
              else s!"{match fU.ret.codes with | c :: _ => c | [] => 200} {encId fU.decoded} {if fU.binderRan then 1 else 0}"
            let m := s!"{if hasBody h then 1 else 0} {encField (effCT h)} {if rpok then 1 else 0} {encNats fU.ret.codes} {encId fU.selected} {encId fU.decoded} {renderFull fT} {sModel}"
            let impl := s!"{hb} {eff} 1 {uC} {uS} {uR} {tC} {tS} {tB} {tR} {tI} {sSt} {sR} {sH}"
            let hyps := obsHypsOk p1 p2
            let declared := declaredTypes oprod dprod
            let oU : FullObs := ⟨uC', false, uC'.isEmpty, uS', uR'⟩
            let oT : FullObs := ⟨tC', tI' == 1, tB' == 1, tS', tR'⟩
            -- the complete handler does not expose `route.Consumer`: the one seen through U stands in
            let oS : FullObs := ⟨if sSt' == 200 then [] else [sSt'], false, sH' == 1, uS', sR'⟩
            let specOk := !WF api || !WFp oprod dprod ||
              (SpecFull pmt api h specs declared (some .ok) oU && SpecFull pmt api h specs declared bnd oT &&
               (dprod.isEmpty || (SpecFull pmt api h specs declared (some .ok) oS &&
                  checksVerdict oS == checksVerdict oU)) &&
               checksVerdict oU == checksVerdict oT && gateSeen h oU == gateSeen h oT &&
               tB' ≤ 1 && tI' ≤ 1 && sH' ≤ 1)
            { agree := m == impl && hyps, specOk := specOk,
              known := (Known api h).getD "-",
              tag := if !hyps then "PMT-HYPOTHESIS-FAILED"
                else if WF api && WFp oprod dprod then tagFull pmt api h t else "~mixedcase:" ++ tagFull pmt api h t,
              model := m }
          | _, _, _, _, _, _ => .bad "C06 H output fields (3)"
        | _, _, _, _, _, _, _, _ => .bad "C06 H output fields (2)"
      | _, _, _, _, _ => .bad "C06 H input fields (2)"
    | _, _, _, _, _, _, _, _ => .bad "C06 H input fields"
  | _, _ => .bad "C06 stream"

end RtVerif.C06
