import RtVerif.Base.Bytes
import RtVerif.Base.Verdict
import RtVerif.Gen.Facts
/-
  C06 — a body is decoded only by the consumer of an admitted media type, else 415.

  Model: transcription of
    * `runtime.HasBody`                         (request.go)        → `hasBody`
    * `runtime.ContentType`                     (headers.go)        → `runtimeContentType`
    * `middleware.validateContentType`          (validation.go)     → `validateContentType`
    * `defaultRouteBuilder.AddRoute` (consumes + API default; `Consumers` = `ConsumersFor` of the
      listed types cut at `;`) and `untyped.API.RegisterConsumer/ConsumersFor`
                                                                    → `routeConsumes`, `routeConsumer`
    * `validation.contentType` (reflective entry point, behind `Context.BindAndValidate`)
                                                                    → `untypedRaw`
    * the head of `Context.BindValidRequest` (entry point of generated servers) → `typedRaw`
    * `errors.ServeError` on a composite error (serves the first error)          → `observe`

  `mime.ParseMediaType` is a PARAMETER `pmt : Bytes → Option Bytes` (`none` = any error, `some t` =
  the media type it returns). The peek into the body stream done by `HasBody` (C17) is the boolean
  `streamHasData`.
-/
namespace RtVerif.C06
open RtVerif Bytes

/-- `mime.ParseMediaType` as far as the gate uses it: `none` = error, `some t` = media type. -/
abbrev Pmt := Bytes → Option Bytes

/-- What the API author configured. -/
structure Api where
  /-- `analyzer.ConsumesFor(operation)`, as spelled in the spec -/
  opConsumes : List Bytes
  /-- `api.DefaultConsumes()` (`[]` = none) -/
  dflt : Bytes
  /-- the media types passed to `RegisterConsumer`, in call order; a consumer's id is its position -/
  registered : List Bytes
deriving Repr

structure ReqHead where
  method : Bytes
  /-- `Header["Content-Type"]` -/
  ctLines : List Bytes
  /-- `Request.ContentLength` -/
  contentLength : Int
  /-- `Header.Get("Content-Length")` -/
  clHeader : Bytes
  /-- `peekingReader.HasContent()`: the body stream yields at least one byte (false for a nil Body) -/
  streamHasData : Bool
deriving Repr

/-! ## small pieces -/

/-- `swag.ContainsStringsCI` (ASCII folding) -/
def containsCI (coll : List Bytes) (item : Bytes) : Bool := coll.any fun a => equalFold a item

/-- `d.consumers[key]` after the calls `RegisterConsumer(registered[i], consumer i)`, each of which
stores under `strings.ToLower(mediaType)`: the LAST registration whose lower-cased name is `key`. -/
def regLookupFrom (i : Nat) : List Bytes → Bytes → Option Nat
  | [], _ => none
  | m :: ms, key =>
    match regLookupFrom (i + 1) ms key with
    | some k => some k
    | none => if toLower m == key then some i else none

def regLookup (registered : List Bytes) (key : Bytes) : Option Nat := regLookupFrom 0 registered key

/-- router.go `AddRoute`: "add API defaults if not part of the spec" -/
def routeConsumes (api : Api) : List Bytes :=
  if !api.dflt.isEmpty && !containsCI api.opConsumes api.dflt then api.opConsumes ++ [api.dflt]
  else api.opConsumes

/-- negotiate.go `normalizeOffer`: the part before the first `;` -/
def normalizeOffer (o : Bytes) : Bytes := beforeByte o 59

/-- `route.Consumers[ct]` where `Consumers = api.ConsumersFor(normalizeOffers(consumes))` -/
def routeConsumer (api : Api) (ct : Bytes) : Option Nat :=
  if ((routeConsumes api).map normalizeOffer).contains ct then regLookup api.registered ct else none

/-- request.go `HasBody` -/
def hasBody (h : ReqHead) : Bool :=
  if h.contentLength > 0 then true
  else if !h.clHeader.isEmpty then false
  else h.streamHasData

/-- `http.Header.Get`: the first line, `""` when there is none -/
def headerGet (lines : List Bytes) : Bytes := lines.headD []

/-- the string `runtime.ContentType` hands to `mime.ParseMediaType` -/
def effCT (h : ReqHead) : Bytes :=
  if (headerGet h.ctLines).isEmpty then Facts.defaultMime else headerGet h.ctLines

inductive CT where
  | err
  | ok (mt : Bytes)
deriving Repr, DecidableEq

/-- headers.go `ContentType` (media type only; the charset plays no part in the gate) -/
def runtimeContentType (pmt : Pmt) (h : ReqHead) : CT :=
  if (effCT h).isEmpty then .ok []
  else match pmt (effCT h) with
    | none => .err
    | some mt => .ok mt

def starSlashStar : Bytes := [42, 47, 42]
def slashStar : Bytes := [47, 42]

/-- `parts := strings.Split(actual, "/"); len(parts) == 2` → `parts[0]+"/*"` -/
def typeWildcard (actual : Bytes) : Option Bytes :=
  match splitByte 47 actual with
  | [a, _] => some (a ++ slashStar)
  | _ => none

def wildAdmits (allowed : List Bytes) (actual : Bytes) : Bool :=
  match typeWildcard actual with
  | some w => containsCI allowed w
  | none => false

/-- the three `ContainsStringsCI` tests of `validateContentType` -/
def admittedBy (allowed : List Bytes) (mt actual : Bytes) : Bool :=
  containsCI allowed mt || containsCI allowed starSlashStar || wildAdmits allowed actual

/-- validation.go `validateContentType`; `true` = nil error, `false` = 415 -/
def validateContentType (pmt : Pmt) (allowed : List Bytes) (actual : Bytes) : Bool :=
  if Facts.emptyAllowsAll && allowed.isEmpty then true
  else match pmt actual with
    | none => false
    | some mt => admittedBy allowed mt actual

inductive Err where
  | badRequest     -- errors.NewParseError            (400)
  | unsupported    -- errors.InvalidContentType       (415)
  | noConsumer     -- "no consumer registered for %s" (500)
deriving Repr, DecidableEq

def Err.code : Err → Nat
  | .badRequest => 400
  | .unsupported => 415
  | .noConsumer => 500

/-- What a gate leaves behind: the error list and `route.Consumer`. -/
structure Raw where
  errs : List Err
  selected : Option Nat
deriving Repr, DecidableEq

/-! ## the reflective entry point: `validation.contentType` -/

/-- `ct, _, req, err := v.context.ContentType(v.request)` -/
def uStep1 (pmt : Pmt) (h : ReqHead) : List Err × Bytes :=
  match runtimeContentType pmt h with
  | .err => ([.badRequest], [])
  | .ok mt => ([], mt)

/-- `if len(v.result) == 0 { if err := validateContentType(...); err != nil { append } }` -/
def uStep2 (pmt : Pmt) (api : Api) (res : List Err) (ct : Bytes) : List Err :=
  if res.isEmpty then
    if validateContentType pmt (routeConsumes api) ct then res else res ++ [.unsupported]
  else res

/-- `if ct != "" && v.route.Consumer == nil { cons, ok := v.route.Consumers[ct] … }`
(`route.Consumer` is nil: every lookup returns a fresh `MatchedRoute`) -/
def uStep3 (api : Api) (res : List Err) (ct : Bytes) : Raw :=
  if ct.isEmpty then ⟨res, none⟩
  else match routeConsumer api ct with
    | none => ⟨res ++ [.noConsumer], none⟩
    | some k => ⟨res, some k⟩

/-- `none`: the gate was not applied (`HasBody` false). -/
def untypedRaw (pmt : Pmt) (api : Api) (h : ReqHead) : Option Raw :=
  if hasBody h then
    some (uStep3 api (uStep2 pmt api (uStep1 pmt h).1 (uStep1 pmt h).2) (uStep1 pmt h).2)
  else none

/-! ## the entry point of generated servers: head of `Context.BindValidRequest` -/

def tStep (pmt : Pmt) (api : Api) (ct : Bytes) : Raw :=
  if validateContentType pmt (routeConsumes api) ct then
    match routeConsumer api ct with
    | none => ⟨[.noConsumer], none⟩
    | some k => ⟨[], some k⟩
  else ⟨[.unsupported], none⟩

def tAfterCT (pmt : Pmt) (api : Api) : CT → Raw
  | .err => ⟨[.badRequest], none⟩
  | .ok ct => tStep pmt api ct

def typedRaw (pmt : Pmt) (api : Api) (h : ReqHead) : Option Raw :=
  if hasBody h then some (tAfterCT pmt api (runtimeContentType pmt h)) else none

/-! ## what can be observed of a gate -/

inductive GateOut where
  | skipped
  | consumer (k : Nat)
  | e415
  | e400
  | e500NoConsumer
  /-- the gate raised no error for a body-carrying request yet left `route.Consumer` nil: the
  binder then calls `Consume` on a nil interface (a Go panic). Unreachable for a parser that never
  returns an empty type (`gate_never_passes_without_consumer`). -/
  | passNoConsumer
  /-- only for observations of the real code: a status the gate has no business producing -/
  | unexpected (code : Nat)
deriving Repr, DecidableEq

def GateOut.ofErr : Err → GateOut
  | .badRequest => .e400
  | .unsupported => .e415
  | .noConsumer => .e500NoConsumer

/-- `errors.ServeError` on `CompositeValidationError(errs...)` serves `errs[0]`. -/
def observe : Option Raw → GateOut
  | none => .skipped
  | some ⟨[], some k⟩ => .consumer k
  | some ⟨[], none⟩ => .passNoConsumer
  | some ⟨e :: _, _⟩ => .ofErr e

def gateUntyped (pmt : Pmt) (api : Api) (h : ReqHead) : GateOut := observe (untypedRaw pmt api h)
def gateTyped (pmt : Pmt) (api : Api) (h : ReqHead) : GateOut := observe (typedRaw pmt api h)

/-- which consumer's `Consume` runs afterwards (body parameter binder / generated binder) -/
def consumerRan : GateOut → Option Nat
  | .consumer k => some k
  | _ => none

/-- whether the operation handler runs afterwards -/
def handlerRan : GateOut → Bool
  | .skipped => true
  | .consumer _ => true
  | _ => false

/-- status of the complete handler (`none` = the nil-consumer panic) when nothing else fails -/
def status : GateOut → Option Nat
  | .skipped => some 200
  | .consumer _ => some 200
  | .e415 => some 415
  | .e400 => some 400
  | .e500NoConsumer => some 500
  | .passNoConsumer => none
  | .unexpected c => some c

/-! ## Spec — written from the property text

"A request that carries a body is decoded by the consumer registered for its media type, and only if
that media type (compared case-insensitively, ignoring parameters such as charset) is admitted by the
operation's consumes list - to which the API's default media type is always added - directly or
through a wildcard entry; a request without a body is not subjected to the check. Otherwise the answer
is 415 (400 when the Content-Type header cannot be parsed) and neither a consumer nor the handler
runs; the two binding entry points … accept or refuse the same requests and pick the same consumer."

Readings:
* "carries a body": positive `ContentLength`, or no Content-Length header and a body stream that
  yields data (chunked transfer).
* "its media type": the type `mime.ParseMediaType` extracts (lower-cased, parameters dropped) from
  the Content-Type header; an absent/empty header stands for `runtime.DefaultMime`.
* "admitted": some entry of `consumes ∪ {default}` equals the type up to ASCII case (directly), or is
  `*/*`, or is `major/*` where the type is `major/sub` (wildcard entries). Entries are compared as
  spelled: an entry carrying parameters admits nothing.
* "the consumer registered for its media type": the API's registration for exactly that type
  (registrations are stored under their lower-cased name, the last one wins).
* An admitted type for which the ROUTE holds no consumer is answered 500 without consumer or
  handler; the text does not speak about this case. The Spec accepts it exactly when nothing is
  registered for the type or the type is not itself spelled in the list (admitted through a wildcard
  or a case variant only) — for a type that is listed as spelled and registered, the registered
  consumer is demanded.
-/

def carriesBody (h : ReqHead) : Bool :=
  h.contentLength > 0 || (h.clHeader.isEmpty && h.streamHasData)

/-- the operation's consumes list "to which the API's default media type is always added" -/
def allConsumes (api : Api) : List Bytes :=
  if api.dflt.isEmpty then api.opConsumes else api.opConsumes ++ [api.dflt]

/-- the request's media type: `none` when the header cannot be parsed -/
def mediaType (pmt : Pmt) (h : ReqHead) : Option Bytes :=
  match h.ctLines with
  | [] => pmt Facts.defaultMime
  | l :: _ => if l.isEmpty then pmt Facts.defaultMime else pmt l

/-- `major/*` for a type of the shape `major/sub` -/
def majorWildcard (t : Bytes) : Option Bytes :=
  match splitByte 47 t with
  | [a, _] => some (a ++ [47, 42])
  | _ => none

/-- one entry admits the type: directly (case-insensitively), or as `*/*`, or as `major/*` -/
def entryAdmits (t : Bytes) (e : Bytes) : Bool :=
  equalFold e t || equalFold e [42, 47, 42] ||
    (match majorWildcard t with | some w => equalFold e w | none => false)

def admitted (consumes : List Bytes) (t : Bytes) : Bool := consumes.any (entryAdmits t)

/-- the type itself is spelled in the list -/
def listedAsSpelled (consumes : List Bytes) (t : Bytes) : Bool := consumes.contains t

def Spec (pmt : Pmt) (api : Api) (h : ReqHead) (out : GateOut) : Bool :=
  if !carriesBody h then out == .skipped
  else match mediaType pmt h with
    | none => out == .e400
    | some t =>
      if !admitted (allConsumes api) t then out == .e415
      else match out with
        | .consumer k => regLookup api.registered t == some k
        | .e500NoConsumer =>
          regLookup api.registered t == none || !listedAsSpelled (allConsumes api) t
        | _ => false

/-- What is seen of one entry point on one request. -/
structure Obs where
  out : GateOut
  ran : Option Nat
  handled : Bool
deriving Repr, DecidableEq

/-- "neither a consumer nor the handler runs" on refusal; the selected consumer is the one that
decodes; nothing is decoded when there is no body. -/
def SpecObs (pmt : Pmt) (api : Api) (h : ReqHead) (o : Obs) : Bool :=
  Spec pmt api h o.out &&
    (match o.out with
     | .consumer k => o.ran == some k && o.handled
     | .skipped => o.ran == none && o.handled
     | _ => o.ran == none && !o.handled)

def modelObs (out : GateOut) : Obs := ⟨out, consumerRan out, handlerRan out⟩

/-- The property quantifies over "consumes lists spelled in lower case". -/
def WF (api : Api) : Bool := api.opConsumes.all fun e => toLower e == e

/-- No recorded finding class (F06a was repaired: see known_findings.txt). -/
def Known (_api : Api) (_h : ReqHead) : Option String := none

/-! ## Driver entry -/

/-- the parser as observed on this case: `eff ↦ p1`, and `p1`'s type `↦ p2` -/
def obsPmt (eff : Bytes) (p1 p2 : Option Bytes) : Pmt := fun x =>
  if x == eff then p1 else if some x == p1 then p2 else none

/-- the hypotheses the theorems put on `pmt`, checked on the observed values -/
def obsHypsOk (p1 p2 : Option Bytes) : Bool :=
  match p1 with
  | none => true
  | some t => p2 == some t && !t.isEmpty && !t.contains 59

def decParse (s : String) : Option (Option Bytes) :=
  if s == "E" then some none else (decField s).map some

def decCodes (s : String) : Option (List Nat) :=
  if s == "." then some [] else (s.splitOn ",").mapM String.toNat?

def decId (s : String) : Option (Option Nat) :=
  if s == "-1" then some none else s.toNat?.map some

def encCodes (l : List Err) : String :=
  if l.isEmpty then "." else ",".intercalate (l.map fun e => toString e.code)

def encId : Option Nat → String
  | none => "-1"
  | some k => toString k

def outOfCode (c : Nat) : GateOut :=
  if c == 400 then .e400 else if c == 415 then .e415 else if c == 500 then .e500NoConsumer
  else .unexpected c

/-- the observable outcome of an entry point from what the harness saw of the real code -/
def obsOut (carries : Bool) (codes : List Nat) (ran : Option Nat) : GateOut :=
  match codes with
  | c :: _ => outOfCode c
  | [] => match ran with
    | some k => .consumer k
    | none => if carries then .passNoConsumer else .skipped

def renderRaw (r : Option Raw) (out : GateOut) : String :=
  match r with
  | none => s!". -1 {encId (consumerRan out)}"
  | some x => s!"{encCodes x.errs} {encId x.selected} {encId (consumerRan out)}"

def bodySignal (h : ReqHead) : String :=
  if h.contentLength > 0 then "cl" else "stream"

def tagOf (pmt : Pmt) (api : Api) (h : ReqHead) : String :=
  match untypedRaw pmt api h with
  | none => if !h.clHeader.isEmpty then "skip:clheader" else if h.ctLines.isEmpty then "~skip:plain" else "skip:nodata"
  | some r =>
    let hdr := if (headerGet h.ctLines).isEmpty then "absent" else "hdr"
    let base :=
      match observe (some r) with
      | .e400 => "e400"
      | .e415 =>
        (if r.errs.length > 1 then "e415+500" else "e415") ++
          (if (routeConsumes api).isEmpty then ":empty" else "")
      | .e500NoConsumer =>
        (match mediaType pmt h with
         | some t =>
           if regLookup api.registered t == none then "e500:unregistered"
           else "e500:notlisted"
         | none => "e500:?")
      | .consumer _ =>
        (match mediaType pmt h with
         | some t =>
           if containsCI (routeConsumes api) t then "ok:direct"
           else if containsCI (routeConsumes api) starSlashStar then "ok:star" else "ok:typewild"
         | none => "ok:?")
      | .passNoConsumer => "passNoConsumer"
      | _ => "other"
    s!"{base}/{hdr}/{bodySignal h}"

def run (ins outs : List String) : Verdict :=
  match ins, outs with
  | _, ["PANIC", msg] =>
    { agree := false, specOk := false, tag := "panic", model := "no panic expected; impl: " ++ msg }
  | _, ["INVALID"] =>
    -- the harness refused the line (a method without a route: produced by the shrinker only)
    { agree := true, specOk := true, tag := "~not-an-input", model := "INVALID" }
  | ["G", cons, dflt, reg, meth, cts, cl, clh, mode],
    [hb, eff, p1, p2, uC, uS, uR, tC, tS, tR, sSt, sR, sH] =>
    match decList cons, decField dflt, decList reg, decField meth, decList cts, cl.toInt?,
          decField clh, mode.toNat? with
    | some cons, some dflt, some reg, some meth, some cts, some cl, some clh, some mode =>
      match decField eff, decParse p1, decParse p2, decCodes uC, decId uR, decCodes tC, decId tR,
            sSt.toNat?, decId sR, sH.toNat? with
      | some eff', some p1, some p2, some uC', some uR', some tC', some tR', some sSt', some sR',
        some sH' =>
        let api : Api := ⟨cons, dflt, reg⟩
        let h : ReqHead := ⟨meth, cts, cl, clh, mode == 2⟩
        let pmt := obsPmt eff' p1 p2
        let u := untypedRaw pmt api h
        let t := typedRaw pmt api h
        let gu := observe u
        let gt := observe t
        let stat := match status gu with | some c => toString c | none => "PANIC"
        let m := s!"{if hasBody h then 1 else 0} {encField (effCT h)} {renderRaw u gu} {renderRaw t gt} {stat} {encId (consumerRan gu)} {if handlerRan gu then 1 else 0}"
        let impl := s!"{hb} {eff} {uC} {uS} {uR} {tC} {tS} {tR} {sSt} {sR} {sH}"
        let hyps := obsHypsOk p1 p2
        let carries := carriesBody h
        let oU : Obs := ⟨obsOut carries uC' uR', uR', uC'.isEmpty⟩
        let oT : Obs := ⟨obsOut carries tC' tR', tR', tC'.isEmpty⟩
        let oS : Obs := ⟨obsOut carries (if sSt' == 200 then [] else [sSt']) sR', sR', sH' == 1⟩
        -- outside the property's quantifier (a consumes entry not in lower case) only the
        -- correspondence is checked
        let specOk := !WF api || (SpecObs pmt api h oU && SpecObs pmt api h oT && SpecObs pmt api h oS &&
          oU.out == oT.out && oT.out == oS.out && sH' ≤ 1)
        { agree := m == impl && hyps, specOk := specOk,
          known := (Known api h).getD "-",
          tag := if !hyps then "PMT-HYPOTHESIS-FAILED"
            else if WF api then tagOf pmt api h else "~mixedcase:" ++ tagOf pmt api h, model := m }
      | _, _, _, _, _, _, _, _, _, _ => .bad "C06 output fields"
    | _, _, _, _, _, _, _, _ => .bad "C06 input fields"
  | _, _ => .bad "C06 stream"

end RtVerif.C06
