import RtVerif.Base.Bytes
import RtVerif.Base.Verdict
import RtVerif.Gen.Facts
/-
  C05 — denco trie router.

  Model: the router as a DFS over the *implicit trie* of the raw keys. A node of the trie is the
  list of candidate records that share the consumed prefix, each with its remaining raw key; the
  double array (BASE/CHECK placement, `findBase`, XOR indexing) is abstracted as the child function
  of that trie (validated differentially only — stated in the trusted base).

  Mirrors `makeRecords`, `Router.Build` (incl. its rejections), `doubleArray.build` (stable re-sort
  of the sub-slice after every parameter edge, `makeSiblings`' "last leaf wins"), `Router.Lookup`
  and `doubleArray.lookup` (greedy literal walk, then backtracking from the deepest node: single
  parameter with a full recursive lookup, then wildcard).
-/
namespace RtVerif.C05
open RtVerif Bytes

def cParam : UInt8 := Facts.dencoParam        -- ':'
def cWild : UInt8 := Facts.dencoWildcard      -- '*'
def cTerm : UInt8 := Facts.dencoTermination   -- '#'
def cSep : UInt8 := Facts.dencoSeparator      -- '/'
def cPathParam : UInt8 := Facts.dencoPathParam -- '='

def isReserved (c : UInt8) : Bool := c == cParam || c == cWild || c == cTerm || c == 0

/-- `NextSeparator` on keys: stops at '/' or '#'. -/
def notKeySep (c : UInt8) : Bool := !(c == cSep || c == cTerm)
/-- `nextPathSeparator` on looked-up paths: stops at '/' only. -/
def notPathSep (c : UInt8) : Bool := !(c == cSep)

/-- A candidate record at a trie node. -/
structure Rec where
  key : Bytes          -- remaining raw key (termination character appended by `makeRecords`)
  names : List Bytes   -- parameter names collected on the way, in order
  val : Nat            -- the registered value (position in the list given to Build)
deriving Repr, DecidableEq, BEq

/-! ### byte-string order (Go's `<` on strings) and the stable sort of `build` -/

def bytesLe : Bytes → Bytes → Bool
  | [], _ => true
  | _ :: _, [] => false
  | a :: as, b :: bs => if a < b then true else if b < a then false else bytesLe as bs

/-- stable sort by remaining key (`sort.Stable(recordSlice(srcs))`) -/
def insertRec (r : Rec) : List Rec → List Rec
  | [] => [r]
  | x :: xs => if bytesLe r.key x.key then r :: x :: xs else x :: insertRec r xs

/-- insertion from the right: an element lands in front of the later elements with an equal key,
so the sort is stable. -/
def sortRecs (l : List Rec) : List Rec := l.foldr insertRec []

/-! ### edges of the implicit trie -/

/-- follow the literal edge labelled `c` -/
def advLit (c : UInt8) (rs : List Rec) : List Rec :=
  rs.filterMap fun r =>
    match r.key with
    | b :: k => if b == c then some { r with key := k } else none
    | [] => none

/-- follow the single-parameter edge: strip `:name`, record the name, re-sort (as `build` does) -/
def stepSingle (r : Rec) : Option Rec :=
  match r.key with
  | b :: k => if b == cParam then
      some { r with key := k.dropWhile notKeySep, names := r.names ++ [k.takeWhile notKeySep] }
    else none
  | [] => none

def advSingle (rs : List Rec) : List Rec := sortRecs (rs.filterMap stepSingle)

/-- follow the wildcard edge: the name is the rest of the key without the termination character -/
def stepWild (r : Rec) : Option Rec :=
  match r.key with
  | b :: k => if b == cWild then some { r with key := [], names := r.names ++ [k.dropLast] } else none
  | [] => none

def advWild (rs : List Rec) : List Rec := rs.filterMap stepWild

/-- the record that `makeSiblings` keeps as leaf: the last one whose key is used up -/
def leafOf (rs : List Rec) : Option Rec := (rs.filter fun r => r.key.isEmpty).getLast?

def weight (rs : List Rec) : Nat := (rs.map fun r => r.key.length).sum

/-- `a` if it succeeds, else `b ()` -/
def first {α} (a : Option α) (b : Unit → Option α) : Option α :=
  match a with
  | some x => some x
  | none => b ()

theorem first_some {α} {a : Option α} {b : Unit → Option α} {x : α} (h : first a b = some x) :
    a = some x ∨ (a = none ∧ b () = some x) := by
  unfold first at h; cases a <;> simp_all

structure Found where
  r : Rec
  vals : List Bytes
deriving Repr, DecidableEq, BEq

def isSingleHead (r : Rec) : Bool := match r.key with | b :: _ => b == cParam | [] => false
def hasSingle (rs : List Rec) : Bool := rs.any isSingleHead

/-! ### termination measure -/

theorem weight_insertRec (r : Rec) (l : List Rec) : weight (insertRec r l) = r.key.length + weight l := by
  induction l with
  | nil => simp [insertRec, weight]
  | cons x xs ih =>
    simp only [insertRec]
    split
    · simp [weight]
    · simp only [weight, List.map_cons, List.sum_cons] at ih ⊢; omega

theorem weight_sortRecs (l : List Rec) : weight (sortRecs l) = weight l := by
  induction l with
  | nil => rfl
  | cons x xs ih =>
    simp only [sortRecs, List.foldr_cons] at ih ⊢
    rw [weight_insertRec, ih]; simp [weight]

theorem length_dropWhile_le (p : UInt8 → Bool) (l : Bytes) : (l.dropWhile p).length ≤ l.length := by
  induction l with
  | nil => simp
  | cons a t ih => simp only [List.dropWhile]; split <;> simp <;> omega

theorem stepSingle_lt {r r' : Rec} (h : stepSingle r = some r') : r'.key.length < r.key.length := by
  unfold stepSingle at h
  split at h
  · rename_i b k hk
    split at h
    · simp only [Option.some.injEq] at h
      subst h
      have := length_dropWhile_le notKeySep k
      simp only [hk, List.length_cons]; omega
    · cases h
  · cases h

theorem weight_filterMap_stepSingle_le (rs : List Rec) :
    weight (rs.filterMap stepSingle) ≤ weight rs := by
  induction rs with
  | nil => simp [weight]
  | cons r t ih =>
    simp only [List.filterMap_cons]
    cases h : stepSingle r with
    | none => simp only [weight, List.map_cons, List.sum_cons] at ih ⊢; omega
    | some r' =>
      have := stepSingle_lt h
      simp only [weight, List.map_cons, List.sum_cons] at ih ⊢; omega

theorem stepSingle_isSome_of_head {r : Rec} (h : isSingleHead r = true) : ∃ r', stepSingle r = some r' := by
  unfold isSingleHead at h
  unfold stepSingle
  split at h
  · rename_i b k hk
    simp only [hk, h, ↓reduceIte]
    exact ⟨_, rfl⟩
  · cases h

theorem weight_advSingle_lt {rs : List Rec} (h : hasSingle rs = true) : weight (advSingle rs) < weight rs := by
  unfold advSingle
  rw [weight_sortRecs]
  induction rs with
  | nil => simp [hasSingle] at h
  | cons r t ih =>
    simp only [List.filterMap_cons]
    cases hs : stepSingle r with
    | none =>
      have ht : hasSingle t = true := by
        simp only [hasSingle, List.any_cons, Bool.or_eq_true] at h
        rcases h with h | h
        · obtain ⟨r', hr'⟩ := stepSingle_isSome_of_head h
          rw [hs] at hr'; cases hr'
        · exact h
      have := ih ht
      simp only [weight, List.map_cons, List.sum_cons] at this ⊢; omega
    | some r' =>
      have h1 := stepSingle_lt hs
      have h2 := weight_filterMap_stepSingle_le t
      simp only [weight, List.map_cons, List.sum_cons] at h2 ⊢; omega

/-! ### lookup -/

/-- `doubleArray.lookup` as a DFS: literal edge, else single parameter, else wildcard. -/
def look (rs : List Rec) (path : Bytes) (vals : List Bytes) : Option Found :=
  match path with
  | [] => (leafOf (advLit cTerm rs)).map fun r => ⟨r, vals⟩
  | c :: rest =>
    first (if isReserved c then none else look (advLit c rs) rest vals) fun _ =>
    first (if h : hasSingle rs = true then
             look (advSingle rs) ((c :: rest).dropWhile notPathSep)
               (vals ++ [(c :: rest).takeWhile notPathSep])
           else none) fun _ =>
    (leafOf (advWild rs)).map fun r => ⟨r, vals ++ [c :: rest]⟩
termination_by (path.length, weight rs)
decreasing_by
  · apply Prod.Lex.left; simp
  · have hl : ((c :: rest).dropWhile notPathSep).length ≤ (c :: rest).length :=
      length_dropWhile_le _ _
    rcases Nat.lt_or_eq_of_le hl with hlt | heq
    · exact Prod.Lex.left _ _ hlt
    · rw [heq]; exact Prod.Lex.right _ (weight_advSingle_lt h)

/-! ### Build -/

def slashColon : Bytes := [cSep, cParam]
def slashStar : Bytes := [cSep, cWild]
def eqColon : Bytes := [cPathParam, cParam]

def isInfix (pat s : Bytes) : Bool :=
  match s with
  | [] => pat.isEmpty
  | _ :: t => pat.isPrefixOf s || isInfix pat t

/-- `makeRecords`: a key is parameterised iff it contains "/:", "/*" or "=:" -/
def isParamKey (k : Bytes) : Bool := isInfix slashColon k || isInfix slashStar k || isInfix eqColon k

structure Table where
  statics : List (Bytes × Nat)   -- in insertion order; the last entry for a key wins (Go map)
  params : List Rec              -- sorted
deriving Repr

def hasDup : List Bytes → Bool
  | [] => false
  | x :: xs => xs.contains x || hasDup xs

/-- all records that become a leaf node somewhere in the trie (`makeNode` is called for these) -/
def leaves : Nat → List Rec → List Rec
  | 0, _ => []
  | fuel + 1, rs =>
    (leafOf rs).toList ++
    ((List.range 256).flatMap fun n =>
      let c := UInt8.ofNat n
      if rs.any (fun r => r.key.head? == some c) then
        if c == cParam then leaves fuel (advSingle rs)
        else if c == cWild then leaves fuel (advWild rs)
        else leaves fuel (advLit c rs)
      else [])

inductive BuildOut where
  | ok (t : Table)
  | errReserved     -- a parameterised key contains the termination character or NUL
  | errDupName      -- makeNode: duplicated parameter name
deriving Repr

def isBadKey (k : Bytes) : Bool := k.contains cTerm || k.contains 0

def paramRecs (recs : List (Bytes × Nat)) : List Rec :=
  (recs.filter fun kv => isParamKey kv.1).map fun kv => (⟨kv.1 ++ [cTerm], [], kv.2⟩ : Rec)

/-- `Router.Build` on the records `(key, value)` in the order given -/
def build (recs : List (Bytes × Nat)) : BuildOut :=
  if (recs.filter fun kv => isParamKey kv.1).any (fun kv => isBadKey kv.1) then .errReserved
  else
    let sorted := sortRecs (paramRecs recs)
    if (leaves (weight sorted + 1) sorted).any (fun r => hasDup r.names) then .errDupName
    else .ok ⟨recs.filter fun kv => !isParamKey kv.1, sorted⟩

inductive LookupOut where
  | found (val : Nat) (names vals : List Bytes)
  | notFound
deriving Repr, DecidableEq, BEq

def staticLookup (statics : List (Bytes × Nat)) (path : Bytes) : Option Nat :=
  (statics.filter fun kv => kv.1 == path).getLast?.map (·.2)

/-- `Router.Lookup` -/
def lookup (t : Table) (path : Bytes) : LookupOut :=
  match staticLookup t.statics path with
  | some v => .found v [] []
  | none =>
    match look t.params path [] with
    | some f => .found f.r.val f.r.names f.vals
    | none => .notFound

/-- `Build` followed by `Lookup`: `inr 0`/`inr 1` are the two ways `Build` refuses a table -/
def route (recs : List (Bytes × Nat)) (path : Bytes) : LookupOut ⊕ Nat :=
  match build recs with
  | .ok t => .inl (lookup t path)
  | .errReserved => .inr 0
  | .errDupName => .inr 1

/-! ## Spec (from the property text): the naive matcher -/

/-- Does `path` instantiate the raw `key` (termination character appended), and with which
parameter texts?  A single-segment parameter takes the text up to the next '/', a wildcard the
rest.  With `strict`, parameters must have a non-empty remaining path to start in. -/
def matchKey (strict : Bool) (key path : Bytes) : Option (List Bytes) :=
  match key with
  | [] => none
  | b :: k =>
    if b == cTerm then (if path.isEmpty && k.isEmpty then some [] else none)
    else if b == cParam then
      if strict && path.isEmpty then none
      else (matchKey strict (k.dropWhile notKeySep) (path.dropWhile notPathSep)).map
        fun vs => path.takeWhile notPathSep :: vs
    else if b == cWild then
      if strict && path.isEmpty then none else some [path]
    else
      match path with
      | c :: p => if c == b then matchKey strict k p else none
      | [] => none
termination_by key.length
decreasing_by
  · have := length_dropWhile_le notKeySep k
    simp only [List.length_cons]; omega
  · simp

/-- parameter names of a raw key, in order -/
def namesOf (key : Bytes) : List Bytes :=
  match key with
  | [] => []
  | b :: k =>
    if b == cParam then k.takeWhile notKeySep :: namesOf (k.dropWhile notKeySep)
    else if b == cWild then [k.dropLast]
    else namesOf k
termination_by key.length
decreasing_by
  · have := length_dropWhile_le notKeySep k
    simp only [List.length_cons]; omega
  · simp

/-- edge kinds along a key: 0 literal, 1 single parameter, 2 wildcard (the preference order) -/
def edgeKinds (key : Bytes) : List Nat :=
  match key with
  | [] => []
  | b :: k =>
    if b == cParam then 1 :: edgeKinds (k.dropWhile notKeySep)
    else if b == cWild then [2]
    else 0 :: edgeKinds k
termination_by key.length
decreasing_by
  · have := length_dropWhile_le notKeySep k
    simp only [List.length_cons]; omega
  · simp

def kindsLe : List Nat → List Nat → Bool
  | [], _ => true
  | _ :: _, [] => false
  | a :: as, b :: bs => if a < b then true else if b < a then false else kindsLe as bs

/-- soundness + naming + preference for one candidate record `(k, v)` and a reported match -/
def foundOk (recs : List (Bytes × Nat)) (path : Bytes) (names vals : List Bytes) (k : Bytes) : Bool :=
  if !isParamKey k then
    -- a parameter-free pattern matches only itself
    k == path && names.isEmpty && vals.isEmpty
  else
    -- sound: the path instantiates the key, one value per placeholder, named as in the key
    matchKey false (k ++ [cTerm]) path == some vals && names == namesOf (k ++ [cTerm]) &&
    -- a path equal to a parameter-free pattern returns that pattern's value
    !(recs.any fun kv => !isParamKey kv.1 && kv.1 == path) &&
    -- where a literal and a parameter both lead to a match the literal wins
    recs.all (fun kv =>
      !(isParamKey kv.1 && (matchKey true (kv.1 ++ [cTerm]) path).isSome) ||
        kindsLe (edgeKinds (k ++ [cTerm])) (edgeKinds (kv.1 ++ [cTerm])))

/-- What the property demands of one lookup result, given the records handed to Build. -/
def specLookup (recs : List (Bytes × Nat)) (path : Bytes) (out : LookupOut) : Bool :=
  match out with
  | .found v names vals => recs.any fun kv => kv.2 == v && foundOk recs path names vals kv.1
  | .notFound =>
    -- complete: no pattern is instantiated with non-empty parameter texts
    recs.all fun kv =>
      if !isParamKey kv.1 then kv.1 != path
      else
        match matchKey false (kv.1 ++ [cTerm]) path with
        | some vs => vs.any (·.isEmpty)
        | none => true

/-! ## `denco.Mux` (server.go): one router per method, methods compared as spelled -/

/-- the records `Mux.Build` files under one method: `(path, index of the handler)` -/
def muxRecords (handlers : List (Bytes × Bytes)) (method : Bytes) : List (Bytes × Nat) :=
  handlers.zipIdx.filterMap fun (h, i) => if h.1 == method then some (h.2, i) else none

def muxMethods (handlers : List (Bytes × Bytes)) : List Bytes := (handlers.map (·.1)).eraseDups

inductive MuxOut where
  | handled (handler : Nat) (names vals : List Bytes)
  | notFound                 -- the `NotFound` handler
  | buildError               -- `Mux.Build` returned an error (some method's table was refused)
deriving Repr, DecidableEq, BEq

/-- `Mux.Build` followed by `serveMux.handler(method, path)` -/
def muxServe (handlers : List (Bytes × Bytes)) (method path : Bytes) : MuxOut :=
  if (muxMethods handlers).any (fun m => match build (muxRecords handlers m) with | .ok _ => false | _ => true) then
    .buildError
  else if (muxMethods handlers).contains method then
    match route (muxRecords handlers method) path with
    | .inl (.found v names vals) => .handled v names vals
    | _ => .notFound
  else .notFound

/-! ## Driver entry -/

def renderOut : LookupOut → String
  | .found v names vals => s!"F {v} {encList names} {encList vals}"
  | .notFound => "N"

def parseOut : List String → Option LookupOut
  | ["F", v, names, vals] => do
    let v ← v.toNat?
    let ns ← decList names
    let vs ← decList vals
    pure (.found v ns vs)
  | ["N"] => some .notFound
  | _ => none

def run (ins outs : List String) : Verdict :=
  match ins with
  | ["L", keys, path] =>
    match decList keys, decField path with
    | some ks, some p =>
      match build ks.zipIdx with
      | .errReserved => { agree := outs == ["E", "reserved"], specOk := outs.head? == some "E", tag := "~builderr-reserved", model := "E reserved" }
      | .errDupName => { agree := outs == ["E", "dup"], specOk := outs.head? == some "E", tag := "~builderr-dup", model := "E dup" }
      | .ok t =>
        let m := lookup t p
        match parseOut outs with
        | some o =>
          let kind := match m with
            | .found _ names _ => if names.isEmpty then (if ks.any isParamKey then "static" else "~static-only")
                else s!"params{names.length.min 3}{if p.any isReserved then "+reserved" else ""}"
            | .notFound => if p.any isReserved then "miss+reserved" else "miss"
          { agree := m == o, specOk := specLookup ks.zipIdx p o, tag := kind, model := renderOut m }
        | none =>
          { agree := false, specOk := false, tag := "panic-or-error", model := renderOut m }
    | _, _ => .bad "L fields"
  | ["M", methods, paths, method, path] =>
    match decList methods, decList paths, decField method, decField path with
    | some ms, some ps, some m, some p =>
      if ms.length != ps.length then .bad "M handlers" else
      let handlers := ms.zip ps
      let mo := muxServe handlers m p
      let render : MuxOut → String
        | .handled v ns vs => s!"H {v} {encList ns} {encList vs}"
        | .notFound => "N"
        | .buildError => "E"
      -- Spec: the handler that runs is registered under exactly the request's method and its
      -- pattern satisfies the router specification for that method's table
      let specOk := match outs with
        | ["H", v, ns, vs] =>
          (match v.toNat?, decList ns, decList vs with
           | some v, some ns, some vs =>
             (match handlers[v]? with
              | some h => h.1 == m && specLookup (muxRecords handlers m) p (.found v ns vs)
              | none => false)
           | _, _, _ => false)
        | ["N"] => !(muxMethods handlers).contains m || specLookup (muxRecords handlers m) p .notFound
        | ["E"] => mo == .buildError
        | _ => false
      { agree := render mo == " ".intercalate outs, specOk := specOk,
        tag := (match mo with | .handled _ ns _ => s!"mux:handled{ns.length.min 2}" | .notFound => "mux:notfound" | .buildError => "~mux:builderr"),
        model := render mo }
    | _, _, _, _ => .bad "M fields"
  | _ => .bad "C05 stream"

end RtVerif.C05
