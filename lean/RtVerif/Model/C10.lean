import RtVerif.Base.Bytes
import RtVerif.Base.Verdict
import RtVerif.Base.GoURL
/-
  C10 — client URLs (tail of `request.buildHTTP`, `Runtime.pickScheme/selectScheme`).

  Modelled: the static-query merge (caller > pattern > base path), the placeholder substitution as
  the code does it — a *sequential* `strings.ReplaceAll` fold over the parameter map in an explicit
  order —, the trailing-slash reinstatement, and the scheme choice.
  Inputs rather than models (stdlib): `url.Parse` of base path and pattern (the harness passes the
  parsed `.Path` and `.Query()`), `path.Join` (the joined path is passed in), `url.Values.Encode`
  and `http.NewRequest`'s re-parse (the harness reports the resulting escaped path and query).
-/
namespace RtVerif.C10
open RtVerif Bytes

/-! ## substitution -/

/-- `strings.ReplaceAll(s, pat, rep)` for a non-empty `pat`: leftmost, non-overlapping. -/
def replaceAll (pat rep : Bytes) (s : Bytes) : Bytes :=
  match s with
  | [] => []
  | c :: t =>
    if pat.isPrefixOf (c :: t) && !pat.isEmpty then rep ++ replaceAll pat rep ((c :: t).drop pat.length)
    else c :: replaceAll pat rep t
termination_by s.length
decreasing_by
  · rename_i h
    simp only [Bool.and_eq_true, Bool.not_eq_eq_eq_not, Bool.not_true] at h
    have : pat.length ≠ 0 := by
      intro h0
      have : pat = [] := List.eq_nil_of_length_eq_zero h0
      simp [this] at h
    simp only [List.length_drop, List.length_cons]; omega
  · simp

def lbrace : UInt8 := 123
def rbrace : UInt8 := 125

def placeholder (name : Bytes) : Bytes := lbrace :: name ++ [rbrace]

/-- one turn of `for k, v := range r.pathParams { urlPath = ReplaceAll(urlPath, "{"+k+"}", PathEscape(v)) }` -/
def substOne (s : Bytes) (kv : Bytes × Bytes) : Bytes :=
  replaceAll (placeholder kv.1) (GoURL.pathEscape kv.2) s

/-- the whole loop, in the order `params` lists the map entries -/
def substSeq (params : List (Bytes × Bytes)) (s : Bytes) : Bytes := params.foldl substOne s

/-! ## Spec of substitution: tokens -/

inductive Tok where
  | lit (b : Bytes)       -- brace-free text
  | ph (name : Bytes)     -- `{name}`, name brace-free
deriving Repr, DecidableEq, BEq

def braceFree (b : Bytes) : Bool := b.all fun c => c != lbrace && c != rbrace

def Tok.wf : Tok → Bool
  | .lit b => braceFree b
  | .ph n => braceFree n

def render : List Tok → Bytes
  | [] => []
  | .lit b :: r => b ++ render r
  | .ph n :: r => placeholder n ++ render r

/-- Parse a pattern into tokens; `none` when braces are unbalanced or nested. -/
def tokenizeAux : Bytes → Bytes → Option (List Tok)
  -- `acc` is the current literal run (reversed)
  | [], acc => some (if acc.isEmpty then [] else [.lit acc.reverse])
  | c :: t, acc =>
    if c == lbrace then
      let name := t.takeWhile fun x => x != lbrace && x != rbrace
      match hd : t.dropWhile fun x => x != lbrace && x != rbrace with
      | d :: rest =>
        if d == rbrace then
          (tokenizeAux rest []).map fun toks =>
            (if acc.isEmpty then [] else [.lit acc.reverse]) ++ .ph name :: toks
        else none
      | [] => none
    else if c == rbrace then none
    else tokenizeAux t (c :: acc)
termination_by s => s.length
decreasing_by
  · have h1 : (t.dropWhile fun x => x != lbrace && x != rbrace).length ≤ t.length := by
      clear hd
      induction t with
      | nil => simp
      | cons a t ih => simp only [List.dropWhile]; split <;> simp <;> omega
    rw [hd] at h1
    simp only [List.length_cons] at h1 ⊢; omega
  · simp

def tokenize (s : Bytes) : Option (List Tok) := tokenizeAux s []

/-- simultaneous substitution: every `{name}` with a value is replaced by the escaped value -/
def lookupParam (params : List (Bytes × Bytes)) (name : Bytes) : Option Bytes :=
  (params.find? fun kv => kv.1 == name).map (·.2)

def substTok (params : List (Bytes × Bytes)) : Tok → Tok
  | .lit b => .lit b
  | .ph n => match lookupParam params n with
    | some v => .lit (GoURL.pathEscape v)
    | none => .ph n

def substAll (params : List (Bytes × Bytes)) (toks : List Tok) : Bytes :=
  render (toks.map (substTok params))

/-! ## the path -/

/-- `reinstateSlash` -/
def keepsSlash (patternPath : Bytes) : Bool :=
  !patternPath.isEmpty && patternPath != [47] && patternPath.getLast? == some 47

/-- `urlPath` as handed to `http.NewRequest`, given `joined = path.Join(basePath.Path, pattern.Path)` -/
def urlPath (joined patternPath : Bytes) (params : List (Bytes × Bytes)) : Bytes :=
  substSeq params joined ++ (if keepsSlash patternPath then [47] else [])

/-! ## query precedence -/

abbrev Values := List (Bytes × List Bytes)   -- a `url.Values` as association list, one entry per key

def Values.get (vs : Values) (k : Bytes) : Option (List Bytes) := (vs.find? fun kv => kv.1 == k).map (·.2)
def Values.del (vs : Values) (k : Bytes) : Values := vs.filter fun kv => kv.1 != k
def Values.set (vs : Values) (k : Bytes) (v : List Bytes) : Values := vs.del k ++ [(k, v)]

/-- static query parameters: the pattern's override the base path's -/
def staticQuery (base pattern : Values) : Values :=
  pattern.foldl (fun acc kv => acc.set kv.1 kv.2) base

/-- final query: the caller's parameters win over the static ones -/
def finalQuery (base pattern caller : Values) : Values :=
  (staticQuery base pattern).foldl (fun acc kv => if (acc.get kv.1).isSome then acc else acc.set kv.1 kv.2) caller

/-! ## scheme -/

def https : Bytes := [104, 116, 116, 112, 115]   -- "https"
def http : Bytes := [104, 116, 116, 112]          -- "http"

def selectScheme (schemes : List Bytes) : Bytes :=
  match schemes with
  | [] => []
  | s :: rest => if s != https && !rest.isEmpty && (s :: rest).contains https then https else s

def pickScheme (runtimeSchemes opSchemes : List Bytes) : Bytes :=
  let a := selectScheme runtimeSchemes
  if !a.isEmpty then a
  else
    let b := selectScheme opSchemes
    if !b.isEmpty then b else http

/-! ## Driver entry -/

def decPairs (names vals : String) : Option (List (Bytes × Bytes)) := do
  let ns ← decList names
  let vs ← decList vals
  if ns.length == vs.length then some (ns.zip vs) else none

/-- all permutations (used only for patterns with nested braces, where the result of the real code
may depend on Go's map iteration order) -/
def perms : List α → List (List α)
  | [] => [[]]
  | x :: xs => (perms xs).flatMap fun p => (List.range (p.length + 1)).map fun i => p.take i ++ x :: p.drop i

def sortValues (vs : Values) : Values :=
  vs.foldr (fun kv acc => ins kv acc) []
where
  le (a b : Bytes) : Bool := (toHex a) ≤ (toHex b)
  ins (kv : Bytes × List Bytes) : Values → Values
    | [] => [kv]
    | x :: xs => if le kv.1 x.1 then kv :: x :: xs else x :: ins kv xs

def decValues (keys vals : String) : Option Values := do
  -- keys: list of keys; vals: per key a `;`-separated list of hex values, keys joined by `,`
  let ks ← decList keys
  if ks.isEmpty then return []
  let groups := vals.splitOn "|"
  if groups.length != ks.length then none
  let vs ← groups.mapM fun g => decList g
  pure (ks.zip vs)

def encValues (vs : Values) : String :=
  let s := sortValues vs
  encList (s.map (·.1)) ++ " " ++ (if s.isEmpty then "." else "|".intercalate (s.map fun kv => encList kv.2))

def run (ins outs : List String) : Verdict :=
  match ins, outs with
  | ["P", joined, patPath, names, vals, _, _], [path, same] =>
    match decField joined, decField patPath, decPairs names vals, decField path with
    | some j, some pp, some params, some p =>
      -- once every placeholder is substituted the server sees exactly this escaped path
      let sameOk := same == "1" || !braceFree p
      let slash : Bytes := if keepsSlash pp then [47] else []
      let m := urlPath j pp params
      match tokenize j with
      | some toks =>
        let distinct := (params.map (·.1)).eraseDups.length == params.length
        let namesOk := params.all fun kv => braceFree kv.1
        if distinct && namesOk then
          let spec := substAll params toks ++ slash
          -- F10a (known finding): a built path that starts with "//" (empty value for a placeholder in
          -- the first segment, no base path) is re-parsed by http.NewRequest as an authority: the
          -- whole path is lost. The model's `urlPath` is what the code hands to NewRequest.
          let f10a := m.take 2 == [47, 47]
          { agree := m == p || f10a, specOk := spec == p && sameOk, known := (if f10a then "F10a" else "-"),
            tag := s!"P:ph{(toks.filter fun t => match t with | .ph _ => true | _ => false).length.min 4}{if slash.isEmpty then "" else "+slash"}",
            model := encField m }
        else
          { agree := (perms params).any (fun o => urlPath j pp o == p), specOk := true, tag := "~P:odd-names", model := encField m }
      | none =>
        { agree := (perms params).any (fun o => urlPath j pp o == p), specOk := true, tag := "~P:nested-braces", model := encField m }
    | _, _, _, _ => .bad "P fields"
  | ["P", joined, patPath, names, vals, _, _], ["ERR"] =>
    -- http.NewRequest refused the built string: known for the F10a class (a path starting with "//"
    -- is read as an authority, and what follows may not be a valid host), a violation otherwise
    match decField joined, decField patPath, decPairs names vals with
    | some j, some pp, some params =>
      let m := urlPath j pp params
      let f10a := m.take 2 == [47, 47]
      { agree := f10a, specOk := false, known := (if f10a then "F10a" else "-"), tag := "P:request-refused", model := encField m }
    | _, _, _ => .bad "P fields"
  | ["Q", bk, bv, pk, pv, ck, cv], [ok, ov] =>
    match decValues bk bv, decValues pk pv, decValues ck cv with
    | some b, some p, some c =>
      let m := encValues (finalQuery b p c)
      -- Spec: caller over pattern over base path, by key
      let keys := (b.map (·.1) ++ p.map (·.1) ++ c.map (·.1)).eraseDups
      let spec : Values := keys.filterMap fun k =>
        match Values.get c k with
        | some v => some (k, v)
        | none => match Values.get p k with
          | some v => some (k, v)
          | none => (Values.get b k).map fun v => (k, v)
      let o := ok ++ " " ++ ov
      { agree := m == o, specOk := encValues spec == o,
        tag := s!"Q:b{b.length.min 2}p{p.length.min 2}c{c.length.min 2}", model := m }
    | _, _, _ => .bad "Q fields"
  | ["S", rs, os], [scheme] =>
    match decList rs, decList os, decField scheme with
    | some r, some o, some s =>
      let m := pickScheme r o
      -- Spec: https whenever it is among several offered schemes (of the list that decides)
      let deciding := if !r.isEmpty then r else o
      let spec := if deciding.isEmpty then s == http
        else if deciding.length ≥ 2 && deciding.contains https then s == https
        else s == deciding.head!
      { agree := m == s, specOk := spec, tag := s!"S:r{r.length.min 2}o{o.length.min 2}", model := encField m }
    | _, _, _ => .bad "S fields"
  | ["E", mode, s], [esc, unesc] =>
    -- validation of the hand-copied net/url tables
    match decField s, decField esc with
    | some b, some e =>
      let q := mode == "q"
      let m := GoURL.escape q b
      let mu := match GoURL.unescape q b with | some u => "ok:" ++ encField u | none => "err"
      { agree := m == e && mu == unesc, specOk := true, tag := "E:" ++ mode, model := encField m ++ " " ++ mu }
    | _, _ => .bad "E fields"
  | _, ["PANIC", msg] => { agree := false, specOk := false, tag := "panic", model := "impl panicked: " ++ msg }
  | _, _ => .bad "C10 stream"

end RtVerif.C10
