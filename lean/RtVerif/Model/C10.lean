import RtVerif.Base.Bytes
import RtVerif.Base.Verdict
import RtVerif.Base.GoURL
import RtVerif.Base.GoURLParse
import RtVerif.Base.GoPath
import RtVerif.Base.GoQuery
/-
  C10 — client URLs (tail of `request.buildHTTP`, `Runtime.pickScheme/selectScheme`).

  Modelled: the static-query merge (caller > pattern > base path), the placeholder substitution as
  the code does it — a *sequential* `strings.ReplaceAll` fold over the parameter map in an explicit
  order —, the trailing-slash reinstatement, and the scheme choice.
  End to end (`build`): `url.Parse` of base path and pattern (hand model `GoURLParse.parse`), their
  `.Query()` (`GoQuery.parseQuery`), `path.Join` (`GoPath.join`), the substitution loop, the
  re-parse of the built string by `http.NewRequest` (`GoURLParse.parse` again — this is where the
  known findings F10a and F10b live), `URL.EscapedPath()` and `url.Values.Encode` for `RawQuery`.
  The stdlib functions are hand models validated by correspondence streams (U, E here; G of C20;
  V E / V P of C04); nothing of the URL is passed in from the Go side any more.
-/
namespace RtVerif.C10
open RtVerif Bytes

/-! ## substitution -/

/-- `strings.ReplaceAll(s, pat, rep)` for a non-empty `pat`: leftmost, non-overlapping. -/
def replaceAll (pat rep : Bytes) (s : Bytes) : Bytes :=
  match s with
  | [] => []
  | c :: t =>
    if pat.isPrefixOf (c :: t) && !pat.isEmpty then rep ++ replaceAll pat rep ((c :: t).drop pat.length)
    else c :: replaceAll pat rep t
termination_by s.length
decreasing_by
  · rename_i h
    simp only [Bool.and_eq_true, Bool.not_eq_eq_eq_not, Bool.not_true] at h
    have : pat.length ≠ 0 := by
      intro h0
      have : pat = [] := List.eq_nil_of_length_eq_zero h0
      simp [this] at h
    simp only [List.length_drop, List.length_cons]; omega
  · simp

def lbrace : UInt8 := 123
def rbrace : UInt8 := 125

def placeholder (name : Bytes) : Bytes := lbrace :: name ++ [rbrace]

/-- one turn of `for k, v := range r.pathParams { urlPath = ReplaceAll(urlPath, "{"+k+"}", PathEscape(v)) }` -/
def substOne (s : Bytes) (kv : Bytes × Bytes) : Bytes :=
  replaceAll (placeholder kv.1) (GoURL.pathEscape kv.2) s

/-- the whole loop, in the order `params` lists the map entries -/
def substSeq (params : List (Bytes × Bytes)) (s : Bytes) : Bytes := params.foldl substOne s

/-! ## Spec of substitution: tokens -/

inductive Tok where
  | lit (b : Bytes)       -- brace-free text
  | ph (name : Bytes)     -- `{name}`, name brace-free
deriving Repr, DecidableEq, BEq

def braceFree (b : Bytes) : Bool := b.all fun c => c != lbrace && c != rbrace

def Tok.wf : Tok → Bool
  | .lit b => braceFree b
  | .ph n => braceFree n

def render : List Tok → Bytes
  | [] => []
  | .lit b :: r => b ++ render r
  | .ph n :: r => placeholder n ++ render r

/-- Parse a pattern into tokens; `none` when braces are unbalanced or nested. -/
def tokenizeAux : Bytes → Bytes → Option (List Tok)
  -- `acc` is the current literal run (reversed)
  | [], acc => some (if acc.isEmpty then [] else [.lit acc.reverse])
  | c :: t, acc =>
    if c == lbrace then
      let name := t.takeWhile fun x => x != lbrace && x != rbrace
      match hd : t.dropWhile fun x => x != lbrace && x != rbrace with
      | d :: rest =>
        if d == rbrace then
          (tokenizeAux rest []).map fun toks =>
            (if acc.isEmpty then [] else [.lit acc.reverse]) ++ .ph name :: toks
        else none
      | [] => none
    else if c == rbrace then none
    else tokenizeAux t (c :: acc)
termination_by s => s.length
decreasing_by
  · have h1 : (t.dropWhile fun x => x != lbrace && x != rbrace).length ≤ t.length := by
      clear hd
      induction t with
      | nil => simp
      | cons a t ih => simp only [List.dropWhile]; split <;> simp <;> omega
    rw [hd] at h1
    simp only [List.length_cons] at h1 ⊢; omega
  · simp

def tokenize (s : Bytes) : Option (List Tok) := tokenizeAux s []

/-- simultaneous substitution: every `{name}` with a value is replaced by the escaped value -/
def lookupParam (params : List (Bytes × Bytes)) (name : Bytes) : Option Bytes :=
  (params.find? fun kv => kv.1 == name).map (·.2)

def substTok (params : List (Bytes × Bytes)) : Tok → Tok
  | .lit b => .lit b
  | .ph n => match lookupParam params n with
    | some v => .lit (GoURL.pathEscape v)
    | none => .ph n

def substAll (params : List (Bytes × Bytes)) (toks : List Tok) : Bytes :=
  render (toks.map (substTok params))

/-! ## the path -/

/-- `reinstateSlash` -/
def keepsSlash (patternPath : Bytes) : Bool :=
  !patternPath.isEmpty && patternPath != [47] && patternPath.getLast? == some 47

/-- `urlPath` as handed to `http.NewRequest`, given `joined = path.Join(basePath.Path, pattern.Path)` -/
def urlPath (joined patternPath : Bytes) (params : List (Bytes × Bytes)) : Bytes :=
  substSeq params joined ++ (if keepsSlash patternPath then [47] else [])

/-! ## query precedence -/

abbrev Values := List (Bytes × List Bytes)   -- a `url.Values` as association list, one entry per key

def Values.get (vs : Values) (k : Bytes) : Option (List Bytes) := (vs.find? fun kv => kv.1 == k).map (·.2)
def Values.del (vs : Values) (k : Bytes) : Values := vs.filter fun kv => kv.1 != k
def Values.set (vs : Values) (k : Bytes) (v : List Bytes) : Values := vs.del k ++ [(k, v)]

/-- static query parameters: the pattern's override the base path's -/
def staticQuery (base pattern : Values) : Values :=
  pattern.foldl (fun acc kv => acc.set kv.1 kv.2) base

/-- final query: the caller's parameters win over the static ones -/
def finalQuery (base pattern caller : Values) : Values :=
  (staticQuery base pattern).foldl (fun acc kv => if (acc.get kv.1).isSome then acc else acc.set kv.1 kv.2) caller

/-! ## scheme -/

def https : Bytes := [104, 116, 116, 112, 115]   -- "https"
def http : Bytes := [104, 116, 116, 112]          -- "http"

def selectScheme (schemes : List Bytes) : Bytes :=
  match schemes with
  | [] => []
  | s :: rest => if s != https && !rest.isEmpty && (s :: rest).contains https then https else s

def pickScheme (runtimeSchemes opSchemes : List Bytes) : Bytes :=
  let a := selectScheme runtimeSchemes
  if !a.isEmpty then a
  else
    let b := selectScheme opSchemes
    if !b.isEmpty then b else http

/-! ## end to end: `Runtime.CreateHttpRequest` as far as the URL is concerned -/

/-- `client.New`: a base path without a leading slash gets one -/
def newBasePath (b : Bytes) : Bytes := if Bytes.hasPrefix b [47] then b else 47 :: b

/-- `u.Query()`: `ParseQuery(u.RawQuery)`, errors ignored -/
def queryOf (u : GoURLParse.URL) : Values := (GoQuery.parseQuery u.rawQuery).values

/-- the string `buildHTTP` hands to `http.NewRequest`, from the two parsed URLs -/
def builtPath (bu pu : GoURLParse.URL) (params : List (Bytes × Bytes)) : Bytes :=
  urlPath (GoPath.join bu.path pu.path) pu.path params

/-- `req.URL` after `buildHTTP` and `createHttpRequest`: the re-parsed built path, `RawQuery`
replaced by the encoded merged query, scheme and host set by the runtime -/
def finishURL (u bu pu : GoURLParse.URL) (caller : Values) (scheme host : Bytes) : GoURLParse.URL :=
  { u with scheme := scheme, host := host,
           rawQuery := GoQuery.encode (finalQuery (queryOf bu) (queryOf pu) caller) }

/-- the request URL `CreateHttpRequest` returns for a runtime with base path `basePath`, host `host`
and the chosen `scheme`; `none` when it returns an error (a URL that does not parse) -/
def build (basePath pattern : Bytes) (params : List (Bytes × Bytes)) (caller : Values)
    (scheme host : Bytes) : Option GoURLParse.URL :=
  match GoURLParse.parse basePath, GoURLParse.parse pattern with
  | some bu, some pu =>
    match GoURLParse.parse (builtPath bu pu params) with
    | some u => some (finishURL u bu pu caller scheme host)
    | none => none
  | _, _ => none

/-! ## Known findings (classes on the built string) -/

/-- F10a: the built string starts with `//` (and not `///`): net/url reads an authority -/
def f10a (up : Bytes) : Bool := GoURLParse.takesAuthority [] up

/-- F10b: the built string holds a byte net/url does not accept in an encoded path (static text it
would escape — space, `"`, `<`, non-ASCII … — or a left-over `{name}`): `EscapedPath()` is then
re-derived from the decoded path and the escapes of the values are lost -/
def f10b (up : Bytes) : Bool := !GoURLParse.validEncoded up

/-! ## Spec of the request path: segment by segment -/

/-- what a segment of the joined pattern must decode to: static text as written, each placeholder
that has a value replaced by the value itself -/
def decodeTok (params : List (Bytes × Bytes)) : Tok → Bytes
  | .lit b => b
  | .ph n => match lookupParam params n with
    | some v => v
    | none => placeholder n

def decodeSeg (params : List (Bytes × Bytes)) (seg : List Tok) : Bytes := seg.flatMap (decodeTok params)

/-- the same segment as it is written into the URL -/
def encodeTok (params : List (Bytes × Bytes)) : Tok → Bytes
  | .lit b => b
  | .ph n => match lookupParam params n with
    | some v => GoURL.pathEscape v
    | none => placeholder n

def encodeSeg (params : List (Bytes × Bytes)) (seg : List Tok) : Bytes := seg.flatMap (encodeTok params)

/-- `/s₁/s₂/…/sₙ` -/
def joinRooted (l : List Bytes) : Bytes := l.flatMap (47 :: ·)

def slashIf (b : Bool) : Bytes := if b then [47] else []

/-- a clean rooted base path with the static segments `bs` (`/` when there are none) -/
def basePathOf (bs : List Bytes) : Bytes := GoPath.render true bs

/-- the pattern `/s₁/…/sₙ` (with a final `/` when `trailing`) whose segments are the token lists `psegs` -/
def patternOf (psegs : List (List Tok)) (trailing : Bool) : Bytes :=
  joinRooted (psegs.map render) ++ slashIf trailing

/-- all segments of the request path: the base path's static ones, then the pattern's -/
def allSegs (bs : List Bytes) (psegs : List (List Tok)) : List (List Tok) :=
  bs.map (fun b => [Tok.lit b]) ++ psegs

/-- the segments (split at `/`) of a path, each tokenised; `none` for unbalanced braces -/
def segToks (p : Bytes) : Option (List (List Tok)) := (GoPath.segs p).mapM tokenize

/-- the text of a URL before its query and fragment, read naively (Spec side) -/
def pathPart (s : Bytes) : Bytes := GoURLParse.before 63 (GoURLParse.before 35 s)

/-! ## Driver entry -/

def decPairs (names vals : String) : Option (List (Bytes × Bytes)) := do
  let ns ← decList names
  let vs ← decList vals
  if ns.length == vs.length then some (ns.zip vs) else none

/-- all permutations (used only for patterns with nested braces, where the result of the real code
may depend on Go's map iteration order) -/
def perms : List α → List (List α)
  | [] => [[]]
  | x :: xs => (perms xs).flatMap fun p => (List.range (p.length + 1)).map fun i => p.take i ++ x :: p.drop i

def sortValues (vs : Values) : Values :=
  vs.foldr (fun kv acc => ins kv acc) []
where
  le (a b : Bytes) : Bool := (toHex a) ≤ (toHex b)
  ins (kv : Bytes × List Bytes) : Values → Values
    | [] => [kv]
    | x :: xs => if le kv.1 x.1 then kv :: x :: xs else x :: ins kv xs

def decValues (keys vals : String) : Option Values := do
  -- keys: list of keys; vals: per key a `;`-separated list of hex values, keys joined by `,`
  let ks ← decList keys
  if ks.isEmpty then return []
  let groups := vals.splitOn "|"
  if groups.length != ks.length then none
  let vs ← groups.mapM fun g => decList g
  pure (ks.zip vs)

def encValues (vs : Values) : String :=
  let s := sortValues vs
  encList (s.map (·.1)) ++ " " ++ (if s.isEmpty then "." else "|".intercalate (s.map fun kv => encList kv.2))

/-- a parsed URL as the harness prints it -/
def encURL : Option GoURLParse.URL → String
  | none => "ERR"
  | some u =>
    let b (x : Bool) := if x then "1" else "0"
    let user := match u.user with
      | none => "0 - -"
      | some (n, none) => "1 " ++ encField n ++ " -"
      | some (n, some p) => "2 " ++ encField n ++ " " ++ encField p
    " ".intercalate [encField u.scheme, encField u.opaq, user, encField u.host, encField u.path, encField u.rawPath,
      encField (GoURLParse.escapedPath u), b u.forceQuery, encField u.rawQuery, encField u.fragment,
      encField u.rawFragment, b u.omitHost]

def urlTag (raw : Bytes) : Option GoURLParse.URL → String
  | none => "refused"
  | some u =>
    (if !u.scheme.isEmpty then (if !u.opaq.isEmpty then "opaque" else "scheme") else if raw.isEmpty then "~empty" else "rel") ++
    (if u.user.isSome then "+user" else "") ++ (if !u.host.isEmpty then "+host" else "") ++
    (if !u.rawPath.isEmpty then (if GoURLParse.escapedPath u == u.rawPath then "+rawpath" else "+rawpath-dropped") else "") ++
    (if !u.rawQuery.isEmpty || u.forceQuery then "+query" else "") ++ (if !u.fragment.isEmpty then "+frag" else "")

/-- Spec of the query: caller over pattern over base path, by key -/
def specQuery (b p c : Values) : Values :=
  let keys := (b.map (·.1) ++ p.map (·.1) ++ c.map (·.1)).eraseDups
  keys.filterMap fun k =>
    match Values.get c k with
    | some v => some (k, v)
    | none => match Values.get p k with
      | some v => some (k, v)
      | none => (Values.get b k).map fun v => (k, v)

/-- the static query of a base path / pattern as the Spec reads it: the text after `?` -/
def queryPart (s : Bytes) : Values := (GoQuery.parseQuery (GoURLParse.after 63 (GoURLParse.before 35 s))).values

/-- is the model's reading of a base path / pattern the naive one (no scheme, no authority, no
fragment, nothing percent-decoded)?  Otherwise the input is outside what the Spec speaks about. -/
def plainInput (raw : Bytes) (u : GoURLParse.URL) : Bool :=
  u.scheme.isEmpty && u.opaq.isEmpty && u.host.isEmpty && u.user.isNone && u.fragment.isEmpty &&
  !raw.contains 35 && !u.forceQuery && u.path == pathPart raw

def phNameOk : Tok → Bool
  | .lit _ => true
  | .ph n => !n.contains 47

def asMap (vs : Values) : String := encValues (GoQuery.nonEmpty vs)

/-- Spec of stream P, judged on the URL the real code produced (the 14 fields of `encURL`) -/
def specP (host : Bytes) (want : List Bytes) (wantQuery : Values) (outs : List String) : Bool :=
  match outs with
  | [_, opaq, uflag, _, _, h, _, _, esc, fq, rq, frag, _, _] =>
    match decField esc, decField rq with
    | some e, some q =>
      -- the escaped path has exactly the wanted segments
      (GoPath.segs e).mapM GoURL.pathUnescape == some want &&
      -- no value added a query, a fragment, an authority
      opaq == "-" && uflag == "0" && h == encField host && fq == "0" && frag == "-" &&
      -- the query is the merged one
      asMap (GoQuery.parseQuery q).values == asMap wantQuery
    | _, _ => false
  | _ => false

/-- client/runtime.go `New`: the base path the Runtime holds — the given one, rooted by prefixing `/`
when it does not start with one; nothing else is touched (in particular not a query string in it). -/
def clientNewBasePath (b : Bytes) : Bytes := if b.head? == some 47 then b else 47 :: b

def judgeP (host base pattern : Bytes) (params : List (Bytes × Bytes)) (caller : Values) (outs : List String) : Verdict :=
  let o := " ".intercalate outs
  let mOf (ps : List (Bytes × Bytes)) := encURL (build base pattern ps caller http host)
  let m := mOf params
  let anyOrder := (perms params).any fun ps => mOf ps == o
  match GoURLParse.parse base, GoURLParse.parse pattern with
  | some bu, some pu =>
    let up := builtPath bu pu params
    let joined := GoPath.join (pathPart base) (pathPart pattern)
    let distinct := (params.map (·.1)).eraseDups.length == params.length
    let namesOk := params.all fun kv => braceFree kv.1
    let plain := plainInput base bu && plainInput pattern pu
    let odd (why : String) : Verdict :=
      if outs.head? == some "ORDER-DEPENDENT" then { agree := true, specOk := true, tag := "~P:order-dependent-" ++ why, model := m }
      else { agree := anyOrder, specOk := true, tag := "~P:" ++ why, model := m }
    match tokenize joined, segToks joined with
    | some toks, some segs =>
      if !plain then odd "odd-input"
      else if !Bytes.hasPrefix base [47] then odd "unrooted-base"   -- not what `client.New` leaves in `Runtime.BasePath`
      else if !(distinct && namesOk && toks.all phNameOk) then odd "odd-names"
      else
        let want := segs.map (decodeSeg params) ++ (if keepsSlash (pathPart pattern) then [[]] else [])
        let wantQuery := specQuery (queryPart base) (queryPart pattern) caller
        let nph := (toks.filter fun t => match t with | .ph _ => true | _ => false).length
        let missing := toks.any fun t => match t with | .ph n => (lookupParam params n).isNone | _ => false
        let cls := if f10a up then "authority" else if f10b up then (if missing then "leftover" else "reencoded") else "ok"
        { agree := m == o, specOk := specP host want wantQuery outs,
          known := (if f10a up then "F10a" else if f10b up then "F10b" else "-"),
          tag := s!"P:{cls}:ph{nph.min 4}{if keepsSlash (pathPart pattern) then "+slash" else ""}{if wantQuery.isEmpty then "" else "+query"}{if m == "ERR" then "+refused" else ""}",
          model := m }
    | _, _ => odd "nested-braces"
  | _, _ => { agree := m == o, specOk := true, tag := "~P:input-refused", model := m }

def run (ins outs : List String) : Verdict :=
  match ins, outs with
  | ["P", host, base, pattern, names, vals, ck, cv], outs =>
    -- base: `N<hex>` = the base path handed to `client.New`; `<hex>` = `Runtime.BasePath` set directly
    let viaNew := base.startsWith "N"
    match decField host, decField (if viaNew then (base.drop 1).toString else base), decField pattern, decPairs names vals, decValues ck cv with
    | some h, some b, some pat, some params, some caller =>
      judgeP h (if viaNew then clientNewBasePath b else b) pat params caller outs
    | _, _, _, _, _ => .bad "P fields"
  | ["Q", bk, bv, pk, pv, ck, cv], [ok, ov, rq] =>
    match decValues bk bv, decValues pk pv, decValues ck cv with
    | some b, some p, some c =>
      -- the model's RawQuery (Values.Encode of the merged parameters) and its reading as a map
      let mq := encField (GoQuery.encode (finalQuery b p c))
      let m := encValues (finalQuery b p c)
      let o := ok ++ " " ++ ov
      { agree := m == o && mq == rq, specOk := encValues (specQuery b p c) == o,
        tag := s!"Q:b{b.length.min 2}p{p.length.min 2}c{c.length.min 2}", model := m ++ " " ++ mq }
    | _, _, _ => .bad "Q fields"
  | ["S", rs, os], [scheme] =>
    match decList rs, decList os, decField scheme with
    | some r, some o, some s =>
      let m := pickScheme r o
      -- Spec: https whenever it is among several offered schemes (of the list that decides)
      let deciding := if !r.isEmpty then r else o
      let spec := if deciding.isEmpty then s == http
        else if deciding.length ≥ 2 && deciding.contains https then s == https
        else s == deciding.head!
      { agree := m == s, specOk := spec, tag := s!"S:r{r.length.min 2}o{o.length.min 2}", model := encField m }
    | _, _, _ => .bad "S fields"
  | ["E", mode, s], [esc, unesc] =>
    -- validation of the hand-copied net/url tables
    match decField s, decField esc with
    | some b, some e =>
      let q := mode == "q"
      let m := GoURL.escape q b
      let mu := match GoURL.unescape q b with | some u => "ok:" ++ encField u | none => "err"
      { agree := m == e && mu == unesc, specOk := true, tag := "E:" ++ mode, model := encField m ++ " " ++ mu }
    | _, _ => .bad "E fields"
  | ["U", s], outs =>
    -- validation of the hand model of url.Parse (RtVerif/Base/GoURLParse.lean)
    match decField s with
    | some b =>
      let m := encURL (GoURLParse.parse b)
      let o := " ".intercalate outs
      { agree := m == o, specOk := true, tag := "U:" ++ urlTag b (GoURLParse.parse b), model := m }
    | none => .bad "U fields"
  | _, ["PANIC", msg] => { agree := false, specOk := false, tag := "panic", model := "impl panicked: " ++ msg }
  | _, _ => .bad "C10 stream"

end RtVerif.C10
