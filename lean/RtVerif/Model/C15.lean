import RtVerif.Base.Bytes
import RtVerif.Base.Verdict
import RtVerif.Base.Stream
import RtVerif.Base.StreamW
import RtVerif.Gen.Facts
/-
  C15 — built-in codecs (bytestream.go, text.go, discard.go; json.go / xml.go / yamlpc/yaml.go are
  wrappers around external libraries, see the end of this file).

  Model: one `Consume(reader, data)` or `Produce(writer, data)` call of the byte-stream, text or
  discard codec.
  * `data interface{}` is a *kind* `K` (a concrete Go type of the harness, nil-ness included) with
    a content; what Go's dynamic dispatch can see of it is its `Feat` (reflect shape, typed-nil,
    the interfaces it implements, the pre-state of a `*interface{}`): `feat` is the kind dispatch
    table, and the harness reports the same signature computed by reflection on every case.
  * The stream argument is nil, a scripted `Src` (consume) or a scripted `Snk` (produce), with or
    without a `Close` method. Reader-kind payloads (`rd`, `rdc`) are scripted `Src`s, the writer
    kind destination (`wr`) is a scripted `Snk`.
  * Loops: `bytes.Buffer.ReadFrom` (`Stream.readFromLoop`), `io.Copy` (`Stream.copyLoop`),
    `bytes.Buffer.WriteTo` (`bufWriteTo`), a single `Write` (`writeOnce`).
  * A Go panic is the outcome `Res.panic`, a loop that does not end is `Res.hang`.
  The model is of the code AFTER the repair of F15a-F15d (typed-nil pointers are refused, the text
  consumer validates its destination before the empty-input shortcut and stores the empty string,
  the closing option also covers the refusal of nil data).

  Spec: written from the property text, judged on what was observed (`Obs`).
-/
namespace RtVerif.C15
open RtVerif Bytes _root_.RtVerif.Stream

/-! ## Kinds and what dynamic dispatch sees of them -/

/-- `reflect.Kind`, as far as the codecs distinguish. `bytes`: a slice whose element kind is
`Uint8`. -/
inductive Shape where
  | str | bytes | slice | struct_ | iface | ptr | other
deriving DecidableEq, Repr

/-- The dynamic type: none (nil interface), a non-pointer of some shape, a pointer to a shape. -/
inductive Ty where
  | nil | val (s : Shape) | ptr (e : Shape)
deriving DecidableEq, Repr

/-- What a non-nil `*interface{}` points at: nil, a `string`, a `[]byte`, something else. -/
inductive IPre where
  | none | str | bytes | other
deriving DecidableEq, Repr

structure Feat where
  ty : Ty
  nilPtr : Bool := false       -- pointer type, nil value
  ipre : IPre := .none
  readerFrom : Bool := false   -- io.ReaderFrom
  writer : Bool := false       -- io.Writer
  binUnm : Bool := false       -- encoding.BinaryUnmarshaler
  txtUnm : Bool := false       -- encoding.TextUnmarshaler
  writerTo : Bool := false     -- io.WriterTo
  reader : Bool := false       -- io.Reader
  closer : Bool := false       -- io.Closer
  binMar : Bool := false       -- encoding.BinaryMarshaler
  txtMar : Bool := false       -- encoding.TextMarshaler
  isErr : Bool := false        -- error
  stringer : Bool := false     -- fmt.Stringer
  errPre : Bytes := []         -- what `Error()` puts before the content (kinds with several methods)
  strPre : Bytes := []         -- what `String()` puts before the content (kinds with several methods)
deriving DecidableEq, Repr

/-- Kinds that implement several of `encoding.TextMarshaler` / `encoding.BinaryMarshaler` / `error` /
`fmt.Stringer` at once answer each method with a different text, so that the method a codec chose
shows in the bytes written: `Marshal…` return the content, `Error()` returns `"E:" ++ content`,
`String()` returns `"S:" ++ content` (harness/props/c15.go, types c15TES, c15ES, c15TS, c15BES). -/
def ePre : Bytes := [69, 58]
def sPre : Bytes := [83, 58]

/-- The kinds of data value (harness/props/c15.go `c15Make`). -/
inductive K where
  | nil                                    -- nil interface
  | str | nstr | pstr | pnstr | pstrNil    -- string, named string, pointers to them, (*string)(nil)
  | byt | nbyt | pbyt | pnbyt | pbytNil    -- []byte likewise
  | pifNil | pifStr | pifByt | pifInt | pifNilPtr   -- *interface{} holding nil/string/[]byte/int; nil
  | int | pint | pintNil
  | strct | pstrct | pstrctNil | slc | pslc | ppstr | mp
  | buf | bufNil                           -- *bytes.Buffer
  | wr | wrNil                             -- scripted io.Writer
  | rd | rdc | rdcNil                      -- scripted io.Reader / io.ReadCloser
  | wtc                                    -- io.WriterTo + io.ReadCloser around a bytes.Buffer
  | bin | binNil | txt | txtNil            -- Binary / Text (un)marshalers (pointer receivers)
  | err | errNil                           -- error (pointer receiver)
  | strg | pstrgNil                        -- fmt.Stringer (value receiver); nil pointer to it
  | tes | tesNil                           -- TextMarshaler + error + Stringer at once (pointer receiver); nil
  | es                                     -- error + Stringer
  | ts                                     -- TextMarshaler + Stringer
  | bes                                    -- BinaryMarshaler + error + Stringer
deriving DecidableEq, Repr

def K.all : List K :=
  [.nil, .str, .nstr, .pstr, .pnstr, .pstrNil, .byt, .nbyt, .pbyt, .pnbyt, .pbytNil,
   .pifNil, .pifStr, .pifByt, .pifInt, .pifNilPtr, .int, .pint, .pintNil,
   .strct, .pstrct, .pstrctNil, .slc, .pslc, .ppstr, .mp, .buf, .bufNil, .wr, .wrNil,
   .rd, .rdc, .rdcNil, .wtc, .bin, .binNil, .txt, .txtNil, .err, .errNil, .strg, .pstrgNil,
   .tes, .tesNil, .es, .ts, .bes]

def K.name : K → String
  | .nil => "nil" | .str => "str" | .nstr => "nstr" | .pstr => "pstr" | .pnstr => "pnstr"
  | .pstrNil => "pstrNil" | .byt => "byt" | .nbyt => "nbyt" | .pbyt => "pbyt" | .pnbyt => "pnbyt"
  | .pbytNil => "pbytNil" | .pifNil => "pifNil" | .pifStr => "pifStr" | .pifByt => "pifByt"
  | .pifInt => "pifInt" | .pifNilPtr => "pifNilPtr" | .int => "int" | .pint => "pint"
  | .pintNil => "pintNil" | .strct => "strct" | .pstrct => "pstrct" | .pstrctNil => "pstrctNil"
  | .slc => "slc" | .pslc => "pslc" | .ppstr => "ppstr" | .mp => "mp" | .buf => "buf"
  | .bufNil => "bufNil" | .wr => "wr" | .wrNil => "wrNil" | .rd => "rd" | .rdc => "rdc"
  | .rdcNil => "rdcNil" | .wtc => "wtc" | .bin => "bin" | .binNil => "binNil" | .txt => "txt"
  | .txtNil => "txtNil" | .err => "err" | .errNil => "errNil" | .strg => "strg"
  | .pstrgNil => "pstrgNil"
  | .tes => "tes" | .tesNil => "tesNil" | .es => "es" | .ts => "ts" | .bes => "bes"

/-- The kind dispatch table. -/
def feat : K → Feat
  | .nil => { ty := .nil }
  | .str | .nstr => { ty := .val .str }
  | .pstr | .pnstr => { ty := .ptr .str }
  | .pstrNil => { ty := .ptr .str, nilPtr := true }
  | .byt | .nbyt => { ty := .val .bytes }
  | .pbyt | .pnbyt => { ty := .ptr .bytes }
  | .pbytNil => { ty := .ptr .bytes, nilPtr := true }
  | .pifNil => { ty := .ptr .iface }
  | .pifStr => { ty := .ptr .iface, ipre := .str }
  | .pifByt => { ty := .ptr .iface, ipre := .bytes }
  | .pifInt => { ty := .ptr .iface, ipre := .other }
  | .pifNilPtr => { ty := .ptr .iface, nilPtr := true }
  | .int | .mp => { ty := .val .other }
  | .pint => { ty := .ptr .other }
  | .pintNil => { ty := .ptr .other, nilPtr := true }
  | .strct => { ty := .val .struct_ }
  | .pstrct => { ty := .ptr .struct_ }
  | .pstrctNil => { ty := .ptr .struct_, nilPtr := true }
  | .slc => { ty := .val .slice }
  | .pslc => { ty := .ptr .slice }
  | .ppstr => { ty := .ptr .ptr }
  | .buf => { ty := .ptr .struct_, readerFrom := true, writer := true, writerTo := true, reader := true,
              stringer := true }
  | .bufNil => { ty := .ptr .struct_, nilPtr := true, readerFrom := true, writer := true,
                 writerTo := true, reader := true, stringer := true }
  | .wr => { ty := .ptr .struct_, writer := true }
  | .wrNil => { ty := .ptr .struct_, nilPtr := true, writer := true }
  | .rd => { ty := .ptr .struct_, reader := true }
  | .rdc => { ty := .ptr .struct_, reader := true, closer := true }
  | .rdcNil => { ty := .ptr .struct_, nilPtr := true, reader := true, closer := true }
  | .wtc => { ty := .ptr .struct_, writerTo := true, reader := true, closer := true }
  | .bin => { ty := .ptr .struct_, binUnm := true, binMar := true }
  | .binNil => { ty := .ptr .struct_, nilPtr := true, binUnm := true, binMar := true }
  | .txt => { ty := .ptr .struct_, txtUnm := true, txtMar := true }
  | .txtNil => { ty := .ptr .struct_, nilPtr := true, txtUnm := true, txtMar := true }
  | .err => { ty := .ptr .struct_, isErr := true }
  | .errNil => { ty := .ptr .struct_, nilPtr := true, isErr := true }
  | .strg => { ty := .val .struct_, stringer := true }
  | .pstrgNil => { ty := .ptr .struct_, nilPtr := true, stringer := true }
  | .tes => { ty := .ptr .struct_, txtMar := true, isErr := true, stringer := true, errPre := ePre, strPre := sPre }
  | .tesNil => { ty := .ptr .struct_, nilPtr := true, txtMar := true, isErr := true, stringer := true,
                 errPre := ePre, strPre := sPre }
  | .es => { ty := .ptr .struct_, isErr := true, stringer := true, errPre := ePre, strPre := sPre }
  | .ts => { ty := .ptr .struct_, txtMar := true, stringer := true, strPre := sPre }
  | .bes => { ty := .ptr .struct_, binMar := true, isErr := true, stringer := true, errPre := ePre, strPre := sPre }

/-- `reflect.Indirect(reflect.ValueOf(data)).Type().Kind()`: `none` where Go panics (nil
interface: `Type` of the zero Value). Typed-nil pointers are refused before this is asked. -/
def Ty.base : Ty → Option Shape
  | .nil => none
  | .val s => some s
  | .ptr e => some e

/-! ## Outcomes and states -/

inductive Res where
  | ok
  | noStream                       -- "… requires a reader / writer"
  | nilData                        -- "nil destination …", "nil data …", "no data given …"
  | nilPtr                         -- "nil pointer …" (F15a repair)
  | notPtr                         -- "destination must be a pointer"
  | unsup                          -- "… is not supported by the …"
  | rd (e : Err)                   -- an error of the scripted reader, returned as is
  | wr (e : Err)                   -- an error of the scripted writer, returned as is
  | shortWrite                     -- io.ErrShortWrite
  | mar (n : Nat) (wrapped : Bool) -- error n of a (Un)Marshal… method; wrapped by the text codec
  | json                           -- error of the JSON rendering
  | other                          -- anything else the implementation may say (never the model)
  | panic
  | hang
deriving DecidableEq, Repr

inductive Dir where | consume | produce
deriving DecidableEq, Repr
inductive Codec where | bytestream | text | discard
deriving DecidableEq, Repr
/-- The `io.Reader` / `io.Writer` argument: nil interface, without `Close`, with `Close`. -/
inductive SKind where | nil | plain | closer
deriving DecidableEq, Repr

structure Case where
  dir : Dir
  codec : Codec
  close : Bool                -- runtime.ClosesStream
  stream : SKind
  kind : K
  content : Bytes
  flag : Nat                  -- (Un)Marshal… fails with error `flag` (0: succeeds)
  aux : Option Bytes          -- encoding/json rendering of the value (external); none: error
  rdata : Bytes
  rterm : Err
  rtog : Bool
  rsched : List Nat
  rcerr : Option Err
  wcaps : List Nat
  wlimit : Option Nat
  wlie : Bool
  wcerr : Option Err

/-- The error a short write of the scripted writer returns. -/
def werr : Err := .user 7

def Case.src (c : Case) : Src :=
  { data := c.rdata, term := c.rterm, together := c.rtog, sched := c.rsched, cerr := c.rcerr }

def Case.snk (c : Case) : Snk :=
  { caps := c.wcaps, limit := c.wlimit, werr := werr, lie := c.wlie, cerr := c.wcerr }

/-- The mutable world of a call: content of the data value, scripted reader, scripted writer. -/
structure St where
  val : Bytes
  r : Src
  w : Snk

structure Out where
  res : Res
  st : St

/-! ## Model: the loops -/

/-- Calls after which a loop over a scripted stream has certainly met its terminal. -/
def fuel (r : Src) : Nat := r.data.length + r.sched.length + 1

/-- `buf.ReadFrom(reader)` on the scripted stream (sizes: `readFromLoop_indep`). -/
def readAll (r : Src) : (Bytes × Option Err × Bool) × Src :=
  readFromLoop srcReader (fun _ => minRead) (fuel r) 0 r

def resRead (x : Bytes × Option Err × Bool) : Res :=
  if x.2.2 then .hang else match x.2.1 with
    | none => .ok
    | some e => .rd e

/-- `io.Copy(writer, reader)` between the scripted streams. -/
def copyAll (r : Src) (w : Snk) : (Option CErr × Bool) × Src × Snk :=
  copyLoop srcReader (fuel r) r w

def resCopy (x : Option CErr × Bool) : Res :=
  if x.2 then .hang else match x.1 with
    | none => .ok
    | some (.rd e) => .rd e
    | some (.wr e) => .wr e
    | some .short => .shortWrite

/-- `_, err := writer.Write(p); return err` — the count is not looked at. -/
def writeOnce (w : Snk) (p : Bytes) : Res × Snk :=
  ((match (w.write p).1.2 with
    | some e => .wr e
    | none => .ok), (w.write p).2)

/-- `(*bytes.Buffer).WriteTo(w)` on a buffer holding `content`: result, what the buffer still
holds, the writer. (`m > nBytes` cannot happen with a `Snk`.) -/
def bufWriteTo (content : Bytes) (w : Snk) : Res × Bytes × Snk :=
  if content.isEmpty then (.ok, [], w)
  else match (w.write content).1.2 with
    | some e => (.wr e, content.drop (w.write content).1.1, (w.write content).2)
    | none =>
      if (w.write content).1.1 ≠ content.length then
        (.shortWrite, content.drop (w.write content).1.1, (w.write content).2)
      else (.ok, [], (w.write content).2)

/-! ## Model: ByteStreamConsumer -/

/-- After the input was buffered: `switch destinationPointer := data.(type)`. -/
def bcStore (f : Feat) (flag : Nat) (pre b : Bytes) : Res × Bytes :=
  if f.binUnm then (if flag = 0 then (.ok, b) else (.mar flag false, pre))
  else match f.ty with
    | .nil => (.panic, pre)      -- reflect.TypeOf(nil).Kind(): not reachable, nil is refused first
    | .ptr .iface =>
      (match f.ipre with
       | .str => (.ok, b)
       | .bytes => (.ok, b)
       | _ => (.unsup, pre))
    | .ptr .bytes => (.ok, b)
    | .ptr .str => (.ok, b)
    | .ptr _ => (.unsup, pre)
    | .val _ => (.notPtr, pre)

def bcBuffered (f : Feat) (flag : Nat) (st : St) : Res × St :=
  if (readAll st.r).1.2.2 then (.hang, { st with r := (readAll st.r).2 })
  else match (readAll st.r).1.2.1 with
    | some e => (.rd e, { st with r := (readAll st.r).2 })
    | none =>
      ((bcStore f flag st.val (readAll st.r).1.1).1,
       { st with val := (bcStore f flag st.val (readAll st.r).1.1).2, r := (readAll st.r).2 })

def bcDispatch (f : Feat) (flag : Nat) (st : St) : Res × St :=
  if f.readerFrom then
    -- `readerFrom.ReadFrom(reader)`; the one ReaderFrom of the harness is *bytes.Buffer: appends
    (resRead (readAll st.r).1, { st with val := st.val ++ (readAll st.r).1.1, r := (readAll st.r).2 })
  else if f.writer then
    (resCopy (copyAll st.r st.w).1, { st with r := (copyAll st.r st.w).2.1, w := (copyAll st.r st.w).2.2 })
  else bcBuffered f flag st

/-- The body once the reader is known to be non-nil and the closer is installed. -/
def bcInner (f : Feat) (flag : Nat) (st : St) : Res × St :=
  if f.ty = .nil then (.nilData, st)
  else if f.nilPtr then (.nilPtr, st)
  else bcDispatch f flag st

/-- The deferred `closer()` of the byte-stream consumer (its error is dropped). -/
def closeR (c : Case) (st : St) : St :=
  if c.close && c.stream == .closer then { st with r := (st.r.close).2 } else st

/-! ## Model: TextConsumer -/

def tcStore (f : Feat) (flag : Nat) (pre b : Bytes) : Res × Bytes :=
  if f.nilPtr then (.nilPtr, pre)
  else if f.txtUnm then
    (if b.isEmpty then (.ok, pre)
     else if flag = 0 then (.ok, b) else (.mar flag true, pre))
  else match f.ty with
    | .ptr .str => (.ok, b)
    | _ => (.unsup, pre)

def tcInner (f : Feat) (flag : Nat) (st : St) : Res × St :=
  if (readAll st.r).1.2.2 then (.hang, { st with r := (readAll st.r).2 })
  else match (readAll st.r).1.2.1 with
    | some e => (.rd e, { st with r := (readAll st.r).2 })
    | none =>
      ((tcStore f flag st.val (readAll st.r).1.1).1,
       { st with val := (tcStore f flag st.val (readAll st.r).1.1).2, r := (readAll st.r).2 })

def consume (c : Case) : Out :=
  match c.codec with
  | .discard => ⟨.ok, ⟨c.content, c.src, c.snk⟩⟩
  | .bytestream =>
    if c.stream = .nil then ⟨.noStream, ⟨c.content, c.src, c.snk⟩⟩
    else ⟨(bcInner (feat c.kind) c.flag ⟨c.content, c.src, c.snk⟩).1,
          closeR c (bcInner (feat c.kind) c.flag ⟨c.content, c.src, c.snk⟩).2⟩
  | .text =>
    if c.stream = .nil then ⟨.noStream, ⟨c.content, c.src, c.snk⟩⟩
    else ⟨(tcInner (feat c.kind) c.flag ⟨c.content, c.src, c.snk⟩).1,
          (tcInner (feat c.kind) c.flag ⟨c.content, c.src, c.snk⟩).2⟩

/-! ## Model: ByteStreamProducer, TextProducer -/

def setW (st : St) (x : Res × Snk) : Res × St := (x.1, { st with w := x.2 })

/-- `swag.WriteJSON(data)` then one `Write`. -/
def jsonWrite (aux : Option Bytes) (st : St) : Res × St :=
  match aux with
  | none => (.json, st)
  | some j => setW st (writeOnce st.w j)

/-- `switch origin := data.(type)` of the byte-stream producer. -/
def bpDispatch (f : Feat) (flag : Nat) (aux : Option Bytes) (st : St) : Res × St :=
  if f.writerTo then
    -- the WriterTo kinds of the harness are / delegate to a bytes.Buffer
    ((bufWriteTo st.val st.w).1, { st with val := (bufWriteTo st.val st.w).2.1, w := (bufWriteTo st.val st.w).2.2 })
  else if f.reader then
    (resCopy (copyAll st.r st.w).1, { st with r := (copyAll st.r st.w).2.1, w := (copyAll st.r st.w).2.2 })
  else if f.binMar then
    (if flag = 0 then setW st (writeOnce st.w st.val) else (.mar flag false, st))
  else if f.isErr then setW st (writeOnce st.w (f.errPre ++ st.val))
  else match f.ty.base with
    | none => (.panic, st)
    | some .bytes => setW st (writeOnce st.w st.val)
    | some .str => setW st (writeOnce st.w st.val)
    | some .struct_ => jsonWrite aux st
    | some .slice => jsonWrite aux st
    | some _ => (.unsup, st)

def bpInner (f : Feat) (flag : Nat) (aux : Option Bytes) (st : St) : Res × St :=
  if f.ty = .nil then (.nilData, st)
  else if f.nilPtr then (.nilPtr, st)
  else
    -- `if rc, ok := data.(io.ReadCloser); ok { defer rc.Close() }`
    ((bpDispatch f flag aux st).1,
     if f.reader && f.closer then
       { (bpDispatch f flag aux st).2 with r := ((bpDispatch f flag aux st).2.r.close).2 }
     else (bpDispatch f flag aux st).2)

def closeW (c : Case) (st : St) : St :=
  if c.close && c.stream == .closer then { st with w := (st.w.close).2 } else st

def tpInner (f : Feat) (flag : Nat) (aux : Option Bytes) (st : St) : Res × St :=
  if f.ty = .nil then (.nilData, st)
  else if f.nilPtr then (.nilPtr, st)
  else if f.txtMar then
    (if flag = 0 then setW st (writeOnce st.w st.val) else (.mar flag true, st))
  else if f.isErr then setW st (writeOnce st.w (f.errPre ++ st.val))
  else if f.stringer then setW st (writeOnce st.w (f.strPre ++ st.val))
  else match f.ty.base with
    | none => (.panic, st)
    | some .struct_ => jsonWrite aux st
    | some .slice => jsonWrite aux st
    | some .bytes => jsonWrite aux st
    | some .str => setW st (writeOnce st.w st.val)
    | some _ => (.unsup, st)

def produce (c : Case) : Out :=
  match c.codec with
  | .discard => ⟨.ok, ⟨c.content, c.src, c.snk⟩⟩
  | .bytestream =>
    if c.stream = .nil then ⟨.noStream, ⟨c.content, c.src, c.snk⟩⟩
    else ⟨(bpInner (feat c.kind) c.flag c.aux ⟨c.content, c.src, c.snk⟩).1,
          closeW c (bpInner (feat c.kind) c.flag c.aux ⟨c.content, c.src, c.snk⟩).2⟩
  | .text =>
    if c.stream = .nil then ⟨.noStream, ⟨c.content, c.src, c.snk⟩⟩
    else ⟨(tpInner (feat c.kind) c.flag c.aux ⟨c.content, c.src, c.snk⟩).1,
          (tpInner (feat c.kind) c.flag c.aux ⟨c.content, c.src, c.snk⟩).2⟩

def model (c : Case) : Out :=
  match c.dir with
  | .consume => consume c
  | .produce => produce c

/-! ## Spec (from the property text, not from the code)

"For each built-in producer/consumer pair (JSON, XML, YAML, text, byte stream), consuming what the
producer wrote for a supported value yields an equal value, and for the text and byte-stream codecs
the bytes written are exactly the source bytes and the bytes stored are exactly the bytes read,
however the reader or writer chunks, short-reads or returns data together with end-of-stream. A
read or write error is returned to the caller rather than reported as a shorter success, the
underlying stream is closed if and only if the closing option was requested (a closable source
payload is always closed), and unsupported, nil or pre-populated destinations yield an error, never
a panic."

Readings:
* what is *supported* comes from the doc comments of the codecs and their tests, as tables over the
  kinds (`bcDst`, `tcDst`, `bpSrc`, `tpSrc`) — not from the model's `feat`;
* "the bytes stored are exactly the bytes read": a destination that is *replaced* (`*string`,
  `*[]byte`, named variants, `*interface{}` holding a string / []byte) ends up holding exactly the
  stream's bytes, also when it was pre-populated; a destination that *appends* by nature
  (`*bytes.Buffer`, an `io.Writer`) receives exactly the stream's bytes after what it held; an
  unmarshaler is handed exactly the stream's bytes (the text consumer need not hand over an empty
  input: text_test.go requires success there for an unmarshaler that rejects empty text);
* "unsupported, nil or pre-populated destinations yield an error": every kind the tables do not
  list (by type, by being a nil interface or a typed-nil pointer, or by the state it was
  pre-populated with: a `*interface{}` holding neither a string nor a []byte) gets an error; the
  same is asked of unsupported and nil *source* values of the producers, and of a nil stream;
* "a read or write error is returned": a success implies that the reader ended with EOF, that
  nothing failed to marshal and that every byte was written; when the reader ends with an error
  that error is what the call returns (or a write error met before it); a failed call that only
  writes returns a write error;
* liveness (a round trip "yields an equal value"): EOF, no marshal failure and a writer that
  refuses nothing give success;
* writers are assumed to honour `io.Writer` ("Write must return a non-nil error if it returns
  n < len(p)"); for a lying writer (`wlie`) the clause "success implies every byte was written" is
  not asked (the others are);
* "closed iff the closing option was requested": only the byte-stream codec has the option; with
  it, and a stream that has a `Close` method, `Close` is called on every call that was given a
  stream (also when the data is refused), without it never; the text and discard codecs never
  close; the destination writer of a consume is never closed; "a closable source payload is always
  closed": an `io.ReadCloser` given to the byte-stream producer together with a writer;
* struct / slice sources are written "as JSON": the bytes of the external rendering (`aux`).
-/

/-- What was observed of a call. -/
structure Obs where
  res : Res
  val : Bytes        -- content of the data value afterwards
  rcloses : Nat      -- Close calls on the scripted reader
  rleft : Nat        -- bytes the scripted reader still holds
  wcloses : Nat      -- Close calls on the scripted writer
  wgot : Bytes       -- bytes the scripted writer received
  intact : Bool      -- byte slices handed in were not written to

def Out.obs (o : Out) : Obs :=
  ⟨o.res, o.st.val, o.st.r.closes, o.st.r.data.length, o.st.w.closes, o.st.w.got, true⟩

inductive DstClass where
  | unsupported | replace | append | sink | unmarshal
deriving DecidableEq, Repr

/-- ByteStreamConsumer: "io.ReaderFrom, io.Writer, encoding.BinaryUnmarshaler, *string, *[]byte"
(doc comment), types with these underlying types and `*interface{}` holding a string or a []byte
(bytestream_test.go). -/
def bcDst : K → DstClass
  | .pstr | .pnstr | .pbyt | .pnbyt | .pifStr | .pifByt => .replace
  | .buf => .append
  | .wr => .sink
  | .bin => .unmarshal
  | _ => .unsupported

/-- TextConsumer: `encoding.TextUnmarshaler`, pointers to strings (text_test.go). -/
def tcDst : K → DstClass
  | .pstr | .pnstr => .replace
  | .txt => .unmarshal
  | _ => .unsupported

inductive SrcClass where
  | unsupported | bytes | stream | marshal | json
  | errText     -- an `error` whose other methods would say something else: its `Error()` text is written
deriving DecidableEq, Repr

/-- ByteStreamProducer: "io.WriterTo, io.Reader, encoding.BinaryMarshaler, error, []byte, string,
struct, other slices: writes as JSON" (doc comment); pointers to and types over them (tests). -/
def bpSrc : K → SrcClass
  | .str | .nstr | .pstr | .pnstr | .byt | .nbyt | .pbyt | .pnbyt | .buf | .wtc | .err => .bytes
  | .rd | .rdc => .stream
  | .bin => .marshal
  | .strct | .pstrct | .slc | .pslc | .wr | .txt | .strg => .json
  -- several methods at once (doc comment order): BinaryMarshaler before error; error before the
  -- reflection cases (a TextMarshaler / Stringer is nothing to this codec: a struct, "as JSON")
  | .bes => .marshal
  | .tes | .es => .errText
  | .ts => .json
  | _ => .unsupported

/-- TextProducer: `encoding.TextMarshaler`, error, `fmt.Stringer`, strings; structs and slices
(among them []byte) as JSON (text_test.go). -/
def tpSrc : K → SrcClass
  | .str | .nstr | .pstr | .pnstr | .err | .strg | .buf => .bytes
  | .txt => .marshal
  | .strct | .pstrct | .slc | .pslc | .byt | .nbyt | .pbyt | .pnbyt | .wr | .rd | .rdc | .wtc | .bin => .json
  -- several methods at once: the text form a type defines for itself (TextMarshaler) before its
  -- error text, the error text before the Stringer's (text.go, text_test.go)
  | .tes | .ts => .marshal
  | .es | .bes => .errText
  | _ => .unsupported

def Res.isError : Res → Bool
  | .ok | .panic | .hang => false
  | _ => true

def Res.isWriteError : Res → Bool
  | .wr _ | .shortWrite => true
  | _ => false

def Case.snkFaultFree (c : Case) : Bool := c.wlimit.isNone && c.wcaps.all (· == 0)

/-- The closing option was requested and can be honoured. -/
def Case.closeAsked (c : Case) : Bool :=
  c.codec == .bytestream && c.close && c.stream == .closer

def specDiscard (c : Case) (o : Obs) : Bool :=
  o.res == .ok && o.val == c.content && o.rcloses == 0 && o.rleft == c.rdata.length &&
    o.wcloses == 0 && o.wgot.isEmpty

/-- Reading until the end and storing: `stored` is what the destination must hold on success. -/
def specStored (c : Case) (o : Obs) (stored : Bytes) : Bool :=
  (o.res != .ok || (o.val == stored && c.rterm == .eof)) &&
  (c.rterm != .eof || o.res == .ok) &&
  (c.rterm == .eof || o.res == .rd c.rterm)

def specDst (c : Case) (o : Obs) : DstClass → Bool
  | .unsupported => o.res.isError
  | .replace => specStored c o c.rdata
  | .append => specStored c o (c.content ++ c.rdata)
  | .sink =>
    (c.wlie || o.res != .ok || (o.wgot == c.rdata && c.rterm == .eof)) &&
    (!(c.rterm == .eof && c.snkFaultFree) || o.res == .ok) &&
    o.wgot.isPrefixOf c.rdata &&
    (c.rterm == .eof || o.res == .rd c.rterm || o.res.isWriteError)
  | .unmarshal =>
    (o.res != .ok ||
      (c.rterm == .eof &&
        ((c.flag == 0 && o.val == c.rdata) ||
         (c.codec == .text && c.rdata.isEmpty && o.val == c.content)))) &&
    (!(c.rterm == .eof && c.flag == 0) || o.res == .ok) &&
    (c.rterm == .eof || o.res == .rd c.rterm)

def specConsume (c : Case) (o : Obs) : Bool :=
  match c.codec with
  | .discard => specDiscard c o
  | cd =>
    o.res != .panic && o.res != .hang && o.intact &&
    (decide (0 < o.rcloses) == c.closeAsked) && o.wcloses == 0 &&
    (if c.stream == .nil then o.res.isError
     else specDst c o (if cd == Codec.bytestream then bcDst c.kind else tcDst c.kind))

/-- One value written out: `p` is what the writer must have received on success. -/
def specWritten (c : Case) (o : Obs) (p : Bytes) : Bool :=
  (c.wlie || o.res != .ok || o.wgot == p) &&
  (!c.snkFaultFree || (o.res == .ok && o.wgot == p)) &&
  o.wgot.isPrefixOf p &&
  (o.res == .ok || o.res.isWriteError)

def specSrc (c : Case) (o : Obs) : SrcClass → Bool
  | .unsupported => o.res.isError
  | .bytes => specWritten c o c.content
  | .marshal => if c.flag == 0 then specWritten c o c.content else (o.res.isError && o.wgot.isEmpty)
  | .errText => specWritten c o (ePre ++ c.content)
  | .json =>
    (match c.aux with
     | some j => specWritten c o j
     | none => o.res.isError && o.wgot.isEmpty)
  | .stream =>
    (c.wlie || o.res != .ok || (o.wgot == c.rdata && c.rterm == .eof)) &&
    (!(c.rterm == .eof && c.snkFaultFree) || o.res == .ok) &&
    o.wgot.isPrefixOf c.rdata &&
    (c.rterm == .eof || o.res == .rd c.rterm || o.res.isWriteError)

/-- An `io.ReadCloser` payload. -/
def K.closable : K → Bool
  | .rdc | .wtc => true
  | _ => false

def specProduce (c : Case) (o : Obs) : Bool :=
  match c.codec with
  | .discard => specDiscard c o
  | cd =>
    o.res != .panic && o.res != .hang && o.intact &&
    (decide (0 < o.wcloses) == c.closeAsked) &&
    (!(cd == Codec.bytestream && c.stream != .nil && c.kind.closable) || decide (0 < o.rcloses)) &&
    (if c.stream == .nil then o.res.isError
     else specSrc c o (if cd == Codec.bytestream then bpSrc c.kind else tpSrc c.kind))

def spec (c : Case) (o : Obs) : Bool :=
  match c.dir with
  | .consume => specConsume c o
  | .produce => specProduce c o

/-! ## Driver entry -/

def sigShape : Shape → String
  | .str => "str" | .bytes => "bytes" | .slice => "slice" | .struct_ => "struct"
  | .iface => "iface" | .ptr => "ptr" | .other => "other"

/-- The signature the harness computes by reflection and interface assertions (`c15Sig`). -/
def sigOf (f : Feat) : String :=
  match f.ty with
  | .nil => "-"
  | t =>
    let tyS := match t with
      | .ptr .iface => "p:iface:" ++ (match f.ipre with | .none => "n" | .str => "s" | .bytes => "b" | .other => "o")
      | .ptr e => "p:" ++ sigShape e
      | .val s => "v:" ++ sigShape s
      | .nil => ""
    let fl (b : Bool) (l : String) := if b then l else ""
    tyS ++ "/" ++ fl f.nilPtr "N" ++ fl f.readerFrom "F" ++ fl f.writer "W" ++ fl f.binUnm "U" ++
      fl f.txtUnm "u" ++ fl f.writerTo "T" ++ fl f.reader "R" ++ fl f.closer "C" ++ fl f.binMar "M" ++
      fl f.txtMar "m" ++ fl f.isErr "E" ++ fl f.stringer "S"

/-- How the harness labels the content it reads back from a data value. -/
def K.tag : K → String
  | .str | .nstr | .pstr | .pnstr | .err | .strg => "s"
  | .byt | .nbyt | .pbyt | .pnbyt | .buf | .wtc | .bin | .txt | .tes | .es | .ts | .bes => "b"
  | .pifNil => "in" | .pifStr => "is" | .pifByt => "ib" | .pifInt => "io"
  | _ => "n"

def K.hasContent (k : K) : Bool := k.tag == "s" || k.tag == "b" || k.tag == "is" || k.tag == "ib"

def parseKind (s : String) : Option K := K.all.find? (·.name == s)

def decHexAux : List Char → Bytes → Option Bytes
  | [], acc => some acc.reverse
  | a :: b :: r, acc =>
    match hexVal a, hexVal b with
    | some x, some y => decHexAux r (UInt8.ofNat (x * 16 + y) :: acc)
    | _, _ => none
  | _, _ => none

/-- `decField`, tail recursive (inputs of tens of kilobytes). -/
def decHex (s : String) : Option Bytes := if s == "-" then some [] else decHexAux s.toList []

def parseErrNum (s : String) (pre : String) : Option Nat :=
  if s.startsWith pre then (s.drop pre.length).toNat? else none

def parseRes (s : String) : Res :=
  match s with
  | "ok" => .ok | "nostream" => .noStream | "nildata" => .nilData | "nilptr" => .nilPtr
  | "notptr" => .notPtr | "unsup" => .unsup | "short" => .shortWrite | "json" => .json
  | "srcclosed" => .rd .srcClosed
  | _ =>
    match parseErrNum s "tm" with
    | some n => .mar n true
    | none => match parseErrNum s "m" with
      | some n => .mar n false
      | none => match parseErrNum s "e" with
        | some n => .rd (.user n)
        | none => match parseErrNum s "w" with
          | some n => .wr (.user n)
          | none => .other

def parseTerm (s : String) : Option Err :=
  if s == "eof" then some .eof else (parseErrNum s "e").map .user

def parseNats (s : String) : Option (List Nat) :=
  if s == "." then some [] else (s.splitOn ",").mapM (·.toNat?)

def parseBool (s : String) : Option Bool :=
  match s with | "0" => some false | "1" => some true | _ => none

def parseCErr (s : String) : Option (Option Err) :=
  s.toNat?.map fun n => if n == 0 then none else some (.user n)

def parseCase (f : List String) (jaux : String) : Option Case :=
  match f with
  | [dir, codec, cl, stream, kind, content, flag, rdata, rterm, rtog, rsched, rcerr,
     wcaps, wlimit, wlie, wcerr] => do
    let dir ← (match dir with | "c" => some Dir.consume | "p" => some .produce | _ => none)
    let codec ← (match codec with
      | "b" => some Codec.bytestream | "t" => some .text | "d" => some .discard | _ => none)
    let close ← parseBool cl
    let stream ← (match stream with
      | "n" => some SKind.nil | "p" => some .plain | "c" => some .closer | _ => none)
    let kind ← parseKind kind
    let content ← decHex content
    let flag ← flag.toNat?
    let rdata ← decHex rdata
    let rterm ← parseTerm rterm
    let rtog ← parseBool rtog
    let rsched ← parseNats rsched
    let rcerr ← parseCErr rcerr
    let wcaps ← parseNats wcaps
    let wlimit ← wlimit.toInt?
    let wlie ← parseBool wlie
    let wcerr ← parseCErr wcerr
    let aux ← (if jaux == "!" then some none else (decHex jaux).map some)
    pure { dir, codec, close, stream, kind, content, flag, aux, rdata, rterm, rtog, rsched, rcerr,
           wcaps, wlimit := if wlimit < 0 then none else some wlimit.toNat, wlie, wcerr }
  | _ => none

def renderErr : Err → String
  | .eof => "eof" | .ueof => "ueof" | .noProgress => "noprog" | .already => "already"
  | .srcClosed => "srcclosed" | .bufFull => "buffull" | .user n => s!"e{n}"

def renderRes : Res → String
  | .ok => "ok" | .noStream => "nostream" | .nilData => "nildata" | .nilPtr => "nilptr"
  | .notPtr => "notptr" | .unsup => "unsup" | .rd e => renderErr e
  | .wr e => "w" ++ (renderErr e).drop 1 | .shortWrite => "short"
  | .mar n w => (if w then "tm" else "m") ++ toString n | .json => "json" | .other => "other"
  | .panic => "PANIC" | .hang => "HANG"

def resClass : Res → String
  | .ok => "ok" | .noStream => "nostream" | .nilData => "nildata" | .nilPtr => "nilptr"
  | .notPtr => "notptr" | .unsup => "unsup" | .rd _ => "rderr" | .wr _ => "wrerr"
  | .shortWrite => "short" | .mar _ _ => "marerr" | .json => "jsonerr" | .other => "other"
  | .panic => "PANIC" | .hang => "HANG"

def renderVal (k : K) (v : Bytes) : String :=
  if k.hasContent then k.tag ++ ":" ++ encField v else k.tag

def dstClassName : DstClass → String
  | .unsupported => "unsupported" | .replace => "replace" | .append => "append" | .sink => "sink"
  | .unmarshal => "unmarshal"

def srcClassName : SrcClass → String
  | .unsupported => "unsupported" | .bytes => "bytes" | .stream => "stream" | .marshal => "marshal"
  | .json => "json" | .errText => "errtext"

def tagOf (c : Case) (m : Out) : String :=
  let d := match c.dir with | .consume => "c" | .produce => "p"
  match c.codec with
  | .discard => "~" ++ d ++ ".discard"
  | cd =>
    let cdS := if cd == Codec.bytestream then "b" else "t"
    let cls := match c.dir with
      | .consume => dstClassName (if cd == Codec.bytestream then bcDst c.kind else tcDst c.kind)
      | .produce => srcClassName (if cd == Codec.bytestream then bpSrc c.kind else tpSrc c.kind)
    let cl := if c.closeAsked then "+close" else ""
    let lie := if c.wlie && c.stream != .nil && (c.dir == .produce || cls == "sink") then "+lyingwriter" else ""
    s!"{d}.{cdS}:{cls}:{resClass m.res}{cl}{lie}"

def parseVal (k : K) (s : String) : Option Bytes :=
  if k.hasContent then
    if s.startsWith (k.tag ++ ":") then decHex (s.drop (k.tag.length + 1)).toString else none
  else if s == k.tag then some [] else none

def runX (f outs : List String) : Verdict :=
  match outs with
  | ["PANIC", msg] =>
    (match parseCase f "-" with
     | none => { agree := true, specOk := true, tag := "~badinput", model := "input does not parse" }
     | some c =>
       { agree := false, specOk := false, tag := tagOf c (model c) ++ ":impl-panic",
         model := renderRes (model c).res ++ " (no panic expected); impl: " ++ msg })
  | [res, sig, val, rcloses, rleft, wcloses, wgot, intact, jaux] =>
    (match parseCase f jaux with
     | none => { agree := true, specOk := true, tag := "~badinput", model := "input does not parse" }
     | some c =>
       let m := model c
       match parseVal c.kind val, rcloses.toNat?, rleft.toNat?, wcloses.toNat?, decHex wgot, parseBool intact with
       | some v, some rc, some rl, some wc, some wg, some it =>
         let o : Obs := ⟨parseRes res, if c.kind.hasContent then v else c.content, rc, rl, wc, wg, it⟩
         let mo := m.obs
         let same := mo.res == o.res && (!c.kind.hasContent || mo.val == o.val) && mo.rcloses == o.rcloses &&
           mo.rleft == o.rleft && mo.wcloses == o.wcloses && mo.wgot == o.wgot && o.intact &&
           sigOf (feat c.kind) == sig
         { agree := same, specOk := spec c o, tag := tagOf c m,
           model := s!"{renderRes m.res} sig={sigOf (feat c.kind)} val={mo.val.length}B rcloses={mo.rcloses} rleft={mo.rleft} wcloses={mo.wcloses} wgot={mo.wgot.length}B" }
       | _, _, _, _, _, _ => { agree := false, specOk := false, tag := "unparsed-output", model := "" })
  | _ => { agree := false, specOk := false, tag := "unparsed-output", model := "" }

/-! ### JSON / XML / YAML: external libraries behind two option calls

`JSONConsumer` = `json.NewDecoder(r)` + `UseNumber()` + `Decode`; `JSONProducer` =
`json.NewEncoder(w)` + `SetEscapeHTML(false)` + `Encode`; the XML and YAML codecs call
`encoding/xml` and `gopkg.in/yaml.v3` without options. Nothing of these libraries is modelled: the
harness runs generated values through producer and consumer and reports canonical dumps of the
value before and after; this entry only compares them. It is a TEST, not a proof. -/
def runJ (f outs : List String) : Verdict :=
  match f, outs with
  | [codec, shape, _], [perr, cerr, orig, got, esc] =>
    let good := perr == "ok" && cerr == "ok" && orig == got && esc == "0"
    { agree := good, specOk := good, tag := s!"~test:{codec}:{shape}",
      model := "external library round trip (test): expects ok ok, equal dumps, no HTML escaping" }
  | _, ["PANIC", msg] => { agree := false, specOk := false, tag := "test:impl-panic", model := msg }
  | _, _ => { agree := false, specOk := false, tag := "unparsed-output", model := "" }

def run (ins outs : List String) : Verdict :=
  match ins with
  | "X" :: f => runX f outs
  | "J" :: f => runJ f outs
  | ["Y", _codec, _kind, a, _b, _rounds] =>
    -- "never alias": a delivered value is a copy; later calls cannot change it. The model of a
    -- Consume stores a fresh list, so the first destination still holds A.
    (match outs with
     | ["KEPT", got] => { agree := got == a, specOk := got == a, tag := "alias:kept", model := "KEPT " ++ a }
     | _ => { agree := false, specOk := false, tag := "alias:error", model := "KEPT " ++ a })
  | _ => .bad "C15 stream"

end RtVerif.C15
