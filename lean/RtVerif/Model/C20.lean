import RtVerif.Base.Bytes
import RtVerif.Base.Verdict
import RtVerif.Base.GoPath
import RtVerif.Gen.Facts
/-
  C20 — Spec and docs middlewares intercept only their own path; UI and spec URL agree.

  Anchors: middleware/spec.go (`Spec`), middleware/ui_options.go (`uiOptions.EnsureDefaults`,
  `serveUI`, `WithUI…`), redoc.go / rapidoc.go / swaggerui.go / swaggerui_oauth2.go (constructors and
  `EnsureDefaults`), middleware/context.go (`APIHandler`, `APIHandlerSwaggerUI`, `APIHandlerRapiDoc`,
  `uiOptionsForHandler`).

  A handler is a function `Req → Answer`.  `Answer.next r` is "the terminal handler (the recording
  `next`, or the API router) was called with request `r`".  The rendering of a page by
  html/template is external: a page is represented by the option values handed to the template.
  Default constants come from `RtVerif.Facts` (regenerated from the source on every run).
-/
namespace RtVerif.C20
open RtVerif Bytes GoPath

/-! ## Model -/

structure Req where
  method : Bytes
  path   : Bytes          -- r.URL.Path
deriving DecidableEq, Repr

inductive Kind | redoc | rapidoc | swaggerui | oauth2
deriving DecidableEq, Repr

/-- The option struct of a UI flavour.  `scriptURL` is RedocURL / RapiDocURL / SwaggerURL;
`oauthCallbackURL` exists for the SwaggerUI flavours only.  (SwaggerUIOpts' preset, styles and
favicon URLs are defaulted the same way as `scriptURL` and only feed the template.) -/
structure Opts where
  basePath : Bytes := []
  path : Bytes := []
  specURL : Bytes := []
  title : Bytes := []
  template : Bytes := []          -- "" = the flavour's built-in template
  scriptURL : Bytes := []
  oauthCallbackURL : Bytes := []
deriving DecidableEq, Repr

/-- What html/template is executed with. -/
structure Page where
  kind : Kind
  opts : Opts
deriving DecidableEq, Repr

inductive Answer
  | spec (body : Bytes)              -- 200, application/json, exactly these bytes
  | page (p : Page)                  -- 200, text/html; charset=utf-8
  | next (r : Req)                   -- handed on, with the request as received
  | notFound (ctype : Bytes)         -- 404, no next handler
deriving DecidableEq, Repr

abbrev Handler := Req → Answer

/-- the terminal handler: records the request it is given -/
def terminal : Handler := fun r => .next r

def rootB : Bytes := [slash]

/-- i-th content type of a regenerated table -/
def ctAt (l : List Bytes) (i : Nat) : Bytes := l.getD i []

def ctJSON : Bytes := ctAt Facts.c20SpecContentTypes 0
def ctSpec404 : Bytes := ctAt Facts.c20SpecContentTypes 1
def ctHTML : Bytes := ctAt Facts.c20ServeUIContentTypes 0
def ctUI404 : Bytes := ctAt Facts.c20ServeUIContentTypes 1

/-! ### spec.go -/

inductive SpecOption
  | path (p : Bytes)            -- WithSpecPath
  | document (d : Bytes)        -- WithSpecDocument (ignored when empty)
deriving DecidableEq, Repr

structure SpecOpts where
  path : Bytes
  document : Bytes
deriving DecidableEq, Repr

def defaultSpecOpts : SpecOpts := ⟨Facts.c20SpecPath, Facts.c20SpecDocument⟩

def SpecOption.apply (o : SpecOpts) : SpecOption → SpecOpts
  | .path p => { o with path := p }
  | .document d => if d = [] then o else { o with document := d }

def specOptionsWithDefaults (opts : List SpecOption) : SpecOpts :=
  opts.foldl SpecOption.apply defaultSpecOpts

/-- `pth` of `Spec(basePath, b, next, opts...)`. -/
def specDocPath (basePath : Bytes) (opts : List SpecOption) : Bytes :=
  let o := specOptionsWithDefaults opts
  join3 (if basePath = [] then rootB else basePath) o.path o.document

/-- The handler returned by `Spec`. -/
def specMW (basePath : Bytes) (b : Bytes) (next : Option Handler) (opts : List SpecOption) : Handler :=
  fun r =>
    if clean r.path = specDocPath basePath opts then .spec b
    else match next with
      | some n => n r
      | none => .notFound ctSpec404

/-! ### ui_options.go and the UI flavours -/

/-- `serveUI(pth, assets, next)`. -/
def serveUI (pth : Bytes) (page : Page) (next : Option Handler) : Handler :=
  fun r =>
    if clean r.path = pth then .page page
    else match next with
      | some n => n r
      | none => .notFound ctUI404

def orDefault (v d : Bytes) : Bytes := if v = [] then d else v

/-- `uiOptions.EnsureDefaults` on the four common fields. -/
def commonDefaults (o : Opts) : Opts :=
  { o with
    basePath := orDefault o.basePath rootB
    path := orDefault o.path Facts.c20DocsPath
    specURL := orDefault o.specURL Facts.c20DocsURL
    title := orDefault o.title Facts.c20DocsTitle }

def defaultScript : Kind → Bytes
  | .redoc => Facts.c20RedocURL
  | .rapidoc => Facts.c20RapiDocURL
  | .swaggerui => Facts.c20SwaggerURL
  | .oauth2 => Facts.c20SwaggerURL

/-- `RedocOpts.EnsureDefaults`, `RapiDocOpts.EnsureDefaults`, `SwaggerUIOpts.EnsureDefaults`,
`SwaggerUIOpts.EnsureDefaultsOauth2` (the template default is represented by `""`). -/
def ensureDefaults (k : Kind) (o : Opts) : Opts :=
  let c := commonDefaults o
  let c := { c with scriptURL := orDefault c.scriptURL (defaultScript k) }
  match k with
  | .redoc | .rapidoc => c
  | .swaggerui | .oauth2 =>
    { c with oauthCallbackURL :=
        orDefault c.oauthCallbackURL (join3 c.basePath c.path Facts.c20OAuthCallbackElem) }

/-- `pth` in `Redoc` / `RapiDoc` / `SwaggerUI` / `SwaggerUIOAuth2Callback` (options defaulted). -/
def uiDocPath (k : Kind) (o : Opts) : Bytes :=
  match k with
  | .oauth2 => o.oauthCallbackURL
  | _ => join o.basePath o.path

/-- `Redoc(opts, next)` etc. -/
def uiMW (k : Kind) (opts : Opts) (next : Option Handler) : Handler :=
  let o := ensureDefaults k opts
  serveUI (uiDocPath k o) ⟨k, o⟩ next

/-! ### UIOption -/

inductive UIOption
  | basePath (b : Bytes)
  | path (p : Bytes)
  | specURL (u : Bytes)
  | title (t : Bytes)
  | template (t : Bytes)
deriving DecidableEq, Repr

def UIOption.apply (o : Opts) : UIOption → Opts
  | .basePath b => { o with basePath := if isRooted b then b else slash :: b }
  | .path p => { o with path := p }
  | .specURL u => { o with specURL := u }
  | .title t => { o with title := t }
  | .template t => { o with template := t }

/-- `uiOptionsWithDefaults` (which, despite its name, applies no default). -/
def uiOptionsWithDefaults (opts : List UIOption) : Opts := opts.foldl UIOption.apply {}

/-! ### net/url.Parse, as far as `uiOptionsForHandler` needs it: the `Path` of the result

External library, hand model (validated by stream `U`).  Authorities other than
`[A-Za-z0-9.-]*(:[0-9]*)?` are outside the modelled subset (`UrlPath.outside`). -/

inductive UrlPath
  | ok (p : Bytes)
  | err                      -- url.Parse fails: `u == nil`
  | outside                  -- not modelled
deriving DecidableEq, Repr

def isAlpha (c : UInt8) : Bool := (97 ≤ c && c ≤ 122) || (65 ≤ c && c ≤ 90)
def isDigit (c : UInt8) : Bool := 48 ≤ c && c ≤ 57
def isHex (c : UInt8) : Bool := isDigit c || (97 ≤ c && c ≤ 102) || (65 ≤ c && c ≤ 70)
def unhex (c : UInt8) : UInt8 :=
  if isDigit c then c - 48 else if 97 ≤ c && c ≤ 102 then c - 87 else c - 55
def isCTL (c : UInt8) : Bool := c < 32 || c = 127

inductive SchemeRes | noScheme | missing | at (i : Nat)
deriving DecidableEq, Repr

/-- `getScheme`: position of the `:` that ends a valid scheme. -/
def schemeScan : Nat → Bytes → SchemeRes
  | _, [] => .noScheme
  | i, c :: r =>
    if isAlpha c then schemeScan (i + 1) r
    else if isDigit c || c = 43 || c = 45 || c = 46 then
      (if i = 0 then .noScheme else schemeScan (i + 1) r)
    else if c = 58 then (if i = 0 then .missing else .at i)
    else .noScheme

/-- `unescape(s, encodePath)`: `%XX` decoded, anything else verbatim; `none` on a bad escape. -/
def unescapePath : Bytes → Option Bytes
  | [] => some []
  | c :: r =>
    if c = 37 then
      match r with
      | a :: b :: r' =>
        if isHex a && isHex b then (unescapePath r').map ((unhex a * 16 + unhex b) :: ·) else none
      | _ => none
    else (unescapePath r).map (c :: ·)

def isHostByte (c : UInt8) : Bool := isAlpha c || isDigit c || c = 46 || c = 45

/-- authority of the modelled subset: host bytes, optionally `:` and digits -/
def simpleAuthority (a : Bytes) : Bool :=
  let host := a.takeWhile isHostByte
  match a.drop host.length with
  | [] => true
  | c :: port => c = 58 && port.all isDigit

def beforeB (c : UInt8) (s : Bytes) : Bytes := s.takeWhile (· ≠ c)
def afterB (c : UInt8) (s : Bytes) : Bytes := (s.dropWhile (· ≠ c)).drop 1

/-- the part of `parse` after the scheme and the query have been split off -/
def parseRest (hasScheme : Bool) (rest : Bytes) : UrlPath :=
  if !isRooted rest && hasScheme then .ok []                    -- opaque
  else if !isRooted rest && (beforeB slash rest).contains 58 then .err  -- colon in first segment
  else if (hasScheme || !([slash, slash, slash] : Bytes).isPrefixOf rest)
      && ([slash, slash] : Bytes).isPrefixOf rest then
    let a := rest.drop 2
    let authority := beforeB slash a
    let rest' := a.drop authority.length
    if simpleAuthority authority then
      match unescapePath rest' with
      | some p => .ok p
      | none => .err
    else .outside
  else
    match unescapePath rest with
    | some p => .ok p
    | none => .err

def parseNoFrag (u : Bytes) : UrlPath :=
  if u.any isCTL then .err
  else if u = [42] then .ok [42]
  else match schemeScan 0 u with
    | .missing => .err
    | .noScheme => parseRest false (beforeB 63 u)
    | .at i => parseRest true (beforeB 63 (u.drop (i + 1)))

/-- `u, _ := url.Parse(raw)` then `u.Path` (`err` when `u == nil`). -/
def urlPath (raw : Bytes) : UrlPath :=
  match parseNoFrag (beforeB 35 raw) with
  | .ok p => if (unescapePath (afterB 35 raw)).isSome then .ok p else .err
  | r => r

def hasScheme (raw : Bytes) : Bool :=
  match schemeScan 0 (beforeB 35 raw) with
  | .at _ => true
  | _ => false

/-! ### context.go: uiOptionsForHandler and the three API handlers -/

/-- `specPath` of `uiOptionsForHandler` given what `url.Parse` returned. -/
def specPathOf : UrlPath → Bytes
  | .ok p => p
  | _ => []

/-- `uiOptionsForHandler`: (basePath argument of `Spec`, common options, spec options). -/
def uiOptionsForHandler (ctxBase title : Bytes) (opts : List UIOption) (up : Bytes → UrlPath) :
    Bytes × Opts × List SpecOption :=
  let uiOpts := uiOptionsWithDefaults ([.basePath ctxBase, .title title] ++ opts)
  let sp := split (specPathOf (up uiOpts.specURL))
  ((if sp.1 = dot then [] else sp.1), uiOpts, [.document sp.2])

/-- `fromCommonToAnyOptions(uiOpts, &flavourOpts)`: the five common fields are copied. -/
def toFlavour (o : Opts) : Opts :=
  { basePath := o.basePath, path := o.path, specURL := o.specURL, title := o.title,
    template := o.template }

/-- `Context.APIHandler` (redoc), `APIHandlerSwaggerUI`, `APIHandlerRapiDoc`; `router` stands for
`c.RoutesHandler(b)`, `raw` for `c.spec.Raw()`, `up` for `url.Parse(..).Path`. -/
def apiHandlerWith (up : Bytes → UrlPath) (k : Kind) (ctxBase title raw : Bytes)
    (opts : List UIOption) (router : Handler) : Handler :=
  let r := uiOptionsForHandler ctxBase title opts up
  specMW r.1 raw (some (uiMW k (toFlavour r.2.1) (some router))) r.2.2

def apiHandler := apiHandlerWith urlPath

/-- where the composed handler serves the spec document, and the UI -/
def handlerSpecPath (up : Bytes → UrlPath) (ctxBase title : Bytes) (opts : List UIOption) : Bytes :=
  let r := uiOptionsForHandler ctxBase title opts up
  specDocPath r.1 r.2.2

def handlerUIOpts (k : Kind) (ctxBase title : Bytes) (opts : List UIOption) : Opts :=
  ensureDefaults k (toFlavour (uiOptionsWithDefaults ([.basePath ctxBase, .title title] ++ opts)))

def handlerUIPath (k : Kind) (ctxBase title : Bytes) (opts : List UIOption) : Bytes :=
  uiDocPath k (handlerUIOpts k ctxBase title opts)

/-! ## Spec (from the property text)

"The spec and documentation-UI middlewares answer only requests whose cleaned path equals their
configured document path — with the exact spec bytes as JSON, or the HTML page […] — and hand every
other request to the next handler unmodified (or answer 404 when there is none) […].  When installed
by the API handler with the spec location given as an absolute URL or absolute path, the page served
references the very location at which the spec document is served, and API operations other than
those exact document paths remain reachable."

Readings.  (1) The *configured document path* of a standalone middleware is its options joined
(`base/path` for a UI, `base/path/document` for the spec, the callback URL for the OAuth2 page),
defaults filled in.  (2) A *spec location* is absolute when it starts with `/` or has a URL scheme,
its URL path starts with `/`, and the last element of that path (the document name) is not empty;
its path is the path component of the URL (percent-decoded, as a server sees `r.URL.Path`).
(3) "references the very location at which the spec document is served": the spec document path of
the composed handler is `clean` of the location's path, so the request a browser makes for the
location is answered with the document.  For other locations (relative references, parse errors)
the property makes no claim about *where* the document is; the interception claims still hold with
the handler's own spec path. -/

/-- "text/html; charset=utf-8" -/
def htmlCT : Bytes := [116, 101, 120, 116, 47, 104, 116, 109, 108, 59, 32, 99, 104, 97, 114, 115, 101, 116, 61, 117, 116, 102, 45, 56]
/-- "application/json" -/
def jsonCT : Bytes := [97, 112, 112, 108, 105, 99, 97, 116, 105, 111, 110, 47, 106, 115, 111, 110]

/-- What a standalone case observed (canonicalised by the harness). -/
structure Obs where
  who : Bytes            -- "self" | "next" | "none"
  status : Nat
  ctype : Bytes
  nextReq : Option Req   -- the request `next` received
  same : Bool            -- `next` received the identical *http.Request
  body : Bytes           -- spec: the body;  UI: unused
deriving DecidableEq, Repr

def wSelf : Bytes := [115, 101, 108, 102]  -- "self"
def wNext : Bytes := [110, 101, 120, 116]  -- "next"
def wNone : Bytes := [110, 111, 110, 101]  -- "none"

/-- The configured document path of a UI middleware (reading 1). -/
def cfgUIPath (k : Kind) (o : Opts) : Bytes :=
  let base := orDefault o.basePath rootB
  let pth := orDefault o.path Facts.c20DocsPath
  match k with
  | .oauth2 => orDefault o.oauthCallbackURL (joinList [base, pth, Facts.c20OAuthCallbackElem])
  | _ => joinList [base, pth]

/-- The configured document path of the spec middleware (reading 1): the last `WithSpecPath` and
the last non-empty `WithSpecDocument` win over the defaults. -/
def lastPathOpt : List SpecOption → Option Bytes
  | [] => none
  | .path p :: t => (lastPathOpt t).orElse fun _ => some p
  | _ :: t => lastPathOpt t

def lastDocOpt : List SpecOption → Option Bytes
  | [] => none
  | .document d :: t => (lastDocOpt t).orElse fun _ => if d = [] then none else some d
  | _ :: t => lastDocOpt t

def cfgSpecPath (basePath : Bytes) (opts : List SpecOption) : Bytes :=
  joinList [orDefault basePath rootB, (lastPathOpt opts).getD Facts.c20SpecPath,
    (lastDocOpt opts).getD Facts.c20SpecDocument]

/-- The interception rule for one middleware with document path `docPath`. -/
def specRule (docPath : Bytes) (selfCT : Bytes) (hasNext : Bool) (req : Req)
    (bodyOk : Obs → Bool) (o : Obs) : Bool :=
  if clean req.path = docPath then
    o.who == wSelf && o.status == 200 && o.ctype == selfCT && bodyOk o && o.nextReq == none
  else if hasNext then
    -- handed on UNMODIFIED: the identical request, and nothing written to the response on the way
    -- (the recording next handler writes nothing: no Content-Type, the recorder's untouched status)
    o.who == wNext && o.nextReq == some req && o.same && o.ctype == [] && o.status == 200
  else
    o.who == wNone && o.status == 404 && o.nextReq == none

def specUI (k : Kind) (opts : Opts) (hasNext : Bool) (req : Req) (o : Obs) : Bool :=
  specRule (cfgUIPath k opts) htmlCT hasNext req (fun _ => true) o

def specSpec (basePath : Bytes) (sopts : List SpecOption) (b : Bytes) (hasNext : Bool) (req : Req)
    (o : Obs) : Bool :=
  specRule (cfgSpecPath basePath sopts) jsonCT hasNext req (fun o => o.body == b) o

/-- model output in the shape of an observation -/
def obsOf (a : Answer) : Obs :=
  match a with
  | .spec b => ⟨wSelf, 200, ctJSON, none, false, b⟩
  | .page _ => ⟨wSelf, 200, ctHTML, none, false, []⟩
  | .next r => ⟨wNext, 200, [], some r, true, []⟩
  | .notFound ct => ⟨wNone, 404, ct, none, false, []⟩

/-- The path of an absolute spec location (reading 2). -/
def locPath (loc : Bytes) : Option Bytes :=
  match urlPath loc with
  | .ok p =>
    if (isRooted loc || hasScheme loc) && isRooted p && (split p).2 ≠ [] then some p else none
  | _ => none

/-- the location the page refers to: the configured spec URL, or the default -/
def effectiveLoc (opts : List UIOption) : Bytes :=
  orDefault (uiOptionsWithDefaults opts).specURL Facts.c20DocsURL

/-- What an API-handler case observed. -/
structure HObs where
  who : Bytes            -- "spec" | "ui" | "next"
  status : Nat
  ctype : Bytes
  bodyIsRaw : Bool       -- spec: body hash = hash of c.spec.Raw()
  pageSpecURL : Bytes    -- ui: the spec URL found in the page
  pageTitle : Bytes
  routed : Option Req    -- next: the request the router handed to the matched operation, if any
deriving DecidableEq, Repr

def wSpec : Bytes := [115, 112, 101, 99]  -- "spec"
def wUI : Bytes := [117, 105]  -- "ui"

/-- model output in the shape of an API-handler observation -/
def hobsOf (raw : Bytes) (a : Answer) : HObs :=
  match a with
  | .spec b => ⟨wSpec, 200, ctJSON, b == raw, [], [], none⟩
  | .page p => ⟨wUI, 200, ctHTML, false, p.opts.specURL, p.opts.title, none⟩
  | .next r => ⟨wNext, 0, [], false, [], [], some r⟩
  | .notFound ct => ⟨wNone, 404, ct, false, [], [], none⟩

/-- Where the property wants the spec document of the composed handler (readings 2, 3). -/
def wantedSpecPath (ctxBase title : Bytes) (opts : List UIOption) : Bytes :=
  match locPath (effectiveLoc opts) with
  | some p => clean p
  | none => handlerSpecPath urlPath ctxBase title opts

def wantedUIPath (ctxBase : Bytes) (opts : List UIOption) : Bytes :=
  let o := uiOptionsWithDefaults (.basePath ctxBase :: opts)
  joinList [orDefault o.basePath rootB, orDefault o.path Facts.c20DocsPath]

/-- the page can be compared literally when html/template has nothing to escape or filter -/
def plainByte (c : UInt8) : Bool := isAlpha c || isDigit c || c = 47 || c = 46 || c = 95 || c = 45

def plainURL (u : Bytes) : Bool :=
  if (ofStr "https://").isPrefixOf u then (u.drop 8).all plainByte
  else if (ofStr "http://").isPrefixOf u then (u.drop 7).all plainByte
  else u.all plainByte

def specHandler (ctxBase title : Bytes) (opts : List UIOption) (req : Req) (o : HObs) : Bool :=
  if clean req.path = wantedSpecPath ctxBase title opts then
    o.who == wSpec && o.status == 200 && o.ctype == jsonCT && o.bodyIsRaw
  else if clean req.path = wantedUIPath ctxBase opts then
    o.who == wUI && o.status == 200 && o.ctype == htmlCT &&
      (!plainURL (effectiveLoc opts) || o.pageSpecURL == effectiveLoc opts)
  else o.who == wNext && (o.routed == none || o.routed == some req)

/-- "the HTML page in which option values are HTML-escaped": the title a reader of the page sees (the
text of the page's title element, un-escaped ONCE by the harness, as a browser does) is the title option,
or the default title when none was given.  A value that is not escaped fails this (and the markup
counts of stream `X`), and so does a value escaped twice. -/
def wantedTitle (t : Bytes) : Bytes := orDefault t Facts.c20DocsTitle

/-- the title the composed handler's page must show: the API's title unless a title option replaces it -/
def handlerTitle (ctxBase title : Bytes) (opts : List UIOption) : Bytes :=
  wantedTitle (uiOptionsWithDefaults ([.basePath ctxBase, .title title] ++ opts)).title

def UIOption.isTemplate : UIOption → Bool
  | .template _ => true
  | _ => false

/-- judged on pages of the built-in templates (a caller's template decides itself where the title goes) -/
def specHandlerTitle (ctxBase title : Bytes) (opts : List UIOption) (o : HObs) : Bool :=
  !(o.who == wUI && o.status == 200) || opts.any UIOption.isTemplate ||
    o.pageTitle == handlerTitle ctxBase title opts

def specUITitle (opts : Opts) (servedPage : Bool) (shown : Bytes) : Bool :=
  !servedPage || shown == wantedTitle opts.title

/-! ## Driver entry -/

def kindOf (s : String) : Option Kind :=
  match s with
  | "redoc" => some .redoc
  | "rapidoc" => some .rapidoc
  | "swaggerui" => some .swaggerui
  | "oauth2" => some .oauth2
  | _ => none

def kindName : Kind → String
  | .redoc => "redoc" | .rapidoc => "rapidoc" | .swaggerui => "swaggerui" | .oauth2 => "oauth2"

/-- kinds and values are zipped; a shrunk line may hold fewer values than kinds (or the
reverse): the common prefix counts, on both sides of the protocol -/
def zipOpts {α} (mk : Char → Bytes → Option α) : List Char → List Bytes → Option (List α)
  | c :: cs, v :: vs => do
    let o ← mk c v
    let t ← zipOpts mk cs vs
    pure (o :: t)
  | _, _ => some []

def mkUIOption (c : Char) (v : Bytes) : Option UIOption :=
  match c with
  | 'b' => some (.basePath v) | 'p' => some (.path v) | 's' => some (.specURL v)
  | 't' => some (.title v) | 'm' => some (.template v) | _ => none

def mkSpecOption (c : Char) (v : Bytes) : Option SpecOption :=
  match c with
  | 'p' => some (.path v) | 'd' => some (.document v) | _ => none

def decOpts {α} (mk : Char → Bytes → Option α) (kinds vals : String) : Option (List α) :=
  if kinds == "-" then some []
  else (decList vals).bind (zipOpts mk kinds.toList)

def renderObs (o : Obs) : String :=
  let nr := match o.nextReq with
    | some r => encField r.method ++ " " ++ encField r.path
    | none => "- -"
  s!"{encField o.who} {o.status} {encField o.ctype} {nr} {if o.same then 1 else 0}"

def decObs (who status ctype nm np same body : String) : Option Obs := do
  let w ← decField who
  let ct ← decField ctype
  let m ← decField nm
  let p ← decField np
  let b ← decField body
  let st ← status.toNat?
  pure ⟨w, st, ct, if w == wNext then some ⟨m, p⟩ else none, same == "1", b⟩

def relTag (req : Req) (doc : Bytes) : String :=
  if req.path = doc then "exact"
  else if clean req.path = doc then "cleaned"
  else if doc.isPrefixOf req.path then "ext"
  else if req.path.isPrefixOf doc then "prefix"
  else "other"

def urlTag (u : UrlPath) : String :=
  match u with
  | .ok _ => "ok" | .err => "err" | .outside => "outside"

def whoStr (b : Bytes) : String := String.fromUTF8! (ByteArray.mk b.toArray)

def runG (p q r : String) (got : String) : Option Verdict := do
  let p ← decField p
  let q ← decField q
  let r ← decField r
  let sp := split p
  let m := " ".intercalate [encField (clean p), encField sp.1, encField sp.2, encField (base p),
    encField (join p q), encField (join3 p q r)]
  let shape := (if isRooted p then "r" else "u") ++ (if clean p = p then "=" else "c")
  pure { agree := m == got, specOk := true,
         tag := (if p.length < 2 then "~G:short" else "G:" ++ shape), model := m }

def runU (raw kind pth : String) : Option Verdict := do
  let raw ← decField raw
  let gp ← decField pth
  let m := urlPath raw
  let ms := match m with
    | .ok p => "O " ++ encField p
    | .err => "E -"
    | .outside => "X -"
  let ok := match m with
    | .ok p => kind == "O" && gp == p
    | .err => kind == "E"
    | .outside => true
  pure { agree := ok, specOk := true,
         tag := (if m = .outside then "~U:outside" else "U:" ++ urlTag m ++
           (if hasScheme raw then "+scheme" else "")), model := ms }

def runM (kind bp pth su ti cb hasNext method rp : String)
    (who status ctype nm np same pt ps : String) : Option Verdict := do
  let k ← kindOf kind
  let bp ← decField bp
  let pth ← decField pth
  let su ← decField su
  let ti ← decField ti
  let cb ← decField cb
  let method ← decField method
  let rp ← decField rp
  let o ← decObs who status ctype nm np same "-"
  let pt ← decField pt
  let ps ← decField ps
  let opts : Opts := { basePath := bp, path := pth, specURL := su, title := ti,
                       oauthCallbackURL := cb }
  let hn := hasNext == "1"
  let req : Req := ⟨method, rp⟩
  let a := uiMW k opts (if hn then some terminal else none) req
  let mo := obsOf a
  let pageOk := match a with
    | .page p =>
      pt == p.opts.title &&
        (k = .oauth2 || !plainURL p.opts.specURL || ps == p.opts.specURL)
    | _ => pt == [] && ps == []
  pure { agree := mo == o && pageOk,
         specOk := specUI k opts hn req o && specUITitle opts (o.who == wSelf && o.status == 200) pt,
         tag := s!"M:{kindName k}:{whoStr mo.who}:{relTag req (cfgUIPath k opts)}",
         model := renderObs mo }

def runS (bp kinds vals body hasNext method rp : String)
    (who status ctype nm np same gb : String) : Option Verdict := do
  let bp ← decField bp
  let sopts ← decOpts mkSpecOption kinds vals
  let body ← decField body
  let method ← decField method
  let rp ← decField rp
  let o ← decObs who status ctype nm np same gb
  let hn := hasNext == "1"
  let req : Req := ⟨method, rp⟩
  let mo := obsOf (specMW bp body (if hn then some terminal else none) sopts req)
  pure { agree := mo == o,
         specOk := specSpec bp sopts body hn req o,
         tag := s!"S:{whoStr mo.who}:{relTag req (cfgSpecPath bp sopts)}",
         model := renderObs mo }

def runH (kind ctxBase title kinds vals method rp : String)
    (who status ctype israw ps pt rm rq : String) : Option Verdict := do
  let k ← kindOf kind
  let cb ← decField ctxBase
  let ti ← decField title
  let opts ← decOpts mkUIOption kinds vals
  let method ← decField method
  let rp ← decField rp
  let who ← decField who
  let st ← status.toNat?
  let ct ← decField ctype
  let ps ← decField ps
  let pt ← decField pt
  let rm ← decField rm
  let rq ← decField rq
  let req : Req := ⟨method, rp⟩
  let routed : Option Req := if rm == [] && rq == [] then none else some ⟨rm, rq⟩
  let o : HObs := ⟨who, st, ct, israw == "1", ps, pt, routed⟩
  let loc := (uiOptionsWithDefaults ([.basePath cb, .title ti] ++ opts)).specURL
  if urlPath loc = .outside then
    pure { agree := true, specOk := true, tag := "~H:url-outside-subset", model := "-" }
  else
    let a := apiHandler k cb ti [] opts terminal req
    let (mw, ok) := match a with
      | .spec _ => ("spec", who == wSpec && st == 200 && ct == ctJSON && israw == "1")
      | .page p => ("ui", who == wUI && st == 200 && ct == ctHTML && pt == p.opts.title &&
          (!plainURL p.opts.specURL || ps == p.opts.specURL))
      | .next r => ("next", who == wNext && (routed == none || routed == some r))
      | .notFound _ => ("notfound", false)
    let locKind := if (locPath (effectiveLoc opts)).isSome then "abs" else "rel"
    pure { agree := ok,
           specOk := specHandler cb ti opts req o && specHandlerTitle cb ti opts o,
           tag := s!"H:{kindName k}:{mw}:{locKind}:{relTag req (handlerSpecPath urlPath cb ti opts)}",
           model := mw }

def orBad (why : String) (v : Option Verdict) : Verdict := v.getD (.bad why)

def run (ins outs : List String) : Verdict :=
  match ins, outs with
  | _, ["PANIC", msg] =>
    { agree := false, specOk := false, tag := "panic", model := "no panic expected; impl: " ++ msg }
  | ["G", p, q, r], [c, d, f, b, j2, j3] =>
    orBad "G fields" (runG p q r (" ".intercalate [c, d, f, b, j2, j3]))
  | ["U", raw], [kind, pth] => orBad "U fields" (runU raw kind pth)
  | ["M", kind, bp, pth, su, ti, cb, hasNext, method, rp], [who, status, ctype, nm, np, same, pt, ps] =>
    orBad "M fields" (runM kind bp pth su ti cb hasNext method rp who status ctype nm np same pt ps)
  | ["S", bp, kinds, vals, body, hasNext, method, rp], [who, status, ctype, nm, np, same, gb] =>
    orBad "S fields" (runS bp kinds vals body hasNext method rp who status ctype nm np same gb)
  | ["H", kind, ctxBase, title, kinds, vals, method, rp], [who, status, ctype, israw, ps, pt, rm, rq] =>
    orBad "H fields" (runH kind ctxBase title kinds vals method rp who status ctype israw ps pt rm rq)
  | ["X", kind, _, _, _, tm], [a1, a2, a3, a4, b1, b2, b3, b4] =>
    -- html/template is external: nothing to compute, the Spec judges the observation.
    -- Spec: the page rendered with hostile option values holds exactly as many raw `<`, `>`, `"`,
    -- `'` bytes as the page rendered with benign values (the template's own).
    { agree := true, specOk := a1 == b1 && a2 == b2 && a3 == b3 && a4 == b4,
      tag := "X:" ++ kind ++ (if tm == "-" then "" else ":custom"), model := "-" }
  | _, _ => .bad "C20 stream"

end RtVerif.C20
