import RtVerif.Base.Bytes
import RtVerif.Base.Verdict
import RtVerif.Gen.Facts
/-
  C09 — "Per-request state is private under concurrency; stage results are reused".

  (a) The memo state machine of `middleware.Context` (middleware/context.go): a request value is
      its context — an association list over the REGENERATED `contextKey` constants, newest entry
      first, exactly as `context.WithValue` chains and `Value` searches them. The six accessors
      `RouteInfo`, `ContentType`, `ResponseFormat`, `Authorize`, `BindAndValidate`, `ResetAuth` are
      functions `State → Ctx → (State, returned request, result, effects)`. `State` is what all
      shallow copies of one `*http.Request` share: the `MatchedRoute` objects handed out by the
      router so far (their two mutable fields, `Consumer` and `Authenticator`) and the unread part
      of the body. Effects are the calls that leave the accessor: router lookups, authenticators,
      the authorizer, the consumer (with the bytes it got from the body).

      The *stage functions* — router lookup, `runtime.ContentType`, `NegotiateContentType`, the
      registered authenticators and authorizer, `validateContentType`, the parameter binder — are
      the parameters `Env` of the model (they are the subjects of C01/C05, C06, C07, C02, C03). All
      theorems hold for every `Env`; the driver instantiates `Env` with what those functions return
      on the case's request when called on their own (fresh request, nothing memoised).

  (b) N requests against one server: immutable shared configuration + per-request local state;
      `runSched` lets any schedule interleave their steps.
-/
namespace RtVerif.C09
open RtVerif Bytes

/-! ## Context keys (regenerated from the `contextKey` const block and the accessors' bodies) -/

/-- the key each accessor writes its result under (`stdContext.WithValue(rCtx, <key>, …)`) -/
def kCT : Nat := Facts.c09WritesContentType.headD 0
def kFmt : Nat := Facts.c09WritesResponseFormat.headD 0
def kRoute : Nat := Facts.c09WritesRouteInfo.headD 0
def kBound : Nat := Facts.c09WritesBindAndValidate.headD 0
/-- `Authorize` stores the principal first, then the scopes on top of it -/
def kPrinc : Nat := Facts.c09WritesAuthorize.headD 0
def kScopes : Nat := (Facts.c09WritesAuthorize.drop 1).headD 0

/-! ## Shared configuration as seen by one request (the stage functions) -/

/-- one alternative of a route's security (a `RouteAuthenticator`): AND of its schemes -/
structure AuthAlt where
  anon : Bool
  schemes : List Bytes
  scopes : List Bytes          -- `AllScopes()`
deriving DecidableEq, Repr

/-- the immutable part of a `MatchedRoute`: the copy of the `routeEntry` plus `Params` -/
structure RouteCfg where
  opId : Bytes
  params : List Bytes
  produces : List Bytes
  alts : List AuthAlt
  hasAuthorizer : Bool
deriving DecidableEq, Repr

/-- what a registered `runtime.Authenticator` answers on this request -/
structure AuthnOut where
  applies : Bool
  princ : Option Bytes         -- `none` = nil principal
  err : Option Nat
deriving DecidableEq, Repr

/-- outcome of binding: the codes of the validation errors in order, the bound values -/
structure BindRes where
  codes : List Nat
  bound : Bytes
deriving DecidableEq, Repr

structure Env where
  lookup : Option RouteCfg                    -- `c.router.Lookup(method, path)`
  parseCT : Except Nat (Bytes × Bytes)        -- `runtime.ContentType(header)`: media type, charset
  neg : List Bytes → Bytes                    -- `NegotiateContentType(r, offers, "")`
  authn : Bytes → AuthnOut                    -- the authenticator registered for a scheme
  authz : Option Nat                          -- the authorizer's verdict (`none` = allowed)
  hasBody : Bool                              -- `runtime.HasBody(r)`
  ctAllowed : Bytes → Bool                    -- `validateContentType(route.Consumes, mt) == nil`
  consumerFor : Bytes → Option Bytes          -- `route.Consumers[mt]`
  bodyParam : Bool                            -- the operation has a body parameter
  bind : Nat → BindRes                        -- the parameter binder, given the unread body bytes

/-! ## Request values, per-request state, effects -/

inductive Val
  | ct (mt cs : Bytes)                        -- `*contentTypeValue`
  | fmt (f : Bytes)                           -- `string`
  | route (id : Nat) (rc : RouteCfg)          -- `*MatchedRoute`: object identity + immutable part
  | bound (codes : List Nat) (b : Bytes)      -- `*validation`
  | princ (p : Bytes)                         -- a non-nil principal
  | scopes (s : List Bytes)                   -- `[]string`
  | nil                                       -- nil (stored by `ResetAuth`, or a nil principal)
deriving DecidableEq, Repr

/-- the context of a request value: newest `WithValue` first -/
abbrev Ctx := List (Nat × Val)

/-- `ctx.Value(k)`: the newest entry under `k`; `.nil` when there is none -/
def value : Ctx → Nat → Val
  | [], _ => .nil
  | (k', v) :: r, k => if k' = k then v else value r k

/-- the mutable fields of a `MatchedRoute` object -/
structure RouteObj where
  consumer : Option Bytes := none             -- `route.Consumer` (identity of the consumer)
  authn : Option AuthAlt := none              -- `route.Authenticator`
deriving DecidableEq, Repr

/-- what every copy of the request shares -/
structure State where
  routes : List RouteObj                      -- MatchedRoute objects created by lookups, by identity
  bodyLeft : Nat                              -- bytes of the body not read yet
deriving DecidableEq, Repr

inductive Eff
  | lookup
  | authn (scheme : Bytes)
  | authz
  | consume (name : Bytes) (n : Nat)
deriving DecidableEq, Repr

/-- the request an accessor returns: the one it was given, a shallow copy with a longer context, or nil -/
inductive Ret
  | same
  | new (c : Ctx)
  | nil
deriving DecidableEq, Repr

/-- what the caller holds afterwards (`if rCtx != nil { r = rCtx }`) -/
def Ret.held (c : Ctx) : Ret → Ctx
  | .same => c
  | .new c' => c'
  | .nil => c

/-! ## The accessors -/

/-- `rCtx.Value(ctxMatchedRoute).(*MatchedRoute)` -/
def memoRoute (c : Ctx) : Option (Nat × RouteCfg) :=
  match value c kRoute with
  | .route i rc => some (i, rc)
  | _ => none

/-- `rCtx.Value(ctxContentType).(*contentTypeValue)` -/
def memoCT (c : Ctx) : Option (Bytes × Bytes) :=
  match value c kCT with
  | .ct m s => some (m, s)
  | _ => none

/-- `rCtx.Value(ctxResponseFormat).(string)` -/
def memoFmt (c : Ctx) : Option Bytes :=
  match value c kFmt with
  | .fmt f => some f
  | _ => none

/-- `rCtx.Value(ctxBoundParams).(*validation)` -/
def memoBound (c : Ctx) : Option BindRes :=
  match value c kBound with
  | .bound codes b => some ⟨codes, b⟩
  | _ => none

/-- `if v := rCtx.Value(ctxSecurityPrincipal); v != nil` — any non-nil value -/
def memoPrinc (c : Ctx) : Option Val :=
  if value c kPrinc = .nil then none else some (value c kPrinc)

structure RouteOut where
  st : State
  ret : Ret
  route : Option (Nat × RouteCfg)
  effs : List Eff

/-- `Context.RouteInfo`: a lookup hands out a NEW object (`&MatchedRoute{routeEntry: *entry, …}`) -/
def routeInfo (env : Env) (st : State) (c : Ctx) : RouteOut :=
  match memoRoute c with
  | some r => ⟨st, .same, some r, []⟩
  | none =>
    match env.lookup with
    | some rc =>
      ⟨{ st with routes := st.routes ++ [{}] }, .new ((kRoute, .route st.routes.length rc) :: c),
        some (st.routes.length, rc), [.lookup]⟩
    | none => ⟨st, .nil, none, [.lookup]⟩

/-- `Context.ContentType` -/
def contentType (env : Env) (c : Ctx) : Ret × Except Nat (Bytes × Bytes) :=
  match memoCT c with
  | some p => (.same, .ok p)
  | none =>
    match env.parseCT with
    | .ok p => (.new ((kCT, .ct p.1 p.2) :: c), .ok p)
    | .error e => (.nil, .error e)

/-- `Context.ResponseFormat`: only a non-empty format is stored -/
def responseFormat (env : Env) (c : Ctx) (offers : List Bytes) : Ret × Bytes :=
  match memoFmt c with
  | some f => (.same, f)
  | none =>
    if (env.neg offers).isEmpty then (.same, env.neg offers)
    else (.new ((kFmt, .fmt (env.neg offers)) :: c), env.neg offers)

/-- `Context.ResetAuth` -/
def resetAuth (c : Ctx) : Ctx := (kScopes, .nil) :: (kPrinc, .nil) :: c

/-! ### Authentication (router.go: `RouteAuthenticator(s).Authenticate`) -/

structure RaOut where
  applies : Bool
  princ : Option Bytes
  err : Option Nat
  effs : List Eff
  sets : Bool                  -- `route.Authenticator = ra` was executed

/-- `RouteAuthenticator.Authenticate` for a non-anonymous alternative: its schemes in order; the
principal of the LAST scheme is the result -/
def raAuth (env : Env) : List Bytes → Option Bytes → List Eff → RaOut
  | [], last, effs => ⟨true, last, none, effs, true⟩
  | s :: rest, _, effs =>
    if !(env.authn s).applies then ⟨false, none, none, effs ++ [.authn s], false⟩
    else match (env.authn s).err with
      | some e => ⟨true, none, some e, effs ++ [.authn s], true⟩
      | none => raAuth env rest (env.authn s).princ (effs ++ [.authn s])

structure RasOut where
  applies : Bool
  princ : Option Bytes
  err : Option Nat
  effs : List Eff
  cur : Option AuthAlt         -- `route.Authenticator` afterwards

def orElse (a b : Option Nat) : Option Nat := match a with | some x => some x | none => b

/-- `for _, ra := range ras` has one variable for all iterations when the module's language
version is below 1.22 (go.mod, regenerated): `route.Authenticator = ra` inside
`ra.Authenticate` then stores a pointer to THAT variable, and what it points to changes with
every further iteration. -/
def loopVarShared : Bool := decide (Facts.c09GoLangMinor < 22)

/-- `RouteAuthenticators.Authenticate`: alternatives in order; anonymous ones are set aside.
`cur` is what `route.Authenticator` shows, `aliased` whether it points at the loop variable. -/
def rasAuth (env : Env) : List AuthAlt → Option Nat → Option AuthAlt → Option AuthAlt → Bool → List Eff → RasOut
  | [], lastErr, anon, cur, _, effs =>
    match anon, lastErr with
    | some a, none => ⟨true, none, none, effs, some a⟩
    | _, _ => ⟨lastErr.isSome, none, lastErr, effs, cur⟩
  | ra :: rest, lastErr, anon, cur, aliased, effs =>
    let cur0 := if aliased && loopVarShared then some ra else cur
    if ra.anon then rasAuth env rest lastErr (some ra) cur0 aliased effs
    else
      let o := raAuth env ra.schemes none []
      let cur' := if o.sets then some ra else cur0
      if !o.applies || o.err.isSome || o.princ.isNone then
        rasAuth env rest (orElse o.err lastErr) anon cur' (aliased || o.sets) (effs ++ o.effs)
      else ⟨true, o.princ, none, effs ++ o.effs, cur'⟩

def allowsAnon (alts : List AuthAlt) : Bool := alts.any (·.anon)

inductive AuthRes
  | unsecured                  -- `(nil, nil, nil)`: nil route or no security requirement
  | ok (v : Val)               -- the principal (`.nil`: anonymous)
  | fail (code : Nat)
  | panic                      -- `route.Authenticator.AllScopes()` on a nil pointer
deriving DecidableEq, Repr

structure AuthOut where
  st : State
  ret : Ret
  res : AuthRes
  effs : List Eff

def setAuthn (st : State) (rid : Nat) (a : Option AuthAlt) : State :=
  { st with routes := st.routes.modify rid (fun o => { o with authn := a }) }

def setConsumer (st : State) (rid : Nat) (k : Bytes) : State :=
  { st with routes := st.routes.modify rid (fun o => { o with consumer := some k }) }

def princVal : Option Bytes → Val
  | some p => .princ p
  | none => .nil

/-- the end of `Authorize`: store principal and scopes -/
def authStore (st : State) (c : Ctx) (a : RasOut) (effs : List Eff) : AuthOut :=
  match a.cur with
  | none => ⟨st, .nil, .panic, effs⟩
  | some alt => ⟨st, .new ((kScopes, .scopes alt.scopes) :: (kPrinc, princVal a.princ) :: c), .ok (princVal a.princ), effs⟩

/-- `Authorize` when nothing is memoised: authenticate, authorize, store -/
def authorizeMiss (env : Env) (st : State) (c : Ctx) (rid : Nat) (rc : RouteCfg) : AuthOut :=
  let a := rasAuth env rc.alts none none ((st.routes[rid]?).bind (·.authn)) false []
  let st' := setAuthn st rid a.cur
  if !a.applies || a.err.isSome || (!allowsAnon rc.alts && a.princ.isNone) then
    ⟨st', .nil, .fail (a.err.getD 401), a.effs⟩
  else if rc.hasAuthorizer then
    match env.authz with
    | some code => ⟨st', .nil, .fail code, a.effs ++ [.authz]⟩
    | none => authStore st' c a (a.effs ++ [.authz])
  else authStore st' c a a.effs

/-- `Context.Authorize(request, route)` -/
def authorize (env : Env) (st : State) (c : Ctx) (route : Option (Nat × RouteCfg)) : AuthOut :=
  match route with
  | none => ⟨st, .nil, .unsecured, []⟩
  | some (rid, rc) =>
    if rc.alts.isEmpty then ⟨st, .nil, .unsecured, []⟩
    else match memoPrinc c with
      | some v => ⟨st, .same, .ok v, []⟩
      | none => authorizeMiss env st c rid rc

/-! ### Binding (validation.go: `validateRequest`) -/

structure VOut where
  st : State
  c : Ctx                      -- `v.request`'s context (never leaves `validateRequest`)
  errs : List Nat

/-- `validation.contentType()` -/
def vContentType (env : Env) (st : State) (c : Ctx) (rid : Nat) : VOut :=
  if env.hasBody then
    match contentType env c with
    | (_, .error e) => ⟨st, c, [e]⟩
    | (ret, .ok p) =>
      let errs := if env.ctAllowed p.1 then [] else [415]
      if !p.1.isEmpty && ((st.routes[rid]?).bind (·.consumer)).isNone then
        match env.consumerFor p.1 with
        | none => ⟨st, ret.held c, errs ++ [500]⟩
        | some k => ⟨setConsumer st rid k, ret.held c, errs⟩
      else ⟨st, ret.held c, errs⟩
  else ⟨st, c, []⟩

/-- `validation.responseFormat()`: an error only when the route declares what it produces -/
def vResponseFormat (env : Env) (c : Ctx) (rc : RouteCfg) : List Nat :=
  if (responseFormat env c rc.produces).2.isEmpty && !rc.produces.isEmpty then [406] else []

inductive BindOut
  | done (r : BindRes)
  | panic                      -- nil route, or a nil consumer asked to consume
deriving DecidableEq, Repr

structure POut where
  st : State
  res : BindOut
  effs : List Eff

/-- `validation.parameters()`: the binder; a body parameter reads the body through `route.Consumer` -/
def vParameters (env : Env) (st : State) (rid : Nat) : POut :=
  if env.bodyParam && env.hasBody then
    match (st.routes[rid]?).bind (·.consumer) with
    | none => ⟨st, .panic, []⟩
    | some k => ⟨{ st with bodyLeft := 0 }, .done (env.bind st.bodyLeft), [.consume k st.bodyLeft]⟩
  else ⟨st, .done (env.bind st.bodyLeft), []⟩

/-- `validateRequest` -/
def validateRequest (env : Env) (st : State) (c : Ctx) (rid : Nat) (rc : RouteCfg) : POut :=
  let v := vContentType env st c rid
  if !v.errs.isEmpty then ⟨v.st, .done ⟨v.errs, []⟩, []⟩
  else if !(vResponseFormat env v.c rc).isEmpty then ⟨v.st, .done ⟨vResponseFormat env v.c rc, []⟩, []⟩
  else vParameters env v.st rid

structure BindOutS where
  st : State
  ret : Ret
  res : BindOut
  effs : List Eff

/-- `Context.BindAndValidate(request, matched)`; the result is stored on the context of the request
it was GIVEN (not on `v.request`) -/
def bindAndValidate (env : Env) (st : State) (c : Ctx) (route : Option (Nat × RouteCfg)) : BindOutS :=
  match memoBound c with
  | some r => ⟨st, .same, .done r, []⟩
  | none =>
    match route with
    | none => ⟨st, .nil, .panic, []⟩
    | some (rid, rc) =>
      match validateRequest env st c rid rc with
      | ⟨st', .panic, effs⟩ => ⟨st', .nil, .panic, effs⟩
      | ⟨st', .done r, effs⟩ => ⟨st', .new ((kBound, .bound r.codes r.bound) :: c), .done r, effs⟩

/-! ## Caller-level operations and what is observed of them

`authorize` and `bindAndValidate` are applied the way the code's callers apply them
(security.go, context.go): `route, rCtx, _ := RouteInfo(r); if rCtx != nil { r = rCtx }` first. -/

inductive Op
  | routeInfo
  | contentType
  | responseFormat (offers : List Bytes)
  | authorize
  | bindAndValidate
  | resetAuth
deriving DecidableEq, Repr

inductive RetK | same | new | nil | na
deriving DecidableEq, Repr

def Ret.kind : Ret → RetK
  | .same => .same
  | .new _ => .new
  | .nil => .nil

/-- the route part of an observation -/
inductive Res1
  | na
  | notFound
  | found (rid : Nat) (op : Bytes) (params : List Bytes)
deriving DecidableEq, Repr

/-- the stage's own result -/
inductive Res2
  | na
  | ct (mt cs : Bytes)
  | ctErr (code : Nat)
  | fmt (f : Bytes)
  | unsecured
  | princ (p : Bytes)
  | anon                        -- authenticated, nil principal
  | authErr (code : Nat)
  | bound (codes : List Nat) (b : Bytes)
  | skipped                     -- no route: the callers never get here
  | panic
deriving DecidableEq, Repr

/-- what the exported getters and the held route show afterwards -/
structure View where
  rid : Option Nat              -- `MatchedRouteFrom`
  princ : Option Bytes          -- `SecurityPrincipalFrom`
  scopes : List Bytes           -- `SecurityScopesFrom`
  consumer : Option Bytes       -- `route.Consumer`
  authn : Option (List Bytes)   -- `route.Authenticator.Schemes`
deriving DecidableEq, Repr

structure Obs where
  ret1 : RetK
  res1 : Res1
  ret2 : RetK
  res2 : Res2
  effs : List Eff
  body : Nat                    -- bytes read from the request body during the operation
  view : View
deriving DecidableEq, Repr

def res1Of : Option (Nat × RouteCfg) → Res1
  | some (i, rc) => .found i rc.opId rc.params
  | none => .notFound

def res2OfAuth : AuthRes → Res2
  | .unsecured => .unsecured
  | .ok (.princ p) => .princ p
  | .ok .nil => .anon
  | .ok _ => .panic            -- a value of another type under the principal key: cannot be rendered
  | .fail c => .authErr c
  | .panic => .panic

def res2OfBind : BindOut → Res2
  | .done r => .bound r.codes r.bound
  | .panic => .panic

def res2OfCT : Except Nat (Bytes × Bytes) → Res2
  | .ok p => .ct p.1 p.2
  | .error e => .ctErr e

def bodyRead : List Eff → Nat
  | [] => 0
  | .consume _ n :: r => n + bodyRead r
  | _ :: r => bodyRead r

def viewOf (st : State) (c : Ctx) : View :=
  { rid := (memoRoute c).map (·.1),
    princ := (match value c kPrinc with | .princ p => some p | _ => none),
    scopes := (match value c kScopes with | .scopes s => s | _ => []),
    consumer := ((memoRoute c).bind fun r => st.routes[r.1]?).bind (·.consumer),
    authn := (((memoRoute c).bind fun r => st.routes[r.1]?).bind (·.authn)).map (·.schemes) }

structure StepOut where
  st : State
  held : Ctx
  ret1 : RetK
  res1 : Res1
  ret2 : RetK
  res2 : Res2
  effs : List Eff

def stepCore (env : Env) (st : State) (c : Ctx) : Op → StepOut
  | .routeInfo =>
    let r := routeInfo env st c
    ⟨r.st, r.ret.held c, r.ret.kind, res1Of r.route, .na, .na, r.effs⟩
  | .contentType =>
    let r := contentType env c
    ⟨st, r.1.held c, .na, .na, r.1.kind, res2OfCT r.2, []⟩
  | .responseFormat offers =>
    let r := responseFormat env c offers
    ⟨st, r.1.held c, .na, .na, r.1.kind, .fmt r.2, []⟩
  | .resetAuth => ⟨st, resetAuth c, .na, .na, .new, .na, []⟩
  | .authorize =>
    let r := routeInfo env st c
    let a := authorize env r.st (r.ret.held c) r.route
    ⟨a.st, a.ret.held (r.ret.held c), r.ret.kind, res1Of r.route, a.ret.kind, res2OfAuth a.res, r.effs ++ a.effs⟩
  | .bindAndValidate =>
    let r := routeInfo env st c
    match r.route with
    | none => ⟨r.st, r.ret.held c, r.ret.kind, res1Of r.route, .na, .skipped, r.effs⟩
    | some rt =>
      let b := bindAndValidate env r.st (r.ret.held c) (some rt)
      ⟨b.st, b.ret.held (r.ret.held c), r.ret.kind, res1Of r.route, b.ret.kind, res2OfBind b.res, r.effs ++ b.effs⟩

def StepOut.obs (o : StepOut) : Obs :=
  ⟨o.ret1, o.res1, o.ret2, o.res2, o.effs, bodyRead o.effs, viewOf o.st o.held⟩

/-- one operation on the request value `c`: new shared state, the value held afterwards, observation -/
def stepOp (env : Env) (st : State) (c : Ctx) (op : Op) : State × Ctx × Obs :=
  ((stepCore env st c op).st, (stepCore env st c op).held, (stepCore env st c op).obs)

/-- a caller threading the returned request through a sequence of operations -/
def runThread (env : Env) : List Op → State → Ctx → List Obs
  | [], _, _ => []
  | op :: ops, st, c =>
    (stepOp env st c op).2.2 :: runThread env ops (stepOp env st c op).1 (stepOp env st c op).2.1

/-- the state and the held request value after such a sequence -/
def endThread (env : Env) : List Op → State → Ctx → State × Ctx
  | [], st, c => (st, c)
  | op :: ops, st, c => endThread env ops (stepOp env st c op).1 (stepOp env st c op).2.1

/-! ### Programs over ALL request values produced so far (stale values included)

Value 0 is the request as received; instruction `n` is applied to the value `back` steps before the
newest one and yields value `n+1` (what its caller holds afterwards). -/

structure Instr where
  op : Op
  back : Nat
deriving DecidableEq, Repr

def srcIdx (len back : Nat) : Nat := (len - 1) - min back (len - 1)

def runProg (env : Env) : List Instr → State → List Ctx → List Obs
  | [], _, _ => []
  | i :: is, st, vals =>
    let c := vals.getD (srcIdx vals.length i.back) []
    (stepOp env st c i.op).2.2 :: runProg env is (stepOp env st c i.op).1 (vals ++ [(stepOp env st c i.op).2.1])

/-- the shared state and all request values after a program -/
def endProg (env : Env) : List Instr → State → List Ctx → State × List Ctx
  | [], st, vals => (st, vals)
  | i :: is, st, vals =>
    let c := vals.getD (srcIdx vals.length i.back) []
    endProg env is (stepOp env st c i.op).1 (vals ++ [(stepOp env st c i.op).2.1])

/-! ## Spec (from the property text)

"Within one request, once a stage has produced a result it is reused by every later asker that
holds the request value the stage returned: the matched route, the parsed content type, a
successful format negotiation, a successful authentication that yielded a principal, and the
outcome of binding (valid or not) are not recomputed, so the body is consumed at most once and an
accepting authenticator is not consulted again."

Reading. Every request value carries the *promises* made to whoever holds it: for each stage, the
result a stage produced on the way to this value (a value handed back by a stage, or derived from
such a value by further accessor calls, still "holds the request value the stage returned").
`ResetAuth` withdraws the authentication promise, nothing else. An operation applied to a value
must keep the promises of that value: same result, handed back with the very request it was given
(nothing is stored again — the observable face of "not recomputed" for the stages that have no
other effect), and none of the stage's effects — no router lookup for the route, no
authenticator/authorizer/consumer call for the others; a value on whose way the body was consumed
sees no further consumption. Results outside the list (no route, header
parse error, failed negotiation, failed or anonymous authentication) promise nothing.

That is the second sentence of the property. Its first sentence — the results "are those derived
from that request alone" — constrains, within one request, every result NOT covered by a promise:
see `fresh` / `derivedAlone` below. `specGo` judges both on every instruction of a trace. -/

structure Promise where
  route : Option Res1 := none
  ct : Option Res2 := none
  fmt : Option Res2 := none
  auth : Option Res2 := none
  bound : Option Res2 := none
  consumed : Bool := false
deriving DecidableEq, Repr

def isLookup : Eff → Bool
  | .lookup => true
  | _ => false

def isConsume : Eff → Bool
  | .consume _ _ => true
  | _ => false

/-- a call to an authenticator or to the authorizer -/
def isAuthEff : Eff → Bool
  | .authn _ => true
  | .authz => true
  | _ => false

/-- results the property lists as reused -/
def memoisable1 : Res1 → Bool
  | .found _ _ _ => true
  | _ => false

def memoisable2 : Res2 → Bool
  | .ct _ _ => true
  | .fmt f => !f.isEmpty
  | .princ _ => true
  | .bound _ _ => true
  | _ => false

def hasRoutePart : Op → Bool
  | .routeInfo | .authorize | .bindAndValidate => true
  | _ => false

/-- the promise an operation has to honour -/
def promised (p : Promise) : Op → Option Res2
  | .contentType => p.ct
  | .responseFormat _ => p.fmt
  | .authorize => p.auth
  | .bindAndValidate => p.bound
  | _ => none

def keeps (p : Promise) (op : Op) (o : Obs) : Bool :=
  (match p.route with
   | some r => !hasRoutePart op || (o.res1 == r && o.ret1 == .same && o.effs.all (fun e => !isLookup e))
   | none => true) &&
  (match promised p op with
   | some r => o.res2 == r && o.ret2 == .same && o.effs.all isLookup
   | none => true) &&
  (!p.consumed || o.effs.all (fun e => !isConsume e)) &&
  decide ((o.effs.filter isConsume).length ≤ 1)

def setStage (p : Promise) (op : Op) (r : Res2) : Promise :=
  match op with
  | .contentType => { p with ct := some r }
  | .responseFormat _ => { p with fmt := some r }
  | .authorize => { p with auth := some r }
  | .bindAndValidate => { p with bound := some r }
  | _ => p

/-- a found route is promised to the holder of the returned value -/
def afterRoute (p : Promise) (r1 : Res1) : Promise :=
  if memoisable1 r1 then { p with route := some r1 } else p

/-- so is a result of the stage, when it is of a kind the property lists -/
def afterStage (p : Promise) (op : Op) (r2 : Res2) : Promise :=
  if memoisable2 r2 then setStage p op r2 else p

/-- `ResetAuth` withdraws the authentication promise — nothing else -/
def afterReset (p : Promise) (op : Op) : Promise :=
  if op = .resetAuth then { p with auth := none } else p

/-- the promises of the value held after the operation -/
def after (p : Promise) (op : Op) (o : Obs) : Promise :=
  { afterReset (afterStage (afterRoute p o.res1) op o.res2) op with
    consumed := p.consumed || o.effs.any isConsume }

/-! ### "… are those derived from that request alone"

The first sentence of the property: each request's matched route, path parameters, selected consumer
and producer, negotiated format, principal, scopes and bound values "are those derived from that
request alone". Reading, within one request's accessor sequence: whenever a stage is actually
EVALUATED — the value it is asked on holds no promise for it — its result is the one a first
evaluation on the request as received yields. Earlier calls of the same or of other accessors
(failed authentications, `ResetAuth`, calls on other request values, failed negotiations, a
`route.Authenticator` or `route.Consumer` left behind on the shared route object) leave no trace in
it, with exactly the exceptions the property names itself:

* a stage result the value holds a promise for is reused — so binding, which asks for the response
  format, gets the promised format (negotiated from the offers of whoever asked first) and not a
  fresh negotiation over the route's own media types;
* "the body is consumed at most once": a consumed body stays consumed. A binding that is evaluated
  after the body was read (possible only on a value that does not hold the first binding's result)
  is the binding of the request with what is LEFT of its body — nothing. It is not the first
  outcome (that one is promised to the holders of the value the first binding returned, to nobody
  else), and the body is not replayed.

The reference below is written over the stage functions `Env` only: no shared state, no context. -/

/-- the request against ONE alternative (AND of its schemes, in order): a scheme that does not
apply makes the alternative not apply; the first error ends it; the principal is the last scheme's -/
def refAlt (env : Env) : List Bytes → Option Bytes → Bool × Option Bytes × Option Nat
  | [], last => (true, last, none)
  | s :: rest, _ =>
    if !(env.authn s).applies then (false, none, none)
    else match (env.authn s).err with
      | some e => (true, none, some e)
      | none => refAlt env rest (env.authn s).princ

/-- the request against the alternatives (OR, in order): the first credentialed alternative that
yields a principal wins, with ITS scopes; otherwise anonymous access (the scopes of the anonymous
alternative named last) when some alternative allows it and no authenticator reported an error;
otherwise the error reported last, 401 when there is none. -/
def refAlts (env : Env) : List AuthAlt → Option Nat → Option AuthAlt → Res2 × List Bytes
  | [], lastErr, anon =>
    match anon, lastErr with
    | some a, none => (.anon, a.scopes)
    | _, _ => (.authErr (lastErr.getD 401), [])
  | ra :: rest, lastErr, anon =>
    if ra.anon then refAlts env rest lastErr (some ra)
    else match refAlt env ra.schemes none with
      | (true, some u, none) => (.princ u, ra.scopes)
      | (_, _, e) => refAlts env rest (orElse e lastErr) anon

def isAuthErr : Res2 → Bool
  | .authErr _ => true
  | _ => false

/-- authentication, then the authorizer (if one is registered): principal/anonymous with the scopes,
or the error code -/
def refAuthorize (env : Env) (rc : RouteCfg) : Res2 × List Bytes :=
  if isAuthErr (refAlts env rc.alts none none).1 then ((refAlts env rc.alts none none).1, [])
  else if rc.hasAuthorizer then
    match env.authz with
    | some code => (.authErr code, [])
    | none => refAlts env rc.alts none none
  else refAlts env rc.alts none none

/-- the consumer the request's content type selects among the route's consumers -/
def refConsumer (env : Env) : Option Bytes :=
  match env.parseCT with
  | .ok p => if p.1.isEmpty then none else env.consumerFor p.1
  | .error _ => none

/-- content-type validation of a request with a body: the header's parse error; else 415 when the
route does not consume the media type, 500 when no consumer is registered for it -/
def refCTErrs (env : Env) : List Nat :=
  if env.hasBody then
    match env.parseCT with
    | .error e => [e]
    | .ok p => (if env.ctAllowed p.1 then [] else [415]) ++
        (if !p.1.isEmpty && (env.consumerFor p.1).isNone then [500] else [])
  else []

/-- the format binding sees: the promised one, else the negotiation over what the route produces -/
def refFmt (env : Env) (p : Promise) (rc : RouteCfg) : Bytes :=
  match p.fmt with
  | some (.fmt f) => f
  | _ => env.neg rc.produces

/-- binding evaluated on the request with `left` bytes of body unread. `none`: the reference is
silent — a body parameter has to be read and the content type selects no consumer although it
passed validation (an empty media type; `runtime.ContentType` never returns one). -/
def refBind (env : Env) (p : Promise) (left : Nat) (rc : RouteCfg) : Option Res2 :=
  if !(refCTErrs env).isEmpty then some (.bound (refCTErrs env) [])
  else if (refFmt env p rc).isEmpty && !rc.produces.isEmpty then some (.bound [406] [])
  else if env.bodyParam && env.hasBody && (refConsumer env).isNone then none
  else some (.bound (env.bind left).codes (env.bind left).bound)

/-- **the reference**: what an accessor yields when its stage is evaluated on the request as
received (`left`: the bytes of its body nobody has read yet; `p`: the promises of the value asked on,
of which only the format matters, to binding) -/
def fresh (env : Env) (p : Promise) (left : Nat) : Op → Option Res2
  | .routeInfo => some .na
  | .resetAuth => some .na
  | .contentType => some (res2OfCT env.parseCT)
  | .responseFormat offers => some (.fmt (env.neg offers))
  | .authorize =>
    match env.lookup with
    | none => some .unsecured
    | some rc => if rc.alts.isEmpty then some .unsecured else some (refAuthorize env rc).1
  | .bindAndValidate =>
    match env.lookup with
    | none => some .skipped
    | some rc => refBind env p left rc

/-- the route the router finds for this request: operation and path parameters (the identity of
the `MatchedRoute` object is not a property of the request) -/
def routeAlone (env : Env) (r : Res1) : Bool :=
  match env.lookup, r with
  | none, .notFound => true
  | some rc, .found _ op ps => op == rc.opId && ps == rc.params
  | _, _ => false

def authenticated : Res2 → Bool
  | .princ _ => true
  | .anon => true
  | _ => false

/-- the scopes shown after an evaluated `Authorize` that let the request in -/
def scopesAlone (env : Env) (op : Op) (o : Obs) : Bool :=
  match op, env.lookup with
  | .authorize, some rc => !authenticated o.res2 || o.view.scopes == (refAuthorize env rc).2
  | _, _ => true

/-- the clause: whatever of the operation's results is not covered by a promise is the reference's -/
def derivedAlone (env : Env) (p : Promise) (left : Nat) (op : Op) (o : Obs) : Bool :=
  (p.route.isSome || !hasRoutePart op || routeAlone env o.res1) &&
  ((promised p op).isSome ||
    ((match fresh env p left op with
      | some r => o.res2 == r
      | none => true) && scopesAlone env op o))

/-- a consumed body stays consumed -/
def leftAfter (left : Nat) (o : Obs) : Nat := bif o.effs.any isConsume then 0 else left

/-- the property judged on a trace (the model's or the real code's) of the request whose stage
functions are `env`; `left` = bytes of its body not consumed so far -/
def specGo (env : Env) : List Instr → List Obs → List Promise → Nat → Bool
  | [], [], _, _ => true
  | i :: is, o :: os, ps, left =>
    let p := ps.getD (srcIdx ps.length i.back) {}
    keeps p i.op o && derivedAlone env p left i.op o &&
      specGo env is os (ps ++ [after p i.op o]) (leftAfter left o)
  | _, _, _, _ => false

def specOk (env : Env) (bodyLen : Nat) (prog : List Instr) (trace : List Obs) : Bool :=
  specGo env prog trace [{}] bodyLen

/-- two operations ask the same stage -/
def sameStage : Op → Op → Bool
  | .contentType, .contentType => true
  | .responseFormat _, .responseFormat _ => true
  | .authorize, .authorize => true
  | .bindAndValidate, .bindAndValidate => true
  | _, _ => false

/-- consumer calls in a trace -/
def consumes : List Obs → Nat
  | [] => 0
  | o :: r => (o.effs.filter isConsume).length + consumes r

/-! ## (b) N requests, one server -/

/-- per-request local state: everything a step of the request reads or writes besides the
immutable configuration -/
structure Local where
  st : State
  held : Ctx
  todo : List Op
  trace : List Obs

def Local.fresh (bodyLen : Nat) (prog : List Op) : Local := ⟨⟨[], bodyLen⟩, [], prog, []⟩

/-- one step of a request: its next operation -/
def lstep (env : Env) (l : Local) : Local :=
  match l.todo with
  | [] => l
  | op :: rest =>
    ⟨(stepOp env l.st l.held op).1, (stepOp env l.st l.held op).2.1, rest, l.trace ++ [(stepOp env l.st l.held op).2.2]⟩

def upd {α : Type} (f : Nat → α) (i : Nat) (a : α) : Nat → α := fun j => if j = i then a else f j

/-- The server: `envOf` is the immutable shared configuration applied to a request's own immutable
data (method, URL, headers, body bytes) — the spec, the route table with its shared entries, the
registered consumers, producers, authenticators. A step of request `i` reads `envOf (reqs i)` and
`locals i`, and writes `locals i`. -/
def gstep {ρ : Type} (envOf : ρ → Env) (reqs : Nat → ρ) (locals : Nat → Local) (i : Nat) : Nat → Local :=
  upd locals i (lstep (envOf (reqs i)) (locals i))

/-- any interleaving: each entry of the schedule lets that request take one step -/
def runSched {ρ : Type} (envOf : ρ → Env) (reqs : Nat → ρ) : List Nat → (Nat → Local) → (Nat → Local)
  | [], ls => ls
  | i :: rest, ls => runSched envOf reqs rest (gstep envOf reqs ls i)

def iter {α : Type} (f : α → α) : Nat → α → α
  | 0, a => a
  | n + 1, a => iter f n (f a)

/-- the operations one pass through the handler chain applies (router → security → executor →
operation handler → `Respond`), as a program of the memo machine -/
def serveProg (offers : List Bytes) : List Op :=
  [.routeInfo, .authorize, .routeInfo, .bindAndValidate, .responseFormat offers]

/-! ## Driver entry -/

def decNat (s : String) : Option Nat := s.toNat?

def decOpt (s : String) : Option (Option Bytes) :=
  if s == "!" then some none else (decField s).map some

def decCodes (s : String) : Option (List Nat) :=
  if s == "." then some [] else (s.splitOn ",").mapM String.toNat?

def decOptList (s : String) : Option (Option (List Bytes)) :=
  if s == "!" then some none else (decList s).map some

def decRet (s : String) : Option RetK :=
  if s == "S" then some .same else if s == "N" then some .new else if s == "Z" then some .nil
  else if s == "-" then some .na else none

def decRes1 (s : String) : Option Res1 :=
  if s == "-" then some .na else if s == "!" then some .notFound
  else match s.splitOn "/" with
    | ["F", rid, op, ps] => do
      let rid ← decNat rid
      let op ← decField op
      let ps ← decList ps
      pure (.found rid op ps)
    | _ => none

def decRes2 (s : String) : Option Res2 :=
  if s == "-" then some .na else if s == "U" then some .unsecured else if s == "Q" then some .anon
  else if s == "0" then some .skipped else if s == "!" then some .panic
  else match s.splitOn "/" with
    | ["K", m, c] => do pure (.ct (← decField m) (← decField c))
    | ["E", c] => do pure (.ctErr (← decNat c))
    | ["M", f] => do pure (.fmt (← decField f))
    | ["P", p] => do pure (.princ (← decField p))
    | ["X", c] => do pure (.authErr (← decNat c))
    | ["B", cs, b] => do pure (.bound (← decCodes cs) (← decField b))
    | _ => none

def decEff (s : String) : Option Eff :=
  if s == "L" then some .lookup else if s == "Z" then some .authz
  else match s.toList with
    | 'A' :: r => (decField (String.ofList r)).map .authn
    | 'C' :: r =>
      match (String.ofList r).splitOn "." with
      | [nm, n] => do pure (.consume (← decField nm) (← decNat n))
      | _ => none
    | _ => none

def decEffs (s : String) : Option (List Eff) :=
  if s == "." then some [] else (s.splitOn ",").mapM decEff

def decView (s : String) : Option View :=
  match s.splitOn "/" with
  | [rid, p, sc, k, a] => do
    let rid ← if rid == "!" then some none else (decNat rid).map some
    pure ⟨rid, ← decOpt p, ← decList sc, ← decOpt k, ← decOptList a⟩
  | _ => none

def decObs (s : String) : Option Obs :=
  match s.splitOn ";" with
  | [r1, s1, r2, s2, ef, b, v] => do
    pure ⟨← decRet r1, ← decRes1 s1, ← decRet r2, ← decRes2 s2, ← decEffs ef, ← decNat b, ← decView v⟩
  | _ => none

def encOpt : Option Bytes → String
  | none => "!"
  | some b => encField b

def encCodes (l : List Nat) : String := if l.isEmpty then "." else ",".intercalate (l.map toString)

def encRet : RetK → String
  | .same => "S" | .new => "N" | .nil => "Z" | .na => "-"

def encRes1 : Res1 → String
  | .na => "-" | .notFound => "!"
  | .found rid op ps => s!"F/{rid}/{encField op}/{encList ps}"

def encRes2 : Res2 → String
  | .na => "-" | .unsecured => "U" | .anon => "Q" | .skipped => "0" | .panic => "!"
  | .ct m c => s!"K/{encField m}/{encField c}"
  | .ctErr c => s!"E/{c}"
  | .fmt f => s!"M/{encField f}"
  | .princ p => s!"P/{encField p}"
  | .authErr c => s!"X/{c}"
  | .bound cs b => s!"B/{encCodes cs}/{encField b}"

def encEff : Eff → String
  | .lookup => "L" | .authz => "Z"
  | .authn s => "A" ++ encField s
  | .consume nm n => s!"C{encField nm}.{n}"

def encObs (o : Obs) : String :=
  let effs := if o.effs.isEmpty then "." else ",".intercalate (o.effs.map encEff)
  let v := o.view
  let rid := match v.rid with | none => "!" | some i => toString i
  let au := match v.authn with | none => "!" | some l => encList l
  s!"{encRet o.ret1};{encRes1 o.res1};{encRet o.ret2};{encRes2 o.res2};{effs};{o.body};{rid}/{encOpt v.princ}/{encList v.scopes}/{encOpt v.consumer}/{au}"

/-- `_` = none, else `|`-separated lists -/
def decLists (s : String) : Option (List (List Bytes)) :=
  if s == "_" then some [] else (s.splitOn "|").mapM decList

def decAlt (s : String) : Option AuthAlt :=
  match s.splitOn "/" with
  | [k, sch, sco] => do pure ⟨k == "A", ← decList sch, ← decList sco⟩
  | _ => none

def decAlts (s : String) : Option (List AuthAlt) :=
  if s == "_" then some [] else (s.splitOn "|").mapM decAlt

def decCT (s : String) : Option (Except Nat (Bytes × Bytes)) :=
  match s.splitOn "/" with
  | ["K", m, c] => do pure (.ok (← decField m, ← decField c))
  | ["E", c] => do pure (.error (← decNat c))
  | _ => none

/-- `scheme=outcome` with outcome `n` (does not apply), `z` (applies, nil principal), `p<name>`,
`e<code>` -/
def decAuthnItem (b : Bytes) : Option (Bytes × AuthnOut) :=
  let k := b.takeWhile (· != 61)
  match (b.dropWhile (· != 61)).drop 1 with
  | 110 :: [] => some (k, ⟨false, none, none⟩)
  | 122 :: [] => some (k, ⟨true, none, none⟩)
  | 112 :: p => some (k, ⟨true, some p, none⟩)
  | 101 :: d => (String.toNat? (String.ofList (d.map fun x => Char.ofNat x.toNat))).map fun c => (k, ⟨true, none, some c⟩)
  | _ => none

def decBind (s : String) : Option (BindRes × Bool) :=
  match s.splitOn "/" with
  | [cs, b, k] => do pure (⟨← decCodes cs, ← decField b⟩, k == "1")
  | _ => none

def decInstr (table : List (List Bytes)) (b : Bytes) : Option Instr :=
  match b with
  | [o, a, k] =>
    (match o.toNat with
     | 1 => some Op.routeInfo | 2 => some .contentType
     | 3 => some (.responseFormat (table.getD a.toNat []))
     | 4 => some .authorize | 5 => some .bindAndValidate | 6 => some .resetAuth
     | _ => none).map fun op => ⟨op, k.toNat⟩
  | _ => none

def assocD {β : Type} (l : List (List Bytes × β)) (d : β) (k : List Bytes) : β :=
  match l.find? (fun e => e.1 == k) with
  | some e => e.2
  | none => d

def opLetter : Op → Char
  | .routeInfo => 'r' | .contentType => 'c' | .responseFormat _ => 'f' | .authorize => 'a'
  | .bindAndValidate => 'b' | .resetAuth => 'x'

/-- which stages answered from the memo in the model's trace -/
def hitLetters (prog : List Instr) (trace : List Obs) : String :=
  let hits := (prog.zip trace).filterMap fun (i, o) =>
    match i.op with
    | .routeInfo => if o.ret1 == .same then some 'r' else none
    | .resetAuth => none
    | op => if o.ret2 == .same && memoisable2 o.res2 then some (opLetter op) else none
  String.ofList (['r', 'c', 'f', 'a', 'b'].filter hits.contains)

/-- the `Authorize` calls that consulted an authenticator, in order, with their results -/
def evaluatedAuths (prog : List Instr) (trace : List Obs) : List Res2 :=
  (prog.zip trace).filterMap fun (i, o) =>
    if i.op == .authorize && o.effs.any isAuthEff then some o.res2 else none

def isPrinc : Res2 → Bool
  | .princ _ => true
  | _ => false

def tagA (prog : List Instr) (trace : List Obs) : String :=
  let h := hitLetters prog trace
  let stale := prog.any (·.back != 0)
  let earlier := (evaluatedAuths prog trace).dropLast
  -- one qualifier, the most specific one that applies
  let q :=
    if (trace.filter (·.effs.any isConsume)).length > 1 then "+reconsume"
    else if earlier.any isAuthErr then "+refail"      -- authenticated again after a failure
    else if earlier.any isPrinc then "+reauth"        -- … after a success (ResetAuth or a stale value between)
    else if stale then "+stale"
    else if trace.any (·.res2 == .anon) then "+anon"
    else if prog.any (·.op == .resetAuth) then "+reset"
    else if trace.any (fun o => match o.res2 with | .authErr _ | .ctErr _ => true | .fmt f => f.isEmpty | _ => false) then "+fail"
    else ""
  if h.isEmpty && !stale && earlier.isEmpty then "~A:nohit" else s!"A:hit={if h.isEmpty then "-" else h}{q}"

def runA (ins outs : List String) : Verdict :=
  match ins, outs with
  | [_variant, _meth, _path, _query, _cts, _acc, _creds, _authz, body, offers, prog],
    lk :: params :: produces :: alts :: authorizer :: ct :: neg :: authn :: authz :: hasBody :: ctAllowed ::
      consumerFor :: bindFull :: bindDrained :: obs =>
    match decField body, decLists offers, decOpt lk, decList params, decList produces, decAlts alts, decCT ct,
          decLists neg, decList authn, decOpt consumerFor, decBind bindFull, decBind bindDrained with
    | some body, some table, some lk, some params, some produces, some alts, some ct,
      some neg, some authn, some consumerFor, some bindFull, some bindDrained =>
      match (prog.splitOn ",").mapM (fun s => (decField s).bind (decInstr table)), authn.mapM decAuthnItem,
            obs.mapM decObs with
      | some prog, some authn, some realObs =>
        let negs := (neg.map fun l => l.headD [])
        let negTab := (table ++ [produces]).zip negs
        let env : Env :=
          { lookup := lk.map fun op => ⟨op, params, produces, alts, authorizer == "1"⟩,
            parseCT := ct,
            neg := assocD negTab [],
            authn := fun s => match authn.find? (fun e => e.1 == s) with
              | some e => e.2 | none => ⟨false, none, none⟩,
            authz := if authz == "-" then none else authz.toNat?,
            hasBody := hasBody == "1",
            ctAllowed := fun _ => ctAllowed == "1",
            consumerFor := fun _ => consumerFor,
            bodyParam := bindFull.2,
            bind := fun n => if n == body.length then bindFull.1 else bindDrained.1 }
        let m := runProg env prog ⟨[], body.length⟩ [[]]
        { agree := m == realObs, specOk := specOk env body.length prog realObs, tag := tagA prog m,
          model := " ".intercalate (m.map encObs) }
      | _, _, _ => .bad "A program/authn/observations"
    | _, _, _, _, _, _, _, _, _, _, _, _ => .bad "A fields"
  | _, _ => .bad "A arity"

/-- Spec of the concurrent part, judged on what stream R observes: "each request's matched route,
path parameters, selected consumer and producer, negotiated format, principal, scopes and bound
values are those derived from that request alone" — what request `i` shows when served among the
others (`conc`) is what it shows when served alone (`solo`), and every correlation token that turns
up in anything derived from it (`echo`) is its own. -/
def specR (toks solo conc : List Bytes) (echo : List (List Bytes)) : Bool :=
  conc == solo && ((echo.zip toks).all fun (seen, t) => seen.all (· == t)) &&
  solo.length == toks.length && echo.length == toks.length

/-- stream R. The model's prediction for the concurrent observations is the sequential ones: that
is `concurrent_trace_eq_sequential` (Props), instantiated with the handler chain `serveProg`. -/
def runR (ins outs : List String) : Verdict :=
  match ins, outs with
  | [n, _procs, _descs, toks], [solo, conc, echo] =>
    match decNat n, decList toks, decList solo, decList conc, decLists echo with
    | some n, some toks, some solo, some conc, some echo =>
      { agree := conc == solo && toks.length == n, specOk := specR toks solo conc echo && toks.length == n,
        tag := "R:n=" ++ (if n ≤ 4 then "2-4" else if n ≤ 16 then "5-16" else "17-64"),
        model := s!"{n} requests: concurrent observations = solo observations" }
    | _, _, _, _, _ => .bad "R fields"
  | _, _ => .bad "R arity"

def run (ins outs : List String) : Verdict :=
  match ins, outs with
  | _, ["PANIC", msg] => { agree := false, specOk := false, tag := "panic", model := "no panic expected; impl: " ++ msg }
  | _, ["INVALID"] => { agree := true, specOk := true, tag := "~not-an-input", model := "INVALID" }
  | "A" :: rest, outs => runA rest outs
  | "R" :: rest, outs => runR rest outs
  | _, _ => .bad "C09 stream"

end RtVerif.C09
