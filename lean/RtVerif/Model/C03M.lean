import RtVerif.Model.C03
/-
  C03, streams M / MB — several declared parameters of ONE operation against one request.

  Model: `UntypedRequestBinder.Bind` loops over the declared parameters (a Go map: in no particular order)
  and binds every one with its own `untypedParamBinder` against the same `*http.Request`; the binders share
  nothing but the request. The model therefore is the PRODUCT of the single binds: `bindAll` applies `bind`
  of `Model/C03.lean` to every declaration with the part of the request that declaration looks at.
  What a parameter looks at (the values sent under its name, in its location) is given per parameter; the
  harness sends a key either under the parameter's own name or under a key no parameter is declared with, so
  that the per-parameter views are independent by construction of the request — that the CODE keeps them
  independent (no parameter's binding disturbs what the next one sees: shared `request.Form`, `PostForm`, a
  body read twice, …) is exactly what the correspondence check tests.

  The API handler runs iff every parameter was bound; otherwise the request is rejected with the status of
  (one of) the errors — all 422 here.
-/
namespace RtVerif.C03
open RtVerif Bytes

/-- the per-parameter binds, independently -/
def bindAll (ps : List (Decl × Req)) : List BindOut := ps.map fun p => bind p.1 p.2

inductive ApiOut where
  /-- the handler ran and found these values, parameter by parameter -/
  | ran (vs : List Val)
  | rejected (status : Nat)
  | panic (why : String)
deriving Repr, DecidableEq

def valuesOf? : List BindOut → Option (List Val)
  | [] => some []
  | .value v :: r => (valuesOf? r).map (v :: ·)
  | _ :: _ => none

/-- the first outcome that is not a value -/
def firstFailure : List BindOut → Option BindOut
  | [] => none
  | .value _ :: r => firstFailure r
  | o :: _ => some o

/-- `Context.BindAndValidate` + the operation handler: all parameters bound, or the request is rejected -/
def apiOut (outs : List BindOut) : ApiOut :=
  match valuesOf? outs with
  | some vs => .ran vs
  | none =>
    match outs.find? (fun o => match o with | .panic _ => true | _ => false) with
    | some (.panic w) => .panic w
    | _ =>
      match firstFailure outs with
      | some (.e4xx st) => .rejected st
      | _ => .rejected 422

/-! ## Spec (from the property text, lifted to several parameters)

"For every non-body parameter declaration … the handler receives for that parameter exactly the value …
If [for a parameter] the text is not a valid in-range literal …, a required parameter is missing, or a
declared validation fails, the answer is 422 naming the parameter and the handler does not run."

Per parameter (stream MB): every parameter's outcome is what its own Spec expects — whatever the other
parameters of the operation are and whatever was sent for them.
For the operation (stream M): the handler runs only with every parameter bound to what its Spec expects;
a rejection (422) is justified by at least one parameter whose Spec admits a rejection. -/

def specAll (ps : List (Decl × Req)) (outs : List BindOut) : Bool :=
  outs.length == ps.length && (ps.zip outs).all fun po => specOk po.1.1 po.1.2 po.2

def admitsReject (p : Decl × Req) : Bool :=
  match specExpect p.1 p.2 with
  | .value _ => false
  | _ => true

def specApi (ps : List (Decl × Req)) (o : ApiOut) : Bool :=
  match o with
  | .ran vs => specAll ps (vs.map .value)
  | .rejected st => st == 422 && ps.any admitsReject
  | .panic _ => false

def knownAll (ps : List (Decl × Req)) : Option String := ps.findSome? fun p => known p.1 p.2

/-! ## Driver entry -/

def parseBlocks (k : Nat) (fields : List String) : Option (List (Decl × Req)) :=
  match k with
  | 0 => if fields.isEmpty then some [] else none
  | k + 1 =>
    if fields.length < 13 then none
    else
      match parseCase ("M" :: fields.take 13) ".", parseBlocks k (fields.drop 13) with
      | some (_, d, r), some rest => some ((d, r) :: rest)
      | _, _ => none

def renderMB : BindOut → String
  | .value v => "V:" ++ renderVal v
  | .e422 c => s!"E:{c}"
  | .e4xx st => s!"X:{st}"
  | .panic why => "PANIC:" ++ why

def parseMB (s : String) : Option BindOut :=
  if s.startsWith "V:" then (parseVal (s.drop 2).toString).map .value
  else if s.startsWith "E:" then (s.drop 2).toString.toNat?.map .e422
  else if s == "U" then some (.e4xx 0)
  else none

def renderApi : ApiOut → String
  | .ran vs => " ".intercalate ("RAN" :: vs.map renderVal)
  | .rejected st => s!"REJ {st}"
  | .panic why => "PANIC " ++ why

def parseApi (outs : List String) : Option ApiOut :=
  match outs with
  | "RAN" :: vs => (vs.mapM parseVal).map .ran
  | ["REJ", st] => st.toNat?.map .rejected
  | ["PANIC", m] => some (.panic m)
  | _ => none

def multiTag (ps : List (Decl × Req)) (outs : List BindOut) : String :=
  let forms := (ps.filter fun p => p.1.loc == .form || p.1.loc == .mform).length
  let kind := if ps.any (fun p => p.1.loc == .mform) then "multipart" else if forms > 0 then "urlencoded" else "noform"
  let fails := (outs.filter fun o => match o with | .value _ => false | _ => true).length
  s!"{ps.length}params/{forms}{kind}/{if fails == 0 then "all-bound" else s!"{fails}-fail"}"

def runMulti (ins outs : List String) : Verdict :=
  match ins with
  | stream :: method :: k :: fields =>
    (match outs with
    | ["INVALID"] => { agree := true, specOk := true, tag := "~invalid-input", model := "-" }
    | _ =>
      match k.toNat? with
      | none => .bad "C03 M count"
      | some k =>
        match parseBlocks k fields with
        | none => .bad "C03 M input fields"
        | some ps =>
          let m := bindAll ps
          let wf := ps.all fun p => p.1.wf && Req.wf p.1 p.2
          let tag := s!"{stream}:{method}/" ++ (if wf then "" else "!wf:") ++ multiTag ps m
          if stream == "M" then
            match parseApi outs with
            | none => .bad "C03 M output fields"
            | some impl =>
              { agree := renderApi (apiOut m) == renderApi impl,
                specOk := specApi ps impl,
                known := (knownAll ps).getD "-",
                tag := tag,
                model := (renderApi (apiOut m)).replace " " "_" }
          else
            match outs.mapM parseMB with
            | none => .bad "C03 MB output fields"
            | some impl =>
              { agree := m.map renderMB == impl.map renderMB && impl.length == ps.length,
                specOk := specAll ps impl,
                known := (knownAll ps).getD "-",
                tag := tag,
                model := "_".intercalate (m.map renderMB) })
  | _ => .bad "C03 M input fields"

end RtVerif.C03
