import RtVerif.Base.Bytes
import RtVerif.Base.Verdict
import RtVerif.Gen.Facts
/-
  C12 — Client calls always terminate, release what they hold, and surface faults.

  Two models, both transcriptions of the anchored Go code:

  * Part D: `drainingReadCloser` (client/keepalive.go) as an exact state machine over a scripted
    underlying body (data, sticky terminal, per-call schedule of behaviours).
  * Part F: a labelled transition system of ONE call of `Runtime.Submit` (client/runtime.go) with
    `request.buildHTTP` (client/request.go): main thread, the multipart writer goroutine, the
    caller's context.  Resources are explicit (upload files, stream payload, the two pipe ends, the
    writer goroutine, the response body, the cancel function); faults are a *plan* over which every
    theorem quantifies; interleavings are all successor choices of `succs`.
    Assumptions about net/http are explicit transitions: the transport closes the request body on
    every path (`closeReqBody`), `Do` returns when the context ends (`failDo .ctx`), a response is
    only delivered after the request body has been consumed to its end.

  What no Lean model exhibits (PARTIAL): wall-clock time ("no later than the deadline") and the Go
  scheduler.  The decision logic of the deadline is modelled (`effDeadline`); elapsed time and
  goroutine stacks are measured by the harness (support, not proof).
-/
namespace RtVerif.C12
open RtVerif RtVerif.Bytes

/-! ## Part D — drainingReadCloser over a scripted body -/

inductive Term | eof | err
deriving DecidableEq, Repr

/-- behaviour of one `Read` call of the underlying body -/
inductive Beh
  | zero               -- (0, nil)
  | take (n : Nat)     -- at most n bytes
  | last (n : Nat)     -- at most n bytes; when they are the last ones the terminal comes along
deriving DecidableEq, Repr

structure Under where
  rest : Bytes
  term : Term
  sched : List Beh
  total : Nat := 0          -- bytes handed out so far
  atEnd : Bool := false     -- the terminal has been returned at least once
  closes : Nat := 0
  endAtClose : Bool := false  -- `atEnd` at the moment of the first Close
deriving Repr

structure RdRes where
  out : Bytes
  err : Option Term
deriving DecidableEq, Repr

def amount (b : Option Beh) (k avail : Nat) : Nat :=
  match b with
  | some .zero => 0
  | some (.take n) => min (min n k) avail
  | some (.last n) => min (min n k) avail
  | none => min k avail

def withTerminal : Option Beh → Bool
  | some (.last _) => true
  | _ => false

/-- one `Read(p)` with `len(p) = k` on the scripted body -/
def Under.read (u : Under) (k : Nat) : Under × RdRes :=
  let b := u.sched.head?
  let u1 := { u with sched := u.sched.tail }
  if u.rest.isEmpty then ({ u1 with atEnd := true }, ⟨[], some u.term⟩)
  else
    let m := amount b k u.rest.length
    let u2 := { u1 with rest := u.rest.drop m, total := u.total + m }
    if withTerminal b && decide (0 < m) && m == u.rest.length then
      ({ u2 with atEnd := true }, ⟨u.rest.take m, some u.term⟩)
    else (u2, ⟨u.rest.take m, none⟩)

def Under.close (u : Under) : Under :=
  { u with closes := u.closes + 1, endAtClose := if u.closes == 0 then u.atEnd else u.endAtClose }

/-- `io.Copy(io.Discard, rdr)`: `discard.ReadFrom` reads into an 8192-byte buffer until an error. -/
def drainFuel : Nat → Under → Under
  | 0, u => u
  | f + 1, u =>
    let r := u.read 8192
    if r.2.err.isSome then r.1 else drainFuel f r.1

def drain (u : Under) : Under := drainFuel (u.sched.length + u.rest.length + 1) u

structure Drc where
  u : Under
  seenEOF : Bool := false

/-- keepalive.go:39 — `onZero` is the regenerated fact "something else than err == io.EOF marks
the end" (the code before the fix: `err == io.EOF || n == 0`). -/
def markEnd (onZero : Bool) (n : Nat) (e : Option Term) : Bool :=
  e == some .eof || (onZero && n == 0)

def Drc.read (onZero : Bool) (d : Drc) (k : Nat) : Drc × RdRes :=
  let r := d.u.read k
  ({ u := r.1, seenEOF := d.seenEOF || markEnd onZero r.2.out.length r.2.err }, r.2)

def Drc.close (d : Drc) : Under :=
  (if d.seenEOF then d.u else drain d.u).close

def Drc.reads (onZero : Bool) : Drc → List Nat → Drc × List RdRes
  | d, [] => (d, [])
  | d, k :: ks =>
    let r := d.read onZero k
    let rs := Drc.reads onZero r.1 ks
    (rs.1, r.2 :: rs.2)

/-- any sequence of Read sizes followed by Close -/
def runDP (onZero : Bool) (u : Under) (ks : List Nat) : List RdRes × Under :=
  let r := Drc.reads onZero { u := u } ks
  (r.2, r.1.close)

def runD (u : Under) (ks : List Nat) : List RdRes × Under := runDP Facts.c12MarkOnZero u ks

/-- Spec (from the text): the body has been closed — exactly once — after being drained when its
end was not yet seen.  "End seen" = some Read reported EOF or an error. -/
def specD (rs : List RdRes) (closes : Nat) (endAtClose : Bool) : Bool :=
  closes == 1 && (rs.all (fun r => r.err.isNone) → endAtClose)

/-! ## Deadline logic of Submit (runtime.go:469-493) -/

inductive Ctx | nil | live | deadline (at_ : Int)
deriving DecidableEq, Repr

def Ctx.dl : Ctx → Option Int
  | .deadline d => some d
  | _ => none

/-- `switch { case operation.Context != nil … case r.Context != nil … default: Background }` -/
def parentCtx (op rt : Ctx) : Ctx :=
  match op with
  | .nil => (match rt with | .nil => .live | c => c)
  | c => c

/-- `timeout == 0 → WithCancel(parent)`, else `WithTimeout(parent, timeout)` (the earlier of the
parent's deadline and now+timeout; times in ms relative to the call). -/
def effDeadline (timeout : Int) (parent : Option Int) (now : Int) : Option Int :=
  if Facts.c12TimeoutZeroMeansNone && timeout == 0 then parent
  else match parent with
    | none => some (now + timeout)
    | some d => some (min d (now + timeout))

/-- Spec: "the shorter of the request timeout and the caller's context"; a zero timeout is no
timeout; an absent bound is +∞ (`none`). -/
def specDeadline (timeout : Int) (parent : Option Int) (now : Int) : Option Int :=
  match (if timeout == 0 then none else some (now + timeout)), parent with
  | none, p => p
  | some t, none => some t
  | some t, some d => some (if d ≤ t then d else t)

/-! ## Part F — the plan (inputs and fault placement) -/

structure Src where
  reads : Nat        -- successful reads of one byte each
  fails : Bool       -- then an error instead of EOF
  /-- the error is one that `io.ReadFull`'s caller takes for a short file (`io.ErrUnexpectedEOF` coming
  from the source itself): the sniff lets it pass, the copy that follows meets it again (sticky) -/
  soft : Bool := false
deriving DecidableEq, Repr

inductive Payload | none | buffered | produceErr | stream (s : Src)
deriving DecidableEq, Repr

inductive Auth | none | ok | fail | bodyOk | bodyFail
deriving DecidableEq, Repr

inductive Tr | errBefore | full | failAfter (m : Nat) | stallAfter (m : Nat)
deriving DecidableEq, Repr

inductive RTerm | eof | err | stall
deriving DecidableEq, Repr

inductive Resp | stall | headers (chunks : Nat) (term : RTerm)
deriving DecidableEq, Repr

inductive CancelAt | never | send | body | await | reading
deriving DecidableEq, Repr

structure Plan where
  files : List Src := []
  form : Nat := 0
  mpMT : Bool := false          -- the consumes media type is multipart/form-data
  payload : Payload := .none
  writerErr : Bool := false     -- WriteToRequest fails after handing everything over
  auth : Auth := .none
  urlErr : Bool := false
  tr : Tr := .full
  resp : Resp := .headers 0 .eof
  readN : Option Nat := none    -- reads the reader makes (none: until the end)
  readerErr : Bool := false
  reuse : Bool := false
  timeout : Int := 30000
  opCtx : Ctx := .nil
  rtCtx : Ctx := .live
  cancelAt : CancelAt := .never
  real : Bool := false
deriving Repr

/-- well-formed requests: a body parameter excludes form data (Swagger 2.0) -/
def Plan.WF (p : Plan) : Prop := p.payload ≠ .none → p.files = [] ∧ p.form = 0 ∧ p.mpMT = false

instance (p : Plan) : Decidable p.WF := by unfold Plan.WF; infer_instance

def Plan.isMP (p : Plan) : Bool := !p.files.isEmpty || p.mpMT
def Plan.hasFormOrFiles (p : Plan) : Bool := decide (0 < p.form) || !p.files.isEmpty
/-- request.go:130-141 — the multipart goroutine is started -/
def Plan.startsWriter (p : Plan) : Bool := p.hasFormOrFiles && p.isMP

def Plan.eff (p : Plan) : Option Int := effDeadline p.timeout (parentCtx p.opCtx p.rtCtx).dl 0
/-- the context of the call can end: it has a deadline or the caller cancels -/
def Plan.ctxEnds (p : Plan) : Bool := p.eff.isSome || p.cancelAt != .never
def Plan.expiredAtStart (p : Plan) : Bool :=
  match p.eff with
  | some d => decide (d ≤ 0)
  | none => false

/-- what the writer goroutine does: pipe writes and the failing source read -/
inductive Act | wForm | w | fail
deriving DecidableEq, Repr

/-- request.go:186 (regenerated fact): the sniffing buffer is filled with `io.ReadFull(fi, buf)`
(the repaired code of C11); otherwise with a single `fi.Read(buf)`. -/
def sniffFull : Bool := Facts.c11ReadCall == "io.ReadFull(fi, buf)"

/-- One upload file whose source yields `reads` one-byte reads and then EOF or an error.

`full = false` (single `fi.Read(buf)`): the first read is the sniff; the part header is written,
then every byte read is one pipe write (the sniffed byte through the MultiReader, the others
through io.Copy); a source that fails on its very first read fails before the header.

`full = true` (`io.ReadFull(fi, buf)`, window `w`): the sniff reads until the window is full or the
source ends. A source that fails within the window fails inside ReadFull, BEFORE the part header is
written — unless its error is `io.ErrUnexpectedEOF` itself (`soft`), which the code takes for "shorter
than the window": then the header and the sniffed prefix are written and the copy through the
MultiReader meets the (sticky) error of the source again. Otherwise: one write for the header, one write for the whole sniffed prefix (if any), then
one write per further byte, then EOF or the failing read. -/
def fileScriptW (full : Bool) (w : Nat) (s : Src) : List Act :=
  if full then
    if s.reads < w then
      (if s.fails && !s.soft then [.fail]
       else .w :: ((if s.reads == 0 then [] else [.w]) ++ (if s.fails then [.fail] else [])))
    else .w :: .w :: (List.replicate (s.reads - w) .w ++ (if s.fails then [.fail] else []))
  else
    if s.fails && s.reads == 0 then [.fail]
    else List.replicate (1 + s.reads) .w ++ (if s.fails then [.fail] else [])

def fileScript (s : Src) : List Act := fileScriptW sniffFull Facts.c11SniffWindow s

def filesScript : List Src → List Act
  | [] => []
  | s :: r => fileScript s ++ filesScript r

def Plan.script (p : Plan) : List Act := List.replicate (2 * p.form) .wForm ++ filesScript p.files

/-! ## Part F — states and steps -/

inductive Ph | start | choose | auth | authCopy | url | send | sendBody | await | reading | draining | closing | returned
deriving DecidableEq, Repr

inductive Origin | none | writer | produce | auth | copy | url | transport | source | ctx | reader | bodyRead
deriving DecidableEq, Repr

inductive G | idle | run (todo : List Act) | trailer | done
deriving DecidableEq, Repr

inductive Pipe | none | open | closed
deriving DecidableEq, Repr

structure St where
  ph : Ph := .start
  g : G := .idle
  pr : Pipe := .none
  pwErr : Bool := false        -- the write end was closed with an error
  fileCloses : Nat := 0        -- times the close-every-file loop ran
  streamLeft : Nat := 0
  streamCloses : Nat := 0
  bodyInBuf : Bool := false    -- GetBody() copied the body into r.buf
  bufLeft : Nat := 0           -- data reads a buffered body still yields (0/1)
  consumed : Nat := 0          -- data reads of the current consumer
  ctxDone : Bool := false
  entered : Bool := false      -- the transport was entered
  released : Bool := false     -- the deferred cancel() ran
  haveResp : Bool := false
  bodyLeft : Nat := 0
  bodyAtEnd : Bool := false
  seenEOF : Bool := false
  bodyCloses : Nat := 0
  endAtClose : Bool := false
  readLeft : Option Nat := none
  pending : Origin := .none    -- what the reader returned (delivered after the deferred calls)
  srcFailed : Bool := false    -- a read of an upload source failed
  res : Option Origin := none  -- `some .none` = returned without error
deriving DecidableEq, Repr

def init (p : Plan) : St := { ctxDone := p.expiredAtStart }

def ret (o : Origin) (s : St) : St := { s with ph := .returned, res := some o }

def Plan.streamSrc (p : Plan) : Option Src :=
  match p.payload with
  | .stream s => some s
  | _ => none

/-- the deferred function of buildHTTP on an error return (the fix of F12a/F12c): close the pipe
reader with the error, else close the files; close a stream payload not yet copied by GetBody() -/
def release (p : Plan) (s : St) : St :=
  { s with
    pr := if Facts.c12ReleaseOnError && s.pr != .none then .closed else s.pr,
    fileCloses := s.fileCloses + (if Facts.c12ReleaseOnError && s.pr == .none then 1 else 0),
    streamCloses := s.streamCloses + (if Facts.c12ReleaseOnError && p.streamSrc.isSome && !s.bodyInBuf then 1 else 0) }

inductive BK | buf | pipe | stream
deriving DecidableEq, Repr

def bodyKind (p : Plan) (s : St) : BK :=
  if s.bodyInBuf then .buf
  else if s.pr != .none then .pipe
  else if p.streamSrc.isSome then .stream else .buf

inductive Rd | data (s : St) | eof (s : St) | err (s : St) | wait

/-- one Read of the request body by its consumer (GetBody's copy, or the transport) -/
def readBody (p : Plan) (s : St) : Rd :=
  match bodyKind p s with
  | .buf => if 0 < s.bufLeft then .data { s with bufLeft := 0, consumed := s.consumed + 1 } else .eof s
  | .stream =>
    if 0 < s.streamLeft then .data { s with streamLeft := s.streamLeft - 1, consumed := s.consumed + 1 }
    else if (p.streamSrc.map (·.fails)).getD false then .err { s with srcFailed := true } else .eof s
  | .pipe =>
    match s.g with
    | .run (.wForm :: r) => .data { s with g := .run r, consumed := s.consumed + 1 }
    | .run (.w :: r) => .data { s with g := .run r, consumed := s.consumed + 1 }
    | .trailer => .data { s with g := .done, consumed := s.consumed + 1 }
    | .done => if s.pwErr then .err s else .eof s
    | _ => .wait

/-- closing the request body: the pipe reader / the stream payload -/
def closeReqBody (p : Plan) (s : St) : St :=
  { s with
    pr := if bodyKind p s == .pipe then .closed else s.pr,
    streamCloses := s.streamCloses + (if bodyKind p s == .stream then 1 else 0) }

/-- Submit returns: the deferred cancel() has run -/
def finish (o : Origin) (s : St) : St := { s with released := true, ph := .returned, res := some o }

/-- `client.Do` failed: net/http closed the request body (assumption) -/
def failDo (o : Origin) (p : Plan) (s : St) : St := finish o (closeReqBody p s)

def mStart (p : Plan) (s : St) : List St :=
  if p.writerErr then [ret .writer (release p s)] else [{ s with ph := .choose }]

def mChoose (p : Plan) (s : St) : List St :=
  if p.startsWriter then [{ s with ph := .auth, g := .run p.script, pr := .open }]
  else if p.hasFormOrFiles then [{ s with ph := .auth, bufLeft := 1 }]
  else match p.payload with
    | .produceErr => [ret .produce (release p s)]
    | .stream src => [{ s with ph := .auth, streamLeft := src.reads }]
    | .buffered => [{ s with ph := .auth, bufLeft := 1 }]
    | .none => [{ s with ph := .auth }]

def afterAuth (p : Plan) (s : St) : List St :=
  match p.auth with
  | .fail => [ret .auth (release p s)]
  | .bodyFail => [ret .auth (release p s)]
  | _ => [{ s with ph := .url }]

def mAuth (p : Plan) (s : St) : List St :=
  match p.auth with
  | .bodyOk => if bodyKind p s == .buf then afterAuth p s else [{ s with ph := .authCopy, consumed := 0 }]
  | .bodyFail => if bodyKind p s == .buf then afterAuth p s else [{ s with ph := .authCopy, consumed := 0 }]
  | _ => afterAuth p s

def mAuthCopy (p : Plan) (s : St) : List St :=
  match readBody p s with
  | .data s' => [s']
  | .wait => []
  | .eof s' => afterAuth p { closeReqBody p s' with bodyInBuf := true, bufLeft := min 1 s'.consumed }
  | .err s' => [ret .copy (release p s')]

def mUrl (p : Plan) (s : St) : List St :=
  if p.urlErr then [ret .url (release p s)] else [{ s with ph := .send, consumed := 0 }]

def mSend (p : Plan) (s : St) : List St :=
  let s := { s with entered := true }
  (if s.ctxDone then [failDo .ctx p s] else []) ++
  (match p.tr with
   | .errBefore => [failDo .transport p s]
   | _ => [{ s with ph := .sendBody }])

def sendRead (p : Plan) (s : St) : List St :=
  match readBody p s with
  | .data s' => [s']
  | .wait => []
  | .eof s' => [{ closeReqBody p s' with ph := .await }]
  | .err s' => [failDo .source p s']

def mSendBody (p : Plan) (s : St) : List St :=
  (if s.ctxDone then [failDo .ctx p s] else []) ++
  (match p.tr with
   | .failAfter m => if m ≤ s.consumed then [failDo .transport p s] else sendRead p s
   | .stallAfter m => if m ≤ s.consumed then [] else sendRead p s
   | _ => sendRead p s)

def mAwait (p : Plan) (s : St) : List St :=
  (if s.ctxDone then [finish .ctx s] else []) ++
  (match p.resp with
   | .stall => []
   | .headers k _ => [{ s with ph := .reading, haveResp := true, bodyLeft := k, readLeft := p.readN }])

def Plan.rterm (p : Plan) : RTerm :=
  match p.resp with
  | .headers _ t => t
  | .stall => .stall

/-- one Read of the response body -/
def bodyRead (p : Plan) (s : St) : Rd :=
  if 0 < s.bodyLeft then .data { s with bodyLeft := s.bodyLeft - 1 }
  else match p.rterm with
    | .eof => .eof { s with bodyAtEnd := true, seenEOF := true }
    | .err => .err { s with bodyAtEnd := true }
    | .stall => if s.ctxDone then .err { s with bodyAtEnd := true } else .wait

def readerReturn (p : Plan) (s : St) : St :=
  { s with ph := .draining, pending := if p.readerErr then .reader else .none }

def mReading (p : Plan) (s : St) : List St :=
  if s.readLeft == some 0 then [readerReturn p s]
  else match bodyRead p s with
    | .data s' => [{ s' with readLeft := s.readLeft.map (· - 1) }]
    | .eof s' => [readerReturn p s']
    | .err s' => [{ s' with ph := .draining, pending := .bodyRead }]
    | .wait => []

/-- the deferred `res.Body.Close()`: with reuse on, `drainingReadCloser.Close` drains first -/
def mDraining (p : Plan) (s : St) : List St :=
  if p.reuse && !s.seenEOF then
    match bodyRead p s with
    | .data s' => [s']
    | .eof s' => [{ s' with ph := .closing }]
    | .err s' => [{ s' with ph := .closing }]
    | .wait => []
  else [{ s with ph := .closing }]

def mClosing (s : St) : List St :=
  [{ s with bodyCloses := s.bodyCloses + 1, endAtClose := s.bodyAtEnd, released := true,
            ph := .returned, res := some s.pending }]

def mainSteps (p : Plan) (s : St) : List St :=
  match s.ph with
  | .start => mStart p s
  | .choose => mChoose p s
  | .auth => mAuth p s
  | .authCopy => mAuthCopy p s
  | .url => mUrl p s
  | .send => mSend p s
  | .sendBody => mSendBody p s
  | .await => mAwait p s
  | .reading => mReading p s
  | .draining => mDraining p s
  | .closing => mClosing s
  | .returned => []

/-- the goroutine leaves through logClose: CloseWithError, deferred closing of the files -/
def gFail (s : St) (closeFiles : Bool) : St :=
  { s with g := .done, pwErr := true, fileCloses := s.fileCloses + (if closeFiles then 1 else 0) }

/-- steps the writer goroutine can take alone (a pipe write that meets a consumer is the consumer's
`readBody` step) -/
def gSteps (s : St) : List St :=
  match s.g with
  | .run (.fail :: _) => [{ gFail s true with srcFailed := true }]
  | .run (.wForm :: _) => if s.pr == .closed then [gFail s Facts.c12FilesDeferFirst] else []
  | .run (.w :: _) => if s.pr == .closed then [gFail s true] else []
  | .run [] => [{ s with g := .trailer, fileCloses := s.fileCloses + 1 }]
  | .trailer => if s.pr == .closed then [{ s with g := .done }] else []
  | _ => []

def cSteps (p : Plan) (s : St) : List St :=
  if p.ctxEnds && !s.ctxDone && s.ph != .returned then [{ s with ctxDone := true }] else []

/-- every step any thread can take -/
def succs (p : Plan) (s : St) : List St := mainSteps p s ++ gSteps s ++ cSteps p s

inductive Reach (p : Plan) : St → Prop
  | init : Reach p (init p)
  | step {s s' : St} : Reach p s → s' ∈ succs p s → Reach p s'

/-! ## The execution the harness provokes for a placement (`predict`) -/

def respChunks (p : Plan) : Nat :=
  match p.resp with
  | .headers k _ => k
  | .stall => 0

/-- the caller's cancellation is scheduled where the placement says -/
def cancelNow (p : Plan) (s : St) : Bool :=
  !s.ctxDone && (match p.cancelAt with
    | .never => false
    | .send => s.ph == .send
    | .body => s.ph == .sendBody && decide (1 ≤ s.consumed)
    | .await => s.ph == .await
    | .reading => (s.ph == .reading || s.ph == .draining) && decide (s.bodyLeft < respChunks p))

def pick (p : Plan) (s : St) : Option St :=
  if cancelNow p s then (cSteps p s).head? else (succs p s).head?

def runFuel : Nat → Plan → St → St
  | 0, _, s => s
  | f + 1, p, s =>
    match pick p s with
    | some s' => runFuel f p s'
    | none => s

/-- the termination measure: every step of `succs` lowers it -/
def phW : Ph → Nat
  | .start => 24 | .choose => 22 | .auth => 20 | .authCopy => 18 | .url => 16 | .send => 14
  | .sendBody => 12 | .await => 10 | .reading => 5 | .draining => 3 | .closing => 1 | .returned => 0

def gW : G → Nat
  | .idle => 0 | .run t => t.length + 3 | .trailer => 2 | .done => 0

def Plan.streamReads (p : Plan) : Nat := (p.streamSrc.map (·.reads)).getD 0

def pre (ph : Ph) : Bool :=
  ph == .start || ph == .choose

def measure (p : Plan) (s : St) : Nat :=
  phW s.ph + gW s.g + s.streamLeft + s.bufLeft + s.bodyLeft + (if s.ctxDone then 0 else 1)
  + (if pre s.ph then p.script.length + 3 + p.streamReads + 1 else 0)
  + (if s.haveResp then 0 else respChunks p)

def predictSt (p : Plan) : St := runFuel (measure p (init p) + 1) p (init p)


/-! ## Observations, Spec of a call, driver -/

/-- what the harness observes of one call (after it settled) -/
structure Obs where
  ok : Bool
  origin : String
  fileCloses : List Nat
  streamCloses : Option Nat
  goroutines : Nat
  bodyCloses : Option Nat
  endAtClose : Option Bool
  released : Option Bool
  late : Bool
  dkind : String
  reads : Option Nat
deriving DecidableEq, Repr

def Origin.code : Origin → String
  | .none => "g" | .writer => "gw" | .produce => "gp" | .auth => "ga" | .copy => "gc" | .url => "gu"
  | .transport => "gt" | .source => "gs" | .ctx => "gx" | .reader => "gr" | .bodyRead => "gb"

def deadlineKind (p : Plan) : String :=
  match p.eff with
  | none => "gn"
  | some e => if (parentCtx p.opCtx p.rtCtx).dl == some e then "gp" else "gt"

def G.alive : G → Bool
  | .idle => false | .done => false | _ => true

def obsOf (p : Plan) (s : St) : Obs :=
  { ok := s.res == some .none,
    origin := (s.res.getD .none).code,
    fileCloses := p.files.map (fun _ => s.fileCloses),
    streamCloses := if p.streamSrc.isSome then some s.streamCloses else none,
    goroutines := if s.g.alive then 1 else 0,
    bodyCloses := if s.haveResp then some s.bodyCloses else none,
    endAtClose := if s.haveResp then some s.endAtClose else none,
    released := if s.entered then some s.released else none,
    late := false,
    dkind := if s.entered then deadlineKind p else "g",
    reads := if s.entered && !p.real then some s.consumed else none }

def predict (p : Plan) : Obs := obsOf p (predictSt p)

/-- faults of a plan that certainly strike, wherever the schedule goes (cancellation and deadlines
are not among them: a call whose context ended may still have obtained the complete response) -/
def Plan.certainFault (p : Plan) : Bool :=
  p.writerErr || p.auth == .fail || p.auth == .bodyFail || p.urlErr || p.payload == .produceErr
  || p.files.any (·.fails) || (p.streamSrc.map (·.fails)).getD false
  || p.tr == .errBefore || p.resp == .stall || p.readerErr
  || (p.readN == none && p.rterm != .eof)

/-- where the Spec's effective deadline comes from ("the shorter of the request timeout and the caller's
context"): gn = there is none, gp = the caller's context, gt = call start + request timeout -/
def specDeadlineKind (p : Plan) : String :=
  match specDeadline p.timeout (parentCtx p.opCtx p.rtCtx).dl 0 with
  | none => "gn"
  | some e => if (parentCtx p.opCtx p.rtCtx).dl == some e then "gp" else "gt"

/-- Spec of one call, judged on what was observed (from the property text):
  * not later than the effective deadline (measured by the harness with slack: `late`), and the
    deadline the transport saw on the request's context IS the effective one (`dkind`);
  * an error unless the complete response was obtained: no `ok` under a fault that certainly
    strikes — in particular a failing upload source is never reported as a success;
  * every file handed over (and a stream payload) has been closed; no goroutine of the call remains;
  * the response body, if one was obtained, has been closed, and with connection reuse its end had
    been reached (seen by the reader or by the drain) when it was closed. -/
def specF (p : Plan) (o : Obs) : Bool :=
  !o.late
  -- the deadline the transport saw on the request's context is the effective one (g: transport not entered)
  && (o.dkind == "g" || o.dkind == specDeadlineKind p)
  && (o.ok → !p.certainFault)
  && o.fileCloses.all (fun c => decide (1 ≤ c))
  && (match o.streamCloses with | some c => decide (1 ≤ c) | none => true)
  && o.goroutines == 0
  && (match o.bodyCloses with
      | some c => decide (1 ≤ c) && (p.reuse → o.endAtClose == some true)
      | none => true)

/-! ### line protocol -/

def decNat (s : String) : Option Nat := s.toNat?

def decTerm (s : String) : Option Term :=
  if s == "ge" then some .eof else if s == "gx" then some .err else none

def decBeh (s : String) : Option Beh :=
  match s.toList with
  | ['z'] => some .zero
  | 't' :: r => (String.ofList r).toNat?.map (fun n => if n == 0 then .zero else .take n)
  | 'l' :: r => (String.ofList r).toNat?.map (fun n => if n == 0 then .zero else .last n)
  | _ => none

def decSched (s : String) : Option (List Beh) :=
  if s == "g" then some [] else (s.splitOn ",").mapM decBeh

def decNats (s : String) : Option (List Nat) :=
  if s == "." then some [] else (s.splitOn ",").mapM decNat

def encRd (r : RdRes) : String :=
  toString r.out.length ++ ":" ++ (match r.err with | none => "n" | some .eof => "e" | some .err => "x")

def encRds (rs : List RdRes) : String := if rs.isEmpty then "g" else ",".intercalate (rs.map encRd)

def decRd (s : String) : Option RdRes :=
  match s.splitOn ":" with
  | [n, e] => do
    let n ← n.toNat?
    let e ← (if e == "n" then some none else if e == "e" then some (some Term.eof)
             else if e == "x" then some (some Term.err) else none)
    some ⟨List.replicate n 0, e⟩
  | _ => none

def decRds (s : String) : Option (List RdRes) := if s == "g" then some [] else (s.splitOn ",").mapM decRd

def bit (b : Bool) : String := if b then "1" else "0"

def decSrc (s : String) : Option Src :=
  match s.splitOn ":" with
  | [a, b] => a.toNat?.map (fun n => { reads := n, fails := b == "1" || b == "2", soft := b == "2" })
  | _ => none

def dropPrefix (s : String) (n : Nat) : String := String.ofList (s.toList.drop n)

def decCtx (s : String) : Option Ctx :=
  match s.toList with
  | ['n'] => some .nil
  | ['l'] => some .live
  | 'd' :: r => (String.ofList r).toInt?.map .deadline
  | _ => none

def decPlan (f : List String) : Option Plan :=
  match f with
  | [files, form, mp, payload, werr, auth, url, tr, resp, reader, reuse, timing, cancel, wire] => do
    let files ← if files == "g" then some [] else (files.splitOn ",").mapM decSrc
    let form ← (dropPrefix form 1).toNat?
    let payload ← (match payload.toList with
      | ['p', 'n'] => some Payload.none
      | ['p', 'b'] => some .buffered
      | ['p', 'p'] => some .produceErr
      | 'p' :: 's' :: r => (decSrc (String.ofList r)).map .stream
      | _ => none)
    let auth ← (match auth with
      | "a0" => some Auth.none | "a1" => some .ok | "a2" => some .fail | "a3" => some .bodyOk
      | "a4" => some .bodyFail | _ => none)
    let tr ← (match tr.toList with
      | ['t', 'e'] => some Tr.errBefore
      | ['t', 'f'] => some .full
      | 't' :: 'x' :: r => (String.ofList r).toNat?.map .failAfter
      | 't' :: 's' :: r => (String.ofList r).toNat?.map .stallAfter
      | _ => none)
    let resp ← (if resp == "rs" then some Resp.stall else
      match resp.toList.reverse with
      | t :: r => do
        let k ← (String.ofList (r.reverse.drop 1)).toNat?
        let t ← (if t == 'e' then some RTerm.eof else if t == 'x' then some .err
                 else if t == 's' then some .stall else none)
        some (.headers k t)
      | _ => none)
    let (readN, readerErr) ← (match reader.toList.reverse with
      | e :: r =>
        let mid := String.ofList (r.reverse.drop 1)
        if mid == "a" then some (none, e == 'r') else mid.toNat?.map (fun n => (some n, e == 'r'))
      | _ => none)
    let (timeout, opCtx, rtCtx) ← (match (dropPrefix timing 1).splitOn "/" with
      | [t, o, r] => do some ((← t.toInt?), (← decCtx o), (← decCtx r))
      | _ => none)
    let cancelAt ← (match cancel with
      | "cn" => some CancelAt.never | "cs" => some .send | "cb" => some .body | "ca" => some .await
      | "cr" => some .reading | _ => none)
    some { files, form, mpMT := mp == "m1", payload, writerErr := werr == "w1", auth, urlErr := url == "u1",
           tr, resp, readN, readerErr, reuse := reuse == "k1", timeout, opCtx, rtCtx, cancelAt, real := wire == "xr" }
  | _ => none

def encOptNat : Option Nat → String
  | some n => toString n
  | none => "g"

def encOptBool : Option Bool → String
  | some b => bit b
  | none => "g"

def Obs.render (o : Obs) : List String :=
  [if o.ok then "ok" else "err", o.origin,
   if o.fileCloses.isEmpty then "g" else ",".intercalate (o.fileCloses.map toString),
   encOptNat o.streamCloses, toString o.goroutines, encOptNat o.bodyCloses, encOptBool o.endAtClose,
   encOptBool o.released, bit o.late, o.dkind, encOptNat o.reads]

def decOptNat (s : String) : Option (Option Nat) := if s == "g" then some none else s.toNat?.map some
def decOptBool (s : String) : Option (Option Bool) :=
  if s == "g" then some none else if s == "1" then some (some true) else if s == "0" then some (some false) else none

def decObs (outs : List String) : Option Obs :=
  match outs with
  | [kind, origin, fc, sc, g, bc, eac, rel, late, dk, reads] => do
    let fc ← if fc == "g" then some [] else (fc.splitOn ",").mapM decNat
    some { ok := kind == "ok", origin, fileCloses := fc, streamCloses := ← decOptNat sc, goroutines := ← g.toNat?,
           bodyCloses := ← decOptNat bc, endAtClose := ← decOptBool eac, released := ← decOptBool rel,
           late := late != "0", dkind := dk, reads := ← decOptNat reads }
  | _ => none

def tagF (p : Plan) (o : Obs) : String :=
  let body := if p.startsWriter then (if p.files.isEmpty then "mpform" else "files")
              else if p.streamSrc.isSome then "stream" else if p.hasFormOrFiles || p.payload == .buffered then "buf" else "nobody"
  let trivial := body == "nobody" && !p.certainFault && p.tr == .full
  (if trivial then "~F:" else "F:") ++ (if o.ok then "ok" else "err-" ++ o.origin.drop 1) ++ "/" ++ body
    ++ (if p.reuse then "+reuse" else "") ++ (if p.real then "+wire" else "")

def tagD (ks : List Nat) (rs : List RdRes) (dataEmpty : Bool) : String :=
  if ks.isEmpty && dataEmpty then "~D:empty"
  else "D:" ++ (if rs.any (fun r => r.err == some .eof) then "eof-seen"
                else if rs.any (fun r => r.err == some .err) then "err-seen" else "drained")
        ++ (if ks.any (· == 0) then "+zero-read" else "")

/-- The plans the harness runs with `Runtime.Debug` on and a printable response type (the same predicate as
`c12Dumped` in the harness): in-process wire, no request body, a response of an odd number of chunks that ends
(EOF or error), a reader that reads to the end, no cancellation. `Submit` then dumps the response first
(`httputil.DumpResponse`): the whole body is read before the reader sees a copy of it, and — when it ended
with EOF — the dump closes it, so that the deferred `res.Body.Close()` is its SECOND close (harmless; the
Spec asks for at least one). A body that ends with an error is left to the deferred close alone. Everything
else the call shows is what `predict` says for a reader that reads to the end. -/
def Plan.dumped (p : Plan) : Bool :=
  !p.real && p.readN.isNone && p.cancelAt == .never && p.payload == .none && p.form == 0 && p.files.isEmpty &&
  (match p.resp with
   | .headers k .eof => k % 2 == 1
   | .headers k .err => k % 2 == 1
   | _ => false)

def withDump (p : Plan) (o : Obs) : Obs :=
  match p.resp with
  | .headers _ .eof => if p.dumped then { o with bodyCloses := o.bodyCloses.map (· + 1) } else o
  | _ => o

def run (ins outs : List String) : Verdict :=
  match ins, outs with
  | _, ["PANIC", msg] => { agree := false, specOk := false, tag := "panic", model := "no panic expected; impl: " ++ msg }
  | ["D", data, term, sched, reads], [per, got, total, closes, eac] =>
    match decField data, decTerm term, decSched sched, decNats reads, decRds per, decNat closes with
    | some data, some term, some sched, some ks, some rs, some cl =>
      let m := runD { rest := data, term := term, sched := sched } ks
      let mo := [encRds m.1, encField (m.1.flatMap (·.out)), toString m.2.total, toString m.2.closes, bit m.2.endAtClose]
      { agree := mo == [per, got, total, closes, eac], specOk := specD rs cl (eac == "1"),
        tag := tagD ks m.1 data.isEmpty, model := " ".intercalate mo }
    | _, _, _, _, _, _ => .bad "D fields"
  | "F" :: f, outs =>
    match decPlan f, decObs outs with
    | some p, some o =>
      if decide p.WF then
        let m := withDump p (predict p)
        { agree := m == o, specOk := specF p o, tag := tagF p m, model := " ".intercalate m.render }
      else .bad "F plan outside WF"
    | _, _ => .bad "F fields"
  | _, _ => .bad "C12 stream"

end RtVerif.C12
