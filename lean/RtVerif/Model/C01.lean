import RtVerif.Base.Bytes
import RtVerif.Base.Verdict
import RtVerif.Base.GoPath
import RtVerif.Base.GoURL
import RtVerif.Model.C05
/-
  C01 — spec-driven dispatch (`DefaultRouter`, `defaultRouteBuilder.AddRoute/Build`,
  `defaultRouter.Lookup/OtherMethods`, `NewRouter`).

  Model: composition of `path.Join` (GoPath), the template→key conversion (the regexp
  `{(.+?)}([^/]*)` replaced by `:$1`), one denco table per upper-cased method (the C05 model),
  `path.Clean` of the escaped request path, the composite-segment workaround
  `decodeCompositParams` on the still escaped captured text (since the F01g repair),
  `url.PathUnescape` of every captured value or fragment (the raw text is kept when unescaping
  fails), and the 404/405 decision of `NewRouter`.

  Spec: `instantiates`/`specDispatch` for descriptions whose templates are simple, and
  `allInst`/`instAll`/`specDispatchC` for descriptions with composite segments (route and values).
-/
namespace RtVerif.C01
open RtVerif Bytes

def lbrace : UInt8 := 123
def rbrace : UInt8 := 125
def slash : UInt8 := 47
def colon : UInt8 := 58
def newline : UInt8 := 10

/-! ## template → denco key  (`pathConverter.ReplaceAllString(path, ":$1")`) -/

/-- after `{` and one arbitrary character: the shortest run up to the next `}` (`.+?` then `}`);
`.` does not match a newline. Returns (name-rest, text after `}`). -/
def scanName : Bytes → Option (Bytes × Bytes)
  | [] => none
  | c :: t =>
    if c == rbrace then some ([], t)
    else if c == newline then none
    else (scanName t).map fun (n, r) => (c :: n, r)

theorem scanName_length : ∀ (l : Bytes) (n r : Bytes), scanName l = some (n, r) → r.length < l.length + 1 := by
  intro l
  induction l with
  | nil => intro n r h; simp [scanName] at h
  | cons x xs ih =>
    intro n r h
    simp only [scanName] at h
    split at h
    · simp only [Option.some.injEq, Prod.mk.injEq] at h
      rw [← h.2]; simp only [List.length_cons]; omega
    · split at h
      · cases h
      · simp only [Option.map_eq_some_iff, Prod.mk.injEq, Prod.exists] at h
        obtain ⟨n', r', hs, _, rfl⟩ := h
        have := ih n' r' hs
        simp only [List.length_cons]; omega

theorem length_dropWhile_le' (p : UInt8 → Bool) (l : Bytes) : (l.dropWhile p).length ≤ l.length := by
  induction l with
  | nil => simp
  | cons a t ih => simp only [List.dropWhile]; split <;> simp <;> omega

/-- leftmost-first replacement of every match of `{(.+?)}([^/]*)` by `:` ++ group 1 -/
def convert (s : Bytes) : Bytes :=
  match s with
  | [] => []
  | [c] => [c]
  | c :: d :: t' =>
    if c == lbrace && d != newline then
      match h : scanName t' with
      | some (n, r) => colon :: d :: n ++ convert (r.dropWhile (· != slash))
      | none => c :: convert (d :: t')
    else c :: convert (d :: t')
termination_by s.length
decreasing_by
  · have h2 := scanName_length t' n r h
    have h3 := length_dropWhile_le' (· != slash) r
    simp only [List.length_cons]; omega
  · simp
  · simp

/-! ## `decodeCompositParams` -/

def indexOf (pat s : Bytes) : Option Nat :=
  go pat s 0
where
  go (pat : Bytes) : Bytes → Nat → Option Nat
    | [], i => if pat.isEmpty then some i else none
    | c :: t, i => if pat.isPrefixOf (c :: t) then some i else go pat t (i + 1)

/-- `decodeCompositParams(name, value, pattern, nil, nil)`; `none` is a Go panic (slice bounds out
of range). Fuel bounds the recursion by the pattern length. -/
def decodeComposite : Nat → Bytes → Bytes → Bytes → Option (List (Bytes × Bytes))
  | 0, _, _, _ => none
  | fuel + 1, name, value, pattern =>
    match indexOf [lbrace] pattern with
    | none =>
      if hasSuffix value pattern then some [(name, value.take (value.length - pattern.length))]
      else some [(name, [])]
    | some pleft =>
      let toskip := pattern.take pleft
      match indexOf [rbrace] pattern with
      | none => none                                  -- pattern[pleft+1:-1]
      | some pright =>
        if pright < pleft + 1 then none               -- pattern[pleft+1:pright] with pright too small
        else
          let nextName := (pattern.drop (pleft + 1)).take (pright - (pleft + 1))
          let nextPat := pattern.drop (pright + 1)
          match indexOf toskip value with
          | some vright =>
            (decodeComposite fuel nextName (value.drop (vright + toskip.length)) nextPat).map
              fun rest => (name, value.take vright) :: rest
          | none =>
            -- value = ""; vright = -len(toskip): the remaining placeholders get empty values
            (decodeComposite fuel nextName [] nextPat).map fun rest => (name, []) :: rest

/-! ## the API and a request -/

structure Op where
  method : Bytes       -- as written in the description (any case)
  template : Bytes     -- path template, without the base path
deriving Repr, DecidableEq, BEq

structure Api where
  basePath : Bytes
  ops : List Op
deriving Repr

/-- `fpath.Join(spec.BasePath(), path)` -/
def fullPath (api : Api) (op : Op) : Bytes := GoPath.join api.basePath op.template

/-- `bp` of `AddRoute`: the cleaned base path without a trailing slash -/
def trimmedBase (api : Api) : Bytes :=
  let bp := GoPath.clean api.basePath
  if bp.getLast? == some slash then bp.dropLast else bp

def trimPrefix (s pre : Bytes) : Bytes := if pre.isPrefixOf s then s.drop pre.length else s

/-- `d.api.HandlerFor(method, opPath)`: handlers are registered under the upper-cased method and
the template exactly as written in the description, and (since the F19a/F01e repair) asked for
under that same spelling -/
def hasHandler (api : Api) (op : Op) : Bool :=
  api.ops.any fun o => toUpper o.method == toUpper op.method && o.template == op.template

/-- the records filed under one (upper-cased) method: `(key, index of the operation)` -/
def recordsFor (api : Api) (method : Bytes) : List (Bytes × Nat) :=
  api.ops.zipIdx.filterMap fun (op, i) =>
    if toUpper op.method == method && hasHandler api op then some (convert (fullPath api op), i) else none

def methodsOf (api : Api) : List Bytes := (api.ops.map fun op => toUpper op.method).eraseDups

inductive Out where
  | ran (op : Nat) (params : List (Bytes × Bytes))
  | notAllowed (allow : List Bytes)     -- 405, Allow header (as a set: sorted)
  | notFound                            -- 404
  | panic
deriving Repr, DecidableEq, BEq

/-- `url.PathUnescape`, the raw text being kept when unescaping fails -/
def decode (raw : Bytes) : Bytes := match GoURL.pathUnescape raw with | some u => u | none => raw

/-- the composite-segment test of `defaultRouter.Lookup`.  Since the F01g repair the still escaped
text captured by the trie is split along the pattern and every fragment is unescaped on its own. -/
def paramsOf (pathPattern : Bytes) (name value : Bytes) : Option (List (Bytes × Bytes)) :=
  let needle := lbrace :: name ++ [rbrace]
  match indexOf needle pathPattern with
  | none => some [(name, decode value)]       -- not a placeholder of the template: used directly
  | some idx =>
    let x := idx + name.length + 2
    if x < pathPattern.length && pathPattern[x]? != some slash then
      let ep := (pathPattern.drop x).takeWhile (· != slash)
      (decodeComposite (ep.length + 2) name value ep).map fun ps => ps.map fun kv => (kv.1, decode kv.2)
    else some [(name, decode value)]

def collectParams (pathPattern : Bytes) : List Bytes → List Bytes → Option (List (Bytes × Bytes))
  | n :: ns, v :: vs => do
    let a ← paramsOf pathPattern n v
    let b ← collectParams pathPattern ns vs
    pure (a ++ b)
  | _, _ => some []

/-- `router.Lookup(fpath.Clean(path))` under one method -/
def lookupUnder (api : Api) (method cleaned : Bytes) : Option C05.LookupOut :=
  match C05.route (recordsFor api method) cleaned with
  | .inl o => some o
  | .inr _ => none     -- `_ = router.Build(records)`: a refused table leaves an unusable router

def byteLe (a b : Bytes) : Bool := C05.bytesLe a b

def sortBytes (l : List Bytes) : List Bytes := l.foldr ins []
where
  ins (x : Bytes) : List Bytes → List Bytes
    | [] => [x]
    | y :: ys => if byteLe x y then x :: y :: ys else y :: ins x ys

/-- `NewRouter`: run the matched operation, else 405 with the other methods that match, else 404 -/
def dispatch (api : Api) (method escapedPath : Bytes) : Out :=
  let mn := toUpper method
  let cleaned := GoPath.clean escapedPath
  let hit : Option (Nat × List Bytes × List Bytes) :=
    if (methodsOf api).contains mn then
      match lookupUnder api mn cleaned with
      | some (.found v names vals) => some (v, names, vals)
      | _ => none
    else none
  match hit with
  | some (v, names, vals) =>
    match api.ops[v]? with
    | some op =>
      match collectParams (fullPath api op) names vals with
      | some ps => .ran v ps
      | none => .panic
    | none => .panic
  | none =>
    let others := (methodsOf api).filter fun m =>
      m != mn && (match lookupUnder api m cleaned with | some (.found _ _ _) => true | _ => false)
    if others.isEmpty then .notFound else .notAllowed (sortBytes others)


/-! ## Spec (from the property text): segment-wise instantiation of a template -/

inductive TSeg where
  | lit (b : Bytes)
  | ph (name : Bytes)
  | composite            -- placeholder(s) mixed with other text inside one segment
deriving Repr, DecidableEq, BEq

def hasBrace (b : Bytes) : Bool := b.any fun c => c == lbrace || c == rbrace

def classify (seg : Bytes) : TSeg :=
  match seg with
  | c :: rest =>
    if c == lbrace && rest.getLast? == some rbrace && !hasBrace rest.dropLast && !rest.dropLast.isEmpty then
      .ph rest.dropLast
    else if hasBrace seg then .composite else .lit seg
  | [] => .lit []

def tsegs (tmpl : Bytes) : List TSeg := (GoPath.segs tmpl).map classify

def isSimple (tmpl : Bytes) : Bool := (tsegs tmpl).all fun t => t != .composite

/-- does the (cleaned, still escaped) path instantiate the template, and with which raw texts? -/
def matchSegs : List TSeg → List Bytes → Option (List (Bytes × Bytes))
  | [], [] => some []
  | .lit b :: ts, p :: ps => if b == p then matchSegs ts ps else none
  | .ph n :: ts, p :: ps => (matchSegs ts ps).map fun r => (n, p) :: r
  | _, _ => none

def instantiates (tmpl path : Bytes) : Option (List (Bytes × Bytes)) :=
  matchSegs (tsegs tmpl) (GoPath.segs path)

/-- literal (0) / parameter (1) per segment: the preference order -/
def segKinds (tmpl : Bytes) : List Nat := (tsegs tmpl).map fun t => match t with | .lit _ => 0 | _ => 1

/-- fits with every parameter text non-empty -/
def fitsStrict (tmpl path : Bytes) : Bool :=
  match instantiates tmpl path with
  | some raws => raws.all fun kv => !kv.2.isEmpty
  | none => false

def opsUnder (api : Api) (mn : Bytes) : List (Op × Nat) :=
  api.ops.zipIdx.filter fun (op, _) => toUpper op.method == mn

/-- what the property demands of one dispatch, for APIs all of whose templates are simple -/
def specDispatch (api : Api) (method escapedPath : Bytes) (out : Out) : Bool :=
  let mn := toUpper method
  let cleaned := GoPath.clean escapedPath
  match out with
  | .ran i ps =>
    match api.ops[i]? with
    | none => false
    | some op =>
      toUpper op.method == mn &&
      (match instantiates (fullPath api op) cleaned with
       | some raws =>
         ps == raws.map (fun kv => (kv.1, decode kv.2)) &&
         -- a literal segment is preferred to a parameter when both fit
         (opsUnder api mn).all (fun (op', _) =>
           !fitsStrict (fullPath api op') cleaned ||
             C05.kindsLe (segKinds (fullPath api op)) (segKinds (fullPath api op')))
       | none => false)
  | .notFound =>
    api.ops.all fun op => !fitsStrict (fullPath api op) cleaned
  | .notAllowed allow =>
    (opsUnder api mn).all (fun (op, _) => !fitsStrict (fullPath api op) cleaned) &&
    !allow.isEmpty &&
    -- Allow lists exactly the methods under which some template fits
    (methodsOf api).all (fun m =>
      if m == mn then !allow.contains m
      else
        let strict := (opsUnder api m).any fun (op, _) => fitsStrict (fullPath api op) cleaned
        let loose := (opsUnder api m).any fun (op, _) => (instantiates (fullPath api op) cleaned).isSome
        (!strict || allow.contains m) && (!allow.contains m || loose)) &&
    allow.all (fun m => (methodsOf api).contains m)
  | .panic => false

/-! ## Spec for composite segments (from the property text)

"The path-parameter values the handler receives are the percent-decoded texts that instantiate the
placeholders, by name."  A template segment that mixes placeholders with other text is read as

      pre {n0} st0 {n1} st1 … {nk} stk          (`pre`, `st_i` static text, possibly empty)

and a (still escaped) path segment `t` *instantiates* it with the raw texts `v0 … vk` when

      t = pre ++ v0 ++ st0 ++ v1 ++ st1 ++ … ++ vk ++ stk          (`renderVals`).

Reading chosen (the least demanding faithful one): the property speaks of "the" texts that
instantiate the placeholders.  Where exactly one list of texts does (`allInst … = [vs]`) the handler
must receive exactly those, decoded.  Where several do (adjacent placeholders `{a}{b}`, a value that
contains the following separator: `a-b-c` against `{x}-{y}`) the text does not single one out, and
any instantiation is accepted — but the values must still be an instantiation: concatenated with
the static texts they reproduce the segment.  Where none does, the template is not instantiated by
the path and its handler must not run.  The static text is compared with the *escaped* path, like
every other static text of a template (an escaped separator, `%2D` for `-`, belongs to a value). -/

/-- all ways to write `t = v ++ sep ++ r`: the pairs `(v, r)`, leftmost occurrence first -/
def splitsAt (sep : Bytes) : Bytes → List (Bytes × Bytes)
  | [] => if sep.isEmpty then [([], [])] else []
  | c :: t =>
    (if sep.isPrefixOf (c :: t) then [([], (c :: t).drop sep.length)] else []) ++
      (splitsAt sep t).map fun vr => (c :: vr.1, vr.2)

/-- the segment text (after `pre`) that the values make of the placeholders `(name, static text after it)` -/
def renderVals : List (Bytes × Bytes) → List Bytes → Option Bytes
  | [], [] => some []
  | (_, st) :: r, v :: vs => (renderVals r vs).map fun rest => v ++ st ++ rest
  | _, _ => none

/-- every list of raw texts that instantiates the placeholders: `vs ∈ allInst phs t ↔ renderVals phs vs = some t`
(theorem `mem_allInst`) -/
def allInst : List (Bytes × Bytes) → Bytes → List (List Bytes)
  | [], t => if t.isEmpty then [[]] else []
  | (_, st) :: r, t => (splitsAt st t).flatMap fun vr => (allInst r vr.2).map fun vs => vr.1 :: vs

structure CSeg where
  pre : Bytes
  phs : List (Bytes × Bytes)    -- (placeholder name, static text that follows it)
deriving Repr, DecidableEq

def notBrace (c : UInt8) : Bool := c != lbrace && c != rbrace

/-- `{name}` at the head of `s`: the name (non-empty, brace-free) and what follows `}` -/
def takeName (s : Bytes) : Option (Bytes × Bytes) :=
  match s with
  | c :: r =>
    if c == lbrace then
      match r.dropWhile notBrace with
      | d :: r' => if d == rbrace && !(r.takeWhile notBrace).isEmpty then some (r.takeWhile notBrace, r') else none
      | [] => none
    else none
  | [] => none

/-- `{n0} st0 {n1} st1 …` (fuel: the length of the text) -/
def parsePhs : Nat → Bytes → Option (List (Bytes × Bytes))
  | 0, _ => none
  | f + 1, s =>
    match s with
    | [] => some []
    | _ :: _ =>
      match takeName s with
      | none => none
      | some (nm, r) => (parsePhs f (r.dropWhile notBrace)).map fun phs => (nm, r.takeWhile notBrace) :: phs

def parseCSeg (seg : Bytes) : Option CSeg :=
  (parsePhs (seg.length + 1) (seg.dropWhile notBrace)).map fun phs => ⟨seg.takeWhile notBrace, phs⟩

/-- a template segment for the composite-aware Spec -/
inductive XSeg where
  | lit (b : Bytes)
  | ph (name : Bytes)
  | comp (c : CSeg)
  | bad                   -- braces that do not pair up into `{name}` placeholders: not judged
deriving Repr, DecidableEq

def xclassify (seg : Bytes) : XSeg :=
  match classify seg with
  | .lit b => .lit b
  | .ph n => .ph n
  | .composite =>
    match parseCSeg seg with
    | some c => if c.phs.isEmpty then .bad else .comp c
    | none => .bad

def xsegs (tmpl : Bytes) : List XSeg := (GoPath.segs tmpl).map xclassify

def wellFormedT (tmpl : Bytes) : Bool := (xsegs tmpl).all fun x => x != .bad

/-- the raw instantiations of one composite segment by one path segment, by name -/
def instSeg (c : CSeg) (p : Bytes) : List (List (Bytes × Bytes)) :=
  if c.pre.isPrefixOf p then (allInst c.phs (p.drop c.pre.length)).map fun vs => (c.phs.map (·.1)).zip vs
  else []

/-- every way the (cleaned, still escaped) path instantiates the template, with the raw texts by name -/
def instAllSegs : List XSeg → List Bytes → List (List (Bytes × Bytes))
  | [], [] => [[]]
  | .lit b :: ts, p :: ps => if b == p then instAllSegs ts ps else []
  | .ph n :: ts, p :: ps => (instAllSegs ts ps).map fun r => (n, p) :: r
  | .comp c :: ts, p :: ps => (instSeg c p).flatMap fun a => (instAllSegs ts ps).map fun r => a ++ r
  | _, _ => []

def instAll (tmpl path : Bytes) : List (List (Bytes × Bytes)) := instAllSegs (xsegs tmpl) (GoPath.segs path)

def fitsLooseC (tmpl path : Bytes) : Bool := !(instAll tmpl path).isEmpty

/-- fits with every parameter text non-empty -/
def fitsStrictC (tmpl path : Bytes) : Bool :=
  (instAll tmpl path).any fun raws => raws.all fun kv => !kv.2.isEmpty

/-- static segment (0) / composite segment that begins with static text, `v{n}` (1) / parameter at the
start of the segment, `{n}`, `{a}-{b}` (2) -/
def segKindsC (tmpl : Bytes) : List Nat :=
  (xsegs tmpl).map fun x => match x with
    | .lit _ => 0
    | .comp c => if c.pre.isEmpty then 2 else 1
    | _ => 2

/-- "a literal segment is preferred to a parameter when both fit": the chosen template (left) is not
beaten by another fitting one (right).  The first segment where the two differ in kind decides; a
static segment beats everything else.  Between `v{n}` and `{n}` the property states no preference
(neither is a literal segment): either choice is accepted. -/
def prefOk : List Nat → List Nat → Bool
  | [], _ => true
  | _ :: _, [] => false
  | a :: as, b :: bs =>
    if a == b then prefOk as bs
    else if a == 0 then true
    else if b == 0 then false
    else true

/-- what the property demands of one dispatch, composite segments included -/
def specDispatchC (api : Api) (method escapedPath : Bytes) (out : Out) : Bool :=
  let mn := toUpper method
  let cleaned := GoPath.clean escapedPath
  match out with
  | .ran i ps =>
    match api.ops[i]? with
    | none => false
    | some op =>
      toUpper op.method == mn &&
      -- the values are the decoded texts of an instantiation (of THE instantiation when it is unique)
      (instAll (fullPath api op) cleaned).any (fun raws => ps == raws.map (fun kv => (kv.1, decode kv.2))) &&
      (opsUnder api mn).all (fun (op', _) =>
        !fitsStrictC (fullPath api op') cleaned ||
          prefOk (segKindsC (fullPath api op)) (segKindsC (fullPath api op')))
  | .notFound =>
    api.ops.all fun op => !fitsStrictC (fullPath api op) cleaned
  | .notAllowed allow =>
    (opsUnder api mn).all (fun (op, _) => !fitsStrictC (fullPath api op) cleaned) &&
    !allow.isEmpty &&
    (methodsOf api).all (fun m =>
      if m == mn then !allow.contains m
      else
        let strict := (opsUnder api m).any fun (op, _) => fitsStrictC (fullPath api op) cleaned
        let loose := (opsUnder api m).any fun (op, _) => fitsLooseC (fullPath api op) cleaned
        (!strict || allow.contains m) && (!allow.contains m || loose)) &&
    allow.all (fun m => (methodsOf api).contains m)
  | .panic => false

/-! ### classes outside the simple-template theorems -/

def hasComposite (api : Api) : Bool := api.ops.any fun op => !isSimple (fullPath api op)

/-- F01c: static text of a template that denco parameterises contains `:` or `*` -/
def oddStatic (api : Api) : Bool :=
  api.ops.any fun op =>
    let fp := fullPath api op
    C05.isParamKey (convert fp) &&
      (tsegs fp).any fun t => match t with
        | .lit b => b.contains colon || b.contains 42
        | _ => false

/-- does the template have a placeholder at all? -/
def hasPlaceholder (tmpl : Bytes) : Bool := (tsegs tmpl).any fun t => match t with | .lit _ => false | _ => true

/-- F01h: a template with placeholders whose converted key the trie router files as *static* text
(no `/:`, `/*`, `=:` in it): every placeholder sits behind static text of its segment, e.g.
`/v{major}.{minor}` → `/v:major`.  Such a template is matched by the literal key only.  The class
is per request: the cleaned path fits the template, or it is the literal key. -/
def staticComposite (api : Api) (cleaned : Bytes) : Bool :=
  api.ops.any fun op =>
    let fp := fullPath api op
    hasPlaceholder fp && !C05.isParamKey (convert fp) && (fitsLooseC fp cleaned || convert fp == cleaned)

/-- some composite segment of the template has no instantiation by the path segment at its place -/
def misfitSegs : List XSeg → List Bytes → Bool
  | .comp c :: ts, p :: ps => (instSeg c p).isEmpty || misfitSegs ts ps
  | _ :: ts, _ :: ps => misfitSegs ts ps
  | _, _ => false

/-- F01i: under some method the trie picks a template one of whose composite segments is not
instantiated by the path segment (the trie keeps `{a}` of `{a}.json`, `{a}-{b}` only); the handler
runs / the method is listed in Allow all the same, the values being empty. -/
def compositeMisfit (api : Api) (cleaned : Bytes) : Bool :=
  (methodsOf api).any fun m =>
    match lookupUnder api m cleaned with
    | some (.found v _ _) =>
      (match api.ops[v]? with
       | some op => misfitSegs (xsegs (fullPath api op)) (GoPath.segs cleaned)
       | none => false)
    | _ => false

def dupKeys (api : Api) : Bool :=
  (methodsOf api).any fun m =>
    let ks := (recordsFor api m).map (·.1)
    ks.eraseDups.length != ks.length

def buildRefused (api : Api) : Bool :=
  (methodsOf api).any fun m => match C05.build (recordsFor api m) with | .ok _ => false | _ => true

/-! ## Driver entry -/

def encPairs (ps : List (Bytes × Bytes)) : String := encList (ps.map (·.1)) ++ " " ++ encList (ps.map (·.2))

def renderOut : Out → String
  | .ran i ps => s!"R {i} {encPairs ps}"
  | .notAllowed a => s!"A {encList a}"
  | .notFound => "N"
  | .panic => "PANIC"

def parseOut : List String → Option Out
  | ["R", i, ns, vs] => do
    let i ← i.toNat?
    let ns ← decList ns
    let vs ← decList vs
    if ns.length == vs.length then pure (.ran i (ns.zip vs)) else none
  | ["A", a] => (decList a).map .notAllowed
  | ["N"] => some .notFound
  | "PANIC" :: _ => some .panic
  | _ => none

def run (ins outs : List String) : Verdict :=
  match ins with
  | ["D", base, methods, templates, method, path] =>
    match decField base, decList methods, decList templates, decField method, decField path with
    | some b, some ms, some ts, some m, some p =>
      if ms.length != ts.length then .bad "D ops" else
      let api : Api := ⟨b, (ms.zip ts).map fun (mm, tt) => ⟨mm, tt⟩⟩
      let mo := dispatch api m p
      if outs == ["INVALID"] then { agree := true, specOk := true, tag := "~invalid-input", model := "-" } else
      match parseOut outs with
      | none => { agree := false, specOk := false, tag := "unexpected-output", model := renderOut mo }
      | some o =>
        let kind := match mo with
          | .ran _ ps => s!"ran{ps.length.min 3}"
          | .notAllowed _ => "405"
          | .notFound => "404"
          | .panic => "panic"
        if dupKeys api then
          -- which of two templates with the same converted key wins depends on Go's map order
          { agree := true, specOk := true, tag := "~dupkeys", model := renderOut mo }
        else if buildRefused api then
          -- `_ = router.Build(records)`: the error is ignored and the half-built table is used; what it
          -- answers is not modelled (F01b, documented: such descriptions are outside the quantifier)
          { agree := true, specOk := true, tag := "~build-refused:" ++ kind, model := renderOut mo }
        else if hasComposite api then
          if !(api.ops.all fun op => wellFormedT (fullPath api op)) then
            -- braces that do not pair up into placeholders: only the choice of route is judged
            let okRoute := match o with
              | .ran i _ => (match api.ops[i]? with | some op => toUpper op.method == toUpper m | none => false)
              | .panic => false
              | _ => true
            { agree := mo == o, specOk := okRoute, known := (if oddStatic api then "F01c" else "-"),
              tag := "composite-odd:" ++ kind, model := renderOut mo }
          else
          -- composite segments: route AND values are judged (`specDispatchC`)
          let cleaned := GoPath.clean p
          let vtag := match o with
            | .ran i _ =>
              (match api.ops[i]? with
               | some op =>
                 if isSimple (fullPath api op) then ""
                 else match (instAll (fullPath api op) cleaned).length with
                   | 0 => ":none" | 1 => ":unique" | _ => ":ambiguous"
               | none => "")
            | _ => ""
          -- a recorded finding explains a verdict only where the code does what the model of the
          -- finding says (a panic, or any other answer, inside a known class is still reported)
          let known :=
            if mo != o then "-"
            else if oddStatic api then "F01c"
            else if staticComposite api cleaned then "F01h"
            else if compositeMisfit api cleaned then "F01i"
            else "-"
          { agree := mo == o, specOk := specDispatchC api m p o, known := known,
            tag := "composite:" ++ kind ++ vtag, model := renderOut mo }
        else
          { agree := mo == o, specOk := specDispatch api m p o,
            known := (if oddStatic api then "F01c" else "-"), tag := kind, model := renderOut mo }
    | _, _, _, _, _ => .bad "D fields"
  | _ => .bad "C01 stream"

end RtVerif.C01
