import RtVerif.Base.Bytes
import RtVerif.Base.Verdict
import RtVerif.Gen.Facts
/-
  C02 — Security requirements are an OR of ANDs; nothing runs unless one is satisfied.

  Model (transcription of the Go code, after the `fix:` commit for F02a):
    * `buildAlt`/`build`        middleware/router.go `buildAuthenticators` (+ analysis
                                 `SecurityRequirementsFor`, untyped `AuthenticatorsFor`)
    * `authSchemes`/`authAlt`   `RouteAuthenticator.Authenticate`            (AND)
    * `authAll`                 `RouteAuthenticators.Authenticate`           (OR, anonymous deferred)
    * `authorizeFresh`/`authorize`  `Context.Authorize`                      (401 / error / authorizer)
    * `secure`                  `newSecureAPI` around bind+handle (middleware/security.go,
                                 middleware/context.go `newRoutableUntypedAPI`)
  The order in which the schemes of an alternative are evaluated (`RouteAuthenticator.Schemes`, a
  map iteration order fixed when the router is built) is an explicit input: an alternative IS the
  ordered list.  Every function also returns the call log (which authenticators were consulted, in
  order, with the required scopes they were given).

  Spec: written from the property text, over the DECLARED alternatives (order-free: only
  membership, `all`, `any` are used) and the observations.
-/
namespace RtVerif.C02
open RtVerif Bytes

abbrev Name := Bytes
abbrev Scope := Bytes
/-- a non-nil principal (the harness uses strings) -/
abbrev Principal := Bytes

/-- an error value: `errors.Error` implementations carry a code, anything else is plain -/
inductive Err
  | coded (code : Nat) (msg : Bytes)
  | plain (msg : Bytes)
deriving DecidableEq, Repr

/-- What one scheme's authenticator answers for the request: `(applies, principal, err)`. -/
inductive Outcome
  | notApplicable                      -- (false, _, _): no credentials of this kind in the request
  | accepted (p : Option Principal)    -- (true, p, nil); `none` is the nil principal
  | rejected (e : Err)                 -- (true, _, err)
deriving DecidableEq, Repr

def Outcome.isAccepted : Outcome → Bool
  | .accepted _ => true
  | _ => false

def Outcome.isRejected : Outcome → Bool
  | .rejected _ => true
  | _ => false

/-- One consultation of an authenticator: the scheme and the `RequiredScopes` it was handed. -/
structure Call where
  name : Name
  scopes : List Scope
deriving DecidableEq, Repr

/-- per-request behaviour of the registered authenticators -/
abbrev Env := Name → List Scope → Outcome

/-- A declared requirement: scheme name with its scopes. -/
abbrev DocReq := Name × List Scope
/-- A declared alternative (a JSON object: a set of requirements); `[]` is the empty alternative. -/
abbrev DocAlt := List DocReq

/-- A requirement as the router built it (`Schemes[i]`, `Scopes[name]`, `Authenticator[name]` present?). -/
structure Req where
  name : Name
  scopes : List Scope
  registered : Bool
deriving DecidableEq, Repr

def Req.key (r : Req) : DocReq := (r.name, r.scopes)
def Req.call (r : Req) : Call := ⟨r.name, r.scopes⟩

/-- A built alternative: its requirements in `Schemes` order. `[]` models `allowAnonymous`. -/
abbrev Alt := List Req

/-! ## buildAuthenticators -/

/-- analysis `SecurityRequirementsFor`: the operation's list replaces the document's. -/
def effective (global op : Option (List DocAlt)) : List DocAlt :=
  match op with
  | some o => o
  | none => global.getD []

/-- `SecurityDefinitionsForRequirements` then `AuthenticatorsFor`: an authenticator is attached only
to schemes that are defined AND registered. -/
def mkReq (defs reg : List Name) (d : DocReq) : Req :=
  ⟨d.1, d.2, defs.contains d.1 && reg.contains d.1⟩

def buildAlt (defs reg : List Name) (a : DocAlt) : Alt := a.map (mkReq defs reg)

def build (defs reg : List Name) (alts : List DocAlt) : List Alt := alts.map (buildAlt defs reg)

/-- `stringSliceUnion`: first occurrences, in order -/
def dedup : List Scope → List Scope → List Scope
  | _, [] => []
  | seen, x :: r => if seen.contains x then dedup seen r else x :: dedup (x :: seen) r

/-- `RouteAuthenticator.AllScopes` -/
def allScopes (a : Alt) : List Scope := dedup [] (a.flatMap (·.scopes))

/-! ## RouteAuthenticator.Authenticate (AND) -/

structure AltRes where
  applies : Bool
  princ : Option Principal
  err : Option Err
  /-- `route.Authenticator = ra` was executed -/
  setAuth : Bool
  log : List Call
deriving DecidableEq, Repr

def AltRes.logged (c : Call) (r : AltRes) : AltRes := { r with log := c :: r.log }

/-- The loop over `ra.Schemes`; `last` is `lastResult`. -/
def authSchemes (env : Env) (last : Option Principal) : List Req → AltRes
  | [] => ⟨true, last, none, true, []⟩
  | s :: rest =>
    if s.registered then
      match env s.name s.scopes with
      | .notApplicable => ⟨false, none, none, false, [s.call]⟩
      | .rejected e => ⟨true, none, some e, true, [s.call]⟩
      | .accepted p => (authSchemes env p rest).logged s.call
    else
      -- (fix F02a) a scheme without a registered authenticator: the alternative does not apply
      ⟨false, none, none, false, []⟩

def authAlt (env : Env) (a : Alt) : AltRes :=
  if a.isEmpty then ⟨true, none, none, true, []⟩ else authSchemes env none a

/-! ## RouteAuthenticators.Authenticate (OR) -/

structure AllRes where
  applies : Bool
  princ : Option Principal
  err : Option Err
  /-- `route.Authenticator` after a successful return (`some []`: the anonymous alternative);
  on a refusal the field is not modelled (`none`) -/
  admitted : Option Alt
  log : List Call
deriving DecidableEq, Repr

def AllRes.prepend (l : List Call) (r : AllRes) : AllRes := { r with log := l ++ r.log }

/-- `!applies || err != nil || usr == nil` negated -/
def AltRes.satisfied (r : AltRes) : Bool := r.applies && r.err.isNone && r.princ.isSome

/-- `if err != nil { lastError = err }` -/
def nextErr (r : AltRes) (lastErr : Option Err) : Option Err :=
  match r.err with
  | some e => some e
  | none => lastErr

def authAll (env : Env) : Option Err → Bool → List Alt → AllRes
  | lastErr, anon, [] =>
    if anon && lastErr.isNone then ⟨true, none, lastErr, some [], []⟩
    else ⟨lastErr.isSome, none, lastErr, none, []⟩
  | lastErr, anon, a :: rest =>
    if a.isEmpty then authAll env lastErr true rest
    else if (authSchemes env none a).satisfied then
      ⟨true, (authSchemes env none a).princ, none, some a, (authSchemes env none a).log⟩
    else
      (authAll env (nextErr (authSchemes env none a) lastErr) anon rest).prepend (authSchemes env none a).log

/-- `RouteAuthenticators.AllowsAnonymous` -/
def allowsAnonymous (alts : List Alt) : Bool := alts.any (·.isEmpty)

/-! ## Context.Authorize -/

/-- scripted authorizer: `none` accepts -/
abbrev Authorizer := Option Principal → Option Err

inductive AuthzRes
  | ok (p : Option Principal) (scopes : List Scope)   -- (usr, request with principal+scopes, nil)
  | err (e : Err)                                     -- (nil, nil, err)
  | noauth                                            -- (nil, nil, nil): route without authenticators
  | panic                                             -- nil `route.Authenticator` dereferenced
deriving DecidableEq, Repr

/-- `errors.Unauthenticated("invalid credentials")` -/
def unauthenticated : Err := .coded 401 (ofStr "unauthenticated for invalid credentials")

/-- an authorizer error that is not an `errors.Error` becomes `errors.New(http.StatusForbidden, msg)` -/
def authorizerErr : Err → Err
  | .coded c m => .coded c m
  | .plain m => .coded Facts.authzDefaultStatus m

def runAuthorizer (authz : Option Authorizer) (p : Option Principal) : Option Err :=
  match authz with
  | none => none
  | some f => (f p).map authorizerErr

/-- the tail of `Context.Authorize` once authentication has answered -/
def finish (alts : List Alt) (authz : Option Authorizer) (r : AllRes) : AuthzRes :=
  if !r.applies || r.err.isSome || (!allowsAnonymous alts && r.princ.isNone) then
    match r.err with
    | some e => .err e
    | none => .err unauthenticated
  else
    match runAuthorizer authz r.princ with
    | some e => .err e
    | none =>
      match r.admitted with
      | some a => .ok r.princ (allScopes a)
      | none => .panic

/-- `Context.Authorize` on a request whose context holds no principal. -/
def authorizeFresh (alts : List Alt) (env : Env) (authz : Option Authorizer) : AuthzRes × List Call :=
  if alts.isEmpty then (.noauth, [])
  else (finish alts authz (authAll env none false alts), (authAll env none false alts).log)

/-- `Context.Authorize` called again with the request returned by a first successful call: a non-nil
principal in the context short-circuits; a nil one (anonymous) authenticates again. -/
def authorizeAgain (alts : List Alt) (env : Env) (authz : Option Authorizer) (first : AuthzRes) : AuthzRes × List Call :=
  match first with
  | .ok (some p) sc => (.ok (some p) sc, [])
  | _ => authorizeFresh alts env authz

/-! ## newSecureAPI around bind + handle -/

/-- what the harness varies about the rest of the request -/
inductive ReqKind | good | badBody | wrongType | missingQuery
deriving DecidableEq, Repr

structure Obs where
  status : Nat
  /-- message of the error body; ignored (empty) when security let the request through -/
  msg : Bytes
  handlerRan : Bool
  consumerCalls : Nat
  log : List Call
  panicked : Bool := false
deriving DecidableEq, Repr

/-- `errors.ServeError`: an `errors.Error` is served with its code (422 when the code is not a valid
HTTP status), anything else with 500. -/
def statusOf : Err → Nat
  | .coded c _ => if c ≥ 600 then 422 else c
  | .plain _ => 500

def msgOf : Err → Bytes
  | .coded _ m => m
  | .plain m => m

/-- bind + handle for the harness' fixed operation (binding itself belongs to C03/C06) -/
def downstream (k : ReqKind) (log : List Call) : Obs :=
  match k with
  | .good => ⟨200, [], true, 1, log, false⟩
  | .badBody => ⟨422, [], false, 1, log, false⟩
  | .wrongType => ⟨415, [], false, 0, log, false⟩
  | .missingQuery => ⟨422, [], false, 1, log, false⟩

def secure (alts : List Alt) (env : Env) (authz : Option Authorizer) (k : ReqKind) : Obs :=
  if alts.isEmpty then downstream k []      -- `len(schemes) == 0`: the handler is not wrapped
  else
    match (authorizeFresh alts env authz).1 with
    | .ok _ _ => downstream k (authorizeFresh alts env authz).2
    | .err e => ⟨statusOf e, msgOf e, false, 0, (authorizeFresh alts env authz).2, false⟩
    | .noauth => ⟨0, [], false, 0, (authorizeFresh alts env authz).2, true⟩   -- next.ServeHTTP(rw, nil)
    | .panic => ⟨0, [], false, 0, (authorizeFresh alts env authz).2, true⟩

/-! ## Spec (from the property text)

"An operation that declares security requirements runs its handler only if some requirement
alternative is fully satisfied (every scheme in it finds credentials in the request and accepts them,
yielding a non-nil principal) and the registered authorizer, if any, accepts that principal; the
principal and scopes the handler can read come from the satisfied alternative. The empty (anonymous)
alternative admits a request only when no scheme rejected credentials that were presented. Every
other request is refused with the rejecting scheme's error, with 401 when no alternative applied, or
with the authorizer's error (403 unless it carries its own status), whatever else is right or wrong
with the request, and neither parameter binding nor the handler runs."

Operational reading: "finds credentials and accepts them" / "rejected credentials that were
presented" speak about the schemes that were CONSULTED for this request (the call log). -/

/-- the scheme of requirement `s` was consulted (with its declared scopes) and accepted -/
def consultedAccepted (env : Env) (log : List Call) (s : DocReq) : Bool :=
  log.contains ⟨s.1, s.2⟩ && (env s.1 s.2).isAccepted

/-- no consulted scheme rejected the credentials it was presented -/
def noRejection (env : Env) (log : List Call) : Bool :=
  log.all fun c => !(env c.name c.scopes).isRejected

/-- requirement `s` yielded the non-nil principal `x` -/
def yields (env : Env) (x : Principal) (s : DocReq) : Bool := env s.1 s.2 == .accepted (some x)

/-- Alternative `a` is fully satisfied for this request and `p` is the principal it gives:
the empty alternative gives the nil principal and needs that nothing consulted rejected; a non-empty
one needs every scheme consulted and accepting, and `p` non-nil and yielded by one of its schemes. -/
def satisfiedBy (env : Env) (log : List Call) (a : DocAlt) (p : Option Principal) : Bool :=
  if a.isEmpty then p.isNone && noRejection env log
  else a.all (consultedAccepted env log) &&
    match p with
    | some x => a.any (yields env x)
    | none => false

def authzAccepts (authz : Option Authorizer) (p : Option Principal) : Bool :=
  match authz with
  | none => true
  | some f => (f p).isNone

/-- "the authorizer's error (403 unless it carries its own status)" -/
def specAuthzErr : Err → Err
  | .coded c m => .coded c m
  | .plain m => .coded 403 m

/-- the authorizer refuses `p` and `is` recognises the resulting error -/
def authzDenies (authz : Option Authorizer) (is : Err → Bool) (p : Option Principal) : Bool :=
  match authz with
  | none => false
  | some f =>
    match f p with
    | some e => is (specAuthzErr e)
    | none => false

/-- `q` holds of a principal that alternative `a` is satisfied by -/
def satisfiedSome (env : Env) (log : List Call) (a : DocAlt) (q : Option Principal → Bool) : Bool :=
  if a.isEmpty then noRejection env log && q none
  else a.all (consultedAccepted env log) &&
    a.any fun s =>
      match env s.1 s.2 with
      | .accepted (some x) => q (some x)
      | _ => false

/-- S1: some alternative is fully satisfied and the authorizer (if any) accepts its principal. -/
def admissible (alts : List DocAlt) (env : Env) (authz : Option Authorizer) (log : List Call) : Bool :=
  alts.any fun a => satisfiedSome env log a (authzAccepts authz)

/-- errors returned by consulted schemes that rejected -/
def rejections (env : Env) (log : List Call) : List Err :=
  log.filterMap fun c =>
    match env c.name c.scopes with
    | .rejected e => some e
    | _ => none

/-- S2: the refusal (recognised by `is`) is a consulted rejecting scheme's error; or 401 when no
consulted scheme rejected; or the error of the authorizer refusing the principal of a satisfied
alternative. -/
def refusalAllowed (alts : List DocAlt) (env : Env) (authz : Option Authorizer) (log : List Call)
    (is : Err → Bool) : Bool :=
  (if (rejections env log).isEmpty then is unauthenticated else (rejections env log).any is)
  || alts.any fun a => satisfiedSome env log a (authzDenies authz is)

def sameSet (a b : List Scope) : Bool := a.all (b.contains ·) && b.all (a.contains ·)

def docScopes (a : DocAlt) : List Scope := a.flatMap (·.2)

/-- The property judged on one served request. No declared requirement: the property is silent.
If bind or handler ran, S1 must hold. If nothing ran, either the request was admissible (whatever
stopped it afterwards is not this property's business) or the refusal is one of S2. -/
def specServe (alts : List DocAlt) (env : Env) (authz : Option Authorizer) (o : Obs) : Bool :=
  if alts.isEmpty then !o.panicked
  else if o.panicked then false
  else if o.handlerRan || o.consumerCalls != 0 then admissible alts env authz o.log
  else admissible alts env authz o.log ||
    refusalAllowed alts env authz o.log (fun e => statusOf e == o.status && msgOf e == o.msg)

/-- The property judged on one direct `Context.Authorize`: a principal is handed out only with a
satisfied alternative that the authorizer accepts, the scopes are that alternative's; an error is
one of S2. -/
def specDirect (alts : List DocAlt) (env : Env) (authz : Option Authorizer) (res : AuthzRes) (log : List Call) : Bool :=
  match res with
  | .ok p sc => alts.any fun a => satisfiedBy env log a p && authzAccepts authz p && sameSet sc (docScopes a)
  | .err e => refusalAllowed alts env authz log (· == e)
  | .noauth => alts.isEmpty
  | .panic => false

/-! The same notions as propositions (used to state the theorems readably; `Lemmas/C02.lean` shows
they are what the Boolean functions above decide). -/

/-- no consulted scheme rejected -/
def NoRejection (env : Env) (log : List Call) : Prop :=
  ∀ c ∈ log, ∀ e, env c.name c.scopes ≠ .rejected e

/-- Alternative `a` is fully satisfied for the request and gives principal `p`. -/
def Satisfied (env : Env) (log : List Call) (a : DocAlt) (p : Option Principal) : Prop :=
  (a = [] ∧ p = none ∧ NoRejection env log)
  ∨ (a ≠ [] ∧
     (∀ s ∈ a, (⟨s.1, s.2⟩ : Call) ∈ log ∧ ∃ q, env s.1 s.2 = .accepted q) ∧
     ∃ x, p = some x ∧ ∃ s ∈ a, env s.1 s.2 = .accepted (some x))

/-- A legitimate refusal with error `e` (S2). -/
def Refusal (alts : List DocAlt) (env : Env) (authz : Option Authorizer) (log : List Call) (e : Err) : Prop :=
  e ∈ rejections env log
  ∨ (rejections env log = [] ∧ e = unauthenticated)
  ∨ (∃ f a p e0, authz = some f ∧ a ∈ alts ∧ Satisfied env log a p ∧ f p = some e0 ∧ e = specAuthzErr e0)

/-- The built structure `bs` is the declared structure `ds` with the schemes of every alternative
in some order (and whatever `registered` flags). -/
inductive Reordered : List DocAlt → List Alt → Prop
  | nil : Reordered [] []
  | cons {d : DocAlt} {b : Alt} {ds : List DocAlt} {bs : List Alt} :
      (b.map Req.key).Perm d → Reordered ds bs → Reordered (d :: ds) (b :: bs)

/-! ## Driver entry -/

def cut (sep : Char) (s : List Char) : List Char × Option (List Char) :=
  match s.span (· != sep) with
  | (a, []) => (a, none)
  | (a, _ :: r) => (a, some r)

def splitC (sep : Char) (s : List Char) : List (List Char) :=
  (String.ofList s).splitOn (String.ofList [sep]) |>.map (·.toList)

def hexB (s : List Char) : Option Bytes := decField (String.ofList s)

def parseScopes (s : List Char) : Option (List Scope) :=
  if s == ['-'] then some [] else (splitC '.' s).mapM hexB

def parseDocReq (s : List Char) : Option DocReq :=
  match cut ':' s with
  | (n, none) => do pure ((← hexB n), [])
  | (n, some sc) => do pure ((← hexB n), (← parseScopes sc))

def parseDocAlts (s : String) : Option (Option (List DocAlt)) :=
  if s == "N" then some none
  else if s == "E" then some (some [])
  else do
    let alts ← (splitC '/' s.toList).mapM fun a =>
      if a == ['_'] then some [] else (splitC '+' a).mapM parseDocReq
    pure (some alts)

def parseErr (s : List Char) : Option Err :=
  match s with
  | 'c' :: r =>
    match cut '.' r with
    | (code, some m) => do pure (.coded (← (String.ofList code).toNat?) (← hexB m))
    | _ => none
  | 'p' :: r => do pure (.plain (← hexB r))
  | _ => none

def parseOutcome (s : List Char) : Option Outcome :=
  match s with
  | ['n'] => some .notApplicable
  | ['z'] => some (.accepted none)
  | 'a' :: r => do pure (.accepted (some (← hexB r)))
  | _ => do pure (.rejected (← parseErr s))

def parseOutcomes (s : String) : Option (List (Name × Outcome)) :=
  if s == "." then some []
  else (splitC ',' s.toList).mapM fun it =>
    match cut '=' it with
    | (n, some o) => do pure ((← hexB n), (← parseOutcome o))
    | _ => none

def envOf (l : List (Name × Outcome)) : Env := fun n _ =>
  match l.find? (·.1 == n) with
  | some (_, o) => o
  | none => .notApplicable

def parseAuthz (s : String) : Option (Option Authorizer) :=
  match s.toList with
  | ['-'] => some none
  | ['a'] => some (some fun _ => none)
  | 'D' :: r => do let e ← parseErr r; pure (some fun _ => some e)
  | 'Z' :: r => do let e ← parseErr r; pure (some fun p => if p.isNone then some e else none)
  | 'O' :: r =>
    match cut '.' r with
    | (p, some e) => do
      let p ← hexB p
      let e ← parseErr e
      pure (some fun q => if q == some p then some e else none)
    | _ => none
  | _ => none

def parseReqKind (s : String) : Option ReqKind :=
  match s with
  | "g" => some .good
  | "b" => some .badBody
  | "t" => some .wrongType
  | "q" => some .missingQuery
  | _ => none

/-- observed `built` field: `N` or alternatives of `<hexname>:<R|U>:<scopes>` -/
def parseBuilt (s : String) : Option (List Alt) :=
  if s == "N" then some []
  else (splitC '/' s.toList).mapM fun a =>
    if a == ['_'] then some []
    else (splitC '+' a).mapM fun r =>
      match splitC ':' r with
      | [n, f, sc] => do pure ⟨(← hexB n), (← parseScopes sc), f == ['R']⟩
      | _ => none

/-- log entries are hex("name|scope,scope") -/
def parseCall (b : Bytes) : Call :=
  let n := b.takeWhile (· != 124)
  let r := (b.dropWhile (· != 124)).drop 1
  ⟨n, if r.isEmpty then [] else splitByte 44 r⟩

def parseLog (s : String) : Option (List Call) := (decList s).map (·.map parseCall)

def parseRes (s : String) : Option AuthzRes :=
  match splitC ':' s.toList with
  | [['n','o','a','u','t','h']] => some .noauth
  | [['o','k'], p, sc] => do
    let p ← if p == ['~'] then some none else (hexB p).map some
    pure (.ok p (← parseScopes sc))
  | [['e','r','r'], k, m] =>
    match k with
    | ['p'] => do pure (.err (.plain (← hexB m)))
    | 'c' :: code => do pure (.err (.coded (← (String.ofList code).toNat?) (← hexB m)))
    | _ => none
  | _ => none

/-- The model's alternatives: the declared ones, built, with the schemes of each alternative put in
the observed order. `none` when the observed structure is not a reordering of the declared one. -/
def reorderAlt (b : Alt) (order : List Name) : Option Alt :=
  if ((order.filterMap fun n => b.find? (·.name == n)).map Req.key).isPerm (b.map Req.key)
  then some (order.filterMap fun n => b.find? (·.name == n)) else none

def reorder : List Alt → List (List Name) → Option (List Alt)
  | [], [] => some []
  | b :: bs, o :: os =>
    match reorderAlt b o, reorder bs os with
    | some x, some xs => some (x :: xs)
    | _, _ => none
  | _, _ => none

def renderErr : Err → String
  | .coded c m => s!"c{c}:{encField m}"
  | .plain m => s!"p:{encField m}"

def renderRes : AuthzRes → String
  | .ok p sc => s!"ok:{match p with | some x => encField x | none => "~"}:{sc.length}"
  | .err e => "err:" ++ renderErr e
  | .noauth => "noauth"
  | .panic => "PANIC"

def tagOf (alts : List Alt) (env : Env) (r : AuthzRes) (k : ReqKind) : String :=
  if alts.isEmpty then "~nosec"
  else
    let shape := if alts.any (·.any (!·.registered)) then "+unreg" else ""
    let all := authAll env none false alts
    let rej := if (rejections env all.log).isEmpty then "" else "+afterrej"
    let out := match r with
      | .ok (some _) _ => s!"granted-and{(all.admitted.getD []).length}{rej}"
      | .ok none _ => if all.log.isEmpty then "granted-anon" else "granted-anon+consulted"
      | .err e =>
        if all.err.isSome then "rejected"
        else if all.applies && (all.princ.isSome || allowsAnonymous alts) then
          (if all.princ.isSome then s!"authz-denied{rej}" else "authz-denied-anon")
        else if e == unauthenticated then
          (if alts.any (fun a => !a.isEmpty && (authSchemes env none a).applies && (authSchemes env none a).err.isNone)
            then "401+nilprincipal" else "401")
        else "err?"
      | .noauth => "noauth"
      | .panic => "panic"
    s!"{out}{shape}{if k == .good then "" else "/badreq"}"

def run (ins outs : List String) : Verdict :=
  match ins, outs with
  | ["S", defs, reg, global, op, outcomes, authz, req],
    [built, status, msg, ran, cons, log, dres, dlog, d2res, d2log] =>
    match decList defs, decList reg, parseDocAlts global, parseDocAlts op, parseOutcomes outcomes,
          parseAuthz authz, parseReqKind req with
    | some defs, some reg, some global, some op, some ocs, some authz, some k =>
      match parseBuilt built, status.toNat?, decField msg, ran.toNat?, cons.toNat?, parseLog log,
            parseRes dres, parseLog dlog, parseLog d2log with
      | some obuilt, some status, some msg, some ran, some cons, some log, some dres, some dlog, some d2log =>
        let declared := effective global op
        let env := envOf ocs
        -- buildAuthenticators: the observed structure must be the model's, in the observed order
        let mbuilt := reorder (build defs reg declared) (obuilt.map (·.map (·.name)))
        let alts := mbuilt.getD obuilt
        let agreeBuilt := mbuilt == some obuilt
        -- one served request
        let m := secure alts env authz k
        let admitted := match (authorizeFresh alts env authz).1 with | .ok _ _ => true | _ => alts.isEmpty
        let o : Obs := ⟨status, if admitted then [] else msg, ran != 0, cons, log, false⟩
        let agreeServe := m == o && ran ≤ 1
        -- Context.Authorize directly, twice
        let d1 := authorizeFresh alts env authz
        let agreeD1 := d1 == (dres, dlog)
        let d2 := authorizeAgain alts env authz d1.1
        let agreeD2 :=
          match dres with
          | .ok _ _ => (parseRes d2res).map (fun r => (r, d2log)) == some d2
          | _ => d2res == "-"
        let specOk := specServe declared env authz ⟨status, msg, ran != 0, cons, log, false⟩ &&
          specDirect declared env authz dres dlog
        { agree := agreeBuilt && agreeServe && agreeD1 && agreeD2, specOk := specOk,
          tag := tagOf alts env d1.1 k,
          model := s!"built={if agreeBuilt then "ok" else "DIFF"} serve={m.status},{encField m.msg},{if m.handlerRan then 1 else 0},{m.consumerCalls},log{m.log.length}{if agreeServe then "" else "(DIFF)"} d1={renderRes d1.1},log{d1.2.length}{if agreeD1 then "" else "(DIFF)"} d2={renderRes d2.1},log{d2.2.length}{if agreeD2 then "" else "(DIFF)"}" }
      | _, _, _, _, _, _, _, _, _ => .bad "C02 output fields"
    | _, _, _, _, _, _, _ => .bad "C02 input fields"
  | _, [ "PANIC", msg ] => { agree := false, specOk := false, tag := "panic", model := "no-panic expected; impl: " ++ msg }
  | _, _ => .bad "C02 stream"

end RtVerif.C02
