import RtVerif
/-
  rtdriver: reads protocol lines `<PROP> <in fields> => <out fields>` on stdin, evaluates the Lean
  model and the Lean Spec of that property on each, prints one verdict line per case.
-/
open RtVerif

def dispatch (prop : String) (ins outs : List String) : Verdict :=
  match prop with
  | "C01" => C01.run ins outs
  | "C05" => C05.run ins outs
  | "C07" => C07.run ins outs
  | "C18" => C18.run ins outs
  | "C10" => C10.run ins outs
  | "C06" => C06.run ins outs
  | "C13" => C13.run ins outs
  | "C20" => C20.run ins outs
  | "C02" => C02.run ins outs
  | "C08" => C08.run ins outs
  | "C19" => C19.run ins outs
  | "C14" => C14.run ins outs
  | "C17" => C17.run ins outs
  | "C16" => C16.run ins outs
  | "C11" => C11.run ins outs
  | "C03" => C03.runX ins outs
  | "C09" => C09.run ins outs
  | "C15" => C15.run ins outs
  | "C04" => C04.run ins outs
  | "C12" => C12.run ins outs
  | "C05DA" => C05DA.run ins outs
  | _ => .bad ("unknown property " ++ prop)

partial def loop (h : IO.FS.Stream) (out : IO.FS.Stream) (n : Nat) : IO Unit := do
  let line ← h.getLine
  if line.isEmpty then return ()
  let (ins, outs) := splitLine line
  match ins with
  | [] => loop h out n
  | prop :: rest =>
    let v := dispatch prop rest outs
    out.putStrLn s!"{n} {v.render}"
    loop h out (n + 1)

def main : IO Unit := do
  let out ← IO.getStdout
  loop (← IO.getStdin) out 1
