// Package proto is the line protocol shared by the Go harness and the Lean driver.
//
// A case is one line:  <PROP> <stream> <input fields...> => <output fields...>
// Fields never contain spaces. Byte strings travel as lower-case hex ("-" for the empty string),
// lists of byte strings as comma separated items ("." for the empty list), numbers in decimal.
package proto

import (
	"encoding/hex"
	"fmt"
	"strconv"
	"strings"
)

// B encodes a byte string field.
func B(s string) string {
	if s == "" {
		return "-"
	}
	return hex.EncodeToString([]byte(s))
}

// UnB decodes a byte string field.
func UnB(f string) string {
	if f == "-" {
		return ""
	}
	b, err := hex.DecodeString(f)
	if err != nil {
		panic(fmt.Sprintf("bad hex field %q", f))
	}
	return string(b)
}

// L encodes a list of byte strings.
func L(items []string) string {
	if len(items) == 0 {
		return "."
	}
	out := make([]string, len(items))
	for i, it := range items {
		out[i] = B(it)
	}
	return strings.Join(out, ",")
}

// UnL decodes a list of byte strings.
func UnL(f string) []string {
	if f == "." {
		return nil
	}
	parts := strings.Split(f, ",")
	out := make([]string, len(parts))
	for i, p := range parts {
		out[i] = UnB(p)
	}
	return out
}

// N encodes an integer.
func N(i int) string { return strconv.Itoa(i) }

// UnN decodes an integer.
func UnN(f string) int {
	i, err := strconv.Atoi(f)
	if err != nil {
		panic(fmt.Sprintf("bad int field %q", f))
	}
	return i
}

// Bool encodes a boolean as 0/1.
func Bool(b bool) string {
	if b {
		return "1"
	}
	return "0"
}

// Rng is splitmix64: every random choice of a run derives from the one seed.
type Rng struct{ s uint64 }

func NewRng(seed uint64) *Rng {
	// mix the seed so that consecutive seeds give unrelated streams
	r := &Rng{s: seed ^ 0x5DEECE66D}
	r.s = r.U64() ^ (seed << 32)
	r.s = r.U64()
	return r
}

func (r *Rng) U64() uint64 {
	r.s += 0x9E3779B97F4A7C15
	z := r.s
	z = (z ^ (z >> 30)) * 0xBF58476D1CE4E5B9
	z = (z ^ (z >> 27)) * 0x94D049BB133111EB
	return z ^ (z >> 31)
}

// Intn returns a number in [0,n).
func (r *Rng) Intn(n int) int {
	if n <= 0 {
		return 0
	}
	return int(r.U64() % uint64(n))
}

// Chance is true with probability num/den.
func (r *Rng) Chance(num, den int) bool { return r.Intn(den) < num }

// Pick returns one of the strings.
func (r *Rng) Pick(xs ...string) string { return xs[r.Intn(len(xs))] }

// Bytes returns n bytes drawn from the alphabet.
func (r *Rng) Bytes(alphabet string, n int) string {
	b := make([]byte, n)
	for i := range b {
		b[i] = alphabet[r.Intn(len(alphabet))]
	}
	return string(b)
}

// Prop is one property's generator and executor.
type Prop struct {
	ID string
	// Gen emits inputs (stream name first); n is the requested number of cases.
	Gen func(r *Rng, n int, tier string, emit func(in ...string))
	// Exec runs the real code on one input and returns the canonicalised output fields.
	Exec func(in []string) []string
	// Corpus holds minimised past disagreements / finding witnesses; they run first.
	Corpus [][]string
}

var Registry = map[string]*Prop{}

func Register(p *Prop) { Registry[p.ID] = p }

var cleanups []func()

// OnExit registers something to undo when the harness process ends normally (scratch files).
func OnExit(f func()) { cleanups = append(cleanups, f) }

// RunCleanups runs what OnExit registered (a crashed process leaves its scratch files behind).
func RunCleanups() {
	for _, f := range cleanups {
		f()
	}
	cleanups = nil
}
