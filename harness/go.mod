module verif/harness

go 1.20

require (
	github.com/go-openapi/analysis v0.23.0
	github.com/go-openapi/errors v0.22.1
	github.com/go-openapi/loads v0.22.0
	github.com/go-openapi/runtime v0.0.0
	github.com/go-openapi/spec v0.21.0
	github.com/go-openapi/strfmt v0.23.0
	github.com/go-openapi/swag v0.23.1
)

require (
	github.com/asaskevich/govalidator v0.0.0-20230301143203-a9d515a09cc2 // indirect
	github.com/go-logr/logr v1.4.1 // indirect
	github.com/go-logr/stdr v1.2.2 // indirect
	github.com/go-openapi/jsonpointer v0.21.0 // indirect
	github.com/go-openapi/jsonreference v0.21.0 // indirect
	github.com/go-openapi/validate v0.24.0 // indirect
	github.com/google/uuid v1.6.0 // indirect
	github.com/josharian/intern v1.0.0 // indirect
	github.com/mailru/easyjson v0.9.0 // indirect
	github.com/mitchellh/mapstructure v1.5.0 // indirect
	github.com/oklog/ulid v1.3.1 // indirect
	github.com/opentracing/opentracing-go v1.2.0 // indirect
	go.mongodb.org/mongo-driver v1.14.0 // indirect
	go.opentelemetry.io/otel v1.24.0 // indirect
	go.opentelemetry.io/otel/metric v1.24.0 // indirect
	go.opentelemetry.io/otel/trace v1.24.0 // indirect
	golang.org/x/sync v0.11.0 // indirect
	gopkg.in/yaml.v3 v3.0.1 // indirect
)

replace github.com/go-openapi/runtime => /repo
