package props

import (
	"bufio"
	"bytes"
	"context"
	"encoding/json"
	"fmt"
	"io"
	"net/http"
	"net/http/httptest"
	"net/url"
	"os"
	"path/filepath"
	"sort"
	"strings"
	"time"
	"unicode/utf8"

	"github.com/go-openapi/loads"
	"github.com/go-openapi/runtime"
	"github.com/go-openapi/runtime/client"
	"github.com/go-openapi/runtime/middleware"
	"github.com/go-openapi/runtime/middleware/untyped"
	"github.com/go-openapi/strfmt"
	"github.com/go-openapi/swag"

	"verif/harness/internal/proto"
)

// C04 — client and server agree. Streams:
//
//	W <base> <methods> <templates> <op> <pnames> <pvals> <qkeys> <qkinds> <qvals> <hnames> <hvals>
//	  <fkind n|u|m> <fkeys> <fkinds> <fvals> <filenames> <filecontents> <bkind n|j|t|b|r> <body>
//	  <rstatus> <rhdr> <rkind n|j|t|b> <rbody> <auth 0|1|2>
//	  => <route: R <op> <names> <vals> | S <status>> <handler called 0|1> <bound path values> <qkeys> <qvals> <hnames> <hvals> <fkeys> <fvals>
//	     <filenames> <filecontents> <body> <auth> <client status> <client hdr> <client body>
//	  | CERR <msg>   (the client refused to build or send the request)
//
//	A swagger 2.0 description is generated from the input (one operation per method/template pair,
//	every placeholder a required string path parameter; the selected operation additionally declares
//	the query/header/formData/file/body parameters named in the input). BOTH halves are built from it:
//	client.New(host, base, schemes) + runtime.ClientOperation on one side, middleware.NewContext(doc,
//	untyped API).APIHandler on the other. They are connected by an in-memory RoundTripper that
//	serialises the request with Request.Write, re-reads it with http.ReadRequest, serves it into an
//	httptest.ResponseRecorder, serialises the response with Response.Write and re-reads it with
//	http.ReadResponse: the wire form is exercised in both directions.
//
//	V E <keys> <vals>   => <encoded>                      url.Values.Encode
//	V P <raw query>     => <ok 0|1> <keys> <vals>         url.ParseQuery (keys in order of first appearance)
//	V K <name>          => <canonical>                    http.CanonicalHeaderKey
func init() {
	proto.Register(&proto.Prop{ID: "C04", Gen: c04Gen, Exec: c04Exec, Corpus: c04Corpus()})
}

// ---- field helpers ---------------------------------------------------------------------------

func c04Groups(keys []string, f string) [][]string {
	if len(keys) == 0 {
		return nil
	}
	gs := strings.Split(f, "|")
	if len(gs) != len(keys) {
		panic("C04: value groups do not match keys")
	}
	out := make([][]string, len(keys))
	for i, g := range gs {
		out[i] = proto.UnL(g)
	}
	return out
}

func c04EncGroups(gs [][]string) string {
	if len(gs) == 0 {
		return "."
	}
	out := make([]string, len(gs))
	for i, g := range gs {
		out[i] = proto.L(g)
	}
	return strings.Join(out, "|")
}

func c04Kinds(f string, n int) string {
	if f == "-" {
		f = ""
	}
	if len(f) != n {
		panic("C04: kinds do not match keys")
	}
	return f
}

// ---- the description and the two halves -------------------------------------------------------

type c04Case struct {
	base               string
	methods, templates []string
	op                 int
	pnames, pvals      []string
	qkeys              []string
	qkinds             string
	qvals              [][]string
	hnames, hvals      []string
	fkind              string
	fkeys              []string
	fkinds             string
	fvals              [][]string
	filenames, files   []string
	bkind, body        string
	rstatus            int
	rhdr, rkind, rbody string
	auth               string
}

func c04Decode(in []string) *c04Case {
	c := &c04Case{}
	c.base, c.methods, c.templates, c.op = proto.UnB(in[1]), proto.UnL(in[2]), proto.UnL(in[3]), proto.UnN(in[4])
	c.pnames, c.pvals = proto.UnL(in[5]), proto.UnL(in[6])
	c.qkeys = proto.UnL(in[7])
	c.qkinds = c04Kinds(in[8], len(c.qkeys))
	c.qvals = c04Groups(c.qkeys, in[9])
	c.hnames, c.hvals = proto.UnL(in[10]), proto.UnL(in[11])
	c.fkind, c.fkeys = in[12], proto.UnL(in[13])
	c.fkinds = c04Kinds(in[14], len(c.fkeys))
	c.fvals = c04Groups(c.fkeys, in[15])
	c.filenames, c.files = proto.UnL(in[16]), proto.UnL(in[17])
	c.bkind, c.body = in[18], proto.UnB(in[19])
	c.rstatus, c.rhdr, c.rkind, c.rbody = proto.UnN(in[20]), proto.UnB(in[21]), in[22], proto.UnB(in[23])
	c.auth = in[24]
	return c
}

// c04Valid says whether the fields describe a case of the input space: a loadable swagger 2.0
// description and a request the client can express (the shrinker and replays may produce others).
func c04Valid(c *c04Case) bool {
	if len(c.methods) == 0 || len(c.methods) != len(c.templates) || c.op < 0 || c.op >= len(c.methods) ||
		len(c.pnames) != len(c.pvals) || len(c.hnames) != len(c.hvals) || len(c.filenames) != len(c.files) {
		return false
	}
	if c.base != "" && !strings.HasPrefix(c.base, "/") {
		return false
	}
	seen := map[string]bool{}
	for i, m := range c.methods {
		switch strings.ToLower(m) {
		case "get", "put", "post", "delete", "options", "head", "patch":
		default:
			return false
		}
		if !strings.HasPrefix(c.templates[i], "/") || strings.ContainsAny(c.templates[i], "?#%") {
			return false
		}
		k := strings.ToLower(m) + " " + c.templates[i]
		if seen[k] {
			return false
		}
		seen[k] = true
	}
	if !strings.Contains("num", c.fkind) || len(c.fkind) != 1 || !strings.Contains("njtbr", c.bkind) || len(c.bkind) != 1 ||
		!strings.Contains("njtb", c.rkind) || len(c.rkind) != 1 || !strings.Contains("012", c.auth) || len(c.auth) != 1 {
		return false
	}
	if (c.fkind != "n" && c.bkind != "n") || (c.fkind == "n" && len(c.fkeys)+len(c.filenames) > 0) || (c.fkind != "m" && len(c.filenames) > 0) {
		return false
	}
	canBody := runtime.CanHaveBody(c.methods[c.op])
	if (c.fkind != "n" || c.bkind != "n") && !canBody {
		return false
	}
	canonical := func(b string, v interface{}) bool {
		if json.Unmarshal([]byte(b), v) != nil {
			return false
		}
		out, err := json.Marshal(v)
		return err == nil && string(out) == b
	}
	if c.bkind == "j" {
		var v map[string]interface{}
		if !canonical(c.body, &v) {
			return false
		}
	}
	if (c.bkind == "b" || c.bkind == "r") && c.body == "" {
		return false
	}
	if c.rkind == "j" {
		var v interface{}
		if !canonical(c.rbody, &v) {
			return false
		}
	}
	// the description is a JSON document: names must be valid UTF-8
	for _, l := range [][]string{{c.base}, c.methods, c.templates, c.qkeys, c.hnames, c.fkeys, c.filenames} {
		for _, n := range l {
			if !utf8.ValidString(n) {
				return false
			}
		}
	}
	if c.rstatus < 200 || c.rstatus > 599 || (c.rstatus >= 300 && c.rstatus < 400 && c.rstatus != 304) {
		return false
	}
	if (c.rstatus == 204 || c.rstatus == 304 || strings.EqualFold(c.methods[c.op], "head")) && c.rkind != "n" {
		return false
	}
	// names: distinct per location in Go-name form, distinct across locations
	all := map[string]bool{"body": true, c04AuthHeader: true}
	for _, loc := range [][]string{c04Placeholders(c.templates[c.op]), c.qkeys, c.hnames, append(append([]string{}, c.fkeys...), c.filenames...)} {
		gn := map[string]bool{}
		for _, n := range loc {
			if g := swag.ToGoName(n); gn[g] {
				return false
			} else {
				gn[g] = true
			}
		}
		for _, n := range loc {
			if all[n] {
				return false
			}
		}
		for _, n := range loc {
			all[n] = true
		}
	}
	pn := map[string]bool{}
	for _, n := range c.pnames {
		if pn[n] {
			return false
		}
		pn[n] = true
	}
	okValue := func(v string) bool {
		return !strings.ContainsAny(v, "\r\n") && strings.Trim(v, " \t") == v
	}
	for _, v := range append(append([]string{}, c.hvals...), c.rhdr) {
		if !okValue(v) {
			return false
		}
	}
	for _, n := range c.hnames {
		switch http.CanonicalHeaderKey(n) {
		case "Accept", "Content-Type", "Content-Length", "Host", "Transfer-Encoding", "Connection", "User-Agent", c04RespHeader:
			return false
		}
	}
	return true
}

// c04TryDecode: nil for a line whose fields do not fit together (the shrinker produces such lines)
func c04TryDecode(in []string) (c *c04Case) {
	defer func() {
		if recover() != nil {
			c = nil
		}
	}()
	if len(in) != 25 {
		return nil
	}
	return c04Decode(in)
}

func c04Placeholders(t string) []string {
	var out []string
	for i := 0; i < len(t); i++ {
		if t[i] == '{' {
			j := strings.IndexByte(t[i:], '}')
			if j > 1 {
				out = append(out, t[i+1:i+j])
				i += j
			}
		}
	}
	return out
}

const (
	c04AuthHeader = "X-Auth-Key"
	c04RespHeader = "X-Resp"
)

func c04Mime(kind string) string {
	switch kind {
	case "j":
		return runtime.JSONMime
	case "t":
		return runtime.TextMime
	case "b", "r":
		return runtime.DefaultMime
	case "u":
		return runtime.URLencodedFormMime
	case "m":
		return runtime.MultipartFormMime
	}
	return ""
}

type c04Seen struct {
	routed bool   // the router matched an operation
	route  string // "<op> <names> <vals>" as the router reports them
	op     int
	bound  map[string]interface{}
	body   string
	called bool
}

type c04Responder struct {
	c *c04Case
}

func (r c04Responder) WriteResponse(rw http.ResponseWriter, p runtime.Producer) {
	rw.Header().Set(c04RespHeader, r.c.rhdr)
	rw.WriteHeader(r.c.rstatus)
	var payload interface{}
	switch r.c.rkind {
	case "n":
		return
	case "j":
		var v interface{}
		if err := json.Unmarshal([]byte(r.c.rbody), &v); err != nil {
			panic("C04: response body is not JSON")
		}
		payload = v
	case "t":
		payload = r.c.rbody
	case "b":
		payload = []byte(r.c.rbody)
	}
	if err := p.Produce(rw, payload); err != nil {
		panic(err)
	}
}

// server half: the handler built from the description
func c04Server(c *c04Case, seen *c04Seen) http.Handler {
	str := map[string]interface{}{"type": "string"}
	param := func(name, in string, extra map[string]interface{}) map[string]interface{} {
		p := map[string]interface{}{"name": name, "in": in}
		for k, v := range extra {
			p[k] = v
		}
		return p
	}
	multi := map[string]interface{}{"type": "array", "collectionFormat": "multi", "items": str}
	paths := map[string]map[string]interface{}{}
	for i, t := range c.templates {
		var params []interface{}
		for _, n := range c04Placeholders(t) {
			params = append(params, param(n, "path", map[string]interface{}{"type": "string", "required": true}))
		}
		opd := map[string]interface{}{
			"operationId": "op" + proto.N(i),
			"responses":   map[string]interface{}{"200": map[string]interface{}{"description": "ok"}},
		}
		if i == c.op {
			for j, k := range c.qkeys {
				if c.qkinds[j] == 'm' {
					params = append(params, param(k, "query", multi))
				} else {
					params = append(params, param(k, "query", str))
				}
			}
			for _, k := range c.hnames {
				params = append(params, param(k, "header", str))
			}
			if c.auth != "0" {
				params = append(params, param(c04AuthHeader, "header", str))
			}
			for j, k := range c.fkeys {
				if c.fkinds[j] == 'm' {
					params = append(params, param(k, "formData", multi))
				} else {
					params = append(params, param(k, "formData", str))
				}
			}
			for _, k := range c.filenames {
				params = append(params, param(k, "formData", map[string]interface{}{"type": "file"}))
			}
			switch {
			case c.fkind != "n":
				opd["consumes"] = []string{c04Mime(c.fkind)}
			case c.bkind == "j":
				params = append(params, param("body", "body", map[string]interface{}{"schema": map[string]interface{}{"type": "object"}}))
				opd["consumes"] = []string{c04Mime(c.bkind)}
			case c.bkind != "n":
				// text / bytes bodies: the untyped binder can only bind a body into a map, so the body is
				// consumed by the harness with the negotiated consumer (as a generated server does)
				opd["consumes"] = []string{c04Mime(c.bkind)}
			}
			if c.rkind != "n" {
				opd["produces"] = []string{c04Mime(c.rkind)}
			}
		}
		if len(params) > 0 {
			opd["parameters"] = params
		}
		if paths[t] == nil {
			paths[t] = map[string]interface{}{}
		}
		paths[t][strings.ToLower(c.methods[i])] = opd
	}
	doc := map[string]interface{}{
		"swagger": "2.0", "info": map[string]interface{}{"title": "t", "version": "1"},
		"basePath": c.base, "paths": paths,
	}
	raw, _ := json.Marshal(doc)
	spec, err := loads.Analyzed(json.RawMessage(raw), "")
	if err != nil {
		panic("C04: cannot load generated description: " + err.Error())
	}
	api := untyped.NewAPI(spec)
	api.RegisterConsumer(runtime.TextMime, runtime.TextConsumer())
	api.RegisterProducer(runtime.TextMime, runtime.TextProducer())
	api.RegisterConsumer(runtime.DefaultMime, runtime.ByteStreamConsumer())
	api.RegisterProducer(runtime.DefaultMime, runtime.ByteStreamProducer())
	api.RegisterConsumer(runtime.URLencodedFormMime, runtime.DiscardConsumer)
	api.RegisterConsumer(runtime.MultipartFormMime, runtime.DiscardConsumer)
	for i, t := range c.templates {
		i := i
		api.RegisterOperation(c.methods[i], t, runtime.OperationHandlerFunc(func(data interface{}) (interface{}, error) {
			seen.called = true
			seen.op = i
			seen.bound, _ = data.(map[string]interface{})
			// files are only readable while the request is being served
			for k, v := range seen.bound {
				if f, ok := v.(runtime.File); ok {
					b, _ := io.ReadAll(f.Data)
					// the name that arrives is the base name of the one sent; reported under the case's canonical
					// name f<i>.bin when it is (the model knows that one), as it came otherwise
					got := f.Header.Filename
					for i, fk := range c.filenames {
						if fk == k && got == filepath.Base(c04SentName(i, k, string(b))) {
							got = "f" + proto.N(i) + ".bin"
						}
					}
					seen.bound[k] = "file:" + got + ":" + string(b)
				}
			}
			return c04Responder{c}, nil
		}))
	}
	ctx := middleware.NewContext(spec, api, nil)
	return ctx.APIHandler(func(next http.Handler) http.Handler {
		return http.HandlerFunc(func(w http.ResponseWriter, r *http.Request) {
			route := middleware.MatchedRouteFrom(r)
			if route != nil && route.Operation != nil {
				names := make([]string, len(route.Params))
				vals := make([]string, len(route.Params))
				for i, p := range route.Params {
					names[i], vals[i] = p.Name, p.Value
				}
				seen.routed = true
				seen.route = strings.TrimPrefix(route.Operation.ID, "op") + " " + proto.L(names) + " " + proto.L(vals)
			}
			if route != nil && route.Operation != nil && route.Operation.ID == "op"+proto.N(c.op) && (c.bkind == "t" || c.bkind == "b" || c.bkind == "r") {
				// consume the raw body with the consumer the middleware negotiates, then let the untyped
				// handler bind the remaining parameters
				err := ctx.BindValidRequest(r, route, c04BodyBinder{c, seen})
				if err != nil {
					ctx.Respond(w, r, route.Produces, route, err)
					return
				}
			}
			next.ServeHTTP(w, r)
		})
	})
}

type c04BodyBinder struct {
	c    *c04Case
	seen *c04Seen
}

func (b c04BodyBinder) BindRequest(r *http.Request, route *middleware.MatchedRoute) error {
	if route.Consumer == nil {
		// the request carries no body (an empty payload): nothing to consume
		b.seen.body = ""
		return nil
	}
	if b.c.bkind == "t" {
		var s string
		if err := route.Consumer.Consume(r.Body, &s); err != nil {
			return err
		}
		b.seen.body = s
		return nil
	}
	var buf bytes.Buffer
	if err := route.Consumer.Consume(r.Body, &buf); err != nil {
		return err
	}
	b.seen.body = buf.String()
	return nil
}

// c04Sum is a checksum of the case: everything Exec chooses on its own is a function of the input
// fields, so a case replays identically.
func c04Sum(fields ...string) int {
	h := uint32(2166136261)
	for _, f := range fields {
		for i := 0; i < len(f); i++ {
			h = (h ^ uint32(f[i])) * 16777619
		}
		h = (h ^ 0xff) * 16777619
	}
	return int(h>>3) & 0xfffffff
}

// c04Knobs: the public ways a caller can set up the SAME call. None of them changes what the
// caller supplies or what the handler should get.
type c04Knobs struct {
	construct int  // 0 client.New + Runtime.Transport; 1 client.NewWithClient(preset http.Client); 2 ClientOperation.Client; 3 New + EnableConnectionReuse
	submit    int  // 0 Runtime.Submit; 1 Runtime.WithOpenTracing().Submit; 2 Runtime.WithOpenTelemetry().Submit
	context   int  // 0 none; 1 ClientOperation.Context with a value; 2 Runtime.Context = nil; 3 ClientOperation.Context with a far deadline
	debug     bool // Runtime.SetDebug(true): request and response are dumped (to a silent logger)
	defAuth   bool // the auth writer is Runtime.DefaultAuthentication instead of ClientOperation.AuthInfo
	schemes   int  // 0 {"http"} for both; 1 runtime {"https","http"} (https is preferred; the wire does not care); 2 runtime none, operation {"http"}
	reverse   bool // the request writer sets body, files, form, header, query, path — in that order
	payload   int  // which Go type carries the body (c04Payload)
	file      int  // which implementation of runtime.NamedReadCloser carries a file (c04MakeFile)
	emptyNil  bool // a parameter without values is set with an empty non-nil slice instead of nil
	staticQ   int  // 1: the base path carries a static query parameter; 2: the path pattern does
	realWire  bool // a real net/http server and the default transport over TCP instead of the in-memory wire
	timeout   bool // the request writer sets a (generous) timeout
	getters   bool // the body-reading auth writer also reads every other getter of runtime.ClientRequest
}

func c04KnobsOf(sum int) c04Knobs {
	k := c04Knobs{}
	k.construct = []int{0, 0, 1, 2, 3}[sum%5]
	k.submit = []int{0, 0, 0, 1, 2}[(sum/5)%5]
	k.context = (sum / 25) % 4
	k.debug = (sum/100)%6 == 0
	k.defAuth = (sum/600)%2 == 1
	k.schemes = (sum / 1200) % 3
	k.reverse = (sum/3600)%2 == 1
	k.payload = (sum / 7200) % 6
	k.file = (sum / 43200) % 4
	k.emptyNil = (sum/172800)%2 == 1
	k.staticQ = []int{0, 0, 0, 0, 0, 0, 1, 2}[(sum/345600)%8]
	k.realWire = (sum/2764800)%8 == 0
	k.timeout = (sum/22118400)%6 == 0
	k.getters = (sum/132710400)%2 == 1
	if k.submit != 0 && k.context == 0 {
		k.context = 1 // the tracing transports only do something for an operation with a context
	}
	if k.realWire {
		k.schemes = 0
	}
	return k
}

type c04Quiet struct{}

func (c04Quiet) Printf(string, ...interface{}) {}
func (c04Quiet) Debugf(string, ...interface{}) {}

type c04CtxKey struct{}

// c04Static is the name of the static query parameter of knob staticQ (no generated name)
const c04StaticQ = "zz-static"

// the wire: Request.Write -> http.ReadRequest -> handler -> Response.Write -> http.ReadResponse
type c04Wire struct{ h http.Handler }

func (t c04Wire) RoundTrip(req *http.Request) (*http.Response, error) {
	var buf bytes.Buffer
	if err := req.Write(&buf); err != nil {
		return nil, err
	}
	sreq, err := http.ReadRequest(bufio.NewReader(&buf))
	if err != nil {
		return nil, fmt.Errorf("server could not read the request: %w", err)
	}
	rec := httptest.NewRecorder()
	t.h.ServeHTTP(rec, sreq)
	var rb bytes.Buffer
	if err := rec.Result().Write(&rb); err != nil {
		return nil, err
	}
	return http.ReadResponse(bufio.NewReader(&rb), req)
}

type c04File struct {
	name string
	*bytes.Reader
}

func (f c04File) Name() string { return f.name }
func (f c04File) Close() error { return nil }

// c04PlainFile has nothing but what the interface asks for (no Len, no Seek)
type c04PlainFile struct {
	name string
	r    io.Reader
}

func (f *c04PlainFile) Name() string               { return f.name }
func (f *c04PlainFile) Read(p []byte) (int, error) { return f.r.Read(p) }
func (f *c04PlainFile) Close() error               { return nil }

// c04TypedFile says itself what its media type is (the client then does not sniff)
type c04TypedFile struct{ c04PlainFile }

func (f *c04TypedFile) ContentType() string { return "application/x-c04" }

// c04SentName: the file's own name is the caller's business (a reader without a name, a path, odd characters):
// whatever it is, the part is a file, its base name and its content arrive.
func c04SentName(i int, key, content string) string {
	name := "f" + proto.N(i) + ".bin"
	return []string{name, "", ".", "dir/sub/" + name, "a b;c=d.txt", "q\"uote.bin", name}[(len(content)+i+len(key))%7]
}

// c04MakeFile: one of the implementations of runtime.NamedReadCloser a caller may hand over
func c04MakeFile(kind int, name, content string, tmp *[]string) runtime.NamedReadCloser {
	switch kind {
	case 1:
		return &c04PlainFile{name, iotest1{strings.NewReader(content)}}
	case 2:
		return &c04TypedFile{c04PlainFile{name, strings.NewReader(content)}}
	case 3:
		// a real *os.File (its Name() is a full path: the client sends the base name)
		dir, err := os.MkdirTemp("", "c04")
		if err != nil {
			panic(err)
		}
		*tmp = append(*tmp, dir)
		if err := os.WriteFile(filepath.Join(dir, name), []byte(content), 0o600); err != nil {
			panic(err)
		}
		f, err := os.Open(filepath.Join(dir, name))
		if err != nil {
			panic(err)
		}
		return f
	}
	return c04File{name, bytes.NewReader([]byte(content))}
}

// iotest1 delivers at most 7 bytes per Read (short reads are legal for an io.Reader)
type iotest1 struct{ r io.Reader }

func (o iotest1) Read(p []byte) (int, error) {
	if len(p) > 7 {
		p = p[:7]
	}
	return o.r.Read(p)
}

type c04Stringer string

func (s c04Stringer) String() string { return string(s) }

// c04Payload: the body as one of the Go values a caller may hand to SetBodyParam for this kind
func c04Payload(c *c04Case, kind int, tmp *[]string) interface{} {
	switch c.bkind {
	case "j":
		if c.body == c04ZeroJSON {
			// the same document as a typed value whose fields are all zero (what generated clients send)
			if kind%2 == 1 {
				return &c04Zero{}
			}
			return c04Zero{}
		}
		var v interface{}
		if err := json.Unmarshal([]byte(c.body), &v); err != nil {
			panic("C04: body is not JSON")
		}
		switch kind % 3 {
		case 1:
			return json.RawMessage(c.body)
		case 2:
			m := v.(map[string]interface{})
			return &m
		}
		return v
	case "t":
		// (a []byte is not text for the text producer: it is rendered as a JSON value)
		switch kind % 3 {
		case 1:
			return &c.body
		case 2:
			return c04Stringer(c.body)
		}
		return c.body
	case "b":
		if kind%2 == 1 {
			return c.body // the byte stream producer takes a string too
		}
		return []byte(c.body)
	case "r":
		// an io.Reader payload is streamed; readers net/http knows the length of are sent with a
		// Content-Length, the others chunked
		switch kind {
		case 1:
			return strings.NewReader(c.body)
		case 2:
			return bytes.NewBufferString(c.body)
		case 3:
			return iotest1{strings.NewReader(c.body)} // a Reader that is no Closer, short reads
		case 4:
			return c04MakeFile(3, "body.bin", c.body, tmp) // a real *os.File
		case 5:
			return io.NopCloser(iotest1{bytes.NewReader([]byte(c.body))})
		}
		return io.NopCloser(strings.NewReader(c.body))
	}
	return nil
}

type c04Writer struct {
	c   *c04Case
	k   c04Knobs
	tmp *[]string
}

func (w c04Writer) WriteToRequest(req runtime.ClientRequest, _ strfmt.Registry) error {
	c := w.c
	vals := func(v []string) []string {
		if len(v) == 0 && w.k.emptyNil {
			return []string{}
		}
		if len(v) == 0 {
			return nil
		}
		return v
	}
	steps := []func() error{
		func() error {
			for i, n := range c.pnames {
				if err := req.SetPathParam(n, c.pvals[i]); err != nil {
					return err
				}
			}
			return nil
		},
		func() error {
			for i, k := range c.qkeys {
				if err := req.SetQueryParam(k, vals(c.qvals[i])...); err != nil {
					return err
				}
			}
			return nil
		},
		func() error {
			for i, k := range c.hnames {
				if err := req.SetHeaderParam(k, c.hvals[i]); err != nil {
					return err
				}
			}
			return nil
		},
		func() error {
			for i, k := range c.fkeys {
				if err := req.SetFormParam(k, vals(c.fvals[i])...); err != nil {
					return err
				}
			}
			return nil
		},
		func() error {
			for i, k := range c.filenames {
				// the file's own name is the caller's business (a reader without a name, a path, odd characters):
				// whatever it is, the part is a file and its content arrives
				name := "f" + proto.N(i) + ".bin"
				if w.k.file != 3 { // (a real *os.File needs a name the file system takes)
					name = c04SentName(i, k, c.files[i])
				}
				if err := req.SetFileParam(k, c04MakeFile(w.k.file, name, c.files[i], w.tmp)); err != nil {
					return err
				}
			}
			return nil
		},
		func() error {
			if c.bkind == "n" {
				return nil
			}
			return req.SetBodyParam(c04Payload(c, w.k.payload, w.tmp))
		},
		func() error {
			if w.k.timeout {
				return req.SetTimeout(90 * time.Second)
			}
			return nil
		},
	}
	if w.k.reverse {
		for i, j := 0, len(steps)-1; i < j; i, j = i+1, j-1 {
			steps[i], steps[j] = steps[j], steps[i]
		}
	}
	for _, st := range steps {
		if err := st(); err != nil {
			return err
		}
	}
	return nil
}

type c04ClientSaw struct {
	status    int
	hdr, body string
}

func c04Exec(in []string) []string {
	switch in[0] {
	case "V":
		return c04ExecV(in[1:])
	case "W":
	default:
		panic("C04: unknown stream " + in[0])
	}
	c := c04TryDecode(in)
	if c == nil {
		return []string{"INVALID"}
	}
	if !c04Valid(c) {
		return []string{"INVALID"}
	}
	seen := &c04Seen{}
	h := c04Server(c, seen)

	// ---- the client half, set up one of the equivalent ways (c04Knobs)
	k := c04KnobsOf(c04Sum(in...))
	var tmp []string
	defer func() {
		for _, d := range tmp {
			_ = os.RemoveAll(d)
		}
	}()
	host := "example.test"
	var wire http.RoundTripper = c04Wire{h}
	if k.realWire {
		srv := httptest.NewServer(h)
		defer srv.Close()
		host = strings.TrimPrefix(srv.URL, "http://")
		tr := &http.Transport{}
		defer tr.CloseIdleConnections()
		wire = tr
	}
	base := c.base
	if k.staticQ == 1 {
		base += "?" + c04StaticQ + "=1"
	}
	rtSchemes := [][]string{{"http"}, {"https", "http"}, nil}[k.schemes]
	var rt *client.Runtime
	var opClient *http.Client
	switch k.construct {
	case 1:
		rt = client.NewWithClient(host, base, rtSchemes, &http.Client{Transport: wire})
	case 2:
		rt = client.New(host, base, rtSchemes)
		opClient = &http.Client{Transport: wire}
	case 3:
		rt = client.New(host, base, rtSchemes)
		rt.Transport = wire
		rt.EnableConnectionReuse()
	default:
		rt = client.New(host, base, rtSchemes)
		rt.Transport = wire
	}
	if k.debug {
		oldDebug, oldLogger := middleware.Debug, middleware.Logger
		defer func() { middleware.Debug, middleware.Logger = oldDebug, oldLogger }()
		rt.SetLogger(c04Quiet{})
		rt.SetDebug(true)
	}
	if k.context == 2 {
		rt.Context = nil
	}
	var saw c04ClientSaw
	reader := runtime.ClientResponseReaderFunc(func(resp runtime.ClientResponse, cons runtime.Consumer) (interface{}, error) {
		saw.status = resp.Code()
		saw.hdr = resp.GetHeader(c04RespHeader)
		kind := c.rkind
		if mt, _, _ := strings.Cut(resp.GetHeader(runtime.HeaderContentType), ";"); kind != "n" && mt != c04Mime(kind) {
			kind = "n" // not the handler's answer (an error rendered by the middleware): read it raw
		}
		switch kind {
		case "j":
			var v interface{}
			if err := cons.Consume(resp.Body(), &v); err != nil {
				return nil, err
			}
			b, _ := json.Marshal(v)
			saw.body = string(b)
		case "t":
			var s string
			if err := cons.Consume(resp.Body(), &s); err != nil {
				return nil, err
			}
			saw.body = s
		case "b":
			var buf bytes.Buffer
			if err := cons.Consume(resp.Body(), &buf); err != nil {
				return nil, err
			}
			saw.body = buf.String()
		default:
			b, _ := io.ReadAll(resp.Body())
			saw.body = string(b)
		}
		return nil, nil
	})
	op := &runtime.ClientOperation{
		ID: "op" + proto.N(c.op), Method: c04WireMethod(c), PathPattern: c.templates[c.op],
		Schemes: []string{"http"}, Params: c04Writer{c, k, &tmp}, Reader: reader, Client: opClient,
	}
	if k.staticQ == 2 {
		op.PathPattern += "?" + c04StaticQ + "=2"
	}
	switch k.context {
	case 1:
		op.Context = context.WithValue(context.Background(), c04CtxKey{}, "v")
	case 3:
		ctx, cancel := context.WithTimeout(context.Background(), 90*time.Second)
		defer cancel()
		op.Context = ctx
	}
	switch {
	case c.fkind != "n":
		op.ConsumesMediaTypes = []string{c04Mime(c.fkind)}
	case c.bkind != "n":
		op.ConsumesMediaTypes = []string{c04Mime(c.bkind)}
	}
	if c.rkind != "n" {
		op.ProducesMediaTypes = []string{c04Mime(c.rkind)}
	}
	switch c.auth {
	case "1":
		op.AuthInfo = client.APIKeyAuth(c04AuthHeader, "header", "k1")
	case "2":
		// a writer that asks for the body (forces the buffered copy of streamed bodies)
		op.AuthInfo = runtime.ClientAuthInfoWriterFunc(func(req runtime.ClientRequest, _ strfmt.Registry) error {
			_ = req.GetBody()
			if k.getters {
				// a signing writer looks at everything; looking changes nothing
				_, _, _, _, _, _ = req.GetMethod(), req.GetPath(), req.GetQueryParams(), req.GetHeaderParams(), req.GetBodyParam(), req.GetFileParam()
				_ = req.GetBody()
			}
			return req.SetHeaderParam(c04AuthHeader, "got-body")
		})
	}
	if k.defAuth && op.AuthInfo != nil {
		rt.DefaultAuthentication, op.AuthInfo = op.AuthInfo, nil
	}
	var transport runtime.ClientTransport = rt
	switch k.submit {
	case 1:
		transport = rt.WithOpenTracing()
	case 2:
		transport = rt.WithOpenTelemetry()
	}
	if _, err := transport.Submit(op); err != nil {
		return []string{"CERR", proto.B(err.Error())}
	}

	// what the server-side handler received
	out := make([]string, 0, 16)
	if !seen.routed {
		out = append(out, "S", proto.N(saw.status))
	} else {
		out = append(out, "R")
		out = append(out, strings.Fields(seen.route)...)
	}
	if !seen.called {
		out = append(out, "0", ".")
	} else {
		names := c04Placeholders(c.templates[seen.op])
		vals := make([]string, len(names))
		for i, n := range names {
			vals[i] = c04Str(seen.bound[n])
		}
		out = append(out, "1", proto.L(vals))
	}
	get := func(keys []string) ([]string, [][]string) {
		var ks []string
		var vs [][]string
		for _, k := range keys {
			v, ok := seen.bound[k]
			if !ok {
				continue
			}
			ks = append(ks, k)
			switch x := v.(type) {
			case []string:
				vs = append(vs, x)
			default:
				vs = append(vs, []string{c04Str(x)})
			}
		}
		return ks, vs
	}
	qk, qv := get(c.qkeys)
	out = append(out, proto.L(qk), c04EncGroups(qv))
	hk, hv := get(c.hnames)
	hflat := make([]string, len(hv))
	for i := range hv {
		hflat[i] = hv[i][0]
	}
	out = append(out, proto.L(hk), proto.L(hflat))
	fk, fv := get(c.fkeys)
	out = append(out, proto.L(fk), c04EncGroups(fv))
	filek, filev := get(c.filenames)
	fflat := make([]string, len(filev))
	for i := range filev {
		fflat[i] = filev[i][0]
	}
	out = append(out, proto.L(filek), proto.L(fflat))
	body := seen.body
	if c.bkind == "j" {
		if b, ok := seen.bound["body"]; ok {
			j, _ := json.Marshal(b)
			body = string(j)
		}
	}
	out = append(out, proto.B(body))
	out = append(out, proto.B(c04Str(seen.bound[c04AuthHeader])))
	out = append(out, proto.N(saw.status), proto.B(saw.hdr), proto.B(saw.body))
	return out
}

func c04Str(v interface{}) string {
	switch x := v.(type) {
	case nil:
		return ""
	case string:
		return x
	}
	return fmt.Sprintf("%#v", v)
}

// ---- stdlib validation streams ----------------------------------------------------------------

func c04ExecV(in []string) []string {
	switch in[0] {
	case "E":
		keys := proto.UnL(in[1])
		vals := c04Groups(keys, in[2])
		v := url.Values{}
		for i, k := range keys {
			v[k] = vals[i]
		}
		return []string{proto.B(v.Encode())}
	case "P":
		raw := proto.UnB(in[1])
		v, err := url.ParseQuery(raw)
		// keys in hex order (the model sorts the same way)
		keys := make([]string, 0, len(v))
		for k := range v {
			keys = append(keys, k)
		}
		sort.Slice(keys, func(i, j int) bool { return proto.B(keys[i]) < proto.B(keys[j]) })
		vals := make([][]string, len(keys))
		for i, k := range keys {
			vals[i] = v[k]
		}
		return []string{proto.Bool(err == nil), proto.L(keys), c04EncGroups(vals)}
	case "K":
		return []string{proto.B(http.CanonicalHeaderKey(proto.UnB(in[1])))}
	}
	panic("C04: unknown V stream")
}

// ---- generator --------------------------------------------------------------------------------

func c04W(c *c04Case) []string {
	kinds := func(k string) string {
		if k == "" {
			return "-"
		}
		return k
	}
	return []string{"W", proto.B(c.base), proto.L(c.methods), proto.L(c.templates), proto.N(c.op),
		proto.L(c.pnames), proto.L(c.pvals),
		proto.L(c.qkeys), kinds(c.qkinds), c04EncGroups(c.qvals),
		proto.L(c.hnames), proto.L(c.hvals),
		c.fkind, proto.L(c.fkeys), kinds(c.fkinds), c04EncGroups(c.fvals),
		proto.L(c.filenames), proto.L(c.files),
		c.bkind, proto.B(c.body), proto.N(c.rstatus), proto.B(c.rhdr), c.rkind, proto.B(c.rbody), c.auth}
}

func c04Plain() *c04Case {
	return &c04Case{base: "/", methods: []string{"get"}, templates: []string{"/a/{id}"}, pnames: []string{"id"}, pvals: []string{"1"},
		fkind: "n", bkind: "n", rstatus: 200, rkind: "n", auth: "0"}
}

func c04Corpus() [][]string {
	var out [][]string
	add := func(f func(c *c04Case)) {
		c := c04Plain()
		f(c)
		out = append(out, c04W(c))
	}
	// reserved bytes of the trie router and of URLs inside a path value (round-trip since the C05 repair)
	add(func(c *c04Case) { c.pvals = []string{":"} })
	add(func(c *c04Case) { c.pvals = []string{"*"} })
	add(func(c *c04Case) { c.pvals = []string{"a#b?c/d%2F e+f"} })
	// F04a: urlencoded form fields of a DELETE request
	add(func(c *c04Case) {
		c.methods = []string{"delete"}
		c.fkind, c.fkeys, c.fkinds, c.fvals = "u", []string{"f"}, "s", [][]string{{"v"}}
	})
	// F03c (repaired by C03's fix): a header parameter declared in lower case
	add(func(c *c04Case) { c.hnames, c.hvals = []string{"x-rate"}, []string{"7"} })
	// the stated exclusions: empty value and dot segments; F10a (C10) for an empty first segment
	add(func(c *c04Case) { c.pvals = []string{""} })
	add(func(c *c04Case) { c.pvals = []string{".."} })
	add(func(c *c04Case) { c.templates, c.pvals = []string{"/{id}/x"}, []string{""} })
	// an ambiguity of the description: the value spells the static sibling
	add(func(c *c04Case) {
		c.methods, c.templates, c.pvals = []string{"get", "get"}, []string{"/a/{id}", "/a/mine"}, []string{"mine"}
	})
	return out
}

var (
	c04Static  = []string{"pets", "store", "a", "b", "x.y", "mine", "a-b", "~u", "v1", "a;b", "x=1", "(s)", "a,b", "$x", "it's"}
	c04Unsafe  = []string{"\xc3\xa9", "a b", "x\"y", "<s>", "a|b"}
	c04PNames  = []string{"id", "petId", "name", "x", "k1", "n"}
	c04QNames  = []string{"q", "limit", "tags", "a b", "k&=", "q\xc3\xa9", "x-y", "Q", "q[]", "q;r", "q+%", ""}
	c04HNames  = []string{"X-Rate", "x-lower", "X-Request-ID", "x-UPPER-lower", "Etag", "x_under", "X-A.b", "x-rate-2", "X"}
	c04BadH    = []string{"X Bad", "", "X:Y", "\xc3\xa9", "x-rate"}
	c04FNames  = []string{"f", "field", "g h", "f&=", "f\xc3\xa9", "F", "f[]"}
	c04FileN   = []string{"up", "file", "doc 1"}
	c04Bounds  = []string{"0", "-1", "9223372036854775807", "-9223372036854775808", "18446744073709551616", "1e400", "007", "3.14", "NaN", "true", "null"}
	c04Methods = []string{"get", "post", "put", "patch", "delete", "options", "GET", "Post", "head", "HEAD", "DELETE", "Options", "pAtCh", "Put"}
	c04BodyM   = []string{"post", "put", "patch", "delete", "POST", "Put"}
	c04Status  = []int{200, 200, 200, 201, 202, 203, 204, 299, 304, 400, 401, 404, 409, 418, 422, 500, 503,
		200, 200, 204, 205, 206, 207, 226, 250, 402, 403, 405, 406, 410, 415, 429, 451, 499, 501, 502, 504, 511, 599}
)

// arbitrary value for a path/query/form position
func c04Value(r *proto.Rng) string {
	switch r.Intn(12) {
	case 0:
		return r.Pick("a/b", "a?b=c", "a#frag", "50%", "%2F", "%zz", "a b", "x;y", "{id}", "{", "}", "a+b", ":", "*", "#", "a:b", "*x", "a=b&c=d", "~", "..a", "a..", "...", " ", "\t")
	case 1, 2:
		return r.Bytes("ab/?#%{} .:*+\xc3\xa9\x00\xff&=;,'\"\\", 1+r.Intn(8))
	case 3:
		return r.Pick(c04Bounds...)
	case 4:
		return r.Pick("\xc3\xa9t\xc3\xa9", "\xe6\x97\xa5\xe6\x9c\xac", "\xf0\x9f\x98\x80", "\xff\xfe", "a\x00b")
	case 5:
		return r.Bytes("abcdefghijklmnopqrstuvwxyz0123456789-._~", 1+r.Intn(40))
	default:
		return r.Pick("1", "42", "abc", "kitty", "A-Z", "x_y", "mine", "pets")
	}
}

// header values: no CR/LF, no leading/trailing whitespace (net/http trims / rejects them)
func c04HeaderValue(r *proto.Rng) string {
	switch r.Intn(6) {
	case 0:
		return r.Pick("", "a b", "a\tb", "a, b", "a;q=1", "50%", "\xc3\xa9", "\"quoted\"", "x=y&z", "\xff", "a:b")
	case 1:
		v := r.Bytes("ab ,;:=%\xc3\xa9\xa9\"/\\~\t", 1+r.Intn(10))
		return strings.Trim(v, " \t")
	default:
		return r.Pick("1", "42", "token", "abc-def", "W/\"etag\"")
	}
}

func c04Take(r *proto.Rng, pool []string, n int) []string {
	p := append([]string(nil), pool...)
	var out []string
	// go-openapi/analysis keys the parameters of an operation by location + swag.ToGoName(name):
	// names of one location must differ in that form
	seen := map[string]bool{}
	for i := 0; i < n && len(p) > 0; i++ {
		j := r.Intn(len(p))
		if g := swag.ToGoName(p[j]); !seen[g] {
			seen[g] = true
			out = append(out, p[j])
		}
		p = append(p[:j], p[j+1:]...)
	}
	return out
}

func c04Template(r *proto.Rng, names *[]string, odd bool) string {
	n := 1 + r.Intn(4)
	var sb strings.Builder
	for i := 0; i < n; i++ {
		sb.WriteByte('/')
		k := r.Intn(10)
		switch {
		case k < 4 && len(*names) > 0:
			j := r.Intn(len(*names))
			sb.WriteString("{" + (*names)[j] + "}")
			*names = append((*names)[:j], (*names)[j+1:]...)
		case k == 4 && odd && len(*names) > 0:
			j := r.Intn(len(*names))
			sb.WriteString(r.Pick("v", "") + "{" + (*names)[j] + "}" + r.Pick(".json", "-z"))
			*names = append((*names)[:j], (*names)[j+1:]...)
		case k == 5 && r.Chance(1, 8):
			// static text that net/url escapes in a request path (known finding F04b)
			sb.WriteString(r.Pick(c04Unsafe...))
		default:
			sb.WriteString(r.Pick(c04Static...))
		}
	}
	if r.Chance(1, 20) {
		sb.WriteByte('/')
	}
	return sb.String()
}

func c04JSON(r *proto.Rng, depth int) interface{} {
	switch k := r.Intn(8); {
	case k == 0 && depth < 2:
		n := r.Intn(3)
		a := make([]interface{}, n)
		for i := range a {
			a[i] = c04JSON(r, depth+1)
		}
		return a
	case k == 1 && depth < 2:
		return c04JSONObject(r, depth+1)
	case k == 2:
		return float64(r.Intn(2000000) - 1000000)
	case k == 3:
		return r.Chance(1, 2)
	case k == 4:
		return nil
	default:
		return r.Pick("", "x", "a b", "\xc3\xa9", "<&>", "\"q\"", "line\nbreak", " ", "tab\t")
	}
}

// c04Zero is a body value all of whose fields are zero; c04ZeroJSON is its JSON document.
type c04Zero struct {
	Count   int    `json:"count"`
	Enabled bool   `json:"enabled"`
	Label   string `json:"label"`
}

// (keys in sorted order: the canonical rendering the case format asks for)
const c04ZeroJSON = `{"count":0,"enabled":false,"label":""}`

func c04JSONObject(r *proto.Rng, depth int) map[string]interface{} {
	m := map[string]interface{}{}
	for i, n := 0, r.Intn(4); i < n; i++ {
		m[r.Pick("a", "b", "id", "name", "k v", "\xc3\xa9")] = c04JSON(r, depth)
	}
	return m
}

func c04Blob(r *proto.Rng, tier string) string {
	max := 1100
	if tier == "thorough" && r.Chance(1, 20) {
		max = 70000
	}
	switch r.Intn(6) {
	case 0:
		return ""
	case 1:
		return r.Pick("x", "\r\n", "--", "\x00", "--boundary\r\nContent-Disposition: form-data; name=\"f\"\r\n\r\nv\r\n", "<html>", "\xff\xd8\xff")
	case 2:
		return r.Bytes("\x00\x01\xff\r\n-ab", r.Intn(max))
	case 3:
		return r.Bytes("abcdefghij \n", 500+r.Intn(30)) // around the 512-byte sniffing buffer
	default:
		return r.Bytes("abc\xc3\xa9 \n", r.Intn(64))
	}
}

func c04GenCase(r *proto.Rng, tier string) *c04Case {
	c := &c04Case{fkind: "n", bkind: "n", rkind: "n", auth: "0", rstatus: 200}
	c.base = r.Pick("/", "", "/api", "/api/", "/v1/base", "/a")
	if r.Chance(1, 10) {
		c.base = r.Pick("/a/b/c/", "/api/v2/", "/v1/base/", "/~u", "/x.y/z")
	}
	nops := 1 + r.Intn(3)
	if tier == "thorough" && r.Chance(1, 4) {
		nops = 4 + r.Intn(6)
	}
	odd := r.Chance(1, 20)
	seen := map[string]bool{}
	var firstT string
	for len(c.methods) < nops {
		names := append([]string(nil), c04PNames...)
		t := c04Template(r, &names, odd)
		if firstT != "" && r.Chance(1, 3) {
			// a sibling of the first template: same shape, one segment changed
			segs := strings.Split(strings.TrimSuffix(firstT, "/"), "/")
			j := 1 + r.Intn(len(segs)-1)
			if strings.HasPrefix(segs[j], "{") {
				segs[j] = r.Pick(c04Static...)
			} else if r.Chance(1, 2) {
				segs[j] = "{" + r.Pick("s1", "s2") + "}"
			} else {
				segs[j] = r.Pick(c04Static...)
			}
			t = strings.Join(segs, "/")
		}
		m := r.Pick(c04Methods...)
		if len(c.methods) > 0 && r.Chance(1, 2) {
			m = c.methods[0]
		}
		k := strings.ToLower(m) + " " + t
		if seen[k] {
			if r.Chance(1, 4) {
				nops--
			}
			continue
		}
		seen[k] = true
		if firstT == "" {
			firstT = t
		}
		c.methods = append(c.methods, m)
		c.templates = append(c.templates, t)
	}
	c.op = r.Intn(len(c.methods))
	// path values
	for _, nm := range c04Placeholders(c.templates[c.op]) {
		dup := false
		for _, x := range c.pnames {
			dup = dup || x == nm
		}
		if dup {
			continue
		}
		c.pnames = append(c.pnames, nm)
		switch {
		case r.Chance(1, 25):
			c.pvals = append(c.pvals, r.Pick("", ".", ".."))
		case r.Chance(1, 8):
			c.pvals = append(c.pvals, r.Pick(c04Static...)) // may spell a static sibling
		default:
			c.pvals = append(c.pvals, c04Value(r))
		}
	}
	multi := func(keys []string) (string, [][]string) {
		var kinds strings.Builder
		vals := make([][]string, len(keys))
		for i := range keys {
			if r.Chance(1, 2) {
				kinds.WriteByte('m')
				for j, n := 0, r.Intn(4); j < n; j++ {
					vals[i] = append(vals[i], c04Value(r))
				}
			} else {
				kinds.WriteByte('s')
				n := 1
				if r.Chance(1, 10) {
					n = r.Intn(3)
				}
				for j := 0; j < n; j++ {
					vals[i] = append(vals[i], c04Value(r))
				}
			}
		}
		return kinds.String(), vals
	}
	if r.Chance(1, 2) {
		c.qkeys = c04Take(r, c04QNames, 1+r.Intn(3))
		c.qkinds, c.qvals = multi(c.qkeys)
	}
	if r.Chance(2, 5) {
		c.hnames = c04Take(r, c04HNames, 1+r.Intn(2))
		if r.Chance(1, 25) {
			c.hnames = append(c.hnames, r.Pick(c04BadH...))
		}
		for range c.hnames {
			c.hvals = append(c.hvals, c04HeaderValue(r))
		}
	}
	canBody := false
	for _, m := range c04BodyM {
		canBody = canBody || strings.EqualFold(m, c.methods[c.op])
	}
	if canBody {
		switch r.Intn(5) {
		case 0:
			c.fkind = "u"
		case 1:
			c.fkind = "m"
		case 2, 3:
			c.bkind = r.Pick("j", "j", "t", "b", "r")
		}
	}
	if c.fkind != "n" {
		c.fkeys = c04Take(r, c04FNames, r.Intn(4))
		c.fkinds, c.fvals = multi(c.fkeys)
		if c.fkind == "m" {
			c.filenames = c04Take(r, c04FileN, r.Intn(3))
			for range c.filenames {
				c.files = append(c.files, c04Blob(r, tier))
			}
		}
	}
	switch c.bkind {
	case "j":
		b, _ := json.Marshal(c04JSONObject(r, 0))
		c.body = string(b)
		if r.Chance(1, 8) {
			c.body = c04ZeroJSON
		}
	case "t":
		c.body = r.Pick("", "hello", "\xc3\xa9t\xc3\xa9\n", "a\r\nb", "\xff\x00") + r.Bytes("ab \n", r.Intn(20))
	case "b", "r":
		c.body = c04Blob(r, tier)
		if c.body == "" {
			c.body = "\x00" // an empty payload is no payload: the server would not see a body at all
		}
	}
	// the response
	c.rstatus = c04Status[r.Intn(len(c04Status))]
	if r.Chance(1, 2) {
		c.rhdr = c04HeaderValue(r)
	}
	if c.rstatus != 204 && c.rstatus != 304 && !strings.EqualFold(c.methods[c.op], "head") {
		switch r.Intn(4) {
		case 0:
			c.rkind = "j"
			b, _ := json.Marshal(c04JSONObject(r, 0))
			c.rbody = string(b)
		case 1:
			c.rkind = "t"
			c.rbody = r.Pick("", "ok", "\xc3\xa9\n", "a\r\nb") + r.Bytes("ab \n", r.Intn(20))
		case 2:
			c.rkind = "b"
			c.rbody = c04Blob(r, tier)
		}
	}
	c.auth = r.Pick("0", "0", "0", "1", "2")
	return c
}

func c04Gen(r *proto.Rng, n int, tier string, emit func(in ...string)) {
	// the stdlib hand models: header canonicalisation on the names used and on odd ones, every run
	for _, nm := range append(append([]string{}, c04HNames...), c04BadH...) {
		emit("V", "K", proto.B(nm))
	}
	for i := 0; i < n; i++ {
		switch {
		case i%8 == 0:
			keys := c04Take(r, append(append([]string{}, c04QNames...), c04FNames...), r.Intn(4))
			vals := make([][]string, len(keys))
			for j := range keys {
				for k, m := 0, r.Intn(3); k < m; k++ {
					vals[j] = append(vals[j], c04Value(r))
				}
			}
			emit("V", "E", proto.L(keys), c04EncGroups(vals))
		case i%8 == 1:
			var raw string
			if r.Chance(1, 2) {
				v := url.Values{}
				for j, m := 0, r.Intn(4); j < m; j++ {
					v.Add(r.Pick(c04QNames...), c04Value(r))
				}
				raw = v.Encode()
				if r.Chance(1, 3) && len(raw) > 0 {
					// mutate
					b := []byte(raw)
					b[r.Intn(len(b))] = "&=;%+ a"[r.Intn(7)]
					raw = string(b)
				}
			} else {
				raw = r.Bytes("ab=&;%+2F \xc3\xa9", r.Intn(16))
			}
			emit("V", "P", proto.B(raw))
		case i%64 == 2:
			emit("V", "K", proto.B(r.Bytes("xX-aZ_.9 :\xc3", 1+r.Intn(8))))
		default:
			emit(c04W(c04GenCase(r, tier))...)
		}
	}
}

// c04WireMethod: the method the client operation names — upper case as generated clients spell it, or (every
// other case) as the description spells it (lower or mixed case): servers must treat both alike.
func c04WireMethod(c *c04Case) string {
	if (len(c.templates[c.op])+len(c.body)+len(c.fkeys))%2 == 1 {
		return c.methods[c.op]
	}
	return strings.ToUpper(c.methods[c.op])
}
