package props

import (
	"bytes"
	"encoding/json"
	"fmt"
	"io"
	"math"
	"math/big"
	"mime"
	"mime/multipart"
	"net/http"
	"net/http/httptest"
	"net/textproto"
	"reflect"
	"strconv"
	"strings"

	"github.com/go-openapi/errors"
	"github.com/go-openapi/loads"
	"github.com/go-openapi/runtime"
	"github.com/go-openapi/runtime/middleware"
	"github.com/go-openapi/runtime/middleware/untyped"
	"github.com/go-openapi/spec"
	"github.com/go-openapi/strfmt"

	"verif/harness/internal/proto"
)

// C03, deepening: two more streams of the same property.
//
// Stream F / FB / FS — formData parameters of a multipart (or other) request given PART BY PART:
//
//	<F|FB|FS> <name> <type> <req> <mode> <parts>
//	   => F <filename> <size> <content> <fieldname> | FNIL | V <value> | E <status> <named> <code> | U | PANIC <msg> | INVALID
//
//	F   full API handler (middleware.Serve + untyped API), FB UntypedRequestBinder.Bind into a map,
//	FS  UntypedRequestBinder.Bind into a struct whose field has the Go type of the parameter (runtime.File, string, int32)
//	name   declared parameter name (hex)      type  file | string | integer (int32)      req 0/1
//	mode   multipart   the parts are written with mime/multipart.Writer, in order
//	       urlencoded  every part is sent as the form field name=content (a urlencoded form cannot carry files)
//	       truncated   the multipart body, cut before its end (not parseable)
//	       nobody      no body, no Content-Type        json  a JSON body (not a form)
//	parts  flattened list of triples name,filename,content (hex items; "." = no part); a part with an empty filename
//	       is a text field, any other one a file part
//	F ...  the handler received a runtime.File: Header.Filename, Header.Size, all bytes read from Data, and the field
//	       name found in the Content-Disposition of Header.Header
//	FNIL   the handler received the zero runtime.File (Data and Header nil)
//
// Stream S — UntypedRequestBinder.Bind into a STRUCT target whose field type is chosen by the case:
//
//	S <target> <fmode> <name> <in> <type> ... <values>      (the 13 declaration/request fields of streams H and B)
//	   => <ext> V <typed value> | <ext> E <status> <named> <code> | PANIC <msg> | INVALID
//
//	target  Go type of the struct field: bool int int8..int64 uint uint8..uint64 float32 float64 string,
//	        Date DateTime UUID Email Base64 (strfmt types), *T for those, []T for those, iface map struct (other kinds)
//	fmode   ok          the parameter is registered under the name of the (exported) field
//	        unexported  the field it names is unexported        missing  no field of that name
//	        lower       the key is the field name in lower case pname    the key is the declared parameter name
//	typed value  <gotype>:<payload> | *<gotype>:nil | *<gotype>:<payload> | [<gotype>]<payload>;...
//	named   1 when the message contains the declared name or the key the parameter was registered under

// ---------------------------------------------------------------------------------------------
// stream F

type c03Part struct{ name, filename, content string }

func c03Parts(f string) ([]c03Part, bool) {
	items := proto.UnL(f)
	if len(items)%3 != 0 {
		return nil, false
	}
	var ps []c03Part
	for i := 0; i < len(items); i += 3 {
		ps = append(ps, c03Part{items[i], items[i+1], items[i+2]})
	}
	return ps, true
}

func c03PartsField(ps []c03Part) string {
	if len(ps) == 0 {
		return "."
	}
	var items []string
	for _, p := range ps {
		items = append(items, p.name, p.filename, p.content)
	}
	return proto.L(items)
}

func c03MultipartBody(ps []c03Part) ([]byte, string) { return c03MultipartBodyAs(ps, false) }

// c03MultipartBodyAs serialises the parts. other=false: as mime/multipart.Writer's WriteField and
// CreateFormFile do. other=true: as other clients do — a preamble in front of the first boundary and
// an epilogue behind the last, the parameters of Content-Disposition in the other order, a
// Content-Type on text fields too, none on files.
func c03MultipartBodyAs(ps []c03Part, other bool) ([]byte, string) {
	var buf bytes.Buffer
	if other {
		buf.WriteString("This is a multi-part message in MIME format.\r\n")
	}
	mw := multipart.NewWriter(&buf)
	_ = mw.SetBoundary("c03boundaryc03boundaryc03boundary")
	quote := strings.NewReplacer("\\", "\\\\", `"`, "\\\"")
	for _, p := range ps {
		if other {
			h := textproto.MIMEHeader{}
			if p.filename == "" {
				h.Set("Content-Disposition", `form-data; name="`+quote.Replace(p.name)+`"`)
				h.Set("Content-Type", "text/plain; charset=utf-8")
			} else {
				h.Set("Content-Disposition", `form-data; filename="`+quote.Replace(p.filename)+`"; name="`+quote.Replace(p.name)+`"`)
			}
			w, err := mw.CreatePart(h)
			if err != nil {
				panic(err)
			}
			_, _ = w.Write([]byte(p.content))
			continue
		}
		if p.filename == "" {
			_ = mw.WriteField(p.name, p.content)
			continue
		}
		w, err := mw.CreateFormFile(p.name, p.filename)
		if err != nil {
			panic(err)
		}
		_, _ = w.Write([]byte(p.content))
	}
	_ = mw.Close()
	if other {
		buf.WriteString("This is the epilogue.\r\n")
	}
	return buf.Bytes(), mw.FormDataContentType()
}

type c03FileBuilt struct {
	method  string // POST, PUT, PATCH or DELETE: chosen per declaration
	handler http.Handler
	binder  *middleware.UntypedRequestBinder
	sbinder *middleware.UntypedRequestBinder
	ran     *bool
	got     *[]string
	name    string
}

var c03FileCache = map[string]*c03FileBuilt{}

func c03FileValue(v interface{}) []string {
	f, ok := v.(runtime.File)
	if !ok {
		return []string{"V", c03Canon(v)}
	}
	if f.Data == nil && f.Header == nil {
		return []string{"FNIL"}
	}
	if f.Data == nil || f.Header == nil {
		return []string{"FODD"}
	}
	b, err := io.ReadAll(f.Data)
	if err != nil {
		return []string{"FERR"}
	}
	field := ""
	if _, ps, err := mime.ParseMediaType(f.Header.Header.Get("Content-Disposition")); err == nil {
		field = ps["name"]
	}
	return []string{"F", proto.B(f.Header.Filename), strconv.FormatInt(f.Header.Size, 10), proto.B(string(b)), proto.B(field)}
}

func c03FileBuild(name, typ string, req bool) *c03FileBuilt {
	key := name + "\x00" + typ + "\x00" + proto.Bool(req)
	if b, ok := c03FileCache[key]; ok {
		return b
	}
	// form parameters can be declared on every method that can have a body
	method := []string{"POST", "POST", "PUT", "PATCH", "DELETE"}[c03Sum(name, typ, proto.Bool(req))%5]
	pj := map[string]interface{}{"name": name, "in": "formData", "type": typ}
	if typ == "integer" {
		pj["format"] = "int32"
	}
	if req {
		pj["required"] = true
	}
	op := map[string]interface{}{
		"operationId": "op",
		"consumes":    []string{"application/x-www-form-urlencoded", "multipart/form-data"},
		"parameters":  []interface{}{pj},
		"responses":   map[string]interface{}{"200": map[string]interface{}{"description": "ok"}},
	}
	doc := map[string]interface{}{
		"swagger":  "2.0",
		"info":     map[string]interface{}{"title": "c03f", "version": "1"},
		"basePath": "/",
		"consumes": []string{"application/json"},
		"produces": []string{"application/json"},
		"paths":    map[string]interface{}{"/op": map[string]interface{}{strings.ToLower(method): op}},
	}
	raw, _ := json.Marshal(doc)
	d, err := loads.Analyzed(json.RawMessage(raw), "")
	if err != nil {
		panic("C03 F: spec does not load: " + err.Error())
	}
	api := untyped.NewAPI(d)
	api.RegisterConsumer("application/x-www-form-urlencoded", runtime.DiscardConsumer)
	api.RegisterConsumer("multipart/form-data", runtime.DiscardConsumer)
	b := &c03FileBuilt{ran: new(bool), got: new([]string), name: name, method: method}
	api.RegisterOperation(strings.ToLower(method), "/op", runtime.OperationHandlerFunc(func(params interface{}) (interface{}, error) {
		*b.ran = true
		*b.got = []string{"U"}
		if m, ok := params.(map[string]interface{}); ok {
			if v, ok := m[name]; ok {
				*b.got = c03FileValue(v) // the file is read while the request is alive
			}
		}
		return map[string]interface{}{"ok": true}, nil
	}))
	b.handler = middleware.Serve(d, api)
	var param spec.Parameter
	for _, p := range d.Analyzer.ParamsFor(method, "/op") {
		param = p
	}
	b.binder = middleware.NewUntypedRequestBinder(map[string]spec.Parameter{name: param}, d.Spec(), strfmt.Default)
	b.sbinder = middleware.NewUntypedRequestBinder(map[string]spec.Parameter{"F": param}, d.Spec(), strfmt.Default)
	if len(c03FileCache) > 256 {
		c03FileCache = map[string]*c03FileBuilt{}
	}
	c03FileCache[key] = b
	return b
}

type c03FileTarget struct{ F runtime.File }
type c03StringTarget struct{ F string }
type c03Int32Target struct{ F int32 }

func c03BindError(names []string, err error) []string {
	status, code, msg := 500, int32(0), err.Error()
	if ce, ok := err.(*errors.CompositeError); ok {
		code = ce.Code()
		if len(ce.Errors) > 0 {
			msg = ce.Errors[0].Error()
			if ee, ok := ce.Errors[0].(errors.Error); ok {
				code = ee.Code()
			}
			if ce2, ok := ce.Errors[0].(*errors.CompositeError); ok && len(ce2.Errors) > 0 {
				msg = ce2.Errors[0].Error()
				if ee, ok := ce2.Errors[0].(errors.Error); ok {
					code = ee.Code()
				}
			}
		}
	} else if ee, ok := err.(errors.Error); ok {
		code = ee.Code()
	}
	status = int(code)
	if code >= 600 {
		status = errors.DefaultHTTPCode
	}
	named := false
	for _, n := range names {
		named = named || (n != "" && strings.Contains(msg, n))
	}
	return []string{"E", proto.N(status), proto.Bool(named), proto.N(int(code))}
}

func c03ExecFile(in []string) []string {
	if len(in) != 6 {
		return []string{"INVALID"}
	}
	ok := true
	var name string
	var parts []c03Part
	func() {
		defer func() {
			if recover() != nil {
				ok = false
			}
		}()
		name = proto.UnB(in[1])
		parts, ok = c03Parts(in[5])
	}()
	typ, mode := in[2], in[4]
	if !ok || name == "" || (typ != "file" && typ != "string" && typ != "integer") || (in[3] != "0" && in[3] != "1") {
		return []string{"INVALID"}
	}
	for _, p := range parts {
		if p.name == "" || strings.ContainsAny(p.name+p.filename, "\r\n\x00") {
			return []string{"INVALID"} // not expressible in a Content-Disposition header
		}
	}
	b := c03FileBuild(name, typ, in[3] == "1")
	// how the request is spelled and delivered (c03Wire): drawn from a checksum of the case
	wire := c03WireOf(c03Sum(in...))
	var body []byte
	ctype := ""
	switch mode {
	case "multipart":
		body, ctype = c03MultipartBodyAs(parts, wire.enc%2 == 1)
	case "truncated":
		body, ctype = c03MultipartBody(parts)
		cut := 3 + len(body)%7 // at least the closing "--\r\n" minus one byte is lost
		if cut > len(body) {
			cut = len(body)
		}
		body = body[:len(body)-cut]
	case "urlencoded":
		var pairs [][2]string
		for _, p := range parts {
			pairs = append(pairs, [2]string{p.name, p.content})
		}
		body, ctype = []byte(c03Encode(pairs, wire.enc)), "application/x-www-form-urlencoded"
	case "json":
		body, ctype = []byte("{}"), "application/json"
	case "nobody":
	default:
		return []string{"INVALID"}
	}
	var made []*http.Request
	defer func() {
		for _, r := range made {
			c03Cleanup(r)
		}
	}()
	mk := func() *http.Request {
		var rd io.Reader
		if mode != "nobody" {
			rd = c03BodyReader(body, wire.chunked)
		}
		req := httptest.NewRequest(b.method, "http://srv.test/op", rd)
		if ctype != "" {
			req.Header.Set("Content-Type", c03ContentType(ctype, wire.ctype))
		}
		if mode == "multipart" || mode == "urlencoded" {
			// a middleware in front may have parsed the form already; with a small memory limit the
			// files of a multipart form then live in temporary files (*os.File), not in memory
			c03Preparse(req, mode == "multipart", wire.preparse)
		}
		made = append(made, req)
		return req
	}
	switch in[0] {
	case "F":
		*b.ran, *b.got = false, nil
		rec := httptest.NewRecorder()
		b.handler.ServeHTTP(rec, mk())
		if *b.ran {
			return *b.got
		}
		var e struct {
			Code    int32  `json:"code"`
			Message string `json:"message"`
		}
		_ = json.Unmarshal(rec.Body.Bytes(), &e)
		return c03Err(name, rec.Code, e.Code, e.Message)
	case "FB":
		data := map[string]interface{}{}
		if err := b.binder.Bind(mk(), nil, runtime.JSONConsumer(), &data); err != nil {
			return c03BindError([]string{name}, err)
		}
		v, ok := data[name]
		if !ok {
			return []string{"U"}
		}
		return c03FileValue(v)
	case "FS":
		var tgt interface{}
		switch typ {
		case "file":
			tgt = &c03FileTarget{}
		case "string":
			tgt = &c03StringTarget{}
		default:
			tgt = &c03Int32Target{}
		}
		if err := b.sbinder.Bind(mk(), nil, runtime.JSONConsumer(), tgt); err != nil {
			return c03BindError([]string{name, "F"}, err)
		}
		return c03FileValue(reflect.ValueOf(tgt).Elem().Field(0).Interface())
	}
	return []string{"INVALID"}
}

// ---------------------------------------------------------------------------------------------
// stream S

var c03ScalarTargets = map[string]reflect.Type{
	"bool": reflect.TypeOf(true), "int": reflect.TypeOf(int(0)), "int8": reflect.TypeOf(int8(0)), "int16": reflect.TypeOf(int16(0)),
	"int32": reflect.TypeOf(int32(0)), "int64": reflect.TypeOf(int64(0)), "uint": reflect.TypeOf(uint(0)), "uint8": reflect.TypeOf(uint8(0)),
	"uint16": reflect.TypeOf(uint16(0)), "uint32": reflect.TypeOf(uint32(0)), "uint64": reflect.TypeOf(uint64(0)),
	"float32": reflect.TypeOf(float32(0)), "float64": reflect.TypeOf(float64(0)), "string": reflect.TypeOf(""),
	"Date": reflect.TypeOf(strfmt.Date{}), "DateTime": reflect.TypeOf(strfmt.DateTime{}), "UUID": reflect.TypeOf(strfmt.UUID("")),
	"Email": reflect.TypeOf(strfmt.Email("")), "Base64": reflect.TypeOf(strfmt.Base64{}),
}

var c03OtherTargets = map[string]reflect.Type{
	"iface": reflect.TypeOf((*interface{})(nil)).Elem(), "map": reflect.TypeOf(map[string]string{}), "struct": reflect.TypeOf(struct{ A int }{}),
}

func c03TargetType(t string) (reflect.Type, bool) {
	switch {
	case strings.HasPrefix(t, "*"):
		if et, ok := c03ScalarTargets[t[1:]]; ok {
			return reflect.PointerTo(et), true
		}
	case strings.HasPrefix(t, "[]"):
		if et, ok := c03ScalarTargets[t[2:]]; ok && t != "[]uint8" {
			return reflect.SliceOf(et), true
		}
	default:
		if tt, ok := c03ScalarTargets[t]; ok {
			return tt, true
		}
		if tt, ok := c03OtherTargets[t]; ok {
			return tt, true
		}
	}
	return nil, false
}

type c03Unexported struct {
	i int64
	s string
	u strfmt.UUID
	d strfmt.Date
	p *int64
	l []string
	b bool
	f float64
}

var c03UnexportedField = map[string]string{"int64": "i", "string": "s", "UUID": "u", "Date": "d", "*int64": "p", "[]string": "l", "bool": "b", "float64": "f"}

func c03TypedScalar(v reflect.Value) (tag, payload string) {
	t := v.Type()
	if t.PkgPath() != "" { // a strfmt type: rendered as in the other streams (c03Canon), as the ext graph is
		c := c03Canon(v.Interface())
		if i := strings.IndexByte(c, ':'); i >= 0 && strings.HasPrefix(c, "x") {
			return c[:i], c[i+1:]
		}
		return "?" + t.Name(), ""
	}
	switch v.Kind() {
	case reflect.Bool:
		return "bool", proto.Bool(v.Bool())
	case reflect.Int, reflect.Int8, reflect.Int16, reflect.Int32, reflect.Int64:
		return t.Name(), strconv.FormatInt(v.Int(), 10)
	case reflect.Uint, reflect.Uint8, reflect.Uint16, reflect.Uint32, reflect.Uint64:
		return t.Name(), strconv.FormatUint(v.Uint(), 10)
	case reflect.Float32:
		return "float32", fmt.Sprintf("%08x", math.Float32bits(float32(v.Float())))
	case reflect.Float64:
		return "float64", fmt.Sprintf("%016x", math.Float64bits(v.Float()))
	case reflect.String:
		return "string", proto.B(v.String())
	}
	return "?" + strings.ReplaceAll(t.String(), " ", "_"), ""
}

func c03TypedValue(v reflect.Value) string {
	switch {
	case v.Kind() == reflect.Ptr:
		tag, _ := c03TypedScalar(reflect.Zero(v.Type().Elem()))
		if v.IsNil() {
			return "*" + tag + ":nil"
		}
		_, p := c03TypedScalar(v.Elem())
		return "*" + tag + ":" + p
	case v.Kind() == reflect.Slice && v.Type().PkgPath() == "":
		tag, _ := c03TypedScalar(reflect.Zero(v.Type().Elem()))
		items := make([]string, v.Len())
		for i := range items {
			_, items[i] = c03TypedScalar(v.Index(i))
		}
		return "[" + tag + "]" + strings.Join(items, ";")
	case v.Kind() == reflect.Interface || v.Kind() == reflect.Map || v.Kind() == reflect.Struct && v.Type().PkgPath() == "":
		return "other:" + v.Kind().String()
	}
	tag, p := c03TypedScalar(v)
	return tag + ":" + p
}

func c03BindStruct(b *c03Built, d *c03Decl, req *http.Request, rp middleware.RouteParams, target, fmode string) []string {
	ft, ok := c03TargetType(target)
	if !ok {
		return []string{"INVALID"}
	}
	var data reflect.Value
	key, field := "F", 0
	switch fmode {
	case "ok":
	case "missing":
		key = "G"
	case "lower":
		key = "f"
	case "pname":
		key = d.name
		if key == "F" {
			return []string{"INVALID"}
		}
	case "unexported":
		fn, ok := c03UnexportedField[target]
		if !ok {
			return []string{"INVALID"}
		}
		key = fn
		data = reflect.New(reflect.TypeOf(c03Unexported{}))
		sf, _ := data.Elem().Type().FieldByName(fn)
		field = sf.Index[0]
	default:
		return []string{"INVALID"}
	}
	if !data.IsValid() {
		data = reflect.New(reflect.StructOf([]reflect.StructField{{Name: "F", Type: ft}}))
		if c03Sum(target, fmode, req.URL.RequestURI())%2 == 1 {
			// a struct that was used before: the field holds a value of an earlier request
			c03Stale(data.Elem().Field(0))
		}
	}
	binder := middleware.NewUntypedRequestBinder(map[string]spec.Parameter{key: b.param}, b.doc.Spec(), strfmt.Default)
	if err := binder.Bind(req, rp, runtime.JSONConsumer(), data.Interface()); err != nil {
		return c03BindError([]string{d.name, key}, err)
	}
	fv := data.Elem().Field(field)
	if !fv.CanInterface() {
		return []string{"V", "unexported:" + fmt.Sprint(fv)}
	}
	return []string{"V", c03TypedValue(fv)}
}

// c03Stale leaves a non-zero value in a field of one of the plain kinds
func c03Stale(v reflect.Value) {
	if !v.CanSet() {
		return
	}
	switch v.Kind() { //nolint:exhaustive
	case reflect.Bool:
		v.SetBool(true)
	case reflect.Int, reflect.Int8, reflect.Int16, reflect.Int32, reflect.Int64:
		v.SetInt(1)
	case reflect.Uint, reflect.Uint8, reflect.Uint16, reflect.Uint32, reflect.Uint64:
		v.SetUint(1)
	case reflect.Float32, reflect.Float64:
		v.SetFloat(1.5)
	case reflect.String:
		v.SetString("stale")
	case reflect.Ptr:
		v.Set(reflect.New(v.Type().Elem()))
		c03Stale(v.Elem())
	case reflect.Slice:
		v.Set(reflect.MakeSlice(v.Type(), 2, 2))
		c03Stale(v.Index(0))
	}
}

// ---------------------------------------------------------------------------------------------
// generators of the new streams

var c03FileNames = []string{"avatar", "File", "doc-1", "attachment"}

func c03FileContent(r *proto.Rng) string {
	n := 0
	switch x := r.Intn(100); {
	case x < 10:
	case x < 50:
		n = 1 + r.Intn(16)
	case x < 90:
		n = 17 + r.Intn(284)
	case x < 97:
		n = 301 + r.Intn(1700)
	default:
		n = 2000 + r.Intn(3000)
	}
	b := make([]byte, n)
	for i := range b {
		b[i] = byte(r.Intn(256))
	}
	if n >= 20 && r.Chance(1, 4) {
		// framing look-alikes: CRLF, dashes, a prefix of the boundary (never the whole boundary)
		copy(b[r.Intn(n-19):], r.Pick("\r\n--c03boundaryc03b", "\r\n--\r\n", "--c03boundary--\r\n", "\r\n\r\n", "Content-Disposition:"))
	}
	return string(b)
}

func c03FileName(r *proto.Rng) string {
	return r.Pick("a.txt", "b c.bin", "x\"y.png", "back\\slash.dat", "noext", "UPPER.TXT", ".hidden", "a;b=c.txt", "semi; filename=evil.txt",
		strings.Repeat("long", 40)+".bin", "\xc3\xbc.dat", "t\tab.txt")
}

func c03GenFile(r *proto.Rng, n int, tier string, emit func(in ...string)) {
	streams := []string{"F", "FB", "FS"}
	k := 0
	next := func() string { k++; return streams[k%3] }
	one := func(name, typ string, req bool, mode string, parts []c03Part) {
		emit(next(), proto.B(name), typ, proto.Bool(req), mode, c03PartsField(parts))
	}
	// ---- the decision table, completely, on every run
	file := func(n string, c string) c03Part { return c03Part{n, "f.bin", c} }
	text := func(n string, c string) c03Part { return c03Part{n, "", c} }
	for _, typ := range []string{"file", "string", "integer"} {
		v1, v2 := "first", "second"
		if typ == "integer" {
			v1, v2 = "41", "42"
		}
		sits := [][]c03Part{
			nil,
			{text("other", "x")},
			{file("avatar", v1)},
			{text("avatar", v1)},
			{file("avatar", v1), file("avatar", v2)},
			{text("avatar", v1), text("avatar", v2)},
			{file("avatar", v1), text("avatar", v2)},
			{text("avatar", v1), file("avatar", v2)},
			{file("avatar", v1), text("other", "x"), file("avatar", v2), file("Avatar", "case"), text("avatar", v1)},
			{file("AVATAR", v1), text("avatarx", v2)},
			{file("avatar", "")},
			{text("avatar", "")},
		}
		for _, req := range []bool{false, true} {
			for _, mode := range []string{"multipart", "urlencoded", "truncated", "nobody", "json"} {
				for _, ps := range sits {
					for range streams {
						one("avatar", typ, req, mode, ps)
					}
				}
			}
		}
	}
	// ---- a file of every length 0..N, binary content, through every stream
	maxLen := 96
	if tier == "thorough" {
		maxLen = 1100
	}
	for l := 0; l <= maxLen; l++ {
		b := make([]byte, l)
		for i := range b {
			b[i] = byte(r.Intn(256))
		}
		for range streams {
			one("File", "file", l%2 == 0, "multipart", []c03Part{{"File", c03FileName(r), string(b)}})
		}
	}
	// ---- random form requests
	for i := 0; i < n; i++ {
		name := r.Pick(c03FileNames...)
		typ := "file"
		if r.Chance(1, 4) {
			typ = r.Pick("string", "integer")
		}
		mode := "multipart"
		switch x := r.Intn(100); {
		case x < 72:
		case x < 84:
			mode = "urlencoded"
		case x < 90:
			mode = "truncated"
		case x < 95:
			mode = "nobody"
		default:
			mode = "json"
		}
		var parts []c03Part
		for j, m := 0, r.Intn(6); j < m; j++ {
			p := c03Part{name: name}
			switch x := r.Intn(100); {
			case x < 62:
			case x < 72:
				p.name = r.Pick(strings.ToUpper(name), strings.ToLower(name), name+"x", " "+name)
			default:
				p.name = r.Pick("other", "note", "x")
			}
			if r.Chance(13, 20) {
				p.filename = c03FileName(r)
			}
			switch {
			case typ == "integer" && p.filename == "":
				p.content = c03IntText(r, 32)
			case p.filename == "" && r.Chance(1, 2):
				p.content = r.Pick("", "text", "a b", "41", "\xe9", "x=y&z")
			default:
				p.content = c03FileContent(r)
			}
			parts = append(parts, p)
		}
		one(name, typ, r.Chance(2, 5), mode, parts)
	}
}

// ---- stream S

var c03IntTargets = []string{"int", "int8", "int16", "int32", "int64", "uint", "uint8", "uint16", "uint32", "uint64"}

func c03TargetBits(t string) (bits uint, unsigned bool) {
	t = strings.TrimLeft(t, "*[]")
	unsigned = strings.HasPrefix(t, "u")
	switch strings.TrimLeft(t, "uint") {
	case "8":
		return 8, unsigned
	case "16":
		return 16, unsigned
	case "32":
		return 32, unsigned
	}
	return 64, unsigned
}

func c03RegTarget(format string) string {
	switch format {
	case "date":
		return "Date"
	case "byte":
		return "Base64"
	case "uuid":
		return "UUID"
	case "email":
		return "Email"
	}
	return ""
}

// c03PickTarget chooses the Go type of the struct field for a declared scalar kind: mostly a type that can
// hold the declared type, sometimes one that cannot.
func c03PickTarget(r *proto.Rng, sc c03Scalar, isArray bool) (target string, compatible bool) {
	compatible = true
	switch sc.typ {
	case "integer":
		target = r.Pick(c03IntTargets...)
	case "number":
		target = r.Pick("float32", "float64")
		if sc.format == "float" && target == "float64" {
			compatible = false // judged like an incompatible pair (the property fixes no value)
		}
	case "boolean":
		target = "bool"
	case "string":
		target = "string"
		if reg := c03RegTarget(sc.format); reg != "" {
			target = reg
		}
	}
	if !isArray && r.Chance(1, 14) {
		return r.Pick("iface", "map", "struct"), false
	}
	if isArray {
		return "[]" + target, compatible
	}
	if r.Chance(3, 10) {
		target = "*" + target
	}
	return target, compatible
}

// boundary literals of a signed / unsigned width
func c03Boundaries(bits uint, unsigned bool) []string {
	p := c03Pow2(bits - 1)
	if unsigned {
		p = c03Pow2(bits)
		a := new(big1).Set(p)
		return []string{a.Sub1().String(), p.String(), a.Add2().String(), "0", "-1", "+5", "-0", "+0"}
	}
	a, b, c, d := new(big1).Set(p), new(big1).Set(p), new(big1).Set(p), new(big1).Set(p)
	return []string{a.Sub1().String(), p.String(), "-" + b.String(), "-" + c.Add1().String(), d.Sub2().String()}
}

func c03GenStruct(r *proto.Rng, n int, tier string, emit func(in ...string)) {
	one := func(target, fmode string, c []string) {
		emit(append([]string{"S", target, fmode}, c[1:]...)...)
	}
	// ---- width overflow per kind, completely, on every run: every integer format x every integer
	// field type (plain and pointer) x the boundary literals of every width
	var lits []string
	seen := map[string]bool{}
	for _, w := range []uint{8, 16, 32, 64} {
		for _, u := range []bool{false, true} {
			for _, l := range c03Boundaries(w, u) {
				if !seen[l] {
					seen[l] = true
					lits = append(lits, l)
				}
			}
		}
	}
	lits = append(lits, "", "7", "-7", "007", "1_0", "0x10", "1.0", "abc")
	i := 0
	for _, f := range []string{"int8", "int16", "int32", "int64", ""} {
		for _, t := range c03IntTargets {
			for _, ptr := range []string{"", "*"} {
				for _, l := range lits {
					i++
					loc := []string{"query", "header", "form"}[i%3]
					one(ptr+t, "ok", c03Case("S", "limit", loc, "integer", f, "-", "", "-", false, false, "-", "-", "limit", []string{l}))
				}
				one(ptr+t, "ok", c03Case("S", "limit", "query", "integer", f, "-", "", "-", false, false, "-", "-", "limit", nil))
				one(ptr+t, "ok", c03Case("S", "limit", "query", "integer", f, "-", "", "-", true, false, "-", "-", "limit", nil))
				one(ptr+t, "ok", c03Case("S", "limit", "query", "integer", f, "-", "", "-", false, false, "I:7", "-", "limit", nil))
				one(ptr+t, "ok", c03Case("S", "limit", "query", "integer", f, "-", "", "-", true, true, "I:7", "-", "limit", []string{""}))
			}
			// arrays: one item of another width among good ones
			for _, l := range lits {
				if l == "" {
					continue
				}
				one("[]"+t, "ok", c03Case("S", "limit", "query", "array", "", "integer", f, "csv", false, false, "-", "-", "limit", []string{"1," + l + ",2"}))
			}
		}
	}
	// ---- the field lookup: every mode for a few targets
	for _, t := range []string{"int64", "string", "UUID", "Date", "*int64", "[]string", "bool", "float64"} {
		for _, fm := range []string{"ok", "unexported", "missing", "lower", "pname"} {
			for _, vs := range [][]string{nil, {"5"}, {""}} {
				var c []string
				switch t {
				case "string":
					c = c03Case("S", "limit", "query", "string", "", "-", "", "-", false, false, "-", "-", "limit", vs)
				case "UUID":
					c = c03Case("S", "limit", "query", "string", "uuid", "-", "", "-", false, false, "-", "-", "limit", vs)
				case "Date":
					c = c03Case("S", "limit", "query", "string", "date", "-", "", "-", false, false, "-", "-", "limit", vs)
				case "[]string":
					c = c03Case("S", "limit", "query", "array", "", "string", "", "csv", false, false, "-", "-", "limit", vs)
				case "bool":
					c = c03Case("S", "limit", "query", "boolean", "", "-", "", "-", false, false, "-", "-", "limit", vs)
				case "float64":
					c = c03Case("S", "limit", "query", "number", "double", "-", "", "-", false, false, "-", "-", "limit", vs)
				default:
					c = c03Case("S", "limit", "query", "integer", "int64", "-", "", "-", false, false, "-", "-", "limit", vs)
				}
				one(t, fm, c)
			}
		}
	}
	// ---- random declarations x targets x requests
	for emitted := 0; emitted < n; {
		loc := "query"
		switch x := r.Intn(100); {
		case x < 45:
		case x < 65:
			loc = "header"
		case x < 75:
			loc = "path"
		case x < 88:
			loc = "form"
		default:
			loc = "mform"
		}
		name := r.Pick(c03Names...)
		if loc == "path" {
			name = r.Pick("pval", "limit", "Tags", "sinceId")
		}
		isArray := r.Chance(3, 10)
		sc := c03PickScalar(r)
		if isArray && sc.typ == "string" && (sc.format == "uuid" || sc.format == "email") {
			sc.format = "date"
		}
		target, compat := c03PickTarget(r, sc, isArray)
		typ, format, itype, iformat, cf := sc.typ, sc.format, "-", "", "-"
		if isArray {
			typ, format, itype, iformat = "array", "", sc.typ, sc.format
			cf = r.Pick("-", "csv", "ssv", "tsv", "pipes", "multi", "csv", "multi")
			if cf == "multi" && (loc == "header" || loc == "path") && !r.Chance(1, 6) {
				cf = "csv"
			}
		}
		req := r.Chance(1, 3) || loc == "path"
		allowEmpty := r.Chance(1, 4)
		bits, unsigned := c03TargetBits(target)
		def := "-"
		if compat && r.Chance(1, 3) {
			// a default the field can hold
			mk := func() string {
				if sc.typ == "integer" {
					v := r.Intn(100)
					if !unsigned && r.Chance(1, 2) {
						v = -v
					}
					return "I:" + strconv.Itoa(v)
				}
				return c03DefaultScalar(r, sc)
			}
			if isArray {
				items := make([]string, r.Intn(4))
				for i := range items {
					items[i] = mk()
				}
				def = "A:" + strings.Join(items, ";")
			} else {
				def = mk()
			}
		}
		valid := "-"
		if compat && r.Chance(1, 6) {
			switch {
			case isArray:
				valid = r.Pick("minItems:1", "minItems:2", "maxItems:2", "maxItems:1", "unique", "minItems:1,maxItems:3", "unique,maxItems:3")
			case sc.typ == "integer":
				valid = r.Pick("min:1", "max:100", "min:-5,max:5", "min:0", "enum:I:1;I:2;I:3", "max:-1", "enum:I:0;I:10")
			case sc.typ == "string" && sc.format == "":
				valid = r.Pick("minLength:2", "maxLength:3", "minLength:1,maxLength:4", "enum:S:"+proto.B("abc")+";S:"+proto.B("x"), "maxLength:0")
			}
		}
		fmode := "ok"
		if r.Chance(1, 16) {
			fmode = r.Pick("missing", "lower", "pname", "unexported")
			if _, ok := c03UnexportedField[target]; fmode == "unexported" && !ok {
				fmode = "missing"
			}
		}
		k := 6
		if tier == "thorough" {
			k = 10
		}
		for j := 0; j < k && emitted < n; j++ {
			key := name
			switch {
			case loc == "header" && r.Chance(1, 2):
				key = r.Pick(strings.ToUpper(name), strings.ToLower(name), http.CanonicalHeaderKey(name))
			case loc != "path" && r.Chance(1, 14):
				key = r.Pick("other", name+"x")
			}
			text := func() string {
				if sc.typ == "integer" && r.Chance(1, 2) {
					if r.Chance(1, 2) {
						bs := c03Boundaries(bits, unsigned)
						return bs[r.Intn(len(bs))]
					}
					return c03IntText(r, bits)
				}
				return c03Text(r, sc)
			}
			nv := 1
			if r.Chance(1, 5) && loc != "path" {
				nv = 2 + r.Intn(2)
			}
			var values []string
			for q := 0; q < nv; q++ {
				var v string
				switch {
				case r.Chance(1, 9):
				case isArray && cf != "multi":
					sep := c03Sep(cf)
					parts := make([]string, r.Intn(5))
					for z := range parts {
						parts[z] = text()
						if r.Chance(1, 8) {
							parts[z] = " " + parts[z] + r.Pick(" ", "")
						}
						if r.Chance(1, 12) {
							parts[z] = ""
						}
					}
					v = strings.Join(parts, sep)
				default:
					v = text()
				}
				values = append(values, v)
			}
			if r.Chance(1, 6) {
				values = nil
			}
			if loc == "path" && len(values) > 1 {
				values = values[:1]
			}
			one(target, fmode, c03Case("S", name, loc, typ, format, itype, iformat, cf, req, allowEmpty, def, valid, key, values))
			emitted++
		}
	}
}

// tiny helpers over math/big for the boundary literals
type big1 struct{ v *bigInt }
type bigInt = bigIntT

func (b *big1) Set(x *bigInt) *big1 { b.v = new(bigInt).Set(x); return b }
func (b *big1) Sub1() *big1         { b.v.Sub(b.v, bigOne); return b }
func (b *big1) Sub2() *big1         { b.v.Sub(b.v, bigOne); b.v.Sub(b.v, bigOne); return b }
func (b *big1) Add1() *big1         { b.v.Add(b.v, bigOne); return b }
func (b *big1) Add2() *big1         { b.v.Add(b.v, bigOne); b.v.Add(b.v, bigOne); return b }
func (b *big1) String() string      { return b.v.String() }

type bigIntT = big.Int

var bigOne = big.NewInt(1)

// c03CorpusX: witnesses of the findings of the deepening (fixed ones and recorded ones).
func c03CorpusX() [][]string {
	var out [][]string
	file := func(stream string, req bool, mode string, parts ...c03Part) {
		out = append(out, []string{stream, proto.B("avatar"), "file", proto.Bool(req), mode, c03PartsField(parts)})
	}
	s := func(target, fmode string, c []string) {
		out = append(out, append([]string{"S", target, fmode}, c[1:]...))
	}
	for _, st := range []string{"F", "FB", "FS"} {
		// F03j (fixed): a missing required file used to be answered 400
		file(st, true, "multipart")
		file(st, true, "multipart", c03Part{"avatar", "", "only a text field"})
		file(st, true, "urlencoded", c03Part{"avatar", "", "x"})
		// F03k (fixed): a repeated file field used to be bound to its first occurrence
		file(st, false, "multipart", c03Part{"avatar", "a.txt", "first"}, c03Part{"note", "", "x"}, c03Part{"avatar", "b.txt", "second"})
	}
	// F03l (fixed): pointer field, parameter absent -> the validator used to panic; validations used to be skipped
	s("*int64", "ok", c03Case("S", "limit", "query", "integer", "int64", "-", "", "-", false, false, "-", "-", "limit", nil))
	s("*string", "ok", c03Case("S", "limit", "query", "string", "", "-", "", "-", false, false, "-", "-", "limit", []string{""}))
	s("*int64", "ok", c03Case("S", "limit", "query", "integer", "int32", "-", "", "-", false, false, "-", "-", "limit", []string{"3000000000"}))
	s("*int64", "ok", c03Case("S", "limit", "query", "integer", "int64", "-", "", "-", false, false, "-", "max:100", "limit", []string{"101"}))
	// F03m (fixed): pointer field with a default, parameter absent -> reflect.Value.Convert used to panic
	s("*int64", "ok", c03Case("S", "limit", "query", "integer", "int64", "-", "", "-", false, false, "I:7", "-", "limit", nil))
	s("*bool", "ok", c03Case("S", "limit", "query", "boolean", "", "-", "", "-", false, false, "B:1", "-", "limit", []string{""}))
	s("*float32", "ok", c03Case("S", "limit", "query", "number", "float", "-", "", "-", false, false, "F:"+proto.B("1.5"), "-", "limit", nil))
	// F03n (fixed): the key names an unexported field -> reflect.Value.Interface used to panic
	s("int64", "unexported", c03Case("S", "limit", "query", "integer", "int64", "-", "", "-", false, false, "-", "-", "limit", []string{"5"}))
	// F03o (fixed): format byte into *strfmt.Base64 -> reflect.Value.SetBytes used to panic
	s("*Base64", "ok", c03Case("S", "limit", "query", "string", "byte", "-", "", "-", false, false, "-", "-", "limit", []string{"aGk="}))
	// F03h (known): int8 / int16 formats narrower than the field are not enforced
	s("int64", "ok", c03Case("S", "limit", "query", "integer", "int8", "-", "", "-", false, false, "-", "-", "limit", []string{"300"}))
	s("[]int32", "ok", c03Case("S", "limit", "query", "array", "", "integer", "int16", "csv", false, false, "-", "-", "limit", []string{"1,40000"}))
	// F03i (known): an unsigned field rejects explicitly signed literals
	s("uint8", "ok", c03Case("S", "limit", "query", "integer", "int32", "-", "", "-", false, false, "-", "-", "limit", []string{"+5"}))
	s("uint64", "ok", c03Case("S", "limit", "query", "integer", "int64", "-", "", "-", false, false, "-", "-", "limit", []string{"-0"}))
	return out
}
