package props

import (
	"bytes"
	"encoding"
	"encoding/hex"
	"encoding/json"
	"fmt"
	"io"
	"math"
	"math/big"
	"mime/multipart"
	"net/http"
	"net/http/httptest"
	"net/url"
	"reflect"
	"strconv"
	"strings"

	"github.com/go-openapi/errors"
	"github.com/go-openapi/loads"
	"github.com/go-openapi/runtime"
	"github.com/go-openapi/runtime/middleware"
	"github.com/go-openapi/runtime/middleware/untyped"
	"github.com/go-openapi/spec"
	"github.com/go-openapi/strfmt"

	"verif/harness/internal/proto"
)

// C03 — parameter binding. One case = one declared non-body parameter x one request.
//
//	<stream> <name> <in> <type> <format> <itype> <iformat> <cf> <req> <allowEmpty> <default> <valid> <sentKey> <values>
//	   => <ext> V <value> | <ext> E <status> <named> <code> | PANIC <msg> | INVALID
//
//	stream   H  full API handler: middleware.Serve over an untyped API; the operation handler receives the
//	            map[string]interface{} of bound values
//	         B  middleware.UntypedRequestBinder.Bind called directly on a hand-built *http.Request / RouteParams
//	name     declared parameter name (hex)          in   query | header | path | form | mform
//	type     string | integer | number | boolean | array        format  hex or -
//	itype/iformat  items type / format for arrays (-, - otherwise)
//	cf       - | csv | ssv | tsv | pipes | multi    req, allowEmpty  0/1
//	default  -  none | I:<int> | F:<hex json number> | S:<hex> | B:0/1 | A:<item>;<item>... (items as scalar forms)
//	valid    declared validations: - none | comma separated  max:<int> min:<int> enum:<hex>;<hex>.. maxLength:<n> minLength:<n>
//	         maxItems:<n> minItems:<n> unique
//	sentKey  the key the client uses (hex; differs from <name> in case for header variants, or is another key)
//	values   the texts sent under that key, in order (list; "." = the key is not sent at all)
//	ext      (first OUTPUT field) graph of the EXTERNAL strfmt functions on the candidate texts of this case, for
//	         registered string formats only ("." otherwise): R<s|o>.<GoType>,<hex text>:<hex rendering | !>:<validates 0/1>,...
//	         It is an input of the model, computed by calling the strfmt type / registry directly, never through
//	         the binder; it travels on the output side so that it always matches the (possibly shrunk) input fields.
//	INVALID  the input fields do not describe a declaration (only met while shrinking)
//
// Values: i8|i16|i32|i64:<dec>  b:0|1  s:<hex>  f32:<8 hex IEEE bits>  f64:<16 hex>  x<Type>:<hex of String()>
// slices: [<elem tag>]<payload>;<payload>...
func init() {
	proto.Register(&proto.Prop{ID: "C03", Gen: c03Gen, Exec: c03Exec, Corpus: c03MakeCorpus()})
}

type c03Decl struct {
	name, in, typ, format, itype, iformat, cf string
	req, allowEmpty                           bool
	def, valid                                string
	sum                                       int // checksum of the declaration fields (0 in the streams that fix the route themselves)
}

// c03Sum is a checksum of fields of the case. Everything Exec chooses on its own (the operation's
// method and route, how the request is spelled and delivered, which of two equivalent entry points
// is called) is a function of the input fields, so a case replays identically.
func c03Sum(fields ...string) int {
	h := uint32(2166136261)
	for _, f := range fields {
		for i := 0; i < len(f); i++ {
			h = (h ^ uint32(f[i])) * 16777619
		}
		h = (h ^ 0xff) * 16777619
	}
	return int(h>>3) & 0xfffffff
}

// c03Wire is how one request travels. Every field selects between spellings or call sequences that
// mean the same request to the unchanged code.
type c03Wire struct {
	enc      int  // spelling of a query string / urlencoded body (c03Encode)
	ctype    int  // spelling of the Content-Type (c03ContentType)
	chunked  bool // the body has no declared length (Transfer-Encoding: chunked): HasBody has to peek
	preparse int  // a middleware in front already parsed the form: 1 ParseMultipartForm(32 MB) / ParseForm, 2 ParseMultipartForm(16): files are spilled to disk (*os.File)
	pathEnc  int  // spelling of a path value: 0 url.PathEscape, 1 every byte escaped, 2 the same in lower-case hex
}

// c03PadForm appends an undeclared field so that the urlencoded body is exactly n bytes long.
func c03PadForm(b []byte, n int) []byte {
	key := "zz-pad-zz="
	if len(b) > 0 {
		key = "&" + key
	}
	if len(b)+len(key) >= n {
		return b
	}
	out := make([]byte, 0, n)
	out = append(append(out, b...), key...)
	return append(out, bytes.Repeat([]byte{'x'}, n-len(out))...)
}

func c03WireOf(sum int) c03Wire {
	return c03Wire{enc: sum % 4, ctype: (sum / 4) % 4, chunked: (sum/16)%4 == 0, preparse: []int{0, 0, 0, 1, 2}[(sum/64)%5], pathEnc: []int{0, 0, 1, 2}[(sum/320)%4]}
}

// c03Encode writes key/value pairs as a query string or urlencoded body. 0: url.Values.Encode
// (keys sorted, space as '+'); 1: in the given order, space as %20; 2: every byte that is not a
// letter or digit as a lower-case escape; 3: every byte escaped.
func c03Encode(pairs [][2]string, variant int) string {
	if variant == 0 {
		q := url.Values{}
		for _, kv := range pairs {
			q.Add(kv[0], kv[1])
		}
		return q.Encode()
	}
	esc := func(t string) string {
		switch variant {
		case 1:
			return strings.ReplaceAll(url.QueryEscape(t), "+", "%20")
		}
		var sb strings.Builder
		for i := 0; i < len(t); i++ {
			c := t[i]
			if variant == 2 && (c >= 'a' && c <= 'z' || c >= 'A' && c <= 'Z' || c >= '0' && c <= '9') {
				sb.WriteByte(c)
			} else if variant == 2 {
				fmt.Fprintf(&sb, "%%%02x", c)
			} else {
				fmt.Fprintf(&sb, "%%%02X", c)
			}
		}
		return sb.String()
	}
	parts := make([]string, len(pairs))
	for i, kv := range pairs {
		parts[i] = esc(kv[0]) + "=" + esc(kv[1])
	}
	return strings.Join(parts, "&")
}

// c03PathEscape writes one path segment
func c03PathEscape(t string, variant int) string {
	if variant == 0 {
		return url.PathEscape(t)
	}
	var sb strings.Builder
	for i := 0; i < len(t); i++ {
		if variant == 2 {
			fmt.Fprintf(&sb, "%%%02x", t[i])
		} else {
			fmt.Fprintf(&sb, "%%%02X", t[i])
		}
	}
	return sb.String()
}

// c03ContentType spells a media type another way: with a charset parameter, in upper case, with
// the boundary quoted (media types are case-insensitive and may carry parameters)
func c03ContentType(ct string, variant int) string {
	if ct == "" {
		return ct
	}
	mt, rest, has := strings.Cut(ct, ";")
	switch variant {
	case 1:
		if has {
			return mt + "; charset=utf-8;" + rest
		}
		return mt + "; charset=UTF-8"
	case 2:
		if has {
			return strings.ToUpper(mt) + ";" + rest
		}
		return strings.ToUpper(mt)
	case 3:
		if k, v, ok := strings.Cut(rest, "="); has && ok && strings.TrimSpace(k) == "boundary" {
			return mt + "; boundary=\"" + v + "\""
		}
		return mt + " ;  charset=\"utf-8\""
	}
	return ct
}

// c03OpaqueReader hides the length of a body from httptest.NewRequest (ContentLength -1)
type c03OpaqueReader struct{ r io.Reader }

func (o c03OpaqueReader) Read(p []byte) (int, error) { return o.r.Read(p) }

func c03BodyReader(b []byte, chunked bool) io.Reader {
	if chunked {
		return c03OpaqueReader{bytes.NewReader(b)}
	}
	return bytes.NewReader(b)
}

// c03Preparse does what a middleware in front of the API may have done already (logging the form,
// security.BearerAuth looking for access_token): parse the form. For a urlencoded body under DELETE
// it does nothing: net/http's ParseForm does not read such a body but leaves an empty PostForm
// behind, after which the binder finds nothing (observation recorded in the report).
func c03Preparse(req *http.Request, multipartBody bool, mode int) {
	if mode == 0 {
		return
	}
	if multipartBody {
		if mode == 2 {
			_ = req.ParseMultipartForm(16)
		} else {
			_ = req.ParseMultipartForm(32 << 20)
		}
		return
	}
	switch req.Method {
	case "POST", "PUT", "PATCH":
		_ = req.ParseForm()
	}
}

// c03Cleanup removes the temporary files of a parsed multipart form, as net/http's server does
func c03Cleanup(req *http.Request) {
	if req != nil && req.MultipartForm != nil {
		_ = req.MultipartForm.RemoveAll()
	}
}

func c03ScalarJSON(d string) interface{} {
	switch {
	case strings.HasPrefix(d, "I:"):
		return json.RawMessage(d[2:])
	case strings.HasPrefix(d, "F:"):
		return json.RawMessage(proto.UnB(d[2:]))
	case strings.HasPrefix(d, "S:"):
		return proto.UnB(d[2:])
	case strings.HasPrefix(d, "B:"):
		return d[2:] == "1"
	}
	panic("C03: bad default " + d)
}

func c03DefaultJSON(d string) (interface{}, bool) {
	if d == "-" {
		return nil, false
	}
	if strings.HasPrefix(d, "A:") {
		items := []interface{}{}
		if d[2:] != "" {
			for _, it := range strings.Split(d[2:], ";") {
				items = append(items, c03ScalarJSON(it))
			}
		}
		return items, true
	}
	return c03ScalarJSON(d), true
}

func c03Validations(m map[string]interface{}, items map[string]interface{}, valid string) {
	if valid == "-" {
		return
	}
	for _, v := range strings.Split(valid, ",") {
		k, arg, _ := strings.Cut(v, ":")
		tgt := m
		if strings.HasPrefix(k, "i.") { // validation declared on the items
			k, tgt = k[2:], items
		}
		switch k {
		case "max":
			tgt["maximum"] = json.RawMessage(arg)
		case "min":
			tgt["minimum"] = json.RawMessage(arg)
		case "maxLength", "minLength", "maxItems", "minItems":
			tgt[k] = json.RawMessage(arg)
		case "unique":
			tgt["uniqueItems"] = true
		case "enum":
			var es []interface{}
			for _, e := range strings.Split(arg, ";") {
				es = append(es, c03ScalarJSON(e))
			}
			tgt["enum"] = es
		default:
			panic("C03: bad validation " + v)
		}
	}
}

func (d *c03Decl) paramJSON() map[string]interface{} {
	in := d.in
	if in == "form" || in == "mform" {
		in = "formData"
	}
	m := map[string]interface{}{"name": d.name, "in": in, "type": d.typ}
	if d.format != "" {
		m["format"] = d.format
	}
	var items map[string]interface{}
	if d.typ == "array" {
		items = map[string]interface{}{"type": d.itype}
		if d.iformat != "" {
			items["format"] = d.iformat
		}
		m["items"] = items
		if d.cf != "-" {
			m["collectionFormat"] = d.cf
		}
	}
	if d.req {
		m["required"] = true
	}
	if d.allowEmpty {
		m["allowEmptyValue"] = true
	}
	if dv, ok := c03DefaultJSON(d.def); ok {
		m["default"] = dv
	}
	c03Validations(m, items, d.valid)
	return m
}

// route: the method and the path template of the operation. Parameters outside the body can be
// declared on any method, form parameters on every method that can have a body; path parameters
// stand at the end of the template or in the middle.
func (d *c03Decl) route() (method, pattern string) {
	method = []string{"GET", "GET", "DELETE", "POST", "PUT", "PATCH", "OPTIONS", "GET"}[d.sum%8]
	if d.in == "form" || d.in == "mform" {
		method = []string{"POST", "POST", "PUT", "PATCH", "DELETE"}[d.sum%5]
		if d.in == "form" && d.sum%7 == 3 {
			// a urlencoded form under a method net/http's ParseForm does not read the body for: the binder reads it itself
			method = []string{"GET", "OPTIONS"}[(d.sum/7)%2] // (not HEAD: its answers carry no message to read the parameter name from)
		}
	}
	pattern = "/op"
	if d.in == "path" {
		pattern = "/op/{" + d.name + "}"
		if (d.sum/8)%3 == 0 {
			pattern += "/tail"
		}
	}
	return
}

// basePath of the generated description
func (d *c03Decl) basePath() string { return []string{"/", "/", "/v2"}[(d.sum/24)%3] }

// requestPath: the path of a request for the operation, pv being the text for the path parameter
func (d *c03Decl) requestPath(pv string, pathEnc int) string {
	_, pattern := d.route()
	p := strings.TrimRight(d.basePath(), "/") + pattern
	if d.in == "path" {
		p = strings.Replace(p, "{"+d.name+"}", c03PathEscape(pv, pathEnc), 1)
	}
	return p
}

func (d *c03Decl) specJSON() []byte {
	method, pattern := d.route()
	op := map[string]interface{}{
		"operationId": "op",
		"parameters":  []interface{}{d.paramJSON()},
		"responses":   map[string]interface{}{"200": map[string]interface{}{"description": "ok"}},
	}
	if d.in == "form" || d.in == "mform" {
		op["consumes"] = []string{"application/x-www-form-urlencoded", "multipart/form-data"}
	}
	doc := map[string]interface{}{
		"swagger":  "2.0",
		"info":     map[string]interface{}{"title": "c03", "version": "1"},
		"basePath": d.basePath(),
		"consumes": []string{"application/json"},
		"produces": []string{"application/json"},
		"paths":    map[string]interface{}{pattern: map[string]interface{}{strings.ToLower(method): op}},
	}
	b, err := json.Marshal(doc)
	if err != nil {
		panic(err)
	}
	return b
}

type c03Built struct {
	handler  http.Handler
	captured *map[string]interface{}
	ran      *bool
	binder   *middleware.UntypedRequestBinder
	// routeBinder is the binder the default router built for the operation
	routeBinder *middleware.UntypedRequestBinder
	param       spec.Parameter
	doc         *loads.Document
}

var c03Cache = map[string]*c03Built{}

func c03Build(key string, d *c03Decl) *c03Built {
	if b, ok := c03Cache[key]; ok {
		return b
	}
	if len(c03Cache) > 4096 {
		c03Cache = map[string]*c03Built{}
	}
	doc, err := loads.Analyzed(json.RawMessage(d.specJSON()), "")
	if err != nil {
		panic("C03: spec does not load: " + err.Error())
	}
	api := untyped.NewAPI(doc)
	api.RegisterConsumer("application/x-www-form-urlencoded", runtime.DiscardConsumer)
	api.RegisterConsumer("multipart/form-data", runtime.DiscardConsumer)
	b := &c03Built{captured: new(map[string]interface{}), ran: new(bool), doc: doc}
	method, pattern := d.route()
	api.RegisterOperation(strings.ToLower(method), pattern, runtime.OperationHandlerFunc(func(params interface{}) (interface{}, error) {
		*b.ran = true
		if m, ok := params.(map[string]interface{}); ok {
			*b.captured = m
		}
		return map[string]interface{}{"ok": true}, nil
	}))
	// the public ways to serve the API (all end in NewOperationExecutor + BindAndValidate)
	ctx := middleware.NewContext(doc, api, nil)
	switch (d.sum / 72) % 4 {
	case 0:
		b.handler = middleware.Serve(doc, api)
	case 1:
		b.handler = ctx.APIHandler(nil)
	case 2:
		b.handler = ctx.RoutesHandler(nil)
	default:
		b.handler = middleware.ServeWithBuilder(doc, api, middleware.PassthroughBuilder)
	}
	params := doc.Analyzer.ParamsFor(method, pattern)
	for _, p := range params {
		b.param = p
	}
	b.binder = middleware.NewUntypedRequestBinder(map[string]spec.Parameter{d.name: b.param}, doc.Spec(), strfmt.Default)
	_ = ctx.RoutesHandler(nil) // installs the default router
	probe := httptest.NewRequest(method, "http://srv.test"+d.requestPath("1", 0), nil)
	if route, ok := ctx.LookupRoute(probe); ok && route.Binder != nil {
		b.routeBinder = route.Binder
	} else {
		b.routeBinder = b.binder
	}
	c03Cache[key] = b
	return b
}

func c03Canon(v interface{}) string {
	switch x := v.(type) {
	case nil:
		return "nil"
	case int8:
		return "i8:" + strconv.FormatInt(int64(x), 10)
	case int16:
		return "i16:" + strconv.FormatInt(int64(x), 10)
	case int32:
		return "i32:" + strconv.FormatInt(int64(x), 10)
	case int64:
		return "i64:" + strconv.FormatInt(x, 10)
	case bool:
		return "b:" + proto.Bool(x)
	case string:
		return "s:" + proto.B(x)
	case float32:
		return fmt.Sprintf("f32:%08x", math.Float32bits(x))
	case float64:
		return fmt.Sprintf("f64:%016x", math.Float64bits(x))
	case strfmt.Base64:
		return "xBase64:" + proto.B(string(x))
	case runtime.File:
		n := int64(-1)
		name := ""
		if x.Header != nil {
			n, name = x.Header.Size, x.Header.Filename
		}
		return "file:" + proto.B(name) + ":" + strconv.FormatInt(n, 10)
	}
	rv := reflect.ValueOf(v)
	if rv.Kind() == reflect.Slice {
		tag := "?"
		items := make([]string, rv.Len())
		zero := c03Canon(reflect.Zero(rv.Type().Elem()).Interface())
		if i := strings.IndexByte(zero, ':'); i >= 0 {
			tag = zero[:i]
		}
		for i := range items {
			c := c03Canon(rv.Index(i).Interface())
			if j := strings.IndexByte(c, ':'); j >= 0 {
				c = c[j+1:]
			}
			items[i] = c
		}
		return "[" + tag + "]" + strings.Join(items, ";")
	}
	if s, ok := v.(fmt.Stringer); ok {
		return "x" + rv.Type().Name() + ":" + proto.B(s.String())
	}
	return "?" + strings.ReplaceAll(fmt.Sprintf("%T", v), " ", "_")
}

func c03Err(name string, status int, code int32, msg string) []string {
	named := strings.Contains(msg, name)
	return []string{"E", proto.N(status), proto.Bool(named), proto.N(int(code))}
}

var c03Locs = map[string]bool{"query": true, "header": true, "path": true, "form": true, "mform": true}
var c03Scalars = map[string]bool{"string": true, "integer": true, "number": true, "boolean": true}

func c03Exec(in []string) (out []string) {
	if len(in) > 0 && in[0] == "V" {
		return c03ExecV(in) // runtime.ReadSingleValue / ReadCollectionValue (c03v.go)
	}
	if len(in) > 0 && (in[0] == "M" || in[0] == "MB") {
		return c03ExecMulti(in) // several parameters of one operation (c03m.go)
	}
	if len(in) > 0 && (in[0] == "F" || in[0] == "FB" || in[0] == "FS") {
		return c03ExecFile(in) // parameters of a form request given part by part (c03x.go)
	}
	target, fmode := "", ""
	if len(in) == 16 && in[0] == "S" { // a struct target: two more fields (c03x.go)
		target, fmode = in[1], in[2]
		in = append([]string{"S"}, in[3:]...)
	} else if len(in) > 0 && in[0] == "S" {
		return []string{"INVALID"}
	}
	if len(in) != 14 {
		return []string{"INVALID"}
	}
	invalid := false
	func() {
		defer func() {
			if recover() != nil {
				invalid = true
			}
		}()
		proto.UnB(in[1])
		proto.UnB(in[4])
		proto.UnB(in[6])
		proto.UnB(in[12])
		proto.UnL(in[13])
		c03DefaultJSON(in[10])
		c03Validations(map[string]interface{}{}, map[string]interface{}{}, in[11])
	}()
	if invalid || !c03Locs[in[2]] || proto.UnB(in[1]) == "" {
		return []string{"INVALID"}
	}
	if in[3] == "array" {
		if !c03Scalars[in[5]] {
			return []string{"INVALID"}
		}
	} else if !c03Scalars[in[3]] || in[5] != "-" || in[6] != "-" {
		return []string{"INVALID"}
	}
	for _, f := range []string{in[8], in[9]} {
		if f != "0" && f != "1" {
			return []string{"INVALID"}
		}
	}
	d := &c03Decl{
		name: proto.UnB(in[1]), in: in[2], typ: in[3], format: proto.UnB(in[4]), itype: in[5], iformat: proto.UnB(in[6]),
		cf: in[7], req: in[8] == "1", allowEmpty: in[9] == "1", def: in[10], valid: in[11],
		sum: c03Sum(in[1:12]...),
	}
	if d.itype == "-" {
		d.itype = ""
	}
	sentKey, values := proto.UnB(in[12]), proto.UnL(in[13])
	sent := in[13] != "."
	if d.in == "path" {
		for _, c := range []byte(d.name) {
			if !(c >= 'a' && c <= 'z' || c >= 'A' && c <= 'Z' || c >= '0' && c <= '9') {
				return []string{"INVALID"}
			}
		}
	}
	var b *c03Built
	func() {
		defer func() {
			if recover() != nil {
				b = nil
			}
		}()
		b = c03Build(strings.Join(in[1:12], " "), d)
	}()
	if b == nil {
		return []string{"INVALID"}
	}
	method, _ := d.route()
	extFmt := d.format
	if d.typ == "array" {
		extFmt = d.iformat
	}
	ext := c03Ext(extFmt, append(append([]string{}, values...), c03DefText(d.def)...))
	defer func() {
		if len(out) > 0 && out[0] != "PANIC" && out[0] != "INVALID" {
			out = append([]string{ext}, out...)
		}
	}()

	// ---- the request. How it is spelled and delivered is drawn from a checksum of the whole case.
	wire := c03WireOf(c03Sum(in...))
	pv := ""
	if len(values) > 0 {
		pv = values[len(values)-1]
	}
	urlPath := d.requestPath(pv, wire.pathEnc)
	var body io.Reader
	ctype := ""
	var pairs [][2]string
	if sent {
		for _, v := range values {
			pairs = append(pairs, [2]string{sentKey, v})
		}
	}
	switch d.in {
	case "query":
		if sent {
			urlPath += "?" + c03Encode(pairs, wire.enc)
		}
	case "form":
		fb := []byte(c03Encode(pairs, wire.enc))
		if c03Sum(in...)%61 == 7 {
			// a form body of exactly the size net/http (and the binder's own reading under the methods net/http
			// does not read) still accepts: an undeclared field fills it up to 10 MiB — it binds like the short one
			fb = c03PadForm(fb, 10<<20)
		}
		body, ctype = c03BodyReader(fb, wire.chunked), "application/x-www-form-urlencoded"
	case "mform":
		var buf bytes.Buffer
		mw := multipart.NewWriter(&buf)
		if sent {
			for _, v := range values {
				_ = mw.WriteField(sentKey, v)
			}
		}
		_ = mw.Close()
		body, ctype = c03BodyReader(buf.Bytes(), wire.chunked), mw.FormDataContentType()
	}
	// decoys: the same name carrying another text in a location the parameter is NOT declared in
	// (a parameter is looked up under the rules of its own location only); switched on for a third
	// of the inputs, chosen by a checksum of the input line so that a case replays identically
	sum := 0
	for _, f := range in {
		for i := 0; i < len(f); i++ {
			sum += int(f[i])
		}
	}
	decoy := sum%3 == 0 && sentKey != ""
	decoyHeader := false
	if decoy {
		dq := [][2]string{{sentKey, "decoy-99"}}
		switch d.in {
		case "query":
			decoyHeader = true
		case "header", "path", "form", "mform":
			if strings.Contains(urlPath, "?") {
				urlPath += "&" + c03Encode(dq, wire.enc)
			} else {
				urlPath += "?" + c03Encode(dq, wire.enc)
			}
			// a form parameter is not a header either
			decoyHeader = (d.in == "form" || d.in == "mform") && sum%2 == 0
		}
	}
	// a second kind of decoy for the streams that hand the route parameters over themselves: the name
	// as a route parameter of a parameter that is not declared in the path
	var decoyRoute middleware.RouteParams
	if sum%5 == 1 && sentKey != "" && d.in != "path" {
		decoyRoute = middleware.RouteParams{{Name: sentKey, Value: "decoy-77"}, {Name: d.name, Value: "decoy-78"}}
	}
	req := httptest.NewRequest(method, "http://srv.test"+urlPath, body)
	defer c03Cleanup(req)
	if ctype != "" {
		req.Header.Set("Content-Type", c03ContentType(ctype, wire.ctype))
	}
	if decoyHeader {
		req.Header.Set(sentKey, "decoy-99")
	}
	if d.in == "header" && sent {
		for _, v := range values {
			req.Header.Add(sentKey, v) // canonicalises the key, as net/http's server does on the wire
		}
	}
	if body != nil {
		c03Preparse(req, d.in == "mform", wire.preparse)
	}
	routeParams := func() middleware.RouteParams {
		rp := decoyRoute
		if d.in == "path" && sent {
			rp = nil
			for _, v := range values {
				rp = append(rp, middleware.RouteParam{Name: sentKey, Value: v})
			}
		}
		return rp
	}

	switch in[0] {
	case "H":
		*b.ran, *b.captured = false, nil
		rec := httptest.NewRecorder()
		b.handler.ServeHTTP(rec, req)
		if *b.ran {
			v, ok := (*b.captured)[d.name]
			if !ok {
				return []string{"U"}
			}
			return []string{"V", c03Canon(v)}
		}
		var e struct {
			Code    int32  `json:"code"`
			Message string `json:"message"`
		}
		_ = json.Unmarshal(rec.Body.Bytes(), &e)
		return c03Err(d.name, rec.Code, e.Code, e.Message)
	case "B":
		rp := routeParams()
		data := map[string]interface{}{}
		var target interface{} = &data
		if sum%7 < 2 {
			// the map is handed over as it is (a map is a reference), holding a value from an earlier request
			data[d.name] = "stale"
			target = data
		}
		binder := b.binder
		if sum%4 == 3 {
			// the binder the router built for the operation (the one BindAndValidate uses)
			binder = b.routeBinder
		}
		err := binder.Bind(req, rp, runtime.JSONConsumer(), target)
		if err == nil {
			v, ok := data[d.name]
			if !ok {
				return []string{"U"}
			}
			return []string{"V", c03Canon(v)}
		}
		status, code, msg := 500, int32(0), err.Error()
		if ce, ok := err.(*errors.CompositeError); ok {
			code = ce.Code()
			if len(ce.Errors) > 0 {
				msg = ce.Errors[0].Error()
				if ee, ok := ce.Errors[0].(errors.Error); ok {
					code = ee.Code()
				}
				if ce2, ok := ce.Errors[0].(*errors.CompositeError); ok && len(ce2.Errors) > 0 {
					msg = ce2.Errors[0].Error()
					if ee, ok := ce2.Errors[0].(errors.Error); ok {
						code = ee.Code()
					}
				}
			}
		} else if ee, ok := err.(errors.Error); ok {
			code = ee.Code()
		}
		status = int(code)
		if code >= 600 {
			status = errors.DefaultHTTPCode
		}
		return c03Err(d.name, status, code, msg)
	case "S":
		return c03BindStruct(b, d, req, routeParams(), target, fmode)
	}
	panic("C03: unknown stream " + in[0])
}

// c03Ext computes the graph of the EXTERNAL strfmt functions (UnmarshalText of the registered type,
// Validates of the registry) on the candidate texts of a case. It never goes through the binder.
func c03Ext(format string, texts []string) string {
	if format == "" {
		return "."
	}
	tpe, ok := strfmt.Default.GetType(format)
	if !ok {
		return "."
	}
	if _, ok := reflect.New(tpe).Interface().(encoding.TextUnmarshaler); !ok {
		panic("C03: registered format without TextUnmarshaler: " + format)
	}
	k := "Ro"
	if tpe.Kind() == reflect.String {
		k = "Rs"
	}
	out := []string{k + "." + tpe.Name()}
	seen := map[string]bool{}
	add := func(t string) {
		if seen[t] {
			return
		}
		seen[t] = true
		v := reflect.New(tpe)
		res := "!"
		if err := v.Interface().(encoding.TextUnmarshaler).UnmarshalText([]byte(t)); err == nil {
			c := c03Canon(v.Elem().Interface())
			res = c[strings.IndexByte(c, ':')+1:]
		}
		out = append(out, proto.B(t)+":"+res+":"+proto.Bool(strfmt.Default.Validates(format, t)))
	}
	add("")
	for _, t := range texts {
		add(t)
		for _, sep := range []string{",", " ", "\t", "|"} {
			for _, piece := range strings.Split(t, sep) {
				add(strings.TrimSpace(piece))
			}
		}
	}
	return strings.Join(out, ",")
}

var _ = hex.EncodeToString

// ---------------------------------------------------------------------------------------------
// generator

type c03Scalar struct{ typ, format string }

var c03IntFormats = []string{"int8", "int16", "int32", "int64", "", "int32", "int64", "int8", "int"}
var c03RegFormats = []string{"date", "byte", "uuid", "email", "date"}

func c03PickScalar(r *proto.Rng) c03Scalar {
	switch x := r.Intn(100); {
	case x < 42:
		return c03Scalar{"integer", r.Pick(c03IntFormats...)}
	case x < 60:
		return c03Scalar{"number", r.Pick("float", "double", "", "double", "float", "decimal")}
	case x < 70:
		return c03Scalar{"boolean", ""}
	case x < 84:
		return c03Scalar{"string", r.Pick("", "", "custom", "")}
	default:
		return c03Scalar{"string", r.Pick(c03RegFormats...)}
	}
}

func c03Width(format string) uint {
	switch format {
	case "int8":
		return 8
	case "int16":
		return 16
	case "int32":
		return 32
	}
	return 64
}

func c03Pow2(n uint) *big.Int { return new(big.Int).Lsh(big.NewInt(1), n) }

// c03LimitsFit: every min/max of the validations is a value of the integer width w
func c03LimitsFit(valid string, w uint) bool {
	for _, v := range strings.Split(valid, ",") {
		k, arg, _ := strings.Cut(v, ":")
		if k != "min" && k != "max" {
			continue
		}
		n, ok := new(big.Int).SetString(arg, 10)
		if !ok {
			return false
		}
		lim := c03Pow2(w - 1)
		if n.Cmp(lim) >= 0 || n.Cmp(new(big.Int).Neg(lim)) < 0 {
			return false
		}
	}
	return true
}

// c03IntTexts: boundary literals of the width (and of the others), +-1 around, signs, leading zeros,
// hex / underscore / exponent forms, white space, junk.
func c03IntText(r *proto.Rng, w uint) string {
	switch r.Intn(16) {
	case 0, 1, 2, 3:
		ww := w
		if r.Chance(1, 4) {
			ww = []uint{8, 16, 32, 64}[r.Intn(4)]
		}
		v := c03Pow2(ww - 1)
		switch r.Intn(6) {
		case 0: // max
			v.Sub(v, big.NewInt(1))
		case 1: // max+1
		case 2: // min
			v.Neg(v)
		case 3: // min-1
			v.Neg(v).Sub(v, big.NewInt(1))
		case 4:
			v.Sub(v, big.NewInt(2))
		case 5:
			v.Neg(v).Add(v, big.NewInt(1))
		}
		s := v.String()
		if r.Chance(1, 8) && v.Sign() >= 0 {
			s = "+" + s
		}
		if r.Chance(1, 10) {
			neg := strings.HasPrefix(s, "-")
			s = strings.TrimLeft(s, "+-")
			s = strings.Repeat("0", 1+r.Intn(3)) + s
			if neg {
				s = "-" + s
			}
		}
		return s
	case 4, 5, 6:
		return r.Pick("", "-", "+") + r.Bytes("0123456789", 1+r.Intn(4))
	case 7:
		return r.Pick("0", "-0", "+0", "00", "007", "-007", "+5")
	case 8:
		return r.Pick("1_0", "0x10", "0X1F", "1e3", "1.0", "1.", ".5", "0b1", "0o7", "1E2", "10_000")
	case 9:
		return r.Pick(" 12", "12 ", "1 2", "\t7", "7\n", "+ 1", "- 1")
	case 10:
		return r.Pick("abc", "--1", "+-1", "+", "-", "1-", "1+1", "1a", "a1", "NaN", "inf", "true", "\xef\xbc\x91")
	case 11:
		return r.Pick("", "-") + r.Bytes("0123456789", 18+r.Intn(14))
	case 12:
		return r.Bytes("0123456789+-_x. e", 1+r.Intn(5))
	default:
		return r.Pick("", "-") + r.Bytes("0123456789", 1+r.Intn(int(w/4)+1))
	}
}

func c03FloatText(r *proto.Rng) string {
	switch r.Intn(14) {
	case 0, 1:
		return r.Pick("", "-", "+") + r.Bytes("0123456789", 1+r.Intn(4)) + r.Pick("", ".", "."+r.Bytes("0123456789", 1+r.Intn(5)))
	case 2:
		return r.Pick("", "-") + r.Bytes("0123456789", 1+r.Intn(3)) + "." + r.Bytes("0123456789", r.Intn(4)) + r.Pick("e", "E") + r.Pick("", "+", "-") + r.Bytes("0123456789", 1+r.Intn(2))
	case 3:
		return r.Pick("1.5", "-0", "0", "0.0", "1e3", "1E-3", ".5", "5.", "-.5e1", "0.1", "0.3", "0.25", "1024", "16777217", "9007199254740993", "123456789.123456789")
	case 4:
		return r.Pick("inf", "-Inf", "+INF", "Infinity", "-infinity", "NaN", "nan", "+nan", "-nan", "infinit", "infx", "nanx", "in")
	case 5:
		return r.Pick("0x1p-2", "0X1P+3", "0x1.8p1", "0x.1p4", "0x1p", "0x1", "0x", "0xp1", "-0x1p0", "0x1_0p0", "0x_1p0", "0x1p1_0", "0x1p2000", "0x1p-2000", "0x1.fffffffffffff8p1023")
	case 6:
		return r.Pick("1_0", "1__0", "_1", "1_", "1_.5", "1._5", "1e1_0", "1_000.5", "1e_1")
	case 7:
		return r.Pick("1e999", "-1e999", "1e-999", "1e309", "1e308", "1.7976931348623157e308", "1.7976931348623158e308", "1.7976931348623159e308", "4.9e-324", "2.4e-324", "2.5e-324", "1e99999999999999999999", "0e99999999999999999999", "1e-99999999999999999999")
	case 8:
		return r.Pick("3.4028235e38", "3.4028236e38", "3.4028234663852886e38", "3.40282356779733661637539395458142568448e38", "3.5e38", "-3.5e38", "1e39", "1.401298464324817e-45", "7e-46", "1e-50", "1.17549435e-38", "16777216", "16777217", "0.1", "1e38")
	case 9:
		return r.Pick("1e", "e5", "1e+", "1.2.3", ".", "+", "-", "+.", ".e1", "1e1.5", " 1", "1 ", "abc", "1,5", "1f", "0x1.p", "\xd9\xa1")
	case 10:
		return r.Bytes("0123456789", 1+r.Intn(25)) + r.Pick("", "."+r.Bytes("0123456789", r.Intn(25))) + r.Pick("", "", "e"+r.Pick("", "-")+r.Bytes("0123456789", 1+r.Intn(3)))
	case 11:
		return r.Bytes("0123456789.eE+-_xpXnaif", 1+r.Intn(6))
	default:
		return r.Pick("", "-") + r.Bytes("0123456789", 1+r.Intn(8)) + "." + r.Bytes("0123456789", 1+r.Intn(8))
	}
}

func c03Text(r *proto.Rng, sc c03Scalar) string {
	switch sc.typ {
	case "integer":
		return c03IntText(r, c03Width(sc.format))
	case "number":
		return c03FloatText(r)
	case "boolean":
		return r.Pick("true", "TRUE", "True", "false", "FALSE", "0", "1", "yes", "no", "banana", "t", "f", "on", "off", "Y", "n", "enabled", "disabled",
			"checked", "unchecked", "selected", "ok", "ko", " true", "true ", "2", "-1", "tru", "nil")
	case "string":
		switch sc.format {
		case "date":
			return r.Pick("2020-02-03", "2020-02-30", "2020-02-29", "2019-02-29", "20200203", "2020-2-3", "0001-01-01", "9999-12-31", "2020-13-01", "abc", "2020-02-03T00:00:00Z")
		case "byte":
			return r.Pick("aGk=", "aGk", "aGVsbG8=", "!!!", "_-8=", "+/8=", "YQ==", "YQ", "a", "====")
		case "uuid":
			return r.Pick("a8098c1a-f86e-11da-bd1a-00112444be1e", "A8098C1A-F86E-11DA-BD1A-00112444BE1E", "zz", "a8098c1a-f86e-11da-bd1a-00112444be1", "a8098c1af86e11dabd1a00112444be1e", "6ba7b810-9dad-11d1-80b4-00c04fd430c8")
		case "email":
			return r.Pick("a@b.co", "nope", "a@b", "x.y@example.com", "@", "a b@c.d")
		}
		if r.Chance(1, 5) {
			// a slash, a plus, broken and literal percent signs, a NUL, a line feed, a semicolon, a long text
			return r.Pick("a/b", "a+b", "%zz", "%", "100%25", "a\x00b", "a\nb", "a;b", "../x", "?x=1", "#frag",
				strings.Repeat("long text ", 300))
		}
		return r.Pick("abc", "a b", "a,b", "a|b", "x", "0", "\xe9t\xe9", "UPPER", " lead", "trail ", "a=b&c", "%41", "+", "\"q\"", "a\tb")
	}
	return "x"
}

// a well-typed default for the scalar kind
func c03DefaultScalar(r *proto.Rng, sc c03Scalar) string {
	switch sc.typ {
	case "integer":
		w := c03Width(sc.format)
		lim := int64(1) << (w - 1)
		if w == 64 {
			lim = 1 << 52
		}
		v := int64(r.Intn(int(min64(lim, 1<<40)))) - int64(r.Intn(int(min64(lim, 1<<40))))
		if r.Chance(1, 4) {
			v = []int64{lim - 1, -lim, 0, 1, -1}[r.Intn(5)]
		}
		return "I:" + strconv.FormatInt(v, 10)
	case "number":
		if r.Chance(1, 2) {
			return "I:" + strconv.Itoa(r.Intn(2000)-1000)
		}
		return "F:" + proto.B(r.Pick("1.5", "-0.25", "0.1", "2.5e3", "1e-3", "100.0", "3.25"))
	case "boolean":
		return "B:" + proto.Bool(r.Chance(1, 2))
	case "string":
		switch sc.format {
		case "date":
			return "S:" + proto.B(r.Pick("2020-01-01", "1999-12-31"))
		case "byte":
			return "S:" + proto.B(r.Pick("aGk=", "YQ=="))
		case "uuid":
			return "S:" + proto.B("6ba7b810-9dad-11d1-80b4-00c04fd430c8")
		case "email":
			return "S:" + proto.B("d@e.fg")
		}
		return "S:" + proto.B(r.Pick("dflt", "x y", "", "d,e"))
	}
	return "-"
}

func min64(a, b int64) int64 {
	if a < b {
		return a
	}
	return b
}

var c03Names = []string{"limit", "Tags", "since-id", "pval", "X-Rate-Limit", "x-rate-limit", "X-RATE", "xRate", "x-request-id", "Accept-Version"}

func c03Sep(cf string) string {
	switch cf {
	case "ssv":
		return " "
	case "tsv":
		return "\t"
	case "pipes":
		return "|"
	}
	return ","
}

func c03DefText(d string) []string {
	var out []string
	for _, it := range strings.Split(strings.TrimPrefix(d, "A:"), ";") {
		if strings.HasPrefix(it, "S:") {
			out = append(out, proto.UnB(it[2:]))
		}
	}
	return out
}

// c03Table enumerates the absent / empty / text x required x allowEmptyValue x default decision table
// for every kind and location (scalars) and for arrays with csv / pipes / multi — exhaustively, on every run.
func c03Table(emit func(in ...string)) {
	kinds := []c03Scalar{{"integer", "int8"}, {"integer", "int16"}, {"integer", "int32"}, {"integer", "int64"}, {"integer", ""},
		{"number", "float"}, {"number", "double"}, {"number", ""}, {"boolean", ""}, {"string", ""}, {"string", "date"}, {"string", "uuid"}}
	text := map[string]string{"integer": "42", "number": "2.5", "boolean": "true", "string": "abc", "date": "2020-02-03",
		"uuid": "6ba7b810-9dad-11d1-80b4-00c04fd430c8"}
	dflt := map[string]string{"integer": "I:7", "number": "F:" + proto.B("1.5"), "boolean": "B:1", "string": "S:" + proto.B("dflt"),
		"date": "S:" + proto.B("1999-12-31"), "uuid": "S:" + proto.B("a8098c1a-f86e-11da-bd1a-00112444be1e")}
	key := func(sc c03Scalar) string {
		if sc.format == "date" || sc.format == "uuid" {
			return sc.format
		}
		return sc.typ
	}
	i := 0
	for _, sc := range kinds {
		for _, req := range []bool{false, true} {
			for _, ae := range []bool{false, true} {
				for _, hasDef := range []bool{false, true} {
					for sit := 0; sit < 3; sit++ { // absent, empty, text
						var values []string
						switch sit {
						case 1:
							values = []string{""}
						case 2:
							values = []string{text[key(sc)]}
						}
						// scalars in every location
						for _, loc := range []string{"query", "header", "path", "form", "mform"} {
							i++
							stream := []string{"H", "B"}[i%2]
							if loc == "path" {
								if !req {
									continue // a path parameter is always required
								}
								if sit != 2 {
									stream = "B" // a route cannot carry an absent or empty segment
								}
							}
							def := "-"
							if hasDef {
								def = dflt[key(sc)]
							}
							emit(c03Case(stream, "pval", loc, sc.typ, sc.format, "-", "", "-", req, ae, def, "-", "pval", values)...)
						}
						// arrays
						if sc.format == "uuid" {
							continue
						}
						for _, cf := range []string{"csv", "pipes", "multi"} {
							for _, loc := range []string{"query", "header", "form"} {
								i++
								def := "-"
								if hasDef {
									def = "A:" + dflt[key(sc)] + ";" + dflt[key(sc)]
								}
								vs := values
								if sit == 2 {
									vs = []string{text[key(sc)] + c03Sep(cf) + " " + text[key(sc)], text[key(sc)]}
								}
								emit(c03Case([]string{"H", "B"}[i%2], "pval", loc, "array", "", sc.typ, sc.format, cf, req, ae, def, "-", "pval", vs)...)
							}
						}
					}
				}
			}
		}
	}
}

func c03Gen(r *proto.Rng, n int, tier string, emit func(in ...string)) {
	defer func() {
		// the two streams of the deepening (c03x.go), after the others so that those are unchanged for a
		// seed: form requests part by part (type: file), struct targets
		c03GenFile(r, n/8, tier, emit)
		c03GenStruct(r, n*2/5, tier, emit)
		// several declared parameters of one operation against one request (c03m.go)
		c03GenMulti(r, n/4, tier, emit)
		// the exported readers of request.go (c03v.go)
		c03GenV(r, n/20, emit)
	}()
	c03Table(emit)
	perDecl := 8
	for emitted := 0; emitted < n; {
		// ---- one declaration
		loc := "query"
		switch x := r.Intn(100); {
		case x < 35:
		case x < 60:
			loc = "header"
		case x < 70:
			loc = "path"
		case x < 85:
			loc = "form"
		default:
			loc = "mform"
		}
		name := r.Pick(c03Names...)
		if loc != "header" && loc != "path" && r.Chance(1, 5) {
			// names only a query string or a form can carry (header names are tokens, path names placeholders)
			name = r.Pick("a.b", "ids[]", "q q", "filter[name]", "sort+by", "a&b=c", "50%", "\xc3\xa9t\xc3\xa9")
		}
		if loc == "path" {
			name = r.Pick("pval", "limit", "Tags", "sinceId")
		}
		isArray := r.Chance(35, 100)
		sc := c03PickScalar(r)
		if isArray && sc.typ == "string" && (sc.format == "uuid" || sc.format == "email") {
			// arrays of named string formats: item formats are not validated by go-openapi/validate
			// (observation recorded in the report); not part of the generated declarations
			sc.format = "date"
		}
		typ, format, itype, iformat, cf := sc.typ, sc.format, "-", "", "-"
		if isArray {
			typ, format, itype, iformat = "array", "", sc.typ, sc.format
			cf = r.Pick("-", "csv", "ssv", "tsv", "pipes", "multi", "csv", "multi")
			if cf == "multi" && (loc == "header" || loc == "path") && !r.Chance(1, 6) {
				cf = "csv"
			}
		}
		req := r.Chance(1, 3)
		if loc == "path" {
			req = true
		}
		allowEmpty := r.Chance(1, 4)
		def := "-"
		if r.Chance(1, 3) {
			if isArray {
				k := r.Intn(4)
				items := make([]string, k)
				for i := range items {
					items[i] = c03DefaultScalar(r, sc)
				}
				def = "A:" + strings.Join(items, ";")
			} else {
				def = c03DefaultScalar(r, sc)
			}
		}
		valid := "-"
		if r.Chance(1, 6) {
			switch {
			case isArray:
				valid = r.Pick("minItems:1", "minItems:2", "maxItems:2", "maxItems:1", "unique", "minItems:1,maxItems:3", "unique,maxItems:3",
					"minItems:0", "maxItems:0", "minItems:3,maxItems:1", "minItems:2,maxItems:2", "unique,minItems:2")
			case sc.typ == "integer":
				valid = r.Pick("min:1", "max:100", "min:-5,max:5", "min:0", "enum:I:1;I:2;I:3", "max:-1", "enum:I:0;I:10",
					// the boundaries of the widths as limits, an empty range, a one-point range, limits together with an enumeration
					"min:-128,max:127", "max:127", "min:-32768", "max:2147483647", "min:-2147483648", "min:5,max:1", "min:7,max:7",
					"min:0,enum:I:-1;I:1", "enum:I:7", "max:9007199254740991", "min:-9007199254740991")
				for !c03LimitsFit(valid, c03Width(sc.format)) {
					// a limit outside the range of the declared format is an ill-typed declaration
					// (go-openapi/validate then rejects every value): not generated
					valid = r.Pick("min:1", "max:100", "min:-5,max:5", "min:-128,max:127", "min:7,max:7")
				}
			case sc.typ == "string" && sc.format == "":
				valid = r.Pick("minLength:2", "maxLength:3", "minLength:1,maxLength:4", "enum:S:"+proto.B("abc")+";S:"+proto.B("x"), "maxLength:0", "enum:S:"+proto.B("abc")+";S:-",
					"minLength:0", "minLength:3,maxLength:3", "minLength:4,maxLength:2", "maxLength:3000", "minLength:1,enum:S:-;S:"+proto.B("a b"), "enum:S:"+proto.B("a,b"))
			}
		}
		declFields := []string{proto.B(name), loc, typ, proto.B(format), itype, proto.B(iformat), cf,
			proto.Bool(req), proto.Bool(allowEmpty), def, valid}

		// ---- requests for it
		k := perDecl
		if tier == "thorough" {
			k = 12
		}
		for j := 0; j < k && emitted < n; j++ {
			stream := "H"
			if r.Chance(2, 5) {
				stream = "B"
			}
			// the key the client uses
			key := name
			switch {
			case loc == "header" && r.Chance(1, 2):
				switch r.Intn(4) {
				case 0:
					key = strings.ToUpper(name)
				case 1:
					key = strings.ToLower(name)
				case 2:
					key = http.CanonicalHeaderKey(name)
				default:
					b := []byte(name)
					for i := range b {
						if r.Chance(1, 2) {
							b[i] = strings.ToUpper(string(b[i]))[0]
						} else {
							b[i] = strings.ToLower(string(b[i]))[0]
						}
					}
					key = string(b)
				}
			case loc != "header" && loc != "path" && r.Chance(1, 12):
				key = r.Pick(strings.ToUpper(name), strings.ToLower(name), "other", name+"x")
			case loc == "header" && r.Chance(1, 12):
				key = r.Pick("Other", name+"x", "X")
			}
			// the values
			var values []string
			sent := true
			nv := 1
			if r.Chance(1, 5) && loc != "path" {
				nv = 2 + r.Intn(2)
			}
			for i := 0; i < nv; i++ {
				var v string
				switch {
				case r.Chance(1, 9):
					v = ""
				case isArray && cf != "multi":
					sep := c03Sep(cf)
					if r.Chance(1, 8) {
						sep = r.Pick(",", " ", "\t", "|")
					}
					m := r.Intn(5)
					parts := make([]string, m)
					for q := range parts {
						parts[q] = c03Text(r, sc)
						if r.Chance(1, 6) {
							parts[q] = r.Pick(" ", "  ", "") + parts[q] + r.Pick(" ", "")
						}
						if r.Chance(1, 12) {
							parts[q] = ""
						}
					}
					v = strings.Join(parts, sep)
					if r.Chance(1, 12) {
						v += sep
					}
				default:
					v = c03Text(r, sc)
				}
				values = append(values, v)
			}
			if r.Chance(1, 7) {
				sent, values = false, nil
			}
			if loc == "path" && stream == "H" {
				// a route always carries exactly one non-empty segment for the parameter
				sent, key = true, name
				if len(values) == 0 || values[0] == "" || values[0] == "." || values[0] == ".." {
					values = []string{c03Text(r, sc)}
					if values[0] == "" || values[0] == "." || values[0] == ".." {
						values[0] = "7"
					}
				}
				values = values[:1]
			}
			vf := "."
			if sent {
				vf = proto.L(values)
				if len(values) == 1 && values[0] == "" {
					vf = "-"
				}
			}
			in := append([]string{stream}, declFields...)
			in = append(in, proto.B(key), vf)
			emit(in...)
			emitted++
		}
	}
}

func c03Case(stream, name, loc, typ, format, itype, iformat, cf string, req, ae bool, def, valid, key string, values []string) []string {
	vf := "."
	if values != nil {
		vf = proto.L(values)
		if len(values) == 1 && values[0] == "" {
			vf = "-"
		}
	}
	return []string{stream, proto.B(name), loc, typ, proto.B(format), itype, proto.B(iformat), cf, proto.Bool(req), proto.Bool(ae), def, valid,
		proto.B(key), vf}
}

func c03MakeCorpus() [][]string {
	var c03Corpus [][]string
	for _, st := range []string{"H", "B"} {
		c03Corpus = append(c03Corpus,
			// F03a (fixed): `type: number` without format used to dereference a nil type
			c03Case(st, "limit", "query", "number", "", "-", "", "-", false, false, "-", "-", "limit", []string{"1.5"}),
			c03Case(st, "limit", "query", "array", "", "number", "", "csv", false, false, "-", "-", "limit", []string{"1.5,2"}),
			// F03b (fixed): an array parameter with a default used to panic in reflect.Set
			c03Case(st, "Tags", "query", "array", "", "string", "", "csv", false, false, "A:S:"+proto.B("a")+";S:"+proto.B("b"), "-", "Tags", nil),
			c03Case(st, "Tags", "query", "array", "", "integer", "int32", "csv", false, false, "A:I:1;I:2", "-", "Tags", []string{""}),
			c03Case(st, "Tags", "query", "array", "", "string", "date", "csv", false, false, "A:S:"+proto.B("2020-01-01"), "-", "Tags", nil),
			// F03c (fixed): a header parameter declared in lower case was never bound
			c03Case(st, "x-rate-limit", "header", "integer", "int32", "-", "", "-", false, false, "-", "-", "X-Rate-Limit", []string{"5"}),
			c03Case(st, "x-rate-limit", "header", "integer", "int32", "-", "", "-", true, false, "-", "-", "x-rate-limit", []string{"5"}),
			// F03f (fixed): a registered format with a default and no value used to panic in reflect.Set
			c03Case(st, "since-id", "query", "string", "date", "-", "", "-", false, false, "S:"+proto.B("2020-01-01"), "-", "since-id", nil),
			c03Case(st, "since-id", "query", "string", "byte", "-", "", "-", false, false, "S:"+proto.B("aGk="), "-", "since-id", []string{""}),
			// F03g (fixed): values of named string formats were rejected by the validator, whatever the text
			c03Case(st, "limit", "query", "string", "uuid", "-", "", "-", false, false, "-", "-", "limit", []string{"a8098c1a-f86e-11da-bd1a-00112444be1e"}),
			c03Case(st, "limit", "query", "string", "email", "-", "", "-", true, false, "-", "-", "limit", []string{"a@b.co"}),
			// F03d (known): number accepts inf / nan / hex floats / underscores
			c03Case(st, "limit", "query", "number", "double", "-", "", "-", false, false, "-", "-", "limit", []string{"inf"}),
			c03Case(st, "limit", "query", "number", "float", "-", "", "-", false, false, "-", "-", "limit", []string{"NaN"}),
			c03Case(st, "limit", "query", "number", "double", "-", "", "-", false, false, "-", "-", "limit", []string{"0x1p-2"}),
			c03Case(st, "limit", "query", "number", "double", "-", "", "-", false, false, "-", "-", "limit", []string{"1_0"}),
			// F03e (known): boolean never rejects
			c03Case(st, "limit", "query", "boolean", "", "-", "", "-", false, false, "-", "-", "limit", []string{"banana"}),
		)
	}
	// a correction of the model (thorough sweep): uniqueItems compares numbers by value — -0 and an underflow to 0
	// are the same item (422), NaN equals nothing
	c03Corpus = append(c03Corpus,
		[]string{"B", proto.B("x-request-id"), "header", "array", "-", "number", proto.B("l"), "csv", "0", "0", "-", "unique", proto.B("x-request-id"), proto.B("-0,1e-999")},
		[]string{"B", proto.B("x-request-id"), "header", "array", "-", "number", proto.B("l"), "csv", "0", "0", "-", "unique", proto.B("x-request-id"), proto.B("0,-0.0")},
		[]string{"B", proto.B("x-request-id"), "query", "array", "-", "number", proto.B("l"), "csv", "0", "0", "-", "unique", proto.B("x-request-id"), proto.B("nan,NaN")},
	)
	return append(append(c03Corpus, c03CorpusX()...), c03CorpusMulti()...)
}
