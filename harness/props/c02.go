package props

import (
	"context"
	"encoding/json"
	stderrors "errors"
	"io"
	"net/http"
	"net/http/httptest"
	"net/url"
	"sort"
	"strconv"
	"strings"

	"github.com/go-openapi/errors"
	"github.com/go-openapi/loads"

	"github.com/go-openapi/runtime"
	"github.com/go-openapi/runtime/middleware"
	"github.com/go-openapi/runtime/middleware/untyped"
	"github.com/go-openapi/runtime/security"

	"verif/harness/internal/proto"
)

// C02 — security requirements are an OR of ANDs. One stream:
//
//	S <defs> <reg> <global> <op> <outcomes> <authz> <req>
//	  => <built> <status> <msg> <handlerRan> <consumerCalls> <log> <dres> <dlog> <d2res> <d2log>
//
// Inputs
//
//	defs      list of scheme names under securityDefinitions (apiKey in header "X-K-<name>")
//	reg       list of scheme names with a registered authenticator (api.RegisterAuth)
//	global    document-level `security`:  N (absent) | E (`[]`) | alt/alt/...
//	op        operation-level `security`: same syntax
//	            alt    = _ (the empty alternative `{}`) | scheme+scheme+...   (schemes sorted by name)
//	            scheme = <hexname> | <hexname>:<hexscope>.<hexscope>...
//	outcomes  list of <hexname>=<outcome>: what the scheme's authenticator does for THIS request.
//	            n not applicable (no credentials in the request) | z accepted, nil principal |
//	            a<hexprincipal> accepted | c<code>.<hexmsg> rejected with errors.New(code,msg) |
//	            p<hexmsg> rejected with a plain error. Unlisted names: n.
//	          The outcome travels in the request: header X-K-<name> carries a token that the
//	          TokenAuthentication function registered through security.APIKeyAuth decodes.
//	authz     - (none) | a (accepts) | D<err> (denies all) | O<hexprincipal>.<err> (denies that
//	          principal) | Z<err> (denies the nil principal);  <err> = c<code>.<hexmsg> | p<hexmsg>
//	req       g good request | b undecodable body | t unsupported content type | q required query
//	          parameter missing
//
// Outputs (canonicalised observations, no judgement)
//
//	built     what the router built for the operation (MatchedRoute.Authenticators): N when there are
//	          none, else per alternative `_` (AllowsAnonymous) or, in the ACTUAL Schemes order,
//	          <hexname>:<R|U>:<scopes> joined by + (R: an authenticator is attached). The Schemes
//	          order is a map iteration order; the Lean model takes it from here as an input.
//	status msg handlerRan consumerCalls log
//	          one request served through Context.APIHandler: HTTP status, the "message" of the JSON
//	          error body (hex; - on success), did the operation handler run, how often the consumer
//	          ran (parameter binding), authenticators consulted in order as hex("name|scope,scope").
//	dres dlog d2res d2log
//	          Context.Authorize called directly on a fresh request and matched route:
//	          ok:<principal or ~>:<scopes or -> | err:<c<code>|p>:<hexmsg> | noauth, its call log;
//	          then a second Authorize on the request returned by the first (`-` when there is none).
func init() {
	proto.Register(&proto.Prop{ID: "C02", Gen: c02Gen, Exec: c02Exec, Corpus: c02Corpus})
}

var c02Corpus = [][]string{
	// F02a witness: AND alternative {a,b}, b has no registered authenticator, only a's key is sent.
	{"S", proto.L([]string{"a", "b"}), proto.L([]string{"a"}), "N", c02Alts([][]c02Req{{{"a", nil}, {"b", nil}}}),
		"61=a7061", "-", "g"},
	// same with an undefined (and unregistered) scheme and an authorizer
	{"S", proto.L([]string{"a"}), proto.L([]string{"a", "b"}), c02Alts([][]c02Req{{{"a", []string{"s1"}}, {"b", []string{"s2"}}}}), "N",
		"61=a7061", "a", "g"},
	// anonymous next to rejected credentials
	{"S", proto.L([]string{"a"}), proto.L([]string{"a"}), "N", c02Alts([][]c02Req{{{"a", nil}}, {}}),
		"61=c403." + proto.B("no"), "-", "g"},
	// nil principal inside an AND
	{"S", proto.L([]string{"a", "b"}), proto.L([]string{"a", "b"}), "N", c02Alts([][]c02Req{{{"a", nil}, {"b", nil}}}),
		"61=z,62=a7062", "-", "g"},
	// authorizer denies after an earlier alternative errored
	{"S", proto.L([]string{"a", "b"}), proto.L([]string{"a", "b"}), "N", c02Alts([][]c02Req{{{"a", nil}}, {{"b", nil}}}),
		"61=p" + proto.B("bad") + ",62=a7062", "D" + "p" + proto.B("denied"), "g"},
}

type c02Req struct {
	name   string
	scopes []string
}

func c02Alts(alts [][]c02Req) string {
	if alts == nil {
		return "N"
	}
	if len(alts) == 0 {
		return "E"
	}
	parts := make([]string, len(alts))
	for i, a := range alts {
		if len(a) == 0 {
			parts[i] = "_"
			continue
		}
		ss := make([]string, len(a))
		for j, s := range a {
			ss[j] = proto.B(s.name)
			if len(s.scopes) > 0 {
				hs := make([]string, len(s.scopes))
				for k, x := range s.scopes {
					hs[k] = proto.B(x)
				}
				ss[j] += ":" + strings.Join(hs, ".")
			}
		}
		parts[i] = strings.Join(ss, "+")
	}
	return strings.Join(parts, "/")
}

func c02ParseAlts(f string) [][]c02Req {
	switch f {
	case "N":
		return nil
	case "E":
		return [][]c02Req{}
	}
	var out [][]c02Req
	for _, p := range strings.Split(f, "/") {
		if p == "_" {
			out = append(out, []c02Req{})
			continue
		}
		var alt []c02Req
		for _, s := range strings.Split(p, "+") {
			nm, sc, has := strings.Cut(s, ":")
			r := c02Req{name: proto.UnB(nm)}
			if has {
				for _, x := range strings.Split(sc, ".") {
					r.scopes = append(r.scopes, proto.UnB(x))
				}
			}
			alt = append(alt, r)
		}
		out = append(out, alt)
	}
	return out
}

func c02SecurityJSON(alts [][]c02Req) []map[string][]string {
	out := make([]map[string][]string, 0, len(alts))
	for _, a := range alts {
		m := map[string][]string{}
		for _, s := range a {
			sc := s.scopes
			if sc == nil {
				sc = []string{}
			}
			m[s.name] = sc
		}
		out = append(out, m)
	}
	return out
}

// c02Sum is a checksum of fields of the case: every choice Exec makes on its own (how a scheme's
// credentials travel, which entry point serves, the spelling of the request, the Go type of a
// principal or an error) is a function of the input, so a case replays identically.
func c02Sum(fields ...string) int {
	h := uint32(2166136261)
	for _, f := range fields {
		for i := 0; i < len(f); i++ {
			h = (h ^ uint32(f[i])) * 16777619
		}
		h = (h ^ 0xff) * 16777619
	}
	return int(h>>3) & 0xfffffff
}

// c02Coded is a second implementation of the errors.Error interface (applications bring their own)
type c02Coded struct {
	code int32
	msg  string
}

func (e *c02Coded) Error() string { return e.msg }
func (e *c02Coded) Code() int32   { return e.code }

// c02Princ is a principal the way applications have them: a pointer to a struct
type c02Princ struct{ text string }

// c02MkPrincipal: the principal with the given text. The empty text is one of the non-nil zero
// values of Go (an accepted principal is any non-nil value); other texts are a string or a pointer.
func c02MkPrincipal(text string, v int) interface{} {
	if text == "" {
		switch v % 5 {
		case 0:
			return ""
		case 1:
			return 0
		case 2:
			return false
		case 3:
			return struct{}{}
		default:
			return 0.0
		}
	}
	if v%2 == 1 {
		return &c02Princ{text}
	}
	return text
}

// c02PrincText is the inverse of c02MkPrincipal
func c02PrincText(p interface{}) string {
	switch x := p.(type) {
	case string:
		return x
	case *c02Princ:
		return x.text
	case int, bool, struct{}, float64:
		return ""
	}
	return "?unknown principal"
}

// c02Err builds the scripted error: c<code>.<hexmsg> | p<hexmsg>
func c02Err(f string) error {
	if f == "" {
		panic("C02: empty error field")
	}
	switch f[0] {
	case 'c':
		code, msg, _ := strings.Cut(f[1:], ".")
		n, err := strconv.Atoi(code)
		if err != nil {
			panic("C02: bad error code " + f)
		}
		if c02Sum(f)%2 == 1 {
			return &c02Coded{int32(n), proto.UnB(msg)}
		}
		return errors.New(int32(n), "%s", proto.UnB(msg))
	case 'p':
		if c02Sum(f)%3 == 1 {
			// a plain error that WRAPS a coded one (fmt.Errorf("…: %w", apiErr)): still a plain error — it is
			// not an errors.Error itself, whatever errors.As would dig out of it
			return &c02Wrapping{proto.UnB(f[1:]), errors.New(402, "wrapped payment required")}
		}
		return stderrors.New(proto.UnB(f[1:]))
	}
	panic("C02: bad error field " + f)
}

type c02Wrapping struct {
	msg   string
	inner error
}

func (w *c02Wrapping) Error() string { return w.msg }
func (w *c02Wrapping) Unwrap() error { return w.inner }

type c02Authorizer struct {
	kind  byte
	princ string
	err   error
}

func (a *c02Authorizer) script(f string) {
	a.kind = f[0]
	rest := f[1:]
	switch a.kind {
	case 'a':
	case 'D', 'Z':
		a.err = c02Err(rest)
	case 'O':
		p, e, _ := strings.Cut(rest, ".")
		a.princ = proto.UnB(p)
		a.err = c02Err(e)
	default:
		panic("C02: bad authorizer field")
	}
}

// c02API is one built API: document, registrations, context, handler. It depends only on the
// structural inputs (defs, reg, global, op, authorizer present), so consecutive cases that differ
// in the request only (outcomes, authorizer script, request kind) share it.
type c02API struct {
	ctx           *middleware.Context
	handler       http.Handler
	authz         *c02Authorizer
	log           []string
	consumerCalls int
	handlerRan    int
	method        string // the operation's method and request path: chosen per structure
	path          string
	carrier       map[string]int // how the credentials of each scheme travel (c02Via...)
}

// How the outcome scripted for a scheme reaches its authenticator: every constructor of
// security/authenticator.go is used. At most one scheme of an API reads the Authorization header.
const (
	c02ViaKeyHeader    = iota // security.APIKeyAuth(name, "header")  — header X-K-<name>
	c02ViaKeyQuery            // security.APIKeyAuth(name, "query")   — query parameter X-K-<name>
	c02ViaKeyHeaderCtx        // security.APIKeyAuthCtx, header
	c02ViaKeyQueryCtx         // security.APIKeyAuthCtx, query
	c02ViaHTTP                // security.HttpAuthenticator around a function reading the header
	c02ViaScoped              // security.ScopedAuthenticator around a function reading the header
	c02ViaRaw                 // a bare runtime.AuthenticatorFunc reading the header
	c02NKeyCarriers
	c02ViaBearer     = iota - 1 // security.BearerAuth: Authorization: Bearer <token>, or access_token in the query
	c02ViaBearerCtx             // security.BearerAuthCtx
	c02ViaBasic                 // security.BasicAuth: user <name>, password <token>
	c02ViaBasicCtx              // security.BasicAuthCtx
	c02ViaBasicRealm            // security.BasicAuthRealm
	c02NCarriers
)

type c02CtxKey string

var c02Cache = map[string]*c02API{}

func (a *c02Authorizer) Authorize(r *http.Request, p interface{}) error {
	switch a.kind {
	case 'a':
		// the library's own accept-all authorizer
		return security.Authorized().Authorize(r, p)
	case 'D':
		return a.err
	case 'O':
		if p != nil && c02PrincText(p) == a.princ {
			return a.err
		}
		return nil
	case 'Z':
		if p == nil {
			return a.err
		}
		return nil
	}
	panic("C02: authorizer kind")
}

type c02Consumer struct {
	calls *int
	inner runtime.Consumer
}

func (c c02Consumer) Consume(r io.Reader, v interface{}) error {
	*c.calls++
	return c.inner.Consume(r, v)
}

func c02ErrField(err error) string {
	// what the error IS (not what it wraps): a coded error carries its own status, everything else is plain
	if e, ok := err.(errors.Error); ok {
		return "c" + strconv.Itoa(int(e.Code())) + ":" + proto.B(e.Error())
	}
	return "p:" + proto.B(err.Error())
}

func c02Build(in []string) *c02API {
	defs, reg := proto.UnL(in[1]), proto.UnL(in[2])
	global, op := c02ParseAlts(in[3]), c02ParseAlts(in[4])

	// ---- the document
	doc := map[string]interface{}{
		"swagger":  "2.0",
		"info":     map[string]string{"title": "c02", "version": "1"},
		"basePath": "/",
		"consumes": []string{"application/json"},
		"produces": []string{"application/json"},
	}
	// ---- choices per structure (functions of the structural inputs, which key the cache)
	ssum := c02Sum(in[1], in[2], in[3], in[4])
	a := &c02API{carrier: map[string]int{}}
	a.method = []string{"post", "put", "patch", "options", "delete"}[ssum%5]
	opPath := []string{"/op", "/op/{id}", "/things/{id}/op"}[(ssum/3)%3]
	base := []string{"/", "/v1", "/api/"}[(ssum/9)%3]
	a.path = strings.TrimRight(base, "/") + strings.Replace(opPath, "{id}", "7", 1)
	doc["basePath"] = base
	// how each scheme's credentials travel; the first scheme (by name) that draws a carrier on the
	// Authorization header keeps it, later ones fall back to an API key of their own
	var all []string
	seenName := map[string]bool{}
	addName := func(nm string) {
		if !seenName[nm] {
			seenName[nm] = true
			all = append(all, nm)
		}
	}
	for _, nm := range defs {
		addName(nm)
	}
	for _, nm := range reg {
		addName(nm)
	}
	for _, alts := range [][][]c02Req{global, op} {
		for _, alt := range alts {
			for _, rq := range alt {
				addName(rq.name)
			}
		}
	}
	sort.Strings(all)
	authorizationTaken := false
	for _, nm := range all {
		k := c02Sum(in[1], in[2], in[3], in[4], nm) % (c02NCarriers + 3) // API keys in a header stay the most frequent
		if k >= c02NCarriers {
			k = c02ViaKeyHeader
		}
		if k >= c02NKeyCarriers {
			if authorizationTaken {
				k = k % c02NKeyCarriers
			} else {
				authorizationTaken = true
			}
		}
		a.carrier[nm] = k
	}
	sd := map[string]interface{}{}
	for _, d := range defs {
		switch k := a.carrier[d]; {
		case k == c02ViaKeyQuery || k == c02ViaKeyQueryCtx:
			sd[d] = map[string]string{"type": "apiKey", "in": "query", "name": "X-K-" + d}
		case k == c02ViaBearer || k == c02ViaBearerCtx:
			sd[d] = map[string]interface{}{"type": "oauth2", "flow": "implicit", "authorizationUrl": "https://example.test/authorize",
				"scopes": map[string]string{"s1": "one", "s2": "two", "s3": "three", "read:pets": "r", "write:pets": "w"}}
		case k >= c02ViaBasic:
			sd[d] = map[string]string{"type": "basic"}
		default:
			sd[d] = map[string]string{"type": "apiKey", "in": "header", "name": "X-K-" + d}
		}
	}
	if len(sd) > 0 {
		doc["securityDefinitions"] = sd
	}
	if global != nil {
		doc["security"] = c02SecurityJSON(global)
	}
	params := []interface{}{
		map[string]interface{}{"name": "body", "in": "body", "required": true, "schema": map[string]string{"type": "object"}},
		map[string]interface{}{"name": "q", "in": "query", "required": true, "type": "integer"},
	}
	if strings.Contains(opPath, "{id}") {
		params = append(params, map[string]interface{}{"name": "id", "in": "path", "required": true, "type": "string"})
	}
	operation := map[string]interface{}{
		"operationId": "op",
		"parameters":  params,
		"responses":   map[string]interface{}{"200": map[string]string{"description": "ok"}},
	}
	if op != nil {
		operation["security"] = c02SecurityJSON(op)
	}
	doc["paths"] = map[string]interface{}{opPath: map[string]interface{}{a.method: operation}}
	raw, err := json.Marshal(doc)
	if err != nil {
		panic(err)
	}
	ldoc, err := loads.Analyzed(json.RawMessage(raw), "")
	if err != nil {
		panic("C02: document does not load: " + err.Error())
	}

	// ---- the API registrations
	api := untyped.NewAPI(ldoc)
	for _, name := range reg {
		name := name
		// what the application's callback makes of the credentials it is handed
		decode := func(token string) (interface{}, error) {
			switch token[0] {
			case 'z':
				return nil, nil
			case 'a':
				return c02MkPrincipal(proto.UnB(token[1:]), c02Sum(name, token)), nil
			default:
				return nil, c02Err(token)
			}
		}
		decodeCtx := func(ctx context.Context, token string) (context.Context, interface{}, error) {
			p, err := decode(token)
			return context.WithValue(ctx, c02CtxKey(name), token), p, err
		}
		fromHeader := func(r *http.Request) (bool, interface{}, error) {
			token := r.Header.Get("X-K-" + name)
			if token == "" {
				return false, nil, nil
			}
			p, err := decode(token)
			return true, p, err
		}
		var inner runtime.Authenticator
		switch a.carrier[name] {
		case c02ViaKeyHeader:
			inner = security.APIKeyAuth("X-K-"+name, []string{"header", "Header"}[ssum%2], decode)
		case c02ViaKeyQuery:
			inner = security.APIKeyAuth("X-K-"+name, []string{"query", "QUERY"}[ssum%2], decode)
		case c02ViaKeyHeaderCtx:
			inner = security.APIKeyAuthCtx("X-K-"+name, "header", decodeCtx)
		case c02ViaKeyQueryCtx:
			inner = security.APIKeyAuthCtx("X-K-"+name, "query", decodeCtx)
		case c02ViaHTTP:
			inner = security.HttpAuthenticator(fromHeader)
		case c02ViaScoped:
			inner = security.ScopedAuthenticator(func(sr *security.ScopedAuthRequest) (bool, interface{}, error) { return fromHeader(sr.Request) })
		case c02ViaRaw:
			inner = runtime.AuthenticatorFunc(func(params interface{}) (bool, interface{}, error) {
				if sr, ok := params.(*security.ScopedAuthRequest); ok {
					return fromHeader(sr.Request)
				}
				return false, nil, nil
			})
		case c02ViaBearer:
			inner = security.BearerAuth(name, func(token string, _ []string) (interface{}, error) { return decode(token) })
		case c02ViaBearerCtx:
			inner = security.BearerAuthCtx(name, func(ctx context.Context, token string, _ []string) (context.Context, interface{}, error) {
				return decodeCtx(ctx, token)
			})
		case c02ViaBasic:
			inner = security.BasicAuth(func(_, pass string) (interface{}, error) { return decode(pass) })
		case c02ViaBasicCtx:
			inner = security.BasicAuthCtx(func(ctx context.Context, _, pass string) (context.Context, interface{}, error) {
				return decodeCtx(ctx, pass)
			})
		case c02ViaBasicRealm:
			inner = security.BasicAuthRealm("realm of "+name, func(_, pass string) (interface{}, error) { return decode(pass) })
		default:
			panic("C02: carrier")
		}
		api.RegisterAuth(name, runtime.AuthenticatorFunc(func(params interface{}) (bool, interface{}, error) {
			entry := name + "|"
			if sr, ok := params.(*security.ScopedAuthRequest); ok {
				entry += strings.Join(sr.RequiredScopes, ",")
			} else {
				entry += "?"
			}
			a.log = append(a.log, entry)
			return inner.Authenticate(params)
		}))
	}
	if in[6] != "-" {
		a.authz = &c02Authorizer{}
		api.RegisterAuthorizer(a.authz)
	}
	api.RegisterConsumer("application/json", c02Consumer{calls: &a.consumerCalls, inner: runtime.JSONConsumer()})
	api.RegisterOperation(a.method, opPath, runtime.OperationHandlerFunc(func(interface{}) (interface{}, error) {
		a.handlerRan++
		return map[string]string{}, nil
	}))

	a.ctx = middleware.NewContext(ldoc, api, nil)
	// every public way to turn the Context into a handler puts newSecureAPI in front of the
	// operation. (middleware.Serve/ServeWithBuilder are NewContext + APIHandler(builder); they are
	// not used because a Context of their own has a router of its own, whose scheme order - a map
	// iteration order - could not be read back for the model.)
	switch (ssum / 27) % 6 {
	case 0:
		a.handler = a.ctx.APIHandler(nil)
	case 1:
		a.handler = a.ctx.APIHandler(middleware.PassthroughBuilder)
	case 2:
		a.handler = a.ctx.RoutesHandler(nil)
	case 3:
		a.handler = a.ctx.APIHandler(func(next http.Handler) http.Handler {
			return http.HandlerFunc(func(w http.ResponseWriter, r *http.Request) { next.ServeHTTP(w, r) })
		})
	case 4:
		a.handler = a.ctx.APIHandlerSwaggerUI(middleware.PassthroughBuilder)
	default:
		a.handler = a.ctx.APIHandlerRapiDoc(nil)
	}
	return a
}

func c02Exec(in []string) []string {
	if in[0] != "S" || len(in) != 8 {
		panic("C02: unknown stream or arity")
	}
	outcomes := map[string]string{}
	if in[5] != "." {
		for _, it := range strings.Split(in[5], ",") {
			nm, oc, ok := strings.Cut(it, "=")
			if !ok || oc == "" {
				panic("C02: bad outcome item " + it)
			}
			outcomes[proto.UnB(nm)] = oc
		}
	}
	key := strings.Join(in[1:5], " ") + " " + proto.Bool(in[6] != "-")
	a := c02Cache[key]
	if a == nil {
		if len(c02Cache) >= 16 {
			c02Cache = map[string]*c02API{}
		}
		a = c02Build(in)
		c02Cache[key] = a
	}
	if a.authz != nil {
		a.authz.script(in[6])
	}
	a.log, a.consumerCalls, a.handlerRan = nil, 0, 0
	ctx := a.ctx

	// the request: what is right or wrong with it is in[7]; how it is spelled (one of several
	// equivalent bodies, media types, query strings, Accept lines) is drawn from the case's checksum
	rsum := c02Sum(in[5], in[6], in[7])
	mkReq := func(outcomes map[string]string) *http.Request {
		body := []string{"{}", `{"a":1}`, " {}\n"}[rsum%3]
		ct := []string{"application/json", "application/json; charset=utf-8", "application/json;charset=UTF-8"}[(rsum/3)%3]
		query := url.Values{}
		switch (rsum / 9) % 3 {
		case 0:
			query.Set("q", "1")
		case 1:
			query.Set("q", "42")
		default:
			query.Set("q", "-7")
			query.Set("x", "y")
		}
		switch in[7] {
		case "g":
		case "b":
			body = []string{"{", "[1", `{"a":`, "nope"}[rsum%4]
		case "t":
			ct = []string{"text/plain", "application/xml", "image/png", "text/plain; charset=utf-8"}[rsum%4]
		case "q":
			query.Del("q")
			if rsum%3 == 1 {
				query.Set("Q", "1") // names of parameters are case-sensitive
			}
		default:
			panic("C02: bad request kind")
		}
		header := http.Header{}
		for name, oc := range outcomes {
			if oc == "n" {
				continue
			}
			switch a.carrier[name] {
			case c02ViaKeyQuery, c02ViaKeyQueryCtx:
				query.Set("X-K-"+name, oc)
			case c02ViaBearer, c02ViaBearerCtx:
				if (rsum/27)%2 == 0 {
					header.Set("Authorization", "Bearer "+oc)
				} else {
					query.Set("access_token", oc)
					// the token in the query next to an Authorization header of a scheme no
					// authenticator of this API reads: the fallback to the parameter still applies
					switch (rsum / 5) % 4 {
					case 1:
						header.Set("Authorization", "Basic Zm9vOmJhcg==")
					case 2:
						header.Set("Authorization", "Digest username=\"u\"")
					case 3:
						header.Set("Authorization", "Bearer")
					}
				}
			case c02ViaBasic, c02ViaBasicCtx, c02ViaBasicRealm:
				rr := &http.Request{Header: header}
				rr.SetBasicAuth(name, oc)
			default:
				header.Set("X-K-"+name, oc)
			}
		}
		target := a.path
		if enc := query.Encode(); enc != "" {
			target += "?" + enc
		}
		r := httptest.NewRequest(strings.ToUpper(a.method), target, strings.NewReader(body))
		r.Header = header
		r.Header.Set("Content-Type", ct)
		switch (rsum / 54) % 3 {
		case 1:
			r.Header.Set("Accept", "application/json")
		case 2:
			r.Header.Set("Accept", "*/*")
		}
		if (rsum/7)%4 == 1 {
			// what a browser's preflight carries: no licence to skip the operation's security
			r.Header.Set("Access-Control-Request-Method", "GET")
			r.Header.Set("Origin", "https://other.example")
		}
		return r
	}
	newReq := func() *http.Request { return mkReq(outcomes) }
	if (rsum/162)%3 == 0 {
		// other requests first, through the same objects: every scheme accepts a principal of its
		// own, then nobody presents anything. What they are answered is not this case's business;
		// nothing of it may stay behind.
		warm := map[string]string{}
		for name := range a.carrier {
			warm[name] = "a" + proto.B("warm-"+name)
		}
		for _, oc := range []map[string]string{warm, {}} {
			a.handler.ServeHTTP(httptest.NewRecorder(), mkReq(oc))
			rw := mkReq(oc)
			if routeW, ok := ctx.LookupRoute(rw); ok {
				_, _, _ = ctx.Authorize(rw, routeW)
			}
		}
		a.log, a.consumerCalls, a.handlerRan = nil, 0, 0
	}

	// ---- what the router built
	route, ok := ctx.LookupRoute(newReq())
	if !ok {
		panic("C02: route not found")
	}
	built := "N"
	if len(route.Authenticators) > 0 {
		parts := make([]string, len(route.Authenticators))
		for i := range route.Authenticators {
			ra := &route.Authenticators[i]
			if ra.AllowsAnonymous() {
				parts[i] = "_"
				continue
			}
			ss := make([]string, len(ra.Schemes))
			for j, s := range ra.Schemes {
				flag := "U"
				if _, ok := ra.Authenticator[s]; ok {
					flag = "R"
				}
				sc := "-"
				if len(ra.Scopes[s]) > 0 {
					hs := make([]string, len(ra.Scopes[s]))
					for k, x := range ra.Scopes[s] {
						hs[k] = proto.B(x)
					}
					sc = strings.Join(hs, ".")
				}
				ss[j] = proto.B(s) + ":" + flag + ":" + sc
			}
			parts[i] = strings.Join(ss, "+")
		}
		built = strings.Join(parts, "/")
	}

	// ---- one request through the whole handler
	rec := httptest.NewRecorder()
	a.handler.ServeHTTP(rec, newReq())
	msg := "-"
	if rec.Code >= 300 {
		var eb struct {
			Message string `json:"message"`
		}
		if err := json.Unmarshal(rec.Body.Bytes(), &eb); err == nil {
			msg = proto.B(eb.Message)
		} else {
			msg = proto.B("?unparsable " + rec.Body.String())
		}
	}
	out := []string{built, proto.N(rec.Code), msg, proto.N(a.handlerRan), proto.N(a.consumerCalls), proto.L(a.log)}

	// ---- Context.Authorize directly, twice
	render := func(p interface{}, r *http.Request, err error) string {
		if err != nil {
			return "err:" + c02ErrField(err)
		}
		if r == nil {
			return "noauth"
		}
		ps := "~"
		if p != nil {
			ps = proto.B(c02PrincText(p))
		}
		if cp := middleware.SecurityPrincipalFrom(r); cp != p {
			ps += "!ctx"
		}
		scopes := middleware.SecurityScopesFrom(r)
		sc := "-"
		if len(scopes) > 0 {
			hs := make([]string, len(scopes))
			for i, x := range scopes {
				hs[i] = proto.B(x)
			}
			sc = strings.Join(hs, ".")
		}
		return "ok:" + ps + ":" + sc
	}
	a.log = nil
	r1 := newReq()
	route1, _ := ctx.LookupRoute(r1)
	p1, rr1, err1 := ctx.Authorize(r1, route1)
	out = append(out, render(p1, rr1, err1), proto.L(a.log))
	if rr1 != nil {
		a.log = nil
		p2, rr2, err2 := ctx.Authorize(rr1, route1)
		out = append(out, render(p2, rr2, err2), proto.L(a.log))
	} else {
		out = append(out, "-", ".")
	}
	return out
}

// ---------------------------------------------------------------------------------------------
// generator

var c02Names = []string{"a", "b", "c", "d", "e"}

// names as documents spell them (1 structure in 4)
var c02LongNames = []string{"api_key", "basic", "key2", "oauth2", "petstore_auth"}
var c02Scopes = []string{"s1", "s2", "s3", "s1", "s2", "read:pets", "write:pets", "admin"}

func c02GenErr(r *proto.Rng) string {
	if r.Chance(1, 3) {
		// plain errors, also with an empty text, a formatting verb, quotes and non-ASCII text
		return "p" + proto.B(r.Pick("bad", "nope", "plain", "bad", "nope", "", "100%d of %s", `say "no"`, "numéro"))
	}
	// codes over the whole range ServeError knows (>= 600: not a status, served as 422)
	return "c" + r.Pick("401", "403", "400", "418", "429", "500", "700", "401", "403", "404", "409", "422", "503", "599", "600", "999") + "." +
		proto.B(r.Pick("rej", "denied", "no", "x", "rej", "no", "", "100%d", `a "b" <c>`, "unauthenticated for invalid credentials"))
}

func c02GenAlts(r *proto.Rng, names []string) [][]c02Req {
	n := 1 + r.Intn(4)
	if r.Chance(1, 12) {
		n = 5 + r.Intn(2)
	}
	alts := make([][]c02Req, 0, n)
	for i := 0; i < n; i++ {
		if r.Chance(1, 6) {
			alts = append(alts, []c02Req{})
			continue
		}
		k := 1 + r.Intn(3)
		if r.Chance(1, 2) {
			k = 1 + r.Intn(2)
		}
		perm := append([]string(nil), names...)
		for j := len(perm) - 1; j > 0; j-- {
			x := r.Intn(j + 1)
			perm[j], perm[x] = perm[x], perm[j]
		}
		if k > len(perm) {
			k = len(perm)
		}
		pick := append([]string(nil), perm[:k]...)
		sort.Strings(pick)
		alt := make([]c02Req, k)
		for j, nm := range pick {
			alt[j] = c02Req{name: nm}
			if r.Chance(1, 3) {
				m := 1 + r.Intn(2)
				if r.Chance(1, 6) {
					m = 3
				}
				for x := 0; x < m; x++ {
					alt[j].scopes = append(alt[j].scopes, r.Pick(c02Scopes...))
				}
			}
		}
		alts = append(alts, alt)
	}
	return alts
}

// c02Structure is what an API is built from.
type c02Structure struct {
	names      []string
	defs, reg  []string
	global, op [][]c02Req
	authz      bool
}

func c02GenStructure(r *proto.Rng) c02Structure {
	nn := 2 + r.Intn(4)
	st := c02Structure{names: c02Names[:nn]}
	if r.Chance(1, 4) {
		st.names = c02LongNames[:nn]
	}
	// the "malformed" stream: documents that reference undefined schemes, authenticators registered
	// for undefined schemes or missing for defined ones
	sloppy := r.Chance(1, 3)
	for _, nm := range st.names {
		if !(sloppy && r.Chance(1, 6)) {
			st.defs = append(st.defs, nm)
		}
		if !(sloppy && r.Chance(1, 4)) {
			st.reg = append(st.reg, nm)
		}
	}
	switch r.Intn(25) {
	case 0: // nothing declared
	case 1:
		st.global = c02GenAlts(r, st.names)
		st.op = [][]c02Req{}
	case 2, 3, 4, 5, 6, 7:
		st.global = c02GenAlts(r, st.names)
	case 8, 9, 10, 11, 12:
		st.global = c02GenAlts(r, st.names)
		st.op = c02GenAlts(r, st.names)
	default:
		st.op = c02GenAlts(r, st.names)
	}
	st.authz = r.Chance(1, 2)
	return st
}

func c02GenRequest(r *proto.Rng, st c02Structure) []string {
	mood := r.Intn(4) // 0,1: anything; 2: mostly accepting; 3: mostly silent
	var ocs []string
	for _, nm := range st.names {
		k := r.Intn(8)
		if mood == 2 && r.Chance(3, 4) {
			k = 3
		}
		if mood == 3 && r.Chance(3, 4) {
			k = 0
		}
		var oc string
		switch k {
		case 0, 1:
			oc = "n"
		case 2:
			oc = "z"
		case 3, 4, 5:
			oc = "a" + proto.B("p"+nm)
			if r.Chance(1, 5) {
				oc = "a" + proto.B("shared")
			} else if r.Chance(1, 6) {
				// accepted with a principal that is not nil but a zero value (the empty text)
				oc = "a" + proto.B("")
			}
		default:
			oc = c02GenErr(r)
		}
		if oc == "n" && r.Chance(1, 2) {
			continue
		}
		ocs = append(ocs, proto.B(nm)+"="+oc)
	}
	oc := "."
	if len(ocs) > 0 {
		oc = strings.Join(ocs, ",")
	}
	authz := "-"
	if st.authz {
		switch r.Intn(6) {
		case 0, 1:
			authz = "a"
		case 2:
			authz = "D" + c02GenErr(r)
		case 3, 4:
			authz = "O" + proto.B(r.Pick("p"+r.Pick(st.names...), "shared", "p"+r.Pick(st.names...), "shared", "")) + "." + c02GenErr(r)
		case 5:
			authz = "Z" + c02GenErr(r)
		}
	}
	req := "g"
	if r.Chance(1, 4) {
		req = r.Pick("b", "t", "q")
	}
	return []string{"S", proto.L(st.defs), proto.L(st.reg), c02Alts(st.global), c02Alts(st.op), oc, authz, req}
}

// c02Exhaustive enumerates, for a fixed list of small structures, every outcome vector over
// {not applicable, nil principal, principal, coded rejection, plain rejection}, every authorizer
// kind and "all registered / one scheme unregistered".
func c02Exhaustive(emit func(in ...string)) {
	sc := map[string][]string{"a": {"s1"}, "b": nil, "c": {"s2", "s1"}}
	mk := func(alts ...string) [][]c02Req {
		out := make([][]c02Req, len(alts))
		for i, a := range alts {
			out[i] = []c02Req{}
			for _, ch := range a {
				out[i] = append(out[i], c02Req{string(ch), sc[string(ch)]})
			}
		}
		return out
	}
	structs := []struct {
		names []string
		alts  [][]c02Req
	}{
		{[]string{"a"}, mk("a")},
		{[]string{"a", "b"}, mk("a", "b")},
		{[]string{"a", "b"}, mk("ab")},
		{[]string{"a", "b"}, mk("ab", "")},
		{[]string{"a", "b"}, mk("", "ab")},
		{[]string{"a", "b"}, mk("a", "b", "")},
		{[]string{"a", "b"}, mk("a", "ab")},
		{[]string{"a", "b", "c"}, mk("abc")},
		{[]string{"a", "b", "c"}, mk("ab", "c")},
		{[]string{"a", "b", "c"}, mk("ab", "bc")},
		{[]string{"a", "b", "c"}, mk("abc", "", "a")},
		{[]string{"a", "b", "c"}, mk("c", "ab", "")},
	}
	kinds := func(nm string) []string {
		return []string{"n", "z", "a" + proto.B("p"+nm), "c403." + proto.B("rej"+nm), "p" + proto.B("bad"+nm)}
	}
	authzs := []string{"-", "a", "Dp" + proto.B("denied"), "O" + proto.B("pa") + ".c418." + proto.B("teapot"), "Zc401." + proto.B("who")}
	for _, st := range structs {
		k := len(st.names)
		for drop := -1; drop < k; drop++ {
			var reg []string
			for i, nm := range st.names {
				if i != drop {
					reg = append(reg, nm)
				}
			}
			for _, az := range authzs {
				total := 1
				for i := 0; i < k; i++ {
					total *= 5
				}
				for v := 0; v < total; v++ {
					ocs := make([]string, k)
					x := v
					for i, nm := range st.names {
						ocs[i] = proto.B(nm) + "=" + kinds(nm)[x%5]
						x /= 5
					}
					emit("S", proto.L(st.names), proto.L(reg), "N", c02Alts(st.alts), strings.Join(ocs, ","), az, "g")
				}
			}
		}
	}
}

func c02Gen(r *proto.Rng, n int, tier string, emit func(in ...string)) {
	if tier == "thorough" {
		c02Exhaustive(emit)
	}
	for i := 0; i < n; {
		st := c02GenStructure(r)
		k := 3 + r.Intn(10)
		for j := 0; j < k && i < n; j++ {
			emit(c02GenRequest(r, st)...)
			i++
		}
	}
}
