package props

import (
	"context"
	"fmt"
	"hash/fnv"
	"io"
	"net/http"
	"net/url"
	"sort"
	"strings"

	"github.com/go-openapi/runtime"
	"github.com/go-openapi/runtime/client"
	"github.com/go-openapi/strfmt"

	"verif/harness/internal/proto"
)

// C10 — client URLs. Streams (all through client.Runtime.CreateHttpRequest):
//
//	P <host> <Runtime.BasePath> <pattern> <param names> <param values> <caller keys> <caller vals> => ERR | <request URL, 14 fields>
//	Q <base keys> <base vals> <pattern keys> <pattern vals> <caller keys> <caller vals> => <keys> <vals> <RawQuery>
//	S <runtime schemes> <operation schemes> => <scheme>
//	E <p|q> <bytes> => <escaped> <ok:unescaped|err>         (validates the hand-copied net/url tables)
//	U <bytes> => ERR | <url.Parse result, 14 fields>         (validates the hand model of url.Parse)
//
// Nothing is computed for the model on the Go side: P hands over the raw strings the runtime holds
// and reports every field of the URL of the request CreateHttpRequest returns.
//
// The library offers several ways from an operation to the request it sends; they must all arrive at
// the same URL (c10Way). P builds every case once along each of them (that also shakes Go's map
// order four times); Q and S take the one the case's own fields select.
func init() {
	proto.Register(&proto.Prop{ID: "C10", Gen: c10Gen, Exec: c10Exec, Corpus: [][]string{
		// F10a (known finding): an empty value in the first segment makes the path start with "//"
		{"P", proto.B(c10Host), proto.B("/"), proto.B("/{a}/pets"), proto.L([]string{"a"}), proto.L([]string{""}), ".", "."},
		// the same class, refused by http.NewRequest / read as user info
		{"P", proto.B(c10Host), proto.B("/"), proto.B("/{a}/{b}"), proto.L([]string{"a", "b"}), proto.L([]string{"", "{i}"}), ".", "."},
		{"P", proto.B(c10Host), proto.B("/"), proto.B("/{a}/{b}/pets"), proto.L([]string{"a", "b"}), proto.L([]string{"", "u@h"}), ".", "."},
		// not in the class: three slashes are a path
		{"P", proto.B(c10Host), proto.B("/"), proto.B("/{a}/{b}/pets"), proto.L([]string{"a", "b"}), proto.L([]string{"", ""}), ".", "."},
		// F10b (known finding): static text that net/url escapes makes EscapedPath() forget the value's escapes
		{"P", proto.B(c10Host), proto.B("/"), proto.B("/\xc3\xa9/{a}"), proto.L([]string{"a"}), proto.L([]string{"x/y"}), ".", "."},
	}})
}

const c10Host = "example.test"

type c10Writer struct {
	path  [][2]string
	query [][]string
	// twice: every parameter is first set to something else and then to its value (the last Set counts)
	twice bool
	// what else a generated parameter writer may set: none of it is part of the URL
	body interface{}
	form bool
}

func (w c10Writer) WriteToRequest(req runtime.ClientRequest, _ strfmt.Registry) error {
	if w.twice {
		for _, kv := range w.path {
			if err := req.SetPathParam(kv[0], "set/before?{"+kv[0]+"}#"); err != nil {
				return err
			}
		}
		for _, q := range w.query {
			if err := req.SetQueryParam(q[0], "set", "before"); err != nil {
				return err
			}
		}
	}
	for _, kv := range w.path {
		if err := req.SetPathParam(kv[0], kv[1]); err != nil {
			return err
		}
	}
	for _, q := range w.query {
		if err := req.SetQueryParam(q[0], q[1:]...); err != nil {
			return err
		}
	}
	if w.body != nil {
		if err := req.SetBodyParam(w.body); err != nil {
			return err
		}
	}
	if w.form {
		if err := req.SetFormParam("x", "form value, not a query"); err != nil {
			return err
		}
	}
	return req.SetHeaderParam("X-Y", "?x=1#")
}

// c10Capture is the transport of the ways that go through Submit: it keeps the URL it is asked to send to.
type c10Capture struct{ u *url.URL }

func (c *c10Capture) RoundTrip(req *http.Request) (*http.Response, error) {
	u := *req.URL
	c.u = &u
	if req.Body != nil {
		_, _ = io.Copy(io.Discard, req.Body)
		_ = req.Body.Close()
	}
	return &http.Response{Status: "204 No Content", StatusCode: 204, Proto: "HTTP/1.1", ProtoMajor: 1, ProtoMinor: 1,
		Header: http.Header{"Content-Type": []string{runtime.JSONMime}}, Body: http.NoBody, Request: req}, nil
}

var c10NoReader = runtime.ClientResponseReaderFunc(func(runtime.ClientResponse, runtime.Consumer) (interface{}, error) { return nil, nil })

// c10Way builds the request URL of one operation along one of the library's ways:
//
//	0  a fresh Runtime, CreateHttpRequest, GET (the plain one)
//	1  a Runtime that has built another operation before (own pattern with a static query, own path and
//	   query parameters, an auth writer adding a query credential); then CreateHttpRequest, POST with a
//	   payload, every parameter set twice
//	2  Submit through Runtime.Transport (the URL is the one the transport is asked to send to), PUT with a
//	   stream payload; the caller's last single-valued query parameter is not set by the parameter writer
//	   but as a query credential by the operation's AuthInfo (client.APIKeyAuth)
//	3  NewWithClient with a preset http.Client, Submit, HEAD with form data; that query parameter comes
//	   from Runtime.DefaultAuthentication, the operation carries its own http.Client and a context
func c10Way(way int, host, base string, viaNew bool, schemes, opSchemes []string, pattern string, w c10Writer) (*url.URL, error) {
	capt := &c10Capture{}
	newRT := func(b string) *client.Runtime {
		if way == 3 {
			return client.NewWithClient(host, b, schemes, &http.Client{Transport: capt})
		}
		return client.New(host, b, schemes)
	}
	var rt *client.Runtime
	if viaNew {
		rt = newRT(base)
	} else {
		rt = newRT("/")
		rt.BasePath = base
	}
	op := &runtime.ClientOperation{ID: "op", Method: "GET", PathPattern: pattern, Schemes: opSchemes}
	// the query credential
	var cred runtime.ClientAuthInfoWriter
	if way >= 2 {
		for i := len(w.query) - 1; i >= 0; i-- {
			if q := w.query[i]; len(q) == 2 {
				cred = client.APIKeyAuth(q[0], "query", q[1])
				w.query = append(append([][]string{}, w.query[:i]...), w.query[i+1:]...)
				break
			}
		}
	}
	switch way {
	case 0:
	case 1:
		_, _ = rt.CreateHttpRequest(&runtime.ClientOperation{ID: "before", Method: "PUT", PathPattern: "/before/{id}/{name}/{a}?x=before&before=1", Schemes: []string{"https"},
			AuthInfo: client.APIKeyAuth("y", "query", "before"),
			Params:   c10Writer{path: [][2]string{{"id", "before"}, {"a", "b/c"}}, query: [][]string{{"z", "before"}, {"a b", "1", "2"}}, body: "before"}})
		op.Method, w.twice, w.body = "POST", true, map[string]string{"a": "?b#"}
	case 2:
		rt.Transport = capt
		op.Method, op.AuthInfo, op.Reader, w.body = "PUT", cred, c10NoReader, strings.NewReader("?x=1")
	case 3:
		rt.DefaultAuthentication = cred
		op.Method, op.Reader, w.form = "HEAD", c10NoReader, true
		op.ConsumesMediaTypes = []string{"", runtime.URLencodedFormMime}
		op.Client, op.Context = &http.Client{Transport: capt}, context.Background()
	}
	op.Params = w
	if way < 2 {
		req, err := rt.CreateHttpRequest(op)
		if err != nil {
			return nil, err
		}
		return req.URL, nil
	}
	if _, err := rt.Submit(op); err != nil && capt.u == nil {
		return nil, err
	}
	if capt.u == nil {
		return nil, fmt.Errorf("c10: the transport was not asked")
	}
	return capt.u, nil
}

// c10Pick: a number the case's own fields determine
func c10Pick(in []string, n int) int {
	h := fnv.New32a()
	for _, f := range in {
		_, _ = h.Write([]byte(f))
		_, _ = h.Write([]byte{' '})
	}
	return int(h.Sum32() % uint32(n))
}

func c10Values(v url.Values) (string, string) {
	keys := make([]string, 0, len(v))
	for k := range v {
		keys = append(keys, k)
	}
	// order by hex so that the Lean side can sort the same way
	sort.Slice(keys, func(i, j int) bool { return proto.B(keys[i]) <= proto.B(keys[j]) })
	if len(keys) == 0 {
		return ".", "."
	}
	vals := make([]string, len(keys))
	for i, k := range keys {
		vals[i] = proto.L(v[k])
	}
	return proto.L(keys), strings.Join(vals, "|")
}

func c10ParseValues(keys, vals string) [][]string {
	ks := proto.UnL(keys)
	if len(ks) == 0 {
		return nil
	}
	groups := strings.Split(vals, "|")
	out := make([][]string, len(ks))
	for i, k := range ks {
		out[i] = append([]string{k}, proto.UnL(groups[i])...)
	}
	return out
}

func c10Query(vs [][]string) string {
	var parts []string
	for _, kv := range vs {
		for _, v := range kv[1:] {
			parts = append(parts, url.QueryEscape(kv[0])+"="+url.QueryEscape(v))
		}
	}
	return strings.Join(parts, "&")
}

func c10Exec(in []string) []string {
	switch in[0] {
	case "P":
		// base: N<hex> = handed to client.New; <hex> = Runtime.BasePath set directly by the caller
		viaNew := strings.HasPrefix(in[2], "N")
		host, base, pattern := proto.UnB(in[1]), proto.UnB(strings.TrimPrefix(in[2], "N")), proto.UnB(in[3])
		names, vals := proto.UnL(in[4]), proto.UnL(in[5])
		w := c10Writer{query: c10ParseValues(in[6], in[7])}
		for i := range names {
			w.path = append(w.path, [2]string{names[i], vals[i]})
		}
		// rebuild several times: Go's map iteration order varies from run to run — each time along
		// another of the library's ways
		var first string
		for k := 0; k < 4; k++ {
			u, err := c10Way(k, host, base, viaNew, []string{"http"}, nil, pattern, w)
			var got string
			if err != nil {
				got = "ERR"
			} else {
				got = strings.Join(c10URL(u, nil), " ")
			}
			if k == 0 {
				first = got
			} else if got != first {
				return []string{"ORDER-DEPENDENT", first, got}
			}
		}
		return strings.Fields(first)
	case "Q":
		b, p, c := c10ParseValues(in[1], in[2]), c10ParseValues(in[3], in[4]), c10ParseValues(in[5], in[6])
		base := "/api"
		if q := c10Query(b); q != "" {
			base += "?" + q
		}
		pattern := "/op"
		if q := c10Query(p); q != "" {
			pattern += "?" + q
		}
		u, err := c10Way(c10Pick(in, 4), "example.test", base, true, []string{"http"}, nil, pattern, c10Writer{query: c})
		if err != nil {
			return []string{"ERR", proto.B(err.Error())}
		}
		k, v := c10Values(u.Query())
		return []string{k, v, proto.B(u.RawQuery)}
	case "S":
		// the scheme is a function of the two scheme lists alone: every host, base path and pattern
		// must give the same one (the model never sees them)
		first := ""
		for i, hbp := range [][3]string{{"example.test", "/", "/x"}, {"example.test:80", "/v1", "/pets/{id}/"}, {"[::1]:80", "/", "/x"},
			{"example.test:443", "/", "/x?q=1"}, {"localhost:8080", "/http", "/ws"}, {"127.0.0.1", "/", "/"}, {"h:8443", "/", "/x"}} {
			u, err := c10Way(c10Pick(in, 4), hbp[0], hbp[1], true, proto.UnL(in[1]), proto.UnL(in[2]), hbp[2], c10Writer{path: [][2]string{{"id", "7"}}})
			if err != nil {
				return []string{"ERR", proto.B(err.Error())}
			}
			if i == 0 {
				first = u.Scheme
			} else if u.Scheme != first {
				return []string{proto.B(first + " but " + u.Scheme + " for host " + hbp[0] + " base " + hbp[1] + " pattern " + hbp[2])}
			}
		}
		return []string{proto.B(first)}
	case "U":
		return c10URL(url.Parse(proto.UnB(in[1])))
	case "E":
		s := proto.UnB(in[2])
		var esc, un string
		var err error
		if in[1] == "q" {
			esc = url.QueryEscape(s)
			un, err = url.QueryUnescape(s)
		} else {
			esc = url.PathEscape(s)
			un, err = url.PathUnescape(s)
		}
		if err != nil {
			return []string{proto.B(esc), "err"}
		}
		return []string{proto.B(esc), "ok:" + proto.B(un)}
	}
	panic("C10: unknown stream")
}

// c10URL prints every field of a parsed URL (the model prints the same line).
func c10URL(u *url.URL, err error) []string {
	if err != nil {
		return []string{"ERR"}
	}
	user := []string{"0", "-", "-"}
	if u.User != nil {
		if pw, ok := u.User.Password(); ok {
			user = []string{"2", proto.B(u.User.Username()), proto.B(pw)}
		} else {
			user = []string{"1", proto.B(u.User.Username()), "-"}
		}
	}
	out := []string{proto.B(u.Scheme), proto.B(u.Opaque)}
	out = append(out, user...)
	return append(out, proto.B(u.Host), proto.B(u.Path), proto.B(u.RawPath), proto.B(u.EscapedPath()), proto.Bool(u.ForceQuery),
		proto.B(u.RawQuery), proto.B(u.Fragment), proto.B(u.RawFragment), proto.Bool(u.OmitHost))
}

const c10URLAlphabet = "////%%%abcdefxyz0123456789AF{}:*;,=+ ?#..@[]!$&'()<>\"|^`~-_\\\x00\x1f\x7f\x80\xc3\xa9\xff"

// c10RawURL: a string for stream U — random bytes, or a structured URL with noise.
func c10RawURL(r *proto.Rng) string {
	switch r.Intn(8) {
	case 0, 1:
		return r.Bytes(c10URLAlphabet, r.Intn(12))
	case 2:
		return r.Bytes("/%2Fa5:@[].?#", r.Intn(10))
	case 3:
		// authority forms
		host := r.Pick("h", "h.example", "[::1]", "[fe80::1%25en0]", "[fe80::1%25e%20n]", "[x", "[x]y", "h:80", "h:", "h:8x", "%41", "%C3%A9", "a%2520b", "é", "a b", "h<>", "", "u@h", "u:p@h", "u:p:q@h:1", "a@b@c", "%zz@h", "u%40@h", "[::1]:80", "[::1%25%41]", "[::1%25%7F]")
		return r.Pick("//", "http://", "HTTP://", "x+y://", "///", "////", "/") + host + r.Pick("", "/", "/p", "/p%2Fq", "//p", "?q", "#f", "/p?q#f")
	case 4:
		// scheme forms
		return r.Pick("http:", "a:", "a1+.-:", "1a:", ":", "a_b:", "É:", "") + r.Bytes("/ab:%2?#", r.Intn(8))
	default:
		// path-like strings as the client builds them
		n := 1 + r.Intn(4)
		var sb strings.Builder
		for i := 0; i < n; i++ {
			sb.WriteString(r.Pick("/", "/", "/", "//", ""))
			switch r.Intn(5) {
			case 0:
				sb.WriteString(url.PathEscape(c10Value(r)))
			case 1:
				sb.WriteString(r.Pick("{id}", "é", "a b", "a'b", "a!b", "(x)", "a:b", "a@b", "%2F", "%zz", "%", "a?b", "a#b", "*", "a?", "?", "#"))
			default:
				sb.WriteString(r.Pick("pets", "store", "a", "b.c", "x_y", ".", "..", ""))
			}
		}
		return sb.String()
	}
}

func c10Name(r *proto.Rng) string {
	// (ID / petid: the same names in another case — other names)
	return r.Pick("id", "petId", "a", "b", "name", "x-y", "v1", "id2", "i", "id", "a", "ID", "petid", "x.y", "n_1")
}

// every byte value (the escape table has a line for each)
var c10AllBytes = func() string {
	b := make([]byte, 256)
	for i := range b {
		b[i] = byte(i)
	}
	return string(b)
}()

func c10Value(r *proto.Rng) string {
	switch r.Intn(10) {
	case 0:
		return "{" + c10Name(r) + "}" // looks like another placeholder
	case 1:
		return r.Pick("a/b", "..", ".", "a?b=c", "a#frag", "50%", "%2F", "a b", "x;y", "{", "}", "é", "a+b", "")
	case 2:
		return r.Bytes("ab/?#%{} .:*+é\x00", 1+r.Intn(6))
	case 3:
		switch r.Intn(4) {
		case 0:
			return r.Bytes(c10AllBytes, 1+r.Intn(8)) // any bytes, valid UTF-8 or not
		case 1:
			// what a value might carry from another URL: escapes in either case, reserved characters, dot segments
			return r.Pick("%2f", "%2F..%2f", "a%20b", "%c3%a9", "%", "%%", "%2", "/../x", "./", "../", "a//b", "/", "//", "//h/p", "a/", "/a",
				"http://h/p?q#f", "a&b=c", "a=b", "a;b", "a,b", "a@b", "a:b", "~", "'", "\"", "\\", "a\nb", "\t", "\x7f", "\xff", "\xc3", "+", "a%2Bb", "?", "#", "*", "$", "!", "(", ")", "[", "]", "|", "^", "`", "<", ">")
		case 2:
			return strings.Repeat(r.Pick("a", "/", "%", "é", "{id}", " "), 20+r.Intn(300)) // long values
		default:
			return r.Pick("{", "}", "{}", "{{id}}", "{id", "id}", "}{", "{id}{id}", "{ID}", "{a}/{b}", "%7Bid%7D", "{%69d}")
		}
	default:
		return r.Pick("1", "42", "abc", "kitty", "A-Z", "x_y")
	}
}

func c10Gen(r *proto.Rng, n int, tier string, emit func(in ...string)) {
	// the escape tables: all 256 bytes in both modes, every run
	for c := 0; c < 256; c++ {
		emit("E", "p", proto.B(string([]byte{byte(c)})))
		emit("E", "q", proto.B(string([]byte{byte(c)})))
	}
	for _, s := range []string{"", "*", "/", "//", "///", "?", "#", "//?#", "/a?", "/a?b?", "%2A", "/%2A", "//pets", "//x@y:80/p"} {
		emit("U", proto.B(s))
	}
	for i := 0; i < n; i++ {
		if i%4 == 3 {
			emit("U", proto.B(c10RawURL(r)))
			continue
		}
		switch {
		case i%10 < 6:
			// pattern from tokens
			nseg := 1 + r.Intn(4)
			var sb strings.Builder
			var names []string
			static := func() string {
				switch r.Intn(12) {
				case 0:
					// static text net/url keeps as written although it would escape it itself (RawPath is set)
					return r.Pick("a'b", "a!b", "(x)", "x*", "[1]", "a:b", "a@b", "a;b", "a,b", "x=1", "$x", "a&b", "a+b", "~u")
				case 1:
					if r.Chance(1, 2) {
						// static text net/url must escape: known finding F10b when a value carries a '/'
						return r.Pick("é", "a b", "a\"b", "<x>", "a|b", "a^b", "a`b", "a\\b")
					}
					// dot segments and already-escaped static text (read as odd input by the driver)
					return r.Pick(".", "..", "a%2Fb", "%41", "a%zz", "a%3Fb", "a%23b", "50%25", "a%2fb", "%c3%a9", "%C3%A9", "%7Bid%7D", "%7bid%7d", "...", ".a", "a.")
				default:
					return r.Pick("pets", "store", "a", "b.c", "x_y", "v1", "A-Z", "Pets", "PETS", "id")
				}
			}
			for s := 0; s < nseg; s++ {
				sb.WriteByte('/')
				switch r.Intn(6) {
				case 0, 1, 2:
					nm := c10Name(r)
					names = append(names, nm)
					sb.WriteString("{" + nm + "}")
				case 3:
					nm := c10Name(r)
					names = append(names, nm)
					sb.WriteString(r.Pick("v", "x-", "", "") + "{" + nm + "}" + r.Pick(".json", "", "-z", ""))
					if r.Chance(1, 6) {
						nm2 := c10Name(r)
						names = append(names, nm2)
						sb.WriteString(r.Pick("", "-", ":") + "{" + nm2 + "}")
					}
				default:
					sb.WriteString(static())
				}
			}
			pattern := sb.String()
			if r.Chance(1, 4) {
				pattern += "/"
			}
			if r.Chance(1, 12) {
				pattern = strings.TrimPrefix(pattern, "/") // pattern without the leading slash
			}
			if r.Chance(1, 25) {
				pattern = r.Pick("/a/{b{c}d}", "/{a}{b}", "/}{", "/{a/{b}", "/x/{}", "/{a}/{a/b}", "", "/", "//", "//x/{a}", "x:y/{a}", "./x:y/{a}", "/{a}#f") // odd patterns
				names = append(names, "a", "b", "c")
			}
			if r.Chance(1, 8) {
				pattern += r.Pick("?x=1", "?y=2&y=3", "?", "?a%20b=c+d&x", "?x=1#frag", "?x=%zz&y=2;z")
			}
			base := r.Pick("/", "/", "", "", "/api", "/api/", "api", "/v1/base", "/api?x=1", "/a//b/", "/api/../v2", "/é", "/a'b", "?z=9",
				"/API", "api/", "/api/v1/", "/api?x=1&x=2", "/api?y", "/api?", "/{id}", "/api/{a}/", "/.", "/..", "/api/.", "/a.b/~u", "/api?x=%31&a+b=c%20d")
			if r.Chance(1, 40) {
				base = r.Pick("//h/b", "http://h/b?x=1", "//h", "/b%2Fc", "/b#f", "/a b", "h:80/b", "/%zz")
			}
			if r.Chance(1, 10) {
				// a query fixed in the base path whose text a path normalisation would damage
				base = r.Pick("/api", "api", "/", "") + "?" + r.Pick("cb=http://h//x/", "next=/home/", "dir=a/./b", "p=/a/../b&q=//")
			}
			// the base path as handed to client.New (its rooting is part of the model) …
			baseField := "N" + proto.B(base)
			if r.Chance(1, 40) {
				base = r.Pick("", "api", "?x=1", "/api") // … or Runtime.BasePath set directly by the caller
				baseField = proto.B(base)
			}
			// parameters: the pattern's names (possibly some missing / extra), distinct keys
			seen := map[string]bool{}
			var ns, vs []string
			for _, nm := range names {
				if seen[nm] || r.Chance(1, 12) {
					continue
				}
				seen[nm] = true
				ns = append(ns, nm)
				if r.Chance(1, 6) {
					vs = append(vs, "") // the empty value: F10a when it empties the first segment
				} else {
					vs = append(vs, c10Value(r))
				}
			}
			if r.Chance(1, 8) {
				nm := r.Pick("zz", "bXd", "aXc")
				if !seen[nm] {
					seen[nm] = true
					ns = append(ns, nm)
					vs = append(vs, c10Value(r))
				}
			}
			if len(names) > 0 && r.Chance(1, 8) {
				// a parameter the pattern does not name: a name of the pattern in another case, with a brace,
				// as a prefix of it or with blanks around it
				nm := names[r.Intn(len(names))]
				nm = r.Pick(strings.ToUpper(nm), strings.ToLower(nm), strings.Title(nm), "{"+nm+"}", nm[:len(nm)/2], nm+nm, " "+nm, nm+" ")
				if !seen[nm] {
					seen[nm] = true
					ns = append(ns, nm)
					vs = append(vs, r.Pick("WRONG", "wrong/{id}", c10Value(r)))
				}
			}
			// the caller's query parameters
			ck, cv := ".", "."
			if r.Chance(1, 4) {
				v := url.Values{}
				for j, nk := 0, 1+r.Intn(2); j < nk; j++ {
					k := r.Pick("x", "y", "z", "a b", "é", "k&=", "X", "a+b", "a%20b", "x;y", "?", "#", "/", "{id}", "\x00", "\xff")
					v.Del(k)
					for l, nv := 0, r.Intn(3); l < nv; l++ {
						v.Add(k, r.Pick("1", "2", "", "p q", "a&b=c", "é", "50%", "a+b", "%41", "a;b", "?x=1#f", "/a/../b", "{id}", "\x00\xff", "x\ny"))
					}
					if len(v[k]) == 0 {
						v[k] = []string{} // set, without a value
					}
				}
				ck, cv = c10Values(v)
			}
			host := c10Host
			if r.Chance(1, 8) {
				// the host is taken as the caller gives it
				host = r.Pick("example.test:8080", "[::1]:8443", "EXAMPLE.Test", "127.0.0.1", "localhost", "h_1.test:80", "xn--e1afmkfd.test")
			}
			emit("P", proto.B(host), baseField, proto.B(pattern), proto.L(ns), proto.L(vs), ck, cv)
		case i%10 < 9:
			// (a caller's key set without any value is left to stream P: stream Q's line reads the map back from the
			// built RawQuery, where such a key leaves no trace)
			mk := func(caller bool) (string, string) {
				nk := r.Intn(3)
				if r.Chance(1, 6) {
					nk = 3 + r.Intn(3)
				}
				v := url.Values{}
				for j := 0; j < nk; j++ {
					k := r.Pick("a", "b", "c", "limit", "x y", "a", "b", "A", "é", "a+b", "k&=", "x;y", "%41", "#", "?")
					nv := 1 + r.Intn(2)
					if r.Chance(1, 8) {
						nv = 3 + r.Intn(2)
					}
					v.Del(k)
					for l := 0; l < nv; l++ {
						v.Add(k, r.Pick("1", "2", "x", "a&b", "é", "", "p q", "", "a+b", "50%", "%32", "a=b", "x#y", "/?", "\x00", "\xff"))
					}
				}
				return c10Values(v)
			}
			bk, bv := mk(false)
			pk, pv := mk(false)
			ck, cv := mk(true)
			emit("Q", bk, bv, pk, pv, ck, cv)
		default:
			pick := func() []string {
				n := r.Intn(4)
				out := make([]string, n)
				for j := range out {
					out[j] = r.Pick("http", "https", "ws", "wss", "HTTPS")
				}
				return out
			}
			emit("S", proto.L(pick()), proto.L(pick()))
		}
	}
}
