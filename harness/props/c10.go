package props

import (
	"net/url"
	"path"
	"sort"
	"strings"

	"github.com/go-openapi/runtime"
	"github.com/go-openapi/runtime/client"
	"github.com/go-openapi/strfmt"

	"verif/harness/internal/proto"
)

// C10 — client URLs. Streams (all through client.Runtime.CreateHttpRequest):
//
//	P <joined path> <pattern path> <param names> <param values> [<base> <pattern>] => <escaped path>
//	Q <base keys> <base vals> <pattern keys> <pattern vals> <caller keys> <caller vals> => <keys> <vals>
//	S <runtime schemes> <operation schemes> => <scheme>
//	E <p|q> <bytes> => <escaped> <ok:unescaped|err>         (validates the hand-copied net/url tables)
//
// For P the harness computes url.Parse(..).Path and path.Join (stdlib) and passes them to the model
// as inputs; base path and pattern travel along so that a case can be re-executed.
func init() {
	proto.Register(&proto.Prop{ID: "C10", Gen: c10Gen, Exec: c10Exec, Corpus: [][]string{
		// F10a (known finding): an empty value in the first segment makes the path start with "//"
		{"P", proto.B("/{a}/pets"), proto.B("/{a}/pets"), proto.L([]string{"a"}), proto.L([]string{""}), proto.B(""), proto.B("/{a}/pets")},
	}})
}

type c10Writer struct {
	path  [][2]string
	query [][]string
}

func (w c10Writer) WriteToRequest(req runtime.ClientRequest, _ strfmt.Registry) error {
	for _, kv := range w.path {
		if err := req.SetPathParam(kv[0], kv[1]); err != nil {
			return err
		}
	}
	for _, q := range w.query {
		if err := req.SetQueryParam(q[0], q[1:]...); err != nil {
			return err
		}
	}
	return nil
}

func c10Values(v url.Values) (string, string) {
	keys := make([]string, 0, len(v))
	for k := range v {
		keys = append(keys, k)
	}
	// order by hex so that the Lean side can sort the same way
	sort.Slice(keys, func(i, j int) bool { return proto.B(keys[i]) <= proto.B(keys[j]) })
	if len(keys) == 0 {
		return ".", "."
	}
	vals := make([]string, len(keys))
	for i, k := range keys {
		vals[i] = proto.L(v[k])
	}
	return proto.L(keys), strings.Join(vals, "|")
}

func c10ParseValues(keys, vals string) [][]string {
	ks := proto.UnL(keys)
	if len(ks) == 0 {
		return nil
	}
	groups := strings.Split(vals, "|")
	out := make([][]string, len(ks))
	for i, k := range ks {
		out[i] = append([]string{k}, proto.UnL(groups[i])...)
	}
	return out
}

func c10Query(vs [][]string) string {
	var parts []string
	for _, kv := range vs {
		for _, v := range kv[1:] {
			parts = append(parts, url.QueryEscape(kv[0])+"="+url.QueryEscape(v))
		}
	}
	return strings.Join(parts, "&")
}

func c10Exec(in []string) []string {
	switch in[0] {
	case "P":
		names, vals := proto.UnL(in[3]), proto.UnL(in[4])
		base, pattern := proto.UnB(in[5]), proto.UnB(in[6])
		w := c10Writer{}
		for i := range names {
			w.path = append(w.path, [2]string{names[i], vals[i]})
		}
		// rebuild several times: Go's map iteration order varies from run to run
		var first string
		for k := 0; k < 4; k++ {
			rt := client.New("example.test", base, []string{"http"})
			req, err := rt.CreateHttpRequest(&runtime.ClientOperation{ID: "op", Method: "GET", PathPattern: pattern, Params: w})
			var got string
			if err != nil {
				got = "ERR"
			} else {
				// the string handed to http.NewRequest: url.Parse keeps it in RawPath unless it is
				// the default encoding of Path
				orig := req.URL.RawPath
				if orig == "" {
					orig = req.URL.EscapedPath()
				}
				got = proto.B(orig) + " " + proto.Bool(orig == req.URL.EscapedPath())
			}
			if k == 0 {
				first = got
			} else if got != first {
				return []string{"ORDER-DEPENDENT", first, got}
			}
		}
		return strings.Fields(first)
	case "Q":
		b, p, c := c10ParseValues(in[1], in[2]), c10ParseValues(in[3], in[4]), c10ParseValues(in[5], in[6])
		base := "/api"
		if q := c10Query(b); q != "" {
			base += "?" + q
		}
		pattern := "/op"
		if q := c10Query(p); q != "" {
			pattern += "?" + q
		}
		rt := client.New("example.test", base, []string{"http"})
		req, err := rt.CreateHttpRequest(&runtime.ClientOperation{ID: "op", Method: "GET", PathPattern: pattern, Params: c10Writer{query: c}})
		if err != nil {
			return []string{"ERR", proto.B(err.Error())}
		}
		k, v := c10Values(req.URL.Query())
		return []string{k, v}
	case "S":
		rt := client.New("example.test", "/", proto.UnL(in[1]))
		req, err := rt.CreateHttpRequest(&runtime.ClientOperation{ID: "op", Method: "GET", PathPattern: "/x", Schemes: proto.UnL(in[2]), Params: c10Writer{}})
		if err != nil {
			return []string{"ERR", proto.B(err.Error())}
		}
		return []string{proto.B(req.URL.Scheme)}
	case "E":
		s := proto.UnB(in[2])
		var esc, un string
		var err error
		if in[1] == "q" {
			esc = url.QueryEscape(s)
			un, err = url.QueryUnescape(s)
		} else {
			esc = url.PathEscape(s)
			un, err = url.PathUnescape(s)
		}
		if err != nil {
			return []string{proto.B(esc), "err"}
		}
		return []string{proto.B(esc), "ok:" + proto.B(un)}
	}
	panic("C10: unknown stream")
}

func c10Name(r *proto.Rng) string {
	return r.Pick("id", "petId", "a", "b", "name", "x-y", "v1", "id2", "i")
}

func c10Value(r *proto.Rng) string {
	switch r.Intn(10) {
	case 0:
		return "{" + c10Name(r) + "}" // looks like another placeholder
	case 1:
		return r.Pick("a/b", "..", ".", "a?b=c", "a#frag", "50%", "%2F", "a b", "x;y", "{", "}", "é", "a+b", "")
	case 2:
		return r.Bytes("ab/?#%{} .:*+é\x00", 1+r.Intn(6))
	default:
		return r.Pick("1", "42", "abc", "kitty", "A-Z", "x_y")
	}
}

func c10Gen(r *proto.Rng, n int, tier string, emit func(in ...string)) {
	// the escape tables: all 256 bytes in both modes, every run
	for c := 0; c < 256; c++ {
		emit("E", "p", proto.B(string([]byte{byte(c)})))
		emit("E", "q", proto.B(string([]byte{byte(c)})))
	}
	for i := 0; i < n; i++ {
		switch {
		case i%10 < 6:
			// pattern from tokens
			nseg := 1 + r.Intn(4)
			var sb strings.Builder
			var names []string
			for s := 0; s < nseg; s++ {
				sb.WriteByte('/')
				switch r.Intn(6) {
				case 0, 1, 2:
					nm := c10Name(r)
					names = append(names, nm)
					sb.WriteString("{" + nm + "}")
				case 3:
					nm := c10Name(r)
					names = append(names, nm)
					sb.WriteString(r.Pick("v", "x-", "") + "{" + nm + "}" + r.Pick(".json", "", "-z"))
				default:
					sb.WriteString(r.Pick("pets", "store", "a", "b.c", "x_y"))
				}
			}
			pattern := sb.String()
			if r.Chance(1, 4) {
				pattern += "/"
			}
			if r.Chance(1, 25) {
				pattern = r.Pick("/a/{b{c}d}", "/{a}{b}", "/}{", "/{a/{b}", "/x/{}") // odd patterns
				names = append(names, "a", "b", "c")
			}
			base := r.Pick("/", "", "/api", "/api/", "api", "/v1/base", "/api?x=1")
			// parameters: the pattern's names (possibly some missing / extra), distinct keys
			seen := map[string]bool{}
			var ns, vs []string
			for _, nm := range names {
				if seen[nm] || r.Chance(1, 10) {
					continue
				}
				seen[nm] = true
				ns = append(ns, nm)
				vs = append(vs, c10Value(r))
			}
			if r.Chance(1, 8) {
				nm := r.Pick("zz", "bXd", "aXc")
				if !seen[nm] {
					ns = append(ns, nm)
					vs = append(vs, c10Value(r))
				}
			}
			// client.New normalises the base path; the model starts from what the Runtime holds
			bu, err1 := url.Parse(client.New("example.test", base, nil).BasePath)
			pu, err2 := url.Parse(pattern)
			if err1 != nil || err2 != nil {
				continue
			}
			joined := path.Join(bu.Path, pu.Path)
			emit("P", proto.B(joined), proto.B(pu.Path), proto.L(ns), proto.L(vs), proto.B(base), proto.B(pattern))
		case i%10 < 9:
			mk := func() (string, string) {
				nk := r.Intn(3)
				v := url.Values{}
				for j := 0; j < nk; j++ {
					k := r.Pick("a", "b", "c", "limit", "x y")
					nv := 1 + r.Intn(2)
					v.Del(k)
					for l := 0; l < nv; l++ {
						v.Add(k, r.Pick("1", "2", "x", "a&b", "é", "", "p q"))
					}
				}
				return c10Values(v)
			}
			bk, bv := mk()
			pk, pv := mk()
			ck, cv := mk()
			emit("Q", bk, bv, pk, pv, ck, cv)
		default:
			pick := func() []string {
				n := r.Intn(4)
				out := make([]string, n)
				for j := range out {
					out[j] = r.Pick("http", "https", "ws", "wss", "HTTPS")
				}
				return out
			}
			emit("S", proto.L(pick()), proto.L(pick()))
		}
	}
}
