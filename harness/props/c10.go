package props

import (
	"net/url"
	"sort"
	"strings"

	"github.com/go-openapi/runtime"
	"github.com/go-openapi/runtime/client"
	"github.com/go-openapi/strfmt"

	"verif/harness/internal/proto"
)

// C10 — client URLs. Streams (all through client.Runtime.CreateHttpRequest):
//
//	P <host> <Runtime.BasePath> <pattern> <param names> <param values> <caller keys> <caller vals> => ERR | <request URL, 14 fields>
//	Q <base keys> <base vals> <pattern keys> <pattern vals> <caller keys> <caller vals> => <keys> <vals> <RawQuery>
//	S <runtime schemes> <operation schemes> => <scheme>
//	E <p|q> <bytes> => <escaped> <ok:unescaped|err>         (validates the hand-copied net/url tables)
//	U <bytes> => ERR | <url.Parse result, 14 fields>         (validates the hand model of url.Parse)
//
// Nothing is computed for the model on the Go side: P hands over the raw strings the runtime holds
// and reports every field of the URL of the request CreateHttpRequest returns.
func init() {
	proto.Register(&proto.Prop{ID: "C10", Gen: c10Gen, Exec: c10Exec, Corpus: [][]string{
		// F10a (known finding): an empty value in the first segment makes the path start with "//"
		{"P", proto.B(c10Host), proto.B("/"), proto.B("/{a}/pets"), proto.L([]string{"a"}), proto.L([]string{""}), ".", "."},
		// the same class, refused by http.NewRequest / read as user info
		{"P", proto.B(c10Host), proto.B("/"), proto.B("/{a}/{b}"), proto.L([]string{"a", "b"}), proto.L([]string{"", "{i}"}), ".", "."},
		{"P", proto.B(c10Host), proto.B("/"), proto.B("/{a}/{b}/pets"), proto.L([]string{"a", "b"}), proto.L([]string{"", "u@h"}), ".", "."},
		// not in the class: three slashes are a path
		{"P", proto.B(c10Host), proto.B("/"), proto.B("/{a}/{b}/pets"), proto.L([]string{"a", "b"}), proto.L([]string{"", ""}), ".", "."},
		// F10b (known finding): static text that net/url escapes makes EscapedPath() forget the value's escapes
		{"P", proto.B(c10Host), proto.B("/"), proto.B("/\xc3\xa9/{a}"), proto.L([]string{"a"}), proto.L([]string{"x/y"}), ".", "."},
	}})
}

const c10Host = "example.test"

type c10Writer struct {
	path  [][2]string
	query [][]string
}

func (w c10Writer) WriteToRequest(req runtime.ClientRequest, _ strfmt.Registry) error {
	for _, kv := range w.path {
		if err := req.SetPathParam(kv[0], kv[1]); err != nil {
			return err
		}
	}
	for _, q := range w.query {
		if err := req.SetQueryParam(q[0], q[1:]...); err != nil {
			return err
		}
	}
	return nil
}

func c10Values(v url.Values) (string, string) {
	keys := make([]string, 0, len(v))
	for k := range v {
		keys = append(keys, k)
	}
	// order by hex so that the Lean side can sort the same way
	sort.Slice(keys, func(i, j int) bool { return proto.B(keys[i]) <= proto.B(keys[j]) })
	if len(keys) == 0 {
		return ".", "."
	}
	vals := make([]string, len(keys))
	for i, k := range keys {
		vals[i] = proto.L(v[k])
	}
	return proto.L(keys), strings.Join(vals, "|")
}

func c10ParseValues(keys, vals string) [][]string {
	ks := proto.UnL(keys)
	if len(ks) == 0 {
		return nil
	}
	groups := strings.Split(vals, "|")
	out := make([][]string, len(ks))
	for i, k := range ks {
		out[i] = append([]string{k}, proto.UnL(groups[i])...)
	}
	return out
}

func c10Query(vs [][]string) string {
	var parts []string
	for _, kv := range vs {
		for _, v := range kv[1:] {
			parts = append(parts, url.QueryEscape(kv[0])+"="+url.QueryEscape(v))
		}
	}
	return strings.Join(parts, "&")
}

func c10Exec(in []string) []string {
	switch in[0] {
	case "P":
		// base: N<hex> = handed to client.New; <hex> = Runtime.BasePath set directly by the caller
		viaNew := strings.HasPrefix(in[2], "N")
		host, base, pattern := proto.UnB(in[1]), proto.UnB(strings.TrimPrefix(in[2], "N")), proto.UnB(in[3])
		names, vals := proto.UnL(in[4]), proto.UnL(in[5])
		w := c10Writer{query: c10ParseValues(in[6], in[7])}
		for i := range names {
			w.path = append(w.path, [2]string{names[i], vals[i]})
		}
		// rebuild several times: Go's map iteration order varies from run to run
		var first string
		for k := 0; k < 4; k++ {
			var rt *client.Runtime
			if viaNew {
				rt = client.New(host, base, []string{"http"})
			} else {
				rt = client.New(host, "/", []string{"http"})
				rt.BasePath = base
			}
			req, err := rt.CreateHttpRequest(&runtime.ClientOperation{ID: "op", Method: "GET", PathPattern: pattern, Params: w})
			var got string
			if err != nil {
				got = "ERR"
			} else {
				got = strings.Join(c10URL(req.URL, nil), " ")
			}
			if k == 0 {
				first = got
			} else if got != first {
				return []string{"ORDER-DEPENDENT", first, got}
			}
		}
		return strings.Fields(first)
	case "Q":
		b, p, c := c10ParseValues(in[1], in[2]), c10ParseValues(in[3], in[4]), c10ParseValues(in[5], in[6])
		base := "/api"
		if q := c10Query(b); q != "" {
			base += "?" + q
		}
		pattern := "/op"
		if q := c10Query(p); q != "" {
			pattern += "?" + q
		}
		rt := client.New("example.test", base, []string{"http"})
		req, err := rt.CreateHttpRequest(&runtime.ClientOperation{ID: "op", Method: "GET", PathPattern: pattern, Params: c10Writer{query: c}})
		if err != nil {
			return []string{"ERR", proto.B(err.Error())}
		}
		k, v := c10Values(req.URL.Query())
		return []string{k, v, proto.B(req.URL.RawQuery)}
	case "S":
		rt := client.New("example.test", "/", proto.UnL(in[1]))
		req, err := rt.CreateHttpRequest(&runtime.ClientOperation{ID: "op", Method: "GET", PathPattern: "/x", Schemes: proto.UnL(in[2]), Params: c10Writer{}})
		if err != nil {
			return []string{"ERR", proto.B(err.Error())}
		}
		return []string{proto.B(req.URL.Scheme)}
	case "U":
		return c10URL(url.Parse(proto.UnB(in[1])))
	case "E":
		s := proto.UnB(in[2])
		var esc, un string
		var err error
		if in[1] == "q" {
			esc = url.QueryEscape(s)
			un, err = url.QueryUnescape(s)
		} else {
			esc = url.PathEscape(s)
			un, err = url.PathUnescape(s)
		}
		if err != nil {
			return []string{proto.B(esc), "err"}
		}
		return []string{proto.B(esc), "ok:" + proto.B(un)}
	}
	panic("C10: unknown stream")
}

// c10URL prints every field of a parsed URL (the model prints the same line).
func c10URL(u *url.URL, err error) []string {
	if err != nil {
		return []string{"ERR"}
	}
	user := []string{"0", "-", "-"}
	if u.User != nil {
		if pw, ok := u.User.Password(); ok {
			user = []string{"2", proto.B(u.User.Username()), proto.B(pw)}
		} else {
			user = []string{"1", proto.B(u.User.Username()), "-"}
		}
	}
	out := []string{proto.B(u.Scheme), proto.B(u.Opaque)}
	out = append(out, user...)
	return append(out, proto.B(u.Host), proto.B(u.Path), proto.B(u.RawPath), proto.B(u.EscapedPath()), proto.Bool(u.ForceQuery),
		proto.B(u.RawQuery), proto.B(u.Fragment), proto.B(u.RawFragment), proto.Bool(u.OmitHost))
}

const c10URLAlphabet = "////%%%abcdefxyz0123456789AF{}:*;,=+ ?#..@[]!$&'()<>\"|^`~-_\\\x00\x1f\x7f\x80\xc3\xa9\xff"

// c10RawURL: a string for stream U — random bytes, or a structured URL with noise.
func c10RawURL(r *proto.Rng) string {
	switch r.Intn(8) {
	case 0, 1:
		return r.Bytes(c10URLAlphabet, r.Intn(12))
	case 2:
		return r.Bytes("/%2Fa5:@[].?#", r.Intn(10))
	case 3:
		// authority forms
		host := r.Pick("h", "h.example", "[::1]", "[fe80::1%25en0]", "[fe80::1%25e%20n]", "[x", "[x]y", "h:80", "h:", "h:8x", "%41", "%C3%A9", "a%2520b", "é", "a b", "h<>", "", "u@h", "u:p@h", "u:p:q@h:1", "a@b@c", "%zz@h", "u%40@h", "[::1]:80", "[::1%25%41]", "[::1%25%7F]")
		return r.Pick("//", "http://", "HTTP://", "x+y://", "///", "////", "/") + host + r.Pick("", "/", "/p", "/p%2Fq", "//p", "?q", "#f", "/p?q#f")
	case 4:
		// scheme forms
		return r.Pick("http:", "a:", "a1+.-:", "1a:", ":", "a_b:", "É:", "") + r.Bytes("/ab:%2?#", r.Intn(8))
	default:
		// path-like strings as the client builds them
		n := 1 + r.Intn(4)
		var sb strings.Builder
		for i := 0; i < n; i++ {
			sb.WriteString(r.Pick("/", "/", "/", "//", ""))
			switch r.Intn(5) {
			case 0:
				sb.WriteString(url.PathEscape(c10Value(r)))
			case 1:
				sb.WriteString(r.Pick("{id}", "é", "a b", "a'b", "a!b", "(x)", "a:b", "a@b", "%2F", "%zz", "%", "a?b", "a#b", "*", "a?", "?", "#"))
			default:
				sb.WriteString(r.Pick("pets", "store", "a", "b.c", "x_y", ".", "..", ""))
			}
		}
		return sb.String()
	}
}

func c10Name(r *proto.Rng) string {
	return r.Pick("id", "petId", "a", "b", "name", "x-y", "v1", "id2", "i")
}

func c10Value(r *proto.Rng) string {
	switch r.Intn(10) {
	case 0:
		return "{" + c10Name(r) + "}" // looks like another placeholder
	case 1:
		return r.Pick("a/b", "..", ".", "a?b=c", "a#frag", "50%", "%2F", "a b", "x;y", "{", "}", "é", "a+b", "")
	case 2:
		return r.Bytes("ab/?#%{} .:*+é\x00", 1+r.Intn(6))
	default:
		return r.Pick("1", "42", "abc", "kitty", "A-Z", "x_y")
	}
}

func c10Gen(r *proto.Rng, n int, tier string, emit func(in ...string)) {
	// the escape tables: all 256 bytes in both modes, every run
	for c := 0; c < 256; c++ {
		emit("E", "p", proto.B(string([]byte{byte(c)})))
		emit("E", "q", proto.B(string([]byte{byte(c)})))
	}
	for _, s := range []string{"", "*", "/", "//", "///", "?", "#", "//?#", "/a?", "/a?b?", "%2A", "/%2A", "//pets", "//x@y:80/p"} {
		emit("U", proto.B(s))
	}
	for i := 0; i < n; i++ {
		if i%4 == 3 {
			emit("U", proto.B(c10RawURL(r)))
			continue
		}
		switch {
		case i%10 < 6:
			// pattern from tokens
			nseg := 1 + r.Intn(4)
			var sb strings.Builder
			var names []string
			static := func() string {
				switch r.Intn(12) {
				case 0:
					// static text net/url keeps as written although it would escape it itself (RawPath is set)
					return r.Pick("a'b", "a!b", "(x)", "x*", "[1]", "a:b", "a@b", "a;b", "a,b", "x=1", "$x", "a&b", "a+b", "~u")
				case 1:
					if r.Chance(1, 2) {
						// static text net/url must escape: known finding F10b when a value carries a '/'
						return r.Pick("é", "a b", "a\"b", "<x>", "a|b", "a^b", "a`b", "a\\b")
					}
					// dot segments and already-escaped static text (read as odd input by the driver)
					return r.Pick(".", "..", "a%2Fb", "%41", "a%zz", "a%3Fb", "a%23b", "50%25")
				default:
					return r.Pick("pets", "store", "a", "b.c", "x_y", "v1", "A-Z")
				}
			}
			for s := 0; s < nseg; s++ {
				sb.WriteByte('/')
				switch r.Intn(6) {
				case 0, 1, 2:
					nm := c10Name(r)
					names = append(names, nm)
					sb.WriteString("{" + nm + "}")
				case 3:
					nm := c10Name(r)
					names = append(names, nm)
					sb.WriteString(r.Pick("v", "x-", "", "") + "{" + nm + "}" + r.Pick(".json", "", "-z", ""))
					if r.Chance(1, 6) {
						nm2 := c10Name(r)
						names = append(names, nm2)
						sb.WriteString(r.Pick("", "-", ":") + "{" + nm2 + "}")
					}
				default:
					sb.WriteString(static())
				}
			}
			pattern := sb.String()
			if r.Chance(1, 4) {
				pattern += "/"
			}
			if r.Chance(1, 12) {
				pattern = strings.TrimPrefix(pattern, "/") // pattern without the leading slash
			}
			if r.Chance(1, 25) {
				pattern = r.Pick("/a/{b{c}d}", "/{a}{b}", "/}{", "/{a/{b}", "/x/{}", "/{a}/{a/b}", "", "/", "//", "//x/{a}", "x:y/{a}", "./x:y/{a}", "/{a}#f") // odd patterns
				names = append(names, "a", "b", "c")
			}
			if r.Chance(1, 8) {
				pattern += r.Pick("?x=1", "?y=2&y=3", "?", "?a%20b=c+d&x", "?x=1#frag", "?x=%zz&y=2;z")
			}
			base := r.Pick("/", "/", "", "", "/api", "/api/", "api", "/v1/base", "/api?x=1", "/a//b/", "/api/../v2", "/é", "/a'b", "?z=9")
			if r.Chance(1, 40) {
				base = r.Pick("//h/b", "http://h/b?x=1", "//h", "/b%2Fc", "/b#f", "/a b", "h:80/b", "/%zz")
			}
			if r.Chance(1, 10) {
				// a query fixed in the base path whose text a path normalisation would damage
				base = r.Pick("/api", "api", "/", "") + "?" + r.Pick("cb=http://h//x/", "next=/home/", "dir=a/./b", "p=/a/../b&q=//")
			}
			// the base path as handed to client.New (its rooting is part of the model) …
			baseField := "N" + proto.B(base)
			if r.Chance(1, 40) {
				base = r.Pick("", "api", "?x=1", "/api") // … or Runtime.BasePath set directly by the caller
				baseField = proto.B(base)
			}
			// parameters: the pattern's names (possibly some missing / extra), distinct keys
			seen := map[string]bool{}
			var ns, vs []string
			for _, nm := range names {
				if seen[nm] || r.Chance(1, 12) {
					continue
				}
				seen[nm] = true
				ns = append(ns, nm)
				if r.Chance(1, 6) {
					vs = append(vs, "") // the empty value: F10a when it empties the first segment
				} else {
					vs = append(vs, c10Value(r))
				}
			}
			if r.Chance(1, 8) {
				nm := r.Pick("zz", "bXd", "aXc")
				if !seen[nm] {
					ns = append(ns, nm)
					vs = append(vs, c10Value(r))
				}
			}
			// the caller's query parameters
			ck, cv := ".", "."
			if r.Chance(1, 4) {
				v := url.Values{}
				for j, nk := 0, 1+r.Intn(2); j < nk; j++ {
					k := r.Pick("x", "y", "z", "a b", "é", "k&=")
					v.Del(k)
					for l, nv := 0, r.Intn(3); l < nv; l++ {
						v.Add(k, r.Pick("1", "2", "", "p q", "a&b=c", "é", "50%", "a+b"))
					}
					if len(v[k]) == 0 {
						v[k] = []string{} // set, without a value
					}
				}
				ck, cv = c10Values(v)
			}
			emit("P", proto.B(c10Host), baseField, proto.B(pattern), proto.L(ns), proto.L(vs), ck, cv)
		case i%10 < 9:
			mk := func() (string, string) {
				nk := r.Intn(3)
				v := url.Values{}
				for j := 0; j < nk; j++ {
					k := r.Pick("a", "b", "c", "limit", "x y")
					nv := 1 + r.Intn(2)
					v.Del(k)
					for l := 0; l < nv; l++ {
						v.Add(k, r.Pick("1", "2", "x", "a&b", "é", "", "p q"))
					}
				}
				return c10Values(v)
			}
			bk, bv := mk()
			pk, pv := mk()
			ck, cv := mk()
			emit("Q", bk, bv, pk, pv, ck, cv)
		default:
			pick := func() []string {
				n := r.Intn(4)
				out := make([]string, n)
				for j := range out {
					out[j] = r.Pick("http", "https", "ws", "wss", "HTTPS")
				}
				return out
			}
			emit("S", proto.L(pick()), proto.L(pick()))
		}
	}
}
