package props

import (
	"bufio"
	"bytes"
	"encoding/json"
	"fmt"
	"hash/fnv"
	"io"
	"mime"
	"net/http"
	"net/http/httptest"
	"net/url"
	"os"
	"reflect"
	"strconv"
	"strings"
	"testing/iotest"

	apierrors "github.com/go-openapi/errors"
	"github.com/go-openapi/loads"
	"github.com/go-openapi/runtime"
	"github.com/go-openapi/runtime/middleware"
	"github.com/go-openapi/runtime/middleware/untyped"

	"verif/harness/internal/proto"
)

// C06 — a body is decoded only by the consumer of an admitted media type, else 415.
//
// Two streams, both binding entry points (and the complete API handler) on the same request.
// G: the content-type gate alone (no Accept header, a binder that succeeds):
//
//	G <opConsumes> <apiDefault> <registered> <method> <ctLines> <contentLength> <clHeader> <bodyMode>
//	  => <hasBody> <eff> <p1> <p2> <uCodes> <uSel> <uRan> <tCodes> <tSel> <tRan> <sStatus> <sRan> <sHandler>
//
// Inputs: the operation's consumes list as spelled in the spec; api.DefaultConsumes ("-" none);
// the media types passed to api.RegisterConsumer in order (consumer id = position); the request
// method; the Content-Type header lines; Request.ContentLength; the Content-Length header ("-"
// absent); bodyMode 0 nil Body, 1 http.NoBody, 2 a reader holding 7 bytes, 3 a reader holding
// nothing.
//
// Outputs (observations only, nothing is judged here): runtime.HasBody on a fresh copy of the
// request; the string handed to mime.ParseMediaType (header or runtime.DefaultMime), its result p1
// ("E" error, else the type) and the result p2 of parsing p1 again; for U = Context.BindAndValidate
// and T = Context.BindValidRequest: the codes of the returned errors in order ("." none), the
// consumer left in route.Consumer (-1 none) and the consumer whose Consume ran (-1 none); for S =
// the complete handler of middleware.Serve: status, consumer that ran, whether the operation
// handler ran.
//
// H: the whole of Context.BindValidRequest / validateRequest (gate, response-format check, binder):
//
//	H <G's eight inputs> <opProduces> <apiDefaultProduces> <acceptLines> <binder>
//	  => <hasBody> <eff> <p1> <p2> <routeProduces> <uCodes> <uSel> <uRan> <tCodes> <tSel> <tBinderRan> <tRan> <tAsIs>
//	     <sStatus> <sRan> <sHandler>
//
// Additional inputs: the operation's produces list as spelled in the spec ("." none; the document
// has no global produces); api.DefaultProduces ("-" none); the Accept header lines; the binder handed
// to BindValidRequest: 0 nil, 1 succeeds (decodes the body with route.Consumer when there is one),
// 2 fails with an errors.Error of code 422, 3 fails with a plain error (shown as 599).
// Additional outputs: route.Produces as found on the matched route; how often the binder was called;
// whether the error BindValidRequest returned is the very value the binder returned. The complete
// handler S is run only for an API with a default producer (Respond needs one); else "0 -1 0".
func init() {
	proto.Register(&proto.Prop{ID: "C06", Gen: c06Gen, Exec: c06Exec, Corpus: c06Corpus})
}

var c06Methods = []string{"GET", "POST", "PUT", "DELETE", "PATCH", "HEAD", "OPTIONS"}

const c06Body = `{"a":1}`

// Widening (no new input or output field: everything below is EQUIVALENT for the code as it is and is
// chosen from a checksum of the input line, c05Mix, or of the configuration, so that a case replays
// identically):
//   - the request value: hand-made as before, or (when the input describes something a peer can
//     send) parsed by net/http from the wire (http.ReadRequest: Content-Length framing, real chunked
//     framing with Request.TransferEncoding set, http.NoBody for no body, the header names spelled in
//     any case); a hand-made request without length may carry TransferEncoding "chunked" as well;
//   - the body stream: other io.Reader implementations (one byte per Read, data together with io.EOF,
//     an empty read first; for the empty stream: a source failing with io.ErrUnexpectedEOF) and other
//     sizes (1 byte, more than bufio's buffer);
//   - where the lists are declared: consumes/produces on the operation, or document-wide, or on the
//     operation with a different document-wide list beside it (which the operation's list overrides);
//   - the Context: debug logging on (SWAGGER_DEBUG while the Context is made, Context.SetLogger) for
//     a third of the configurations; the two entry points in either order; Context.ContentType asked
//     before BindAndValidate (its memo is then what validation.contentType reads); BindAndValidate
//     asked a second time with the request it returned (the verdict it reports is the remembered one);
//   - the complete handler: Context.APIHandler(nil), APIHandler(PassthroughBuilder), RoutesHandler,
//     APIHandlerSwaggerUI, APIHandlerRapiDoc, or middleware.Serve (a Context of its own).
type c06Log struct{}

func (c06Log) Printf(format string, args ...interface{}) { _ = fmt.Sprintf(format, args...) }
func (c06Log) Debugf(format string, args ...interface{}) { _ = fmt.Sprintf(format, args...) }

func init() {
	// debug output of a Context made before SetLogger is called goes here, not to stderr
	middleware.Logger = c06Log{}
}

func c06Hash(s string) uint32 {
	h := fnv.New32a()
	h.Write([]byte(s))
	return h.Sum32()
}

// c06Place: where a list is declared (0 on the operation, 1 document-wide, 2 on the operation with
// a different document-wide list beside it)
func c06Place(doc, op map[string]interface{}, field string, list []string, place uint32) {
	if len(list) == 0 {
		return
	}
	switch place % 3 {
	case 1:
		doc[field] = list
	case 2:
		op[field] = list
		doc[field] = []string{"application/x-decoy", "text/plain"}
	default:
		op[field] = list
	}
}

type c06Consumer struct {
	id  int
	ran *[]int
}

func (c *c06Consumer) Consume(r io.Reader, _ interface{}) error {
	*c.ran = append(*c.ran, c.id)
	if r != nil {
		_, _ = io.Copy(io.Discard, r)
	}
	return nil
}

type c06API struct {
	api     *untyped.API
	ctx     *middleware.Context
	handler http.Handler
	ran     []int
	handled int
	doc     *loads.Document
	debug   bool
	alt     map[uint32]http.Handler
}

// serveBy: the complete handler through one of the public constructors
func (a *c06API) serveBy(k uint32) http.Handler {
	k %= 16
	if k < 8 {
		return a.handler // Context.APIHandler(nil), made with the Context
	}
	if h, ok := a.alt[k]; ok {
		return h
	}
	var h http.Handler
	switch {
	case k < 10:
		h = a.ctx.RoutesHandler(nil)
	case k < 12:
		h = a.ctx.APIHandler(middleware.PassthroughBuilder)
	case k == 12:
		h = a.ctx.APIHandlerSwaggerUI(nil)
	case k == 13:
		h = a.ctx.APIHandlerRapiDoc(nil)
	default:
		// a Context of its own over the same registrations
		if a.debug {
			os.Setenv("SWAGGER_DEBUG", "1")
		}
		h = middleware.Serve(a.doc, a.api)
		os.Unsetenv("SWAGGER_DEBUG")
	}
	if a.alt == nil {
		a.alt = map[uint32]http.Handler{}
	}
	a.alt[k] = h
	return h
}

// building a document costs ~10 ms (loads.Analyzed clones the spec through gob): documents are
// cached per consumes list and complete APIs per configuration. Nothing in them is mutated by a
// request (every lookup returns a fresh MatchedRoute); the counters are reset before every use.
var c06Docs = map[string]*loads.Document{}
var c06APIs = map[string]*c06API{}

func c06Get(fCons, fDflt, fReg string) *c06API {
	key := fCons + " " + fDflt + " " + fReg
	a, ok := c06APIs[key]
	if !ok {
		if len(c06APIs) > 20000 {
			c06APIs = map[string]*c06API{}
		}
		hk := c06Hash(key)
		a = c06Build(c06Doc(fCons+" "+strconv.Itoa(int(hk%3)), proto.UnL(fCons), nil, true, hk%3, 0), proto.UnB(fDflt), proto.UnL(fReg), runtime.JSONMime, hk>>4%3 == 0)
		c06APIs[key] = a
	}
	a.ran, a.handled = nil, 0
	return a
}

// stream H: the operation's produces list and the API's default producer are part of the configuration
func c06GetH(fCons, fDflt, fReg, fProd, fDprod string) *c06API {
	key := "H " + fCons + " " + fDflt + " " + fReg + " " + fProd + " " + fDprod
	a, ok := c06APIs[key]
	if !ok {
		if len(c06APIs) > 20000 {
			c06APIs = map[string]*c06API{}
		}
		hk := c06Hash(key)
		a = c06Build(c06Doc("H "+fCons+" "+fProd+" "+strconv.Itoa(int(hk%9)), proto.UnL(fCons), proto.UnL(fProd), false, hk%3, hk/3%3), proto.UnB(fDflt), proto.UnL(fReg), proto.UnB(fDprod), hk>>4%3 == 0)
		for _, mt := range proto.UnL(fProd) {
			if n := c06Norm(mt); n != "" {
				a.api.RegisterProducer(n, runtime.JSONProducer())
			}
		}
		c06APIs[key] = a
	}
	a.ran, a.handled = nil, 0
	return a
}

func c06Doc(key string, opConsumes, opProduces []string, globalProduces bool, placeC, placeP uint32) *loads.Document {
	if d, ok := c06Docs[key]; ok {
		return d
	}
	op := map[string]interface{}{
		"parameters": []interface{}{map[string]interface{}{"name": "body", "in": "body", "schema": map[string]interface{}{}}},
		"responses":  map[string]interface{}{"200": map[string]interface{}{"description": "ok"}},
	}
	top := map[string]interface{}{}
	c06Place(top, op, "consumes", opConsumes, placeC)
	c06Place(top, op, "produces", opProduces, placeP)
	item := map[string]interface{}{}
	for _, m := range c06Methods {
		o := map[string]interface{}{"operationId": "op" + m}
		for k, v := range op {
			o[k] = v
		}
		item[strings.ToLower(m)] = o
	}
	doc := map[string]interface{}{
		"swagger":  "2.0",
		"info":     map[string]interface{}{"title": "c06", "version": "1"},
		"basePath": "/",
		"paths":    map[string]interface{}{"/x": item},
	}
	if globalProduces {
		doc["produces"] = []string{"application/json"}
	}
	for k, v := range top {
		doc[k] = v
	}
	raw, err := json.Marshal(doc)
	if err != nil {
		panic(err)
	}
	d, err := loads.Analyzed(json.RawMessage(raw), "")
	if err != nil {
		panic("c06 spec: " + err.Error())
	}
	c06Docs[key] = d
	return d
}

func c06Build(d *loads.Document, dflt string, registered []string, dprod string, debug bool) *c06API {
	a := &c06API{doc: d, debug: debug}
	if debug {
		// logger.DebugEnabled is asked while the Context (and its router) is made
		os.Setenv("SWAGGER_DEBUG", "1")
		defer os.Unsetenv("SWAGGER_DEBUG")
	}
	api := untyped.NewAPI(d).WithoutJSONDefaults()
	a.api = api
	api.DefaultConsumes = dflt
	api.DefaultProduces = dprod
	if dprod != "" {
		api.RegisterProducer(dprod, runtime.JSONProducer())
	}
	for i, mt := range registered {
		api.RegisterConsumer(mt, &c06Consumer{id: i, ran: &a.ran})
	}
	for _, m := range c06Methods {
		api.RegisterOperation(m, "/x", runtime.OperationHandlerFunc(func(interface{}) (interface{}, error) {
			a.handled++
			return map[string]string{"ok": "1"}, nil
		}))
	}
	a.ctx = middleware.NewContext(d, api, nil)
	if debug {
		a.ctx.SetLogger(c06Log{})
	}
	a.handler = a.ctx.APIHandler(nil)
	return a
}

type c06Req struct {
	method  string
	ctLines []string
	cl      int64
	clHdr   string
	hasCL   bool
	mode    int
	accept  []string
	v       uint32 // checksum of the input line: picks among equivalent request values
}

// a source that fails before yielding a byte
type c06FailReader struct{}

func (c06FailReader) Read([]byte) (int, error) { return 0, io.ErrUnexpectedEOF }

// c06Stream: the body stream of modes 2 (holds data) and 3 (holds nothing)
func (q c06Req) body() io.ReadCloser {
	if q.mode == 2 {
		data := []byte(c06Body)
		if q.cl <= 0 {
			switch q.v >> 3 & 3 {
			case 2:
				data = data[:1]
			case 3:
				data = bytes.Repeat([]byte(c06Body+" "), 1200) // beyond bufio's 4096
			}
		}
		var rd io.Reader = bytes.NewReader(data)
		switch q.v >> 1 & 3 {
		case 1:
			rd = iotest.OneByteReader(rd)
		case 2:
			rd = iotest.DataErrReader(rd)
		case 3:
			rd = io.MultiReader(bytes.NewReader(nil), strings.NewReader(""), rd)
		}
		return io.NopCloser(rd)
	}
	switch q.v >> 1 & 3 {
	case 1:
		return io.NopCloser(c06FailReader{})
	case 2:
		return io.NopCloser(iotest.DataErrReader(strings.NewReader("")))
	case 3:
		return io.NopCloser(new(bytes.Buffer))
	}
	return io.NopCloser(bytes.NewReader(nil))
}

// wire: the same request as net/http parses it from a connection, or nil when the input is not
// something a peer can send (nil Body, a length that contradicts the header, header lines the parser
// would alter) - found out by parsing and comparing, never assumed
func (q c06Req) wire() *http.Request {
	if q.v>>6&1 == 0 || q.mode == 0 {
		return nil
	}
	spell := func(name string) string {
		switch q.v >> 13 & 3 {
		case 1:
			return strings.ToLower(name)
		case 2:
			return strings.ToUpper(name)
		}
		return name
	}
	var b bytes.Buffer
	fmt.Fprintf(&b, "%s /x HTTP/1.1\r\nHost: localhost\r\n", q.method)
	for _, l := range q.ctLines {
		fmt.Fprintf(&b, "%s: %s\r\n", spell("Content-Type"), l)
	}
	for _, l := range q.accept {
		fmt.Fprintf(&b, "%s: %s\r\n", spell("Accept"), l)
	}
	var payload []byte
	if q.mode == 2 {
		payload, _ = io.ReadAll(q.body())
	}
	switch {
	case q.hasCL:
		fmt.Fprintf(&b, "%s: %s\r\n\r\n", spell("Content-Length"), q.clHdr)
		b.Write(payload)
	case q.cl < 0:
		fmt.Fprintf(&b, "%s: chunked\r\n\r\n", spell("Transfer-Encoding"))
		for len(payload) > 0 {
			n := 3
			if len(payload) > 100 {
				n = 2048
			}
			if n > len(payload) {
				n = len(payload)
			}
			fmt.Fprintf(&b, "%x\r\n%s\r\n", n, payload[:n])
			payload = payload[n:]
		}
		b.WriteString("0\r\n\r\n")
	default:
		b.WriteString("\r\n")
		if len(payload) > 0 {
			return nil // data without framing is no request
		}
	}
	r, err := http.ReadRequest(bufio.NewReader(&b))
	if err != nil {
		return nil
	}
	var wantCL []string
	if q.hasCL {
		wantCL = []string{q.clHdr}
	}
	same := func(got, want []string) bool {
		return len(got) == len(want) && (len(got) == 0 || reflect.DeepEqual(got, want))
	}
	if r.ContentLength != q.cl || !same(r.Header["Content-Type"], q.ctLines) || !same(r.Header["Content-Length"], wantCL) ||
		!same(r.Header["Accept"], q.accept) || (r.Body == http.NoBody) != (q.mode == 1) || r.Method != q.method {
		return nil
	}
	return r
}

func (q c06Req) mk() *http.Request {
	if r := q.wire(); r != nil {
		return r
	}
	r := &http.Request{
		Method:        q.method,
		URL:           &url.URL{Path: "/x"},
		Proto:         "HTTP/1.1",
		ProtoMajor:    1,
		ProtoMinor:    1,
		Header:        http.Header{},
		Host:          "localhost",
		RequestURI:    "/x",
		ContentLength: q.cl,
	}
	if len(q.ctLines) > 0 {
		r.Header["Content-Type"] = append([]string(nil), q.ctLines...)
	}
	if q.hasCL {
		r.Header["Content-Length"] = []string{q.clHdr}
	}
	if q.cl < 0 && q.mode >= 2 && q.v&1 == 1 {
		r.TransferEncoding = []string{"chunked"}
	}
	if len(q.accept) > 0 {
		r.Header["Accept"] = append([]string(nil), q.accept...)
	}
	switch q.mode {
	case 0:
	case 1:
		r.Body = http.NoBody
	default:
		r.Body = q.body()
	}
	return r
}

func c06Codes(err error) string {
	if err == nil {
		return "."
	}
	var out []string
	var walk func(e error)
	walk = func(e error) {
		switch v := e.(type) {
		case *apierrors.CompositeError:
			for _, x := range v.Errors {
				walk(x)
			}
		case apierrors.Error:
			out = append(out, strconv.Itoa(int(v.Code())))
		default:
			out = append(out, "599")
		}
	}
	walk(err)
	if len(out) == 0 {
		return "."
	}
	return strings.Join(out, ",")
}

func c06Sel(c runtime.Consumer) string {
	if c == nil {
		return "-1"
	}
	if k, ok := c.(*c06Consumer); ok {
		return strconv.Itoa(k.id)
	}
	return "-2"
}

func c06Ran(ran []int) string {
	switch len(ran) {
	case 0:
		return "-1"
	case 1:
		return strconv.Itoa(ran[0])
	}
	return "-3" // more than one consumer call: never expected
}

// the binder a generated server passes: it decodes the body with route.Consumer when there is one
type c06Binder struct{}

func (c06Binder) BindRequest(r *http.Request, route *middleware.MatchedRoute) error {
	if runtime.HasBody(r) {
		var v interface{}
		return route.Consumer.Consume(r.Body, &v)
	}
	return nil
}

func c06ParseObs(s string) string {
	mt, _, err := mime.ParseMediaType(s)
	if err != nil {
		return "E"
	}
	return proto.B(mt)
}

// the binder handed to BindValidRequest in stream H
type c06HBinder struct {
	calls int
	err   error
}

func (b *c06HBinder) BindRequest(r *http.Request, route *middleware.MatchedRoute) error {
	b.calls++
	if b.err != nil {
		return b.err
	}
	if runtime.HasBody(r) && route.Consumer != nil {
		var v interface{}
		return route.Consumer.Consume(r.Body, &v)
	}
	return nil
}

func c06ExecH(in []string) []string {
	if len(in) != 13 {
		return []string{"INVALID"}
	}
	mix := c05Mix(in)
	q := c06Req{method: proto.UnB(in[4]), ctLines: proto.UnL(in[5]), cl: int64(proto.UnN(in[6])), mode: proto.UnN(in[8]), accept: proto.UnL(in[11]), v: mix}
	if in[7] != "-" {
		q.hasCL, q.clHdr = true, proto.UnB(in[7])
	}
	known := false
	for _, m := range c06Methods {
		known = known || strings.ToUpper(q.method) == m
	}
	kind := proto.UnN(in[12])
	if !known || q.mode < 0 || q.mode > 3 || kind < 0 || kind > 3 {
		return []string{"INVALID"}
	}
	dprod := proto.UnB(in[10])
	build := func() *c06API { return c06GetH(in[1], in[2], in[3], in[9], in[10]) }

	hasBody := runtime.HasBody(q.mk())
	eff := ""
	if len(q.ctLines) > 0 {
		eff = q.ctLines[0]
	}
	if eff == "" {
		eff = runtime.DefaultMime
	}
	p1 := c06ParseObs(eff)
	p2 := "E"
	if p1 != "E" {
		p2 = c06ParseObs(proto.UnB(p1))
	}

	// U: the reflective entry point
	var rp, uCodes, uSel, uRan string
	runU := func() {
		a := build()
		route, rq, ok := a.ctx.RouteInfo(q.mk())
		if !ok {
			panic("C06: no route for " + q.method)
		}
		rp = proto.L(route.Produces)
		rq = c06AskCT(a, rq, mix)
		_, rq2, uerr := a.ctx.BindAndValidate(rq, route)
		if mix>>16&3 == 0 && rq2 != nil {
			// asked again with the request it handed back: the remembered verdict, no second decoding
			_, _, uerr = a.ctx.BindAndValidate(rq2, route)
		}
		uCodes, uSel, uRan = c06Codes(uerr), c06Sel(route.Consumer), c06Ran(a.ran)
	}

	// T: the entry point of generated servers
	var tCodes, tSel, tRan string
	calls, asIs := 0, false
	runT := func() {
		a := build()
		route, rq, _ := a.ctx.RouteInfo(q.mk())
		var terr error
		if kind == 0 {
			terr = a.ctx.BindValidRequest(rq, route, nil)
		} else {
			b := &c06HBinder{}
			switch kind {
			case 2:
				b.err = apierrors.New(422, "binder says no")
			case 3:
				b.err = io.ErrUnexpectedEOF
			}
			terr = a.ctx.BindValidRequest(rq, route, b)
			calls = b.calls
			asIs = b.err != nil && terr == b.err
		}
		tCodes, tSel, tRan = c06Codes(terr), c06Sel(route.Consumer), c06Ran(a.ran)
	}
	// in either order: the entry points share the Context and nothing else
	if mix>>8&1 == 1 {
		runT()
		runU()
	} else {
		runU()
		runT()
	}

	// S: the complete handler
	sSt, sRan, sH := "0", "-1", "0"
	if dprod != "" {
		a := build()
		rec := httptest.NewRecorder()
		a.serveBy(mix>>9).ServeHTTP(rec, q.mk())
		sSt, sRan, sH = strconv.Itoa(rec.Code), c06Ran(a.ran), strconv.Itoa(a.handled)
	}

	return []string{proto.Bool(hasBody), proto.B(eff), p1, p2, rp,
		uCodes, uSel, uRan, tCodes, tSel, strconv.Itoa(calls), tRan, proto.Bool(asIs),
		sSt, sRan, sH}
}

// c06AskCT: for a quarter of the cases Context.ContentType is asked before BindAndValidate, as a
// middleware in front of the binding may do; what it remembers in the request's context is then
// what validation.contentType reads. An unparsable header is remembered by nobody.
func c06AskCT(a *c06API, rq *http.Request, mix uint32) *http.Request {
	if mix>>14&3 != 0 {
		return rq
	}
	if _, _, r2, err := a.ctx.ContentType(rq); err == nil && r2 != nil {
		return r2
	}
	return rq
}

func c06Exec(in []string) []string {
	if in[0] == "H" {
		return c06ExecH(in)
	}
	if in[0] == "R" {
		return c06ExecR(in) // route.Consumes of operations with and without payload parameters (c06r.go)
	}
	if in[0] != "G" {
		panic("C06: unknown stream " + in[0])
	}
	mix := c05Mix(in)
	q := c06Req{method: proto.UnB(in[4]), ctLines: proto.UnL(in[5]), cl: int64(proto.UnN(in[6])), mode: proto.UnN(in[8]), v: mix}
	if in[7] != "-" {
		q.hasCL, q.clHdr = true, proto.UnB(in[7])
	}
	known := false
	for _, m := range c06Methods {
		known = known || strings.ToUpper(q.method) == m
	}
	if !known || q.mode < 0 || q.mode > 3 {
		// not an input of this stream (the shrinker can produce such lines): nothing to observe
		return []string{"INVALID"}
	}
	build := func() *c06API { return c06Get(in[1], in[2], in[3]) }

	hasBody := runtime.HasBody(q.mk())
	eff := ""
	if len(q.ctLines) > 0 {
		eff = q.ctLines[0]
	}
	if eff == "" {
		eff = runtime.DefaultMime
	}
	p1 := c06ParseObs(eff)
	p2 := "E"
	if p1 != "E" {
		p2 = c06ParseObs(proto.UnB(p1))
	}

	// U: the reflective entry point
	var uCodes, uSel, uRan string
	runU := func() {
		a := build()
		route, rq, ok := a.ctx.RouteInfo(q.mk())
		if !ok {
			panic("C06: no route for " + q.method)
		}
		rq = c06AskCT(a, rq, mix)
		_, rq2, uerr := a.ctx.BindAndValidate(rq, route)
		if mix>>16&3 == 0 && rq2 != nil {
			// asked again with the request it handed back: the remembered verdict, no second decoding
			_, _, uerr = a.ctx.BindAndValidate(rq2, route)
		}
		uCodes, uSel, uRan = c06Codes(uerr), c06Sel(route.Consumer), c06Ran(a.ran)
	}

	// T: the entry point of generated servers
	var tCodes, tSel, tRan string
	runT := func() {
		a := build()
		route, rq, _ := a.ctx.RouteInfo(q.mk())
		terr := a.ctx.BindValidRequest(rq, route, c06Binder{})
		tCodes, tSel, tRan = c06Codes(terr), c06Sel(route.Consumer), c06Ran(a.ran)
	}
	// in either order: the entry points share the Context and nothing else
	if mix>>8&1 == 1 {
		runT()
		runU()
	} else {
		runU()
		runT()
	}

	// S: the complete handler
	a := build()
	rec := httptest.NewRecorder()
	a.serveBy(mix>>9).ServeHTTP(rec, q.mk())

	return []string{proto.Bool(hasBody), proto.B(eff), p1, p2,
		uCodes, uSel, uRan, tCodes, tSel, tRan,
		strconv.Itoa(rec.Code), c06Ran(a.ran), strconv.Itoa(a.handled)}
}

func c06Case(cons []string, dflt string, reg []string, method string, ct []string, cl int, clHdr string, mode int) []string {
	h := "-"
	if clHdr != "" {
		h = proto.B(clHdr)
	}
	return []string{"G", proto.L(cons), proto.B(dflt), proto.L(reg), proto.B(method), proto.L(ct), strconv.Itoa(cl), h, strconv.Itoa(mode)}
}

const c06JSON = "application/json"

var c06Corpus = [][]string{
	// F06a witness (fixed): no consumes, no API default, a JSON body: used to be answered 500 ("no
	// consumer registered") by both entry points where the property demands 415
	c06Case(nil, "", []string{c06JSON}, "POST", []string{c06JSON}, 7, "7", 2),
	c06Case(nil, "", nil, "DELETE", nil, -1, "", 2),
	// 415 and no consumer for the type: the reflective gate reports [415, 500], the typed one [415]
	c06Case([]string{"text/plain"}, "", nil, "POST", []string{c06JSON}, 7, "7", 2),
	// entry with parameters admits nothing, yet its consumer is left in route.Consumer (not run)
	c06Case([]string{"text/plain; charset=utf-8"}, "", []string{"text/plain"}, "POST", []string{"text/plain; charset=utf-8"}, 7, "7", 2),
	// admitted through a wildcard only: no consumer at the route -> 500
	c06Case([]string{"text/*"}, "", []string{"text/plain", "text/*"}, "POST", []string{"text/plain"}, 7, "7", 2),
	c06Case([]string{"*/*", "text/plain; charset=utf-8"}, "", []string{"text/plain"}, "PUT", []string{"TEXT/Plain ;charset=\"x\""}, -1, "", 2),
	// a literal wildcard as the request's type
	c06Case([]string{"text/*"}, "", []string{"text/*"}, "POST", []string{"text/*"}, 7, "7", 2),
	// duplicate parameter: unparsable
	c06Case([]string{c06JSON}, "", []string{c06JSON}, "POST", []string{c06JSON + "; charset=a; charset=b"}, 7, "7", 2),
	// Content-Length: 0 wins over a readable stream
	c06Case([]string{c06JSON}, "", []string{c06JSON}, "GET", []string{"text/plain"}, 0, "0", 2),

	// ---- stream H: the whole functions
	// F06b witness (fixed): an admitted JSON body and an Accept header that admits nothing the operation
	// produces: BindValidRequest used to hand the request's own media type to the negotiation as the
	// default offer, let the request through and run the binder, where BindAndValidate answers 406
	c06CaseH(c06Case([]string{c06JSON}, "", []string{c06JSON}, "POST", []string{c06JSON}, 7, "7", 2), []string{c06JSON}, c06JSON, []string{"image/png"}, 1),
	c06CaseH(c06Case([]string{c06JSON}, "", []string{c06JSON}, "POST", []string{c06JSON}, 7, "7", 2), []string{"text/plain"}, c06JSON, []string{"image/png, text/plain;q=0, application/json;q=0.000"}, 2),
	// the same header without a body: 406 by both entry points (already before the repair)
	c06CaseH(c06Case([]string{c06JSON}, "", []string{c06JSON}, "GET", nil, 0, "", 0), []string{c06JSON}, c06JSON, []string{"image/png"}, 1),
	// an operation that declares no type (API without default producer) is not subjected to the check
	c06CaseH(c06Case([]string{c06JSON}, "", []string{c06JSON}, "DELETE", nil, 0, "", 0), nil, "", []string{"image/png"}, 1),
	c06CaseH(c06Case([]string{c06JSON}, "", []string{c06JSON}, "POST", []string{c06JSON}, 7, "7", 2), nil, "", []string{"image/png;q=0"}, 3),
	// the binder's error comes back as it is; a nil binder; a refused body never reaches the binder
	c06CaseH(c06Case([]string{c06JSON}, "", []string{c06JSON}, "POST", []string{c06JSON}, 7, "7", 2), []string{c06JSON}, c06JSON, []string{"*/*;q=0.1"}, 2),
	c06CaseH(c06Case([]string{c06JSON}, "", []string{c06JSON}, "POST", []string{c06JSON}, 7, "7", 2), []string{c06JSON}, c06JSON, nil, 3),
	c06CaseH(c06Case([]string{c06JSON}, "", []string{c06JSON}, "POST", []string{c06JSON}, 7, "7", 2), []string{c06JSON}, c06JSON, []string{"application/*"}, 0),
	c06CaseH(c06Case([]string{c06JSON}, "", []string{c06JSON}, "POST", []string{"text/html"}, 7, "7", 2), []string{c06JSON}, c06JSON, []string{"image/png"}, 2),
	c06CaseH(c06Case([]string{c06JSON}, "", []string{c06JSON}, "POST", []string{"/json"}, 7, "7", 2), []string{c06JSON}, c06JSON, nil, 3),
	// several header lines; the default type is the only one admitted; an offer with parameters
	c06CaseH(c06Case(nil, c06JSON, []string{c06JSON}, "PUT", nil, -1, "", 2), []string{"text/plain; charset=utf-8", "application/xml"}, c06JSON, []string{"image/png", "application/json;q=0.2"}, 1),
	c06CaseH(c06Case(nil, c06JSON, []string{c06JSON}, "PUT", nil, -1, "", 2), []string{"text/plain; charset=utf-8"}, "", []string{"text/plain"}, 1),
	c06CaseH(c06Case(nil, c06JSON, []string{c06JSON}, "PUT", nil, -1, "", 2), []string{"text/plain; charset=utf-8"}, "", []string{"text/plain; charset=utf-8;q=0"}, 1),
}

func c06CaseH(g []string, oprod []string, dprod string, accept []string, binder int) []string {
	out := append([]string{"H"}, g[1:]...)
	return append(out, proto.L(oprod), proto.B(dprod), proto.L(accept), strconv.Itoa(binder))
}

var c06Concrete = []string{c06JSON, "text/plain", "text/html", "application/xml", "application/octet-stream", "a/b", "foo", "application/vnd.x+json"}
var c06Wild = []string{"*/*", "text/*", "application/*", "a/*", "foo/*"}
var c06WithParams = []string{c06JSON + "; charset=utf-8", "text/plain;q=1", "text/*; x=1", c06JSON + ";", "a/b ;x=y"}
var c06Odd = []string{"*", "/", "text/", "*/json", "text//plain", "text/plain/x"}

func c06Entry(r *proto.Rng) string {
	switch k := r.Intn(20); {
	case k < 11:
		return r.Pick(c06Concrete...)
	case k < 15:
		return r.Pick(c06Wild...)
	case k < 18:
		return r.Pick(c06WithParams...)
	case k < 19:
		return r.Pick(c06Odd...)
	default:
		return c06FlipCase(r, r.Pick(c06Concrete...))
	}
}

func c06FlipCase(r *proto.Rng, s string) string {
	b := []byte(s)
	for i := range b {
		if b[i] >= 'a' && b[i] <= 'z' && r.Chance(1, 3) {
			b[i] -= 32
		}
	}
	return string(b)
}

func c06Norm(s string) string { return strings.SplitN(s, ";", 2)[0] }

// a concrete type an entry would admit
func c06Instance(r *proto.Rng, e string) string {
	e = c06Norm(e)
	if e == "*/*" || e == "*" {
		return r.Pick(c06Concrete...)
	}
	if strings.HasSuffix(e, "/*") {
		if r.Chance(1, 6) {
			return e
		}
		major := strings.TrimSuffix(e, "/*")
		for _, c := range c06Concrete {
			if strings.HasPrefix(c, major+"/") && r.Chance(2, 3) {
				return c
			}
		}
		return major + "/" + r.Pick("x", "plain", "json", "b")
	}
	return e
}

func c06Header(r *proto.Rng, cons []string, dflt string) []string {
	switch k := r.Intn(40); {
	case k < 4:
		return nil
	case k == 4:
		return []string{""}
	case k == 5:
		return []string{"", c06JSON}
	case k < 11: // malformed or odd
		return []string{r.Pick("/json", "text/", "text/plain; x", "text/plain; charset", c06JSON+"; charset=a; charset=b",
			"text/plain;;", "a/b/c", "text plain", "text/plain,", "(", "application(", c06JSON+";char*", " ", ";", "text/plain; charset=\"utf-8",
			"text/plain; =x", "text/plain; a=1; A=2", "text/plain; a*0=x; a*1=y", "*", "text/ plain", "text /plain",
			r.Bytes("a/*;= \t\"x\x00\xff,", r.Intn(10)))}
	}
	var t string
	pool := append(append([]string{}, cons...), dflt)
	switch k := r.Intn(10); {
	case k < 5:
		t = c06Instance(r, pool[r.Intn(len(pool))])
		if t == "" {
			t = r.Pick(c06Concrete...)
		}
	case k < 8:
		t = r.Pick(c06Concrete...)
	case k < 9:
		t = r.Pick(c06Wild...)
	default:
		t = r.Bytes("abt", 1+r.Intn(2)) + "/" + r.Bytes("abx+.-", 1+r.Intn(3))
	}
	if r.Chance(1, 3) {
		t = c06FlipCase(r, t)
	}
	t = r.Pick("", "", "", "", " ", "\t", "  ") + t
	t += r.Pick("", "", "", "; charset=utf-8", ";charset=UTF-8", " ; charset=\"utf-8\"", "; boundary=\"a;b\"", "; a=1; b=2",
		";", "; ", " ", ";\tq=0.5", "; charset=utf-8 ", "; x=\"\\\"\"")
	if r.Chance(1, 20) {
		return []string{t, r.Pick(c06Concrete...)}
	}
	return []string{t}
}

func c06Config(r *proto.Rng) (cons []string, dflt string, reg []string) {
	if r.Chance(1, 7) {
		// a wildcard next to an entry with parameters: the type is admitted through the wildcard only,
		// yet the route holds its consumer (the table is keyed by the entries cut at ';')
		c := r.Pick(c06Concrete[:6]...)
		w := "*/*"
		if r.Chance(1, 2) && strings.Contains(c, "/") {
			w = c[:strings.Index(c, "/")] + "/*"
		}
		cons = []string{w, c + r.Pick("; charset=utf-8", ";q=1", ";")}
		if r.Chance(1, 2) {
			cons[0], cons[1] = cons[1], cons[0]
		}
		reg = []string{c, r.Pick(c06Concrete...)}
		if r.Chance(1, 4) {
			reg = append(reg, w)
		}
		if r.Chance(1, 3) {
			dflt = r.Pick(c06Concrete[:5]...)
			reg = append(reg, dflt)
		}
		return
	}
	if !r.Chance(1, 8) {
		n := 1 + r.Intn(3)
		for i := 0; i < n; i++ {
			cons = append(cons, c06Entry(r))
		}
	}
	switch k := r.Intn(10); {
	case k < 5:
	case k < 9:
		dflt = r.Pick(c06Concrete[:5]...)
	default:
		dflt = r.Pick("Application/Json", c06JSON+"; charset=utf-8", "*/*", "text/*")
	}
	for _, e := range append(append([]string{}, cons...), dflt) {
		if e != "" && r.Chance(3, 4) {
			reg = append(reg, c06Norm(e))
		}
		if e != "" && r.Chance(1, 3) {
			reg = append(reg, c06Instance(r, e))
		}
	}
	for k := r.Intn(3); k > 0; k-- {
		reg = append(reg, r.Pick(c06Concrete...))
	}
	if r.Chance(1, 6) && len(reg) > 0 {
		reg = append(reg, c06FlipCase(r, reg[r.Intn(len(reg))]))
	}
	for i := len(reg) - 1; i > 0; i-- { // shuffle: consumer ids carry no meaning
		j := r.Intn(i + 1)
		reg[i], reg[j] = reg[j], reg[i]
	}
	if len(reg) > 6 {
		reg = reg[:6]
	}
	return
}

func c06BodyShape(r *proto.Rng) (cl int, clHdr string, mode int) {
	switch k := r.Intn(100); {
	case k < 35:
		return 7, "7", 2
	case k < 55:
		return -1, "", 2
	case k < 60:
		return 0, "", 2
	case k < 68:
		return 0, "0", 1
	case k < 80:
		return 0, "", c06PickInt(r, 0, 1, 3)
	case k < 84:
		return 0, "0", 2
	case k < 88:
		return 7, "", c06PickInt(r, 0, 2, 3)
	case k < 91:
		return -1, "abc", 2
	case k < 94:
		return -1, "", c06PickInt(r, 0, 1, 3)
	case k < 97:
		return 5, "0", 3
	default:
		return r.Intn(3) - 1, r.Pick("", "0", "7", " "), r.Intn(4)
	}
}

func c06Method(r *proto.Rng) string {
	m := c06Methods[r.Intn(len(c06Methods))]
	if r.Chance(1, 10) {
		m = strings.ToLower(m)
	} else if r.Chance(1, 15) {
		m = c06FlipCase(r, strings.ToLower(m)) // Post, pUT, ...
	}
	return m
}

var c06U12 = []string{c06JSON, "text/plain", "application/xml", "a/b", "foo", "text/*", "application/*", "*/*",
	c06JSON + "; charset=utf-8", "text/*;q=1", "application/octet-stream", "a/*"}

// c06Exhaustive: every consumes list of at most two entries over the 12-entry universe x default
// x registry x header x body signal x method.
func c06Exhaustive(emit func(in ...string)) {
	var lists [][]string
	lists = append(lists, nil)
	for i := range c06U12 {
		lists = append(lists, []string{c06U12[i]})
		for j := i + 1; j < len(c06U12); j++ {
			lists = append(lists, []string{c06U12[i], c06U12[j]})
		}
	}
	var all []string
	for _, e := range c06U12 {
		all = append(all, c06Norm(e))
	}
	regs := [][]string{nil, all, {"text/plain"}}
	headers := [][]string{nil, {"Text/Plain; charset=utf-8"}, {"/json"}, {"text/x"}}
	for _, e := range c06U12 {
		headers = append(headers, []string{e})
	}
	bodies := [][3]string{{"7", "7", "2"}, {"-1", "", "2"}, {"0", "", "1"}}
	for _, l := range lists {
		for _, d := range []string{"", c06JSON, "text/plain"} {
			for _, rg := range regs {
				for _, h := range headers {
					for _, b := range bodies {
						for _, m := range []string{"POST", "GET"} {
							cl, _ := strconv.Atoi(b[0])
							mode, _ := strconv.Atoi(b[2])
							emit(c06Case(l, d, rg, m, h, cl, b[1], mode)...)
						}
					}
				}
			}
		}
	}
}

var c06ProdPool = []string{c06JSON, "text/plain", "application/xml", "text/html", "image/png", "a/b"}

// the operation's produces list and the API's default producer (lower case, parameter-free: Respond
// looks the default producer up under the name as spelled)
func c06Produces(r *proto.Rng) (oprod []string, dprod string) {
	switch k := r.Intn(10); {
	case k < 2:
	case k < 7:
		dprod = c06JSON
	default:
		dprod = r.Pick("text/plain", "application/xml", "a/b")
	}
	switch k := r.Intn(20); {
	case k < 5:
	case k < 12:
		oprod = []string{r.Pick(c06ProdPool...)}
	case k < 17:
		n := 2 + r.Intn(2)
		for i := 0; i < n; i++ {
			oprod = append(oprod, r.Pick(c06ProdPool...))
		}
	case k < 19:
		oprod = []string{r.Pick(c06ProdPool[:3]...) + r.Pick("; charset=utf-8", ";q=1", ";"), r.Pick(c06ProdPool...)}
	default:
		oprod = []string{r.Pick("Application/JSON", "text/*", "*/*", "foo", "TEXT/plain")}
	}
	if dprod != "" && r.Chance(1, 4) { // the default spelled in the list: first, or not
		oprod = append(oprod, dprod)
		if r.Chance(1, 2) {
			oprod[0], oprod[len(oprod)-1] = oprod[len(oprod)-1], oprod[0]
		}
	}
	return
}

func c06Wildcard(t string) string {
	if i := strings.Index(t, "/"); i > 0 {
		return t[:i] + "/*"
	}
	return "*/*"
}

// Accept header lines aimed at the declared types: absent / matching / non-matching / wildcard / q=0 /
// several lines / C07's grammar / noise
func c06Accept(r *proto.Rng, declared []string) []string {
	pick := func() string {
		if len(declared) > 0 && r.Chance(4, 5) {
			return c06Norm(declared[r.Intn(len(declared))])
		}
		return r.Pick(c06ProdPool...)
	}
	other := func() string {
		for k := 0; k < 8; k++ {
			c := r.Pick("image/png", "application/vnd.cia.v1+json", "text/csv", "a/c", "application/pdf", "image/*", "video/*", "foo")
			hit := false
			for _, d := range declared {
				hit = hit || c06Norm(d) == c || c06Wildcard(c06Norm(d)) == c
			}
			if !hit {
				return c
			}
		}
		return "x/y"
	}
	q := func() string {
		return r.Pick("", "", "", ";q=1", ";q=0.5", "; q=0.001", ";q=1.0", " ;q=0.9;ext=1", ";charset=utf-8", ";level=1;q=0.3")
	}
	q0 := func() string { return r.Pick(";q=0", ";q=0.0", "; q=0.000", ";q=.0", ";level=1;q=0") }
	switch k := r.Intn(40); {
	case k < 4:
		return nil
	case k < 14:
		return []string{pick() + q()}
	case k < 18:
		return []string{other() + q()}
	case k < 21:
		return []string{"*/*" + q()}
	case k < 24:
		return []string{c06Wildcard(pick()) + q()}
	case k < 26:
		return []string{c06Wildcard(other()) + q()}
	case k < 29:
		return []string{pick() + q0()}
	case k < 31:
		return []string{r.Pick("*/*", c06Wildcard(pick())) + q0() + ", " + other()}
	case k < 33:
		return []string{other() + q() + ", " + pick() + q0()}
	case k < 35:
		return []string{other() + q() + ", " + other() + ";q=0.2, " + pick() + q()}
	case k < 37: // several lines
		return []string{other() + q(), r.Pick(pick()+q(), other()+q(), pick()+q0(), "")}
	case k < 39:
		return c07Header(r, false)
	default:
		return []string{r.Pick("", " ", ",", ";q=1", "/", "*", "text", c06FlipCase(r, pick()), pick()+";q=x", pick()+" q=0", r.Bytes("a/*;q=0, \t\"", r.Intn(10)))}
	}
}

func c06BinderKind(r *proto.Rng) int {
	switch k := r.Intn(20); {
	case k < 3:
		return 0
	case k < 12:
		return 1
	case k < 16:
		return 2
	default:
		return 3
	}
}

// c06ExhaustiveH: produces lists of at most two entries over a 4-entry universe x default producer
// x 16 Accept headers x 4 binders x 4 requests (no body / admitted body / body of a refused type /
// unparsable Content-Type).
func c06ExhaustiveH(emit func(in ...string)) {
	u := []string{c06JSON, "text/plain", "text/plain; charset=utf-8", "application/xml"}
	lists := [][]string{nil}
	for i := range u {
		lists = append(lists, []string{u[i]})
		for j := i + 1; j < len(u); j++ {
			lists = append(lists, []string{u[i], u[j]})
		}
	}
	accepts := [][]string{nil, {""}, {"*/*"}, {"*/*;q=0"}, {"image/png"}, {"image/*"}, {c06JSON}, {c06JSON + ";q=0"}, {"text/plain"},
		{"text/*;q=0.1"}, {"application/*"}, {"application/xml;q=0, image/png"}, {"image/png", "text/plain;q=0.5"},
		{"text/plain; charset=utf-8"}, {"image/png;q=0"}, {"application/json;q=0, */*;q=0.000, text/plain;q=0"}}
	reqs := [][]string{
		c06Case([]string{c06JSON}, "", []string{c06JSON}, "GET", nil, 0, "", 0),
		c06Case([]string{c06JSON}, "", []string{c06JSON}, "POST", []string{c06JSON}, 7, "7", 2),
		c06Case([]string{c06JSON}, "", []string{c06JSON}, "POST", []string{"text/html"}, -1, "", 2),
		c06Case([]string{c06JSON}, "", []string{c06JSON}, "PUT", []string{"/json"}, 7, "7", 2),
	}
	for _, l := range lists {
		for _, d := range []string{"", c06JSON} {
			for _, a := range accepts {
				for b := 0; b < 4; b++ {
					for _, g := range reqs {
						emit(c06CaseH(g, l, d, a, b)...)
					}
				}
			}
		}
	}
}

func c06Gen(r *proto.Rng, n int, tier string, emit func(in ...string)) {
	if tier == "thorough" && n >= 100000 {
		c06Exhaustive(emit)
		c06ExhaustiveH(emit)
	}
	c06GenR(r, n/40, emit)
	var cons, reg, oprod []string
	var dflt, dprod string
	for i := 0; i < n; i++ {
		if i%4 == 0 { // four requests per configuration (building an API is the expensive part)
			cons, dflt, reg = c06Config(r)
			oprod, dprod = c06Produces(r)
		}
		cl, clHdr, mode := c06BodyShape(r)
		hdr := c06Header(r, cons, dflt)
		if i%8 >= 4 && r.Chance(1, 2) {
			// the tail is reached only past the gate: a body of a listed and registered type, if there is one
			var good []string
			for _, e := range append(append([]string{}, cons...), dflt) {
				for _, g := range reg {
					if e != "" && e == g && !strings.ContainsAny(e, "*;") && strings.ToLower(e) == e {
						good = append(good, e)
					}
				}
			}
			if len(good) > 0 {
				hdr = []string{good[r.Intn(len(good))] + r.Pick("", "", "; charset=utf-8")}
				cl, clHdr, mode = 7, "7", 2
				if r.Chance(1, 3) {
					cl, clHdr = -1, ""
				}
			}
		}
		g := c06Case(cons, dflt, reg, c06Method(r), hdr, cl, clHdr, mode)
		if i%8 < 4 { // alternate configurations: the gate alone / the whole functions
			emit(g...)
			continue
		}
		declared := append(append([]string{}, oprod...), dprod)
		if dprod == "" {
			declared = oprod
		}
		emit(c06CaseH(g, oprod, dprod, c06Accept(r, declared), c06BinderKind(r))...)
	}
}

func c06PickInt(r *proto.Rng, xs ...int) int { return xs[r.Intn(len(xs))] }
