package props

import (
	"encoding/json"
	"net/http/httptest"
	"strings"

	"github.com/go-openapi/loads"
	"github.com/go-openapi/runtime"
	"github.com/go-openapi/runtime/middleware"
	"github.com/go-openapi/runtime/middleware/untyped"

	"verif/harness/internal/proto"
)

// C06, stream R — what the router files as the media types an operation consumes ("its consumes list
// plus the API's default type, which is always added"), whatever parameters the operation declares:
//
//	R <operation consumes> <API default consumes> <param kind n|b|f|q> => <route.Consumes>
//
// param kind: the operation declares no parameter / a body parameter / a formData parameter / a query one;
// widened: h a header parameter, F a formData parameter of type file, m a body and a query parameter.
// Not carried by the line (irrelevant to what is filed, chosen by a checksum of it): the operation's
// method (any of the seven a path item has), and whether the list is declared on the operation,
// document-wide, or on the operation beside a different document-wide list (c06Place).
func c06ExecR(in []string) []string {
	if len(in) != 4 {
		return []string{"INVALID"}
	}
	opConsumes, dflt := proto.UnL(in[1]), proto.UnB(in[2])
	op := map[string]interface{}{"operationId": "opR", "responses": map[string]interface{}{"200": map[string]interface{}{"description": "ok"}}}
	body := map[string]interface{}{"name": "body", "in": "body", "schema": map[string]interface{}{}}
	query := map[string]interface{}{"name": "q", "in": "query", "type": "string"}
	switch in[3] {
	case "n":
	case "b":
		op["parameters"] = []interface{}{body}
	case "f":
		op["parameters"] = []interface{}{map[string]interface{}{"name": "f", "in": "formData", "type": "string"}}
	case "q":
		op["parameters"] = []interface{}{query}
	case "h":
		op["parameters"] = []interface{}{map[string]interface{}{"name": "X-H", "in": "header", "type": "string"}}
	case "F":
		op["parameters"] = []interface{}{map[string]interface{}{"name": "f", "in": "formData", "type": "file"}}
	case "m":
		op["parameters"] = []interface{}{query, body}
	default:
		return []string{"INVALID"}
	}
	mix := c05Mix(in)
	method := c06Methods[mix%uint32(len(c06Methods))]
	doc := map[string]interface{}{"swagger": "2.0", "info": map[string]interface{}{"title": "c06r", "version": "1"}}
	c06Place(doc, op, "consumes", opConsumes, mix>>4)
	doc["paths"] = map[string]interface{}{"/op": map[string]interface{}{strings.ToLower(method): op}}
	raw, err := json.Marshal(doc)
	if err != nil {
		return []string{"INVALID"}
	}
	d, err := loads.Analyzed(json.RawMessage(raw), "")
	if err != nil {
		return []string{"INVALID"}
	}
	api := untyped.NewAPI(d).WithoutJSONDefaults()
	api.DefaultConsumes = dflt
	api.RegisterOperation(method, "/op", runtime.OperationHandlerFunc(func(interface{}) (interface{}, error) { return nil, nil }))
	ctx := middleware.NewContext(d, api, nil)
	_ = ctx.APIHandler(nil) // builds the router
	route, _, ok := ctx.RouteInfo(httptest.NewRequest(method, "/op", nil))
	if !ok {
		return []string{"NOROUTE"}
	}
	return []string{proto.L(route.Consumes)}
}

func c06GenR(r *proto.Rng, n int, emit func(in ...string)) {
	types := []string{"application/json", "text/plain", "application/xml", "application/x-www-form-urlencoded", "application/json; charset=utf-8", "*/*",
		"multipart/form-data", "text/*", "application/octet-stream", "text/plain;q=1"}
	for i := 0; i < n; i++ {
		var cons []string
		for j, k := 0, r.Intn(4); j < k; j++ {
			cons = append(cons, types[r.Intn(len(types))])
		}
		// the default: mostly a type of the pool (so that it is in the list now and then), also one spelled
		// with capitals (found in a lower-case list all the same) or carrying a parameter
		dflt := r.Pick("application/json", "application/json", "text/plain", "", "application/xml", "Application/JSON", "text/plain;q=1", "multipart/form-data", "*/*")
		emit("R", proto.L(cons), proto.B(dflt), r.Pick("n", "b", "f", "q", "h", "F", "m"))
	}
}
