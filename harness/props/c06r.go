package props

import (
	"encoding/json"
	"net/http"
	"net/http/httptest"

	"github.com/go-openapi/loads"
	"github.com/go-openapi/runtime"
	"github.com/go-openapi/runtime/middleware"
	"github.com/go-openapi/runtime/middleware/untyped"

	"verif/harness/internal/proto"
)

// C06, stream R — what the router files as the media types an operation consumes ("its consumes list
// plus the API's default type, which is always added"), whatever parameters the operation declares:
//
//	R <operation consumes> <API default consumes> <param kind n|b|f|q> => <route.Consumes>
//
// param kind: the operation declares no parameter / a body parameter / a formData parameter / a query one.
func c06ExecR(in []string) []string {
	if len(in) != 4 {
		return []string{"INVALID"}
	}
	opConsumes, dflt := proto.UnL(in[1]), proto.UnB(in[2])
	op := map[string]interface{}{"operationId": "opR", "responses": map[string]interface{}{"200": map[string]interface{}{"description": "ok"}}}
	switch in[3] {
	case "n":
	case "b":
		op["parameters"] = []interface{}{map[string]interface{}{"name": "body", "in": "body", "schema": map[string]interface{}{}}}
	case "f":
		op["parameters"] = []interface{}{map[string]interface{}{"name": "f", "in": "formData", "type": "string"}}
	case "q":
		op["parameters"] = []interface{}{map[string]interface{}{"name": "q", "in": "query", "type": "string"}}
	default:
		return []string{"INVALID"}
	}
	if len(opConsumes) > 0 {
		op["consumes"] = opConsumes
	}
	doc := map[string]interface{}{"swagger": "2.0", "info": map[string]interface{}{"title": "c06r", "version": "1"},
		"paths": map[string]interface{}{"/op": map[string]interface{}{"post": op}}}
	raw, err := json.Marshal(doc)
	if err != nil {
		return []string{"INVALID"}
	}
	d, err := loads.Analyzed(json.RawMessage(raw), "")
	if err != nil {
		return []string{"INVALID"}
	}
	api := untyped.NewAPI(d).WithoutJSONDefaults()
	api.DefaultConsumes = dflt
	api.RegisterOperation("post", "/op", runtime.OperationHandlerFunc(func(interface{}) (interface{}, error) { return nil, nil }))
	ctx := middleware.NewContext(d, api, nil)
	_ = ctx.APIHandler(nil) // builds the router
	route, _, ok := ctx.RouteInfo(httptest.NewRequest(http.MethodPost, "/op", nil))
	if !ok {
		return []string{"NOROUTE"}
	}
	return []string{proto.L(route.Consumes)}
}

func c06GenR(r *proto.Rng, n int, emit func(in ...string)) {
	types := []string{"application/json", "text/plain", "application/xml", "application/x-www-form-urlencoded", "application/json; charset=utf-8", "*/*"}
	for i := 0; i < n; i++ {
		var cons []string
		for j, k := 0, r.Intn(3); j < k; j++ {
			cons = append(cons, types[r.Intn(len(types))])
		}
		emit("R", proto.L(cons), proto.B(r.Pick("application/json", "application/json", "text/plain", "")), r.Pick("n", "b", "f", "q"))
	}
}
