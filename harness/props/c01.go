package props

import (
	"bufio"
	"encoding/json"
	"net/http"
	"net/http/httptest"
	"sort"
	"strings"

	"github.com/go-openapi/loads"
	"github.com/go-openapi/runtime"
	"github.com/go-openapi/runtime/middleware"
	"github.com/go-openapi/runtime/middleware/untyped"

	"verif/harness/internal/proto"
)

// C01 — spec-driven dispatch. Stream:
//
//	D <basePath> <methods> <templates> <request method> <request target path>
//	  => R <op index> <param names> <param values> | A <allowed methods, sorted> | N | PANIC | INVALID
//
// The API is served by middleware.NewRouter over a Context built from the generated description;
// the request is parsed by net/http from a raw request line.
func init() {
	proto.Register(&proto.Prop{ID: "C01", Gen: c01Gen, Exec: c01Exec, Corpus: [][]string{
		// F01a (fixed with the denco repair): "/pets/:" was routed with the parameter dropped
		{"D", proto.B("/"), proto.L([]string{"get"}), proto.L([]string{"/pets/{id}"}), proto.B("GET"), proto.B("/pets/:")},
		{"D", proto.B("/api"), proto.L([]string{"get", "get"}), proto.L([]string{"/pets/{id}", "/pets/mine"}), proto.B("get"), proto.B("/api/pets/mine")},
		// F01d (fixed): composite segment with a separator of two bytes used to panic
		{"D", proto.B("/"), proto.L([]string{"get"}), proto.L([]string{"/x/{a}--{b}"}), proto.B("GET"), proto.B("/x/foo")},
		// F01f (fixed): a wildcard parameter that is no placeholder of the template used to panic
		{"D", proto.B("/a"), proto.L([]string{"post"}), proto.L([]string{"/{y}--{petId}/*/{k1}"}), proto.B("post"), proto.B("/a/;--1/*/a-b")},
		// F01e (fixed): a template with a trailing slash used to be unroutable
		{"D", proto.B("/"), proto.L([]string{"head"}), proto.L([]string{"/a/"}), proto.B("HEAD"), proto.B("/a/")},
		// F01g (fixed): the composite split ran on the unescaped text, an escaped separator split the value
		{"D", proto.B("/"), proto.L([]string{"get"}), proto.L([]string{"/x/{a}-{b}"}), proto.B("GET"), proto.B("/x/foo%2Dbar-baz")},
		{"D", proto.B("/"), proto.L([]string{"get"}), proto.L([]string{"/files/{name}.{ext}"}), proto.B("GET"), proto.B("/files/a%2Eb.c")},
		// composite segments: prefix text behind a whole-segment placeholder, suffix text, three placeholders
		{"D", proto.B("/"), proto.L([]string{"get"}), proto.L([]string{"/a/{x}/v{major}.{minor}"}), proto.B("GET"), proto.B("/a/q/v1.2")},
		{"D", proto.B("/"), proto.L([]string{"get"}), proto.L([]string{"/pets/{id}.json"}), proto.B("GET"), proto.B("/pets/5.json")},
		{"D", proto.B("/"), proto.L([]string{"put"}), proto.L([]string{"/d/{y}-{m}--{d}.txt"}), proto.B("PUT"), proto.B("/d/2026-09--30.txt")},
		// ambiguous instantiations: adjacent placeholders, a value containing the separator
		{"D", proto.B("/"), proto.L([]string{"get"}), proto.L([]string{"/x/{a}{b}"}), proto.B("GET"), proto.B("/x/foo")},
		{"D", proto.B("/"), proto.L([]string{"get"}), proto.L([]string{"/x/{a}--{b}"}), proto.B("GET"), proto.B("/x/a---b")},
		// the same placeholder name as a whole segment in one template and inside a composite segment of another
		{"D", proto.B("/"), proto.L([]string{"get", "get"}), proto.L([]string{"/files/{id}.json", "/pets/{id}"}), proto.B("GET"), proto.B("/pets/42")},
		{"D", proto.B("/"), proto.L([]string{"get", "get"}), proto.L([]string{"/files/{id}.json", "/pets/{id}"}), proto.B("GET"), proto.B("/pets/rex.json")},
		{"D", proto.B("/"), proto.L([]string{"get", "put", "get"}), proto.L([]string{"/pets/{id}", "/pets/{id}", "/a/{x}/{id}-{b}"}), proto.B("PUT"), proto.B("/pets/a-b")},
		// reading: between a composite segment with a static prefix (p{d}) and a parameter ({t}) the property states no preference
		{"D", proto.B("/"), proto.L([]string{"Post", "Post", "patch"}), proto.L([]string{"/p{d}/{y}", "/{t}/a-b", "/"}), proto.B("post"), proto.B("/p/a-b")},
		// F01h: every placeholder behind static text of its segment: the key /v:major is filed as static text
		{"D", proto.B("/"), proto.L([]string{"get"}), proto.L([]string{"/v{major}.{minor}"}), proto.B("GET"), proto.B("/v1.2")},
		{"D", proto.B("/"), proto.L([]string{"get"}), proto.L([]string{"/v{major}.{minor}"}), proto.B("GET"), proto.B("/v:major")},
		// F01i: the path segment does not fit the composite pattern, the handler runs with empty values
		{"D", proto.B("/"), proto.L([]string{"get"}), proto.L([]string{"/pets/{id}.json"}), proto.B("GET"), proto.B("/pets/5.xml")},
		{"D", proto.B("/"), proto.L([]string{"get", "post"}), proto.L([]string{"/pets/{id}.json", "/pets/{id}"}), proto.B("PUT"), proto.B("/pets/5.xml")},
		// F01c: ':' in the static text of a parameterised template
		{"D", proto.B("/"), proto.L([]string{"get"}), proto.L([]string{"/a:b/{id}"}), proto.B("GET"), proto.B("/aXYZ/5")},
	}})
}

type c01API struct {
	handler http.Handler
	last    *string
}

var c01Cache = map[string]*c01API{}

func c01Build(base string, methods, templates []string) *c01API {
	key := base + "\x00" + strings.Join(methods, "\x01") + "\x00" + strings.Join(templates, "\x01")
	if a, ok := c01Cache[key]; ok {
		return a
	}
	paths := map[string]map[string]interface{}{}
	for i, t := range templates {
		if paths[t] == nil {
			paths[t] = map[string]interface{}{}
		}
		paths[t][strings.ToLower(methods[i])] = map[string]interface{}{
			"operationId": "op" + proto.N(i),
			"responses":   map[string]interface{}{"200": map[string]interface{}{"description": "ok"}},
		}
	}
	doc := map[string]interface{}{
		"swagger": "2.0", "info": map[string]interface{}{"title": "t", "version": "1"},
		"basePath": base, "paths": paths,
	}
	raw, _ := json.Marshal(doc)
	spec, err := loads.Analyzed(json.RawMessage(raw), "")
	if err != nil {
		panic("c01: cannot load generated spec: " + err.Error())
	}
	api := untyped.NewAPI(spec)
	for i, t := range templates {
		api.RegisterOperation(methods[i], t, runtime.OperationHandlerFunc(func(interface{}) (interface{}, error) { return nil, nil }))
	}
	ctx := middleware.NewContext(spec, api, nil)
	last := new(string)
	h := middleware.NewRouter(ctx, http.HandlerFunc(func(w http.ResponseWriter, r *http.Request) {
		route := middleware.MatchedRouteFrom(r)
		names := make([]string, len(route.Params))
		vals := make([]string, len(route.Params))
		seen := map[string]int{}
		for _, p := range route.Params {
			seen[p.Name]++
		}
		for i, p := range route.Params {
			names[i], vals[i] = p.Name, p.Value
			if seen[p.Name] == 1 {
				// a handler usually asks by name: where the name is unique that is the same value
				vals[i] = route.Params.Get(p.Name)
			}
		}
		*last = "R " + strings.TrimPrefix(route.Operation.ID, "op") + " " + proto.L(names) + " " + proto.L(vals)
		w.WriteHeader(http.StatusNoContent)
	}))
	a := &c01API{handler: h, last: last}
	if len(c01Cache) > 2000 {
		c01Cache = map[string]*c01API{}
	}
	c01Cache[key] = a
	return a
}

func c01Exec(in []string) []string {
	base, methods, templates := proto.UnB(in[1]), proto.UnL(in[2]), proto.UnL(in[3])
	method, target := proto.UnB(in[4]), proto.UnB(in[5])
	if len(methods) != len(templates) || len(methods) == 0 {
		return []string{"INVALID"}
	}
	// two operations with the same method+template collapse in the description: not a valid input
	seen := map[string]bool{}
	for i := range methods {
		switch strings.ToLower(methods[i]) {
		case "get", "put", "post", "delete", "options", "head", "patch":
		default:
			// not an operation of a swagger 2.0 path item: the description would silently lose it
			return []string{"INVALID"}
		}
		k := strings.ToLower(methods[i]) + " " + templates[i]
		if seen[k] {
			return []string{"INVALID"}
		}
		seen[k] = true
		if !strings.HasPrefix(templates[i], "/") || !c01BracesPair(templates[i]) {
			// not a path template: no leading slash, or braces that do not pair up into {name} placeholders
			return []string{"INVALID"}
		}
	}
	req, err := http.ReadRequest(bufio.NewReader(strings.NewReader(method + " " + target + " HTTP/1.1\r\nHost: example.test\r\n\r\n")))
	if err != nil || req.URL.EscapedPath() != target {
		// not a target net/http delivers as such (or it carries a query): outside the quantifier
		return []string{"INVALID"}
	}
	a := c01Build(base, methods, templates)
	*a.last = ""
	rec := httptest.NewRecorder()
	a.handler.ServeHTTP(rec, req)
	switch {
	case *a.last != "":
		return strings.Fields(*a.last)
	case rec.Code == http.StatusMethodNotAllowed:
		var allow []string
		for _, m := range strings.Split(rec.Header().Get("Allow"), ",") {
			if m = strings.TrimSpace(m); m != "" {
				allow = append(allow, m)
			}
		}
		sort.Strings(allow)
		return []string{"A", proto.L(allow)}
	case rec.Code == http.StatusNotFound:
		return []string{"N"}
	}
	return []string{"STATUS", proto.N(rec.Code)}
}

var c01Segs = []string{"pets", "store", "a", "b", "ab", "v1", "x.y", "mine", "é", "a-b", "a_b", "~u"}

// c01Composite writes one segment that mixes placeholders with static text:
// [prefix] {n0} sep {n1} [sep {n2}] [suffix]
func c01Composite(r *proto.Rng, name func() string) string {
	var sb strings.Builder
	k := 1 + r.Intn(3)
	if r.Chance(1, 4) {
		sb.WriteString(r.Pick("v", "v", "p_", "id-", "x."))
	}
	for i := 0; i < k; i++ {
		if i > 0 {
			if r.Chance(1, 12) {
				// adjacent placeholders
			} else {
				sb.WriteString(r.Pick("-", "-", ".", ".", "_", ",", "--", "..", "-.", "__", ":", "@"))
			}
		}
		sb.WriteString("{" + name() + "}")
	}
	if sb.Len() > 0 && (k == 1 && !strings.HasPrefix(sb.String(), "{") && r.Chance(1, 2)) {
		return sb.String() // prefix only: v{n}
	}
	if k == 1 || r.Chance(1, 3) {
		sb.WriteString(r.Pick(".json", ".json", ".xml", "-x", "!", ":cancel", ".", "--"))
	}
	return sb.String()
}

// c01Template writes one path template. shared (when not empty) is a placeholder name the templates
// of one description prefer, so that the same name occurs in several templates: as a whole segment
// in one, inside a composite segment ({id}.json, v{id}, {id}-{b}) in another.
func c01Template(r *proto.Rng, odd, comp bool, shared string) string {
	n := 1 + r.Intn(4)
	var sb strings.Builder
	names := []string{"id", "petId", "name", "x", "y", "k1", "k2", "n", "ext", "major", "minor", "a", "b"}
	name := func() string {
		if len(names) == 0 {
			return "z"
		}
		j := r.Intn(len(names))
		if shared != "" && r.Chance(1, 2) {
			for k, nm := range names {
				if nm == shared {
					j = k
				}
			}
		}
		nm := names[j]
		names = append(names[:j:j], names[j+1:]...)
		return nm
	}
	for i := 0; i < n; i++ {
		sb.WriteByte('/')
		switch k := r.Intn(10); {
		case k < 3:
			sb.WriteString("{" + name() + "}")
		case k < 6 && comp:
			sb.WriteString(c01Composite(r, name))
		case k < 4:
			sb.WriteString("{" + name() + "}")
		case k < 5 && odd:
			switch r.Intn(6) {
			case 0:
				sb.WriteString("{" + name() + "}." + r.Pick("json", "xml"))
			case 1:
				sb.WriteString("{" + name() + "}-{" + name() + "}")
			case 2:
				sb.WriteString("{" + name() + "}--{" + name() + "}")
			case 3:
				sb.WriteString(r.Pick("a:b", "v:cancel", "a*b", ":x", "*"))
			case 4:
				sb.WriteString("v{" + name() + "}")
			default:
				sb.WriteString("{" + name() + "}:" + r.Pick("cancel", "undo"))
			}
		default:
			sb.WriteString(r.Pick(c01Segs...))
		}
	}
	if r.Chance(1, 40) {
		sb.WriteByte('/')
	}
	return sb.String()
}

var c01Values = []string{"1", "42", "kitty", "a%2Fb", "50%25", "%zz", ":", "*", "%23", ";", "a=b", "%C3%A9", ".", "..", "", "x.json", "a-b", "a--b", "mine", "a:b", "a+b", "+1", "%2B", "a%20b", "%41", "%7Bx%7D", "a,b", "@", "$", "&", "!", "(x)", "'", "~"}

// values for the placeholders of a composite segment: mostly free of every separator (one
// instantiation), some that contain or escape a separator, some empty
var c01PlainValues = []string{"1", "42", "kitty", "abc", "x", "Z9", "7", "report", "pdf", "0"}
var c01SepValues = []string{"", "", "a-b", "a--b", "a.b", "1.2", "x.json", "-", ".", "..", "--", "a_b", "a,b", "x-", "-x", ".x", "x.",
	"a%2Db", "%2D", "a%2D%2Db", "a%2Eb", "%2E", "%2E%2E", "a%5Fb", "a%2Cb", "%2Djson", "a%2Ejson", "50%25", "a%2Fb", "a:b", "a%3Ab", "a@b", "%40",
	"a+b", "%C3%A9", "a%20b", "%41", "!", "~"}

func c01Instance(r *proto.Rng, base, tmpl string) string {
	full := strings.TrimRight(base, "/") + tmpl
	if !strings.HasPrefix(full, "/") {
		full = "/" + full
	}
	var sb strings.Builder
	for i := 0; i < len(full); i++ {
		if full[i] == '{' {
			j := strings.IndexByte(full[i:], '}')
			if j > 0 {
				whole := full[i-1] == '/' && (i+j+1 == len(full) || full[i+j+1] == '/')
				switch {
				case whole:
					sb.WriteString(r.Pick(c01Values...))
				case r.Chance(3, 5):
					sb.WriteString(r.Pick(c01PlainValues...))
				default:
					sb.WriteString(r.Pick(c01SepValues...))
				}
				i += j
				continue
			}
		}
		sb.WriteByte(full[i])
	}
	return sb.String()
}

// c01BracesPair: every '{' opens a non-empty brace-free name closed by '}', no '}' elsewhere
func c01BracesPair(t string) bool {
	for i := 0; i < len(t); i++ {
		switch t[i] {
		case '}':
			return false
		case '{':
			j := i + 1
			for j < len(t) && t[j] != '{' && t[j] != '}' {
				j++
			}
			if j == len(t) || t[j] != '}' || j == i+1 {
				return false
			}
			i = j
		}
	}
	return true
}

// c01HasComposite: some segment mixes a placeholder with other text
func c01HasComposite(t string) bool {
	for _, seg := range strings.Split(t, "/") {
		if strings.Contains(seg, "{") && !(strings.HasPrefix(seg, "{") && strings.HasSuffix(seg, "}") && strings.Count(seg, "{") == 1) {
			return true
		}
	}
	return false
}

// c01RepeatsName: a placeholder name occurs twice in the template (not a valid description)
func c01RepeatsName(t string) bool {
	seen := map[string]bool{}
	for i := 0; i < len(t); i++ {
		if t[i] == '{' {
			if j := strings.IndexByte(t[i:], '}'); j > 0 {
				if seen[t[i:i+j]] {
					return true
				}
				seen[t[i:i+j]] = true
			}
		}
	}
	return false
}

func c01Gen(r *proto.Rng, n int, tier string, emit func(in ...string)) {
	allMethods := []string{"get", "post", "put", "delete", "GET", "Post", "patch", "head"}
	for i := 0; i < n; {
		odd := r.Chance(1, 6)
		comp := !odd && r.Chance(2, 5) // descriptions with composite segments: [prefix]{a}sep{b}[suffix]
		shared := ""
		if r.Chance(2, 3) {
			shared = r.Pick("id", "id", "name", "x", "petId")
		}
		base := r.Pick("/", "/", "", "/api", "/api/", "/v1/base", "/a")
		nops := 1 + r.Intn(7)
		if tier == "thorough" && r.Chance(1, 4) {
			nops = 8 + r.Intn(12)
		}
		var methods, templates []string
		seen := map[string]bool{}
		for len(methods) < nops {
			t := c01Template(r, odd, comp, shared)
			if len(templates) > 0 && r.Chance(1, 3) {
				// sibling: shares a prefix with an earlier template
				prev := templates[r.Intn(len(templates))]
				if j := strings.LastIndexByte(strings.TrimRight(prev, "/"), '/'); j > 0 {
					t = prev[:j] + c01Template(r, odd, comp, shared)
				}
			}
			if c01RepeatsName(t) {
				continue
			}
			m := r.Pick(allMethods...)
			if len(templates) > 0 && r.Chance(1, 3) {
				t = templates[r.Intn(len(templates))] // same template under another method
			}
			k := strings.ToLower(m) + " " + t
			if seen[k] {
				nops--
				continue
			}
			seen[k] = true
			methods = append(methods, m)
			templates = append(templates, t)
		}
		if len(methods) == 0 {
			continue
		}
		lm, lt := proto.L(methods), proto.L(templates)
		for j := 0; j < 8 && i < n; j++ {
			t := templates[r.Intn(len(templates))]
			if comp && !c01HasComposite(t) && r.Chance(1, 2) {
				t = templates[r.Intn(len(templates))]
			}
			p := c01Instance(r, base, t)
			switch r.Intn(11) {
			case 10:
				// drop one byte (a separator, a suffix byte, ...)
				if len(p) > 2 {
					k := 1 + r.Intn(len(p)-1)
					p = p[:k] + p[k+1:]
				}
			case 0:
				p += "/"
			case 1:
				p = strings.Replace(p, "/", "//", 1)
			case 2:
				p = p + "/../" + r.Pick("a", "mine", "1")
			case 3:
				p = "/" + r.Bytes("ab/.%:*", r.Intn(8))
			case 4:
				if len(p) > 1 {
					k := 1 + r.Intn(len(p)-1)
					p = p[:k] + r.Pick("x", "/", "", ".") + p[k:]
				}
			}
			m := r.Pick("GET", "get", "POST", "Put", "DELETE", "PATCH", "HEAD", "OPTIONS")
			if r.Chance(1, 2) || (comp && r.Chance(1, 2)) {
				m = strings.ToUpper(methods[r.Intn(len(methods))])
				if r.Chance(1, 4) {
					m = strings.ToLower(m)
				}
			}
			emit("D", proto.B(base), lm, lt, proto.B(m), proto.B(p))
			i++
		}
	}
}
