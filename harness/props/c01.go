package props

import (
	"bufio"
	"encoding/json"
	"net/http"
	"net/http/httptest"
	"os"
	"path"
	"sort"
	"strings"

	"github.com/go-openapi/analysis"
	"github.com/go-openapi/errors"
	"github.com/go-openapi/loads"
	"github.com/go-openapi/runtime"
	"github.com/go-openapi/runtime/middleware"
	"github.com/go-openapi/runtime/middleware/untyped"
	"github.com/go-openapi/spec"
	"github.com/go-openapi/strfmt"

	"verif/harness/internal/proto"
)

// C01 — spec-driven dispatch. Stream:
//
//	D <basePath> <methods> <templates> <request method> <request target path>
//	  => R <op index> <param names> <param values> | A <allowed methods, sorted> | N | PANIC | INVALID
//
// The API is served by middleware.NewRouter over a Context built from the generated description;
// the request is parsed by net/http from a raw request line.
func init() {
	proto.Register(&proto.Prop{ID: "C01", Gen: c01Gen, Exec: c01Exec, Corpus: [][]string{
		// F01a (fixed with the denco repair): "/pets/:" was routed with the parameter dropped
		{"D", proto.B("/"), proto.L([]string{"get"}), proto.L([]string{"/pets/{id}"}), proto.B("GET"), proto.B("/pets/:")},
		{"D", proto.B("/api"), proto.L([]string{"get", "get"}), proto.L([]string{"/pets/{id}", "/pets/mine"}), proto.B("get"), proto.B("/api/pets/mine")},
		// F01d (fixed): composite segment with a separator of two bytes used to panic
		{"D", proto.B("/"), proto.L([]string{"get"}), proto.L([]string{"/x/{a}--{b}"}), proto.B("GET"), proto.B("/x/foo")},
		// F01f (fixed): a wildcard parameter that is no placeholder of the template used to panic
		{"D", proto.B("/a"), proto.L([]string{"post"}), proto.L([]string{"/{y}--{petId}/*/{k1}"}), proto.B("post"), proto.B("/a/;--1/*/a-b")},
		// F01e (fixed): a template with a trailing slash used to be unroutable
		{"D", proto.B("/"), proto.L([]string{"head"}), proto.L([]string{"/a/"}), proto.B("HEAD"), proto.B("/a/")},
		// F01g (fixed): the composite split ran on the unescaped text, an escaped separator split the value
		{"D", proto.B("/"), proto.L([]string{"get"}), proto.L([]string{"/x/{a}-{b}"}), proto.B("GET"), proto.B("/x/foo%2Dbar-baz")},
		{"D", proto.B("/"), proto.L([]string{"get"}), proto.L([]string{"/files/{name}.{ext}"}), proto.B("GET"), proto.B("/files/a%2Eb.c")},
		// composite segments: prefix text behind a whole-segment placeholder, suffix text, three placeholders
		{"D", proto.B("/"), proto.L([]string{"get"}), proto.L([]string{"/a/{x}/v{major}.{minor}"}), proto.B("GET"), proto.B("/a/q/v1.2")},
		{"D", proto.B("/"), proto.L([]string{"get"}), proto.L([]string{"/pets/{id}.json"}), proto.B("GET"), proto.B("/pets/5.json")},
		{"D", proto.B("/"), proto.L([]string{"put"}), proto.L([]string{"/d/{y}-{m}--{d}.txt"}), proto.B("PUT"), proto.B("/d/2026-09--30.txt")},
		// ambiguous instantiations: adjacent placeholders, a value containing the separator
		{"D", proto.B("/"), proto.L([]string{"get"}), proto.L([]string{"/x/{a}{b}"}), proto.B("GET"), proto.B("/x/foo")},
		{"D", proto.B("/"), proto.L([]string{"get"}), proto.L([]string{"/x/{a}--{b}"}), proto.B("GET"), proto.B("/x/a---b")},
		// the same placeholder name as a whole segment in one template and inside a composite segment of another
		{"D", proto.B("/"), proto.L([]string{"get", "get"}), proto.L([]string{"/files/{id}.json", "/pets/{id}"}), proto.B("GET"), proto.B("/pets/42")},
		{"D", proto.B("/"), proto.L([]string{"get", "get"}), proto.L([]string{"/files/{id}.json", "/pets/{id}"}), proto.B("GET"), proto.B("/pets/rex.json")},
		{"D", proto.B("/"), proto.L([]string{"get", "put", "get"}), proto.L([]string{"/pets/{id}", "/pets/{id}", "/a/{x}/{id}-{b}"}), proto.B("PUT"), proto.B("/pets/a-b")},
		// reading: between a composite segment with a static prefix (p{d}) and a parameter ({t}) the property states no preference
		{"D", proto.B("/"), proto.L([]string{"Post", "Post", "patch"}), proto.L([]string{"/p{d}/{y}", "/{t}/a-b", "/"}), proto.B("post"), proto.B("/p/a-b")},
		// F01h: every placeholder behind static text of its segment: the key /v:major is filed as static text
		{"D", proto.B("/"), proto.L([]string{"get"}), proto.L([]string{"/v{major}.{minor}"}), proto.B("GET"), proto.B("/v1.2")},
		{"D", proto.B("/"), proto.L([]string{"get"}), proto.L([]string{"/v{major}.{minor}"}), proto.B("GET"), proto.B("/v:major")},
		// F01i: the path segment does not fit the composite pattern, the handler runs with empty values
		{"D", proto.B("/"), proto.L([]string{"get"}), proto.L([]string{"/pets/{id}.json"}), proto.B("GET"), proto.B("/pets/5.xml")},
		{"D", proto.B("/"), proto.L([]string{"get", "post"}), proto.L([]string{"/pets/{id}.json", "/pets/{id}"}), proto.B("PUT"), proto.B("/pets/5.xml")},
		// F01c: ':' in the static text of a parameterised template
		{"D", proto.B("/"), proto.L([]string{"get"}), proto.L([]string{"/a:b/{id}"}), proto.B("GET"), proto.B("/aXYZ/5")},
	}})
}

// c01API is one generated description, served through every public way the library offers to
// dispatch a request (built on first use, kept for the following requests of the description).
type c01API struct {
	doc                *loads.Document
	methods, templates []string
	debug              bool
	last               *string // what the hook behind the router saw: "R <op> <names> <values>"
	ran                *int    // index of the operation handler that really ran (-1: none)
	getOK              bool    // this request's values are read with RouteParams.GetOK instead of Get
	handlers           [c01NEntries]http.Handler
	ctxs               [c01NEntries]*middleware.Context
	routers            [c01NEntries]middleware.Router
}

// The ways one request is dispatched. Every one ends in defaultRouter.Lookup/OtherMethods; they
// differ in who builds the router, who asks it and which handler runs:
const (
	c01ViaNewRouter     = iota // middleware.NewRouter over NewContext, the harness' own next handler reads MatchedRouteFrom
	c01ViaRoutesHandler        // Context.RoutesHandler(builder): NewRouter + NewOperationExecutor + the REGISTERED operation handler
	c01ViaServeBuilder         // middleware.ServeWithBuilder: Spec + Redoc middlewares in front of RoutesHandler
	c01ViaContext              // Context.RouteInfo / LookupRoute / AllowedMethods called directly
	c01ViaRouter               // middleware.DefaultRouter(spec, api).Lookup / OtherMethods called directly (own RoutableAPI)
	c01ViaRoutable             // NewRoutableContext(spec, own RoutableAPI, nil): NewRouter + NewOperationExecutor, route.Handler runs
	c01ViaGivenRouter          // NewRoutableContextWithAnalyzedSpec with a router handed in (DefaultRouter + WithDefaultRouterLogger)
	c01NEntries
)

// c01Quiet swallows the debug output of descriptions built with debugging switched on
type c01Quiet struct{}

func (c01Quiet) Printf(string, ...interface{}) {}
func (c01Quiet) Debugf(string, ...interface{}) {}

// c01Routable is a second implementation of middleware.RoutableAPI (what a generated server hands
// to NewRoutableContext): one http.Handler per operation, registered under the upper-cased method
// and the template as written.
type c01Routable struct {
	handlers map[string]http.Handler
}

func (c *c01Routable) HandlerFor(method, pth string) (http.Handler, bool) {
	h, ok := c.handlers[strings.ToUpper(method)+" "+pth]
	return h, ok
}
func (c *c01Routable) ServeErrorFor(string) func(http.ResponseWriter, *http.Request, error) {
	return errors.ServeError
}
func (c *c01Routable) ConsumersFor(mts []string) map[string]runtime.Consumer {
	res := map[string]runtime.Consumer{}
	for _, mt := range mts {
		res[mt] = runtime.JSONConsumer()
	}
	return res
}
func (c *c01Routable) ProducersFor(mts []string) map[string]runtime.Producer {
	res := map[string]runtime.Producer{}
	for _, mt := range mts {
		res[mt] = runtime.JSONProducer()
	}
	return res
}
func (c *c01Routable) AuthenticatorsFor(map[string]spec.SecurityScheme) map[string]runtime.Authenticator {
	return nil
}
func (c *c01Routable) Authorizer() runtime.Authorizer { return nil }
func (c *c01Routable) Formats() strfmt.Registry       { return strfmt.Default }
func (c *c01Routable) DefaultProduces() string        { return runtime.JSONMime }
func (c *c01Routable) DefaultConsumes() string        { return runtime.JSONMime }

var c01Cache = map[string]*c01API{}

// c01Sum is a checksum of fields of the case: every choice Exec makes on its own (entry point,
// shape of the request, warm-up, debugging) is a function of the input, so a case replays identically.
func c01Sum(fields ...string) int {
	h := uint32(2166136261)
	for _, f := range fields {
		for i := 0; i < len(f); i++ {
			h = (h ^ uint32(f[i])) * 16777619
		}
		h = (h ^ 0xff) * 16777619
	}
	return int(h>>3) & 0xfffffff
}

// c01Record renders what a handler behind the router sees of the matched route
func c01Record(route *middleware.MatchedRoute, viaGetOK bool) string {
	names := make([]string, len(route.Params))
	vals := make([]string, len(route.Params))
	seen := map[string]int{}
	for _, p := range route.Params {
		seen[p.Name]++
	}
	for i, p := range route.Params {
		names[i], vals[i] = p.Name, p.Value
		if seen[p.Name] == 1 {
			// a handler usually asks by name: where the name is unique that is the same value.
			// Both accessors are used (Get, and GetOK as the binder does).
			if viaGetOK {
				vv, hasKey, hasValue := route.Params.GetOK(p.Name)
				switch {
				case !hasKey || len(vv) != 1:
					vals[i] = "!nokey"
				case hasValue != (vv[0] != ""):
					vals[i] = "!hasvalue"
				default:
					vals[i] = vv[0]
				}
			} else {
				vals[i] = route.Params.Get(p.Name)
			}
		}
	}
	return "R " + strings.TrimPrefix(route.Operation.ID, "op") + " " + proto.L(names) + " " + proto.L(vals)
}

func c01Load(base string, methods, templates []string, debug bool) *c01API {
	key := base + "\x00" + strings.Join(methods, "\x01") + "\x00" + strings.Join(templates, "\x01")
	if debug {
		key += "\x00debug"
	}
	if a, ok := c01Cache[key]; ok {
		return a
	}
	paths := map[string]map[string]interface{}{}
	for i, t := range templates {
		if paths[t] == nil {
			paths[t] = map[string]interface{}{}
		}
		paths[t][strings.ToLower(methods[i])] = map[string]interface{}{
			"operationId": "op" + proto.N(i),
			"responses":   map[string]interface{}{"200": map[string]interface{}{"description": "ok"}},
		}
	}
	doc := map[string]interface{}{
		"swagger": "2.0", "info": map[string]interface{}{"title": "t", "version": "1"},
		"basePath": base, "paths": paths,
	}
	raw, _ := json.Marshal(doc)
	sp, err := loads.Analyzed(json.RawMessage(raw), "")
	if err != nil {
		panic("c01: cannot load generated spec: " + err.Error())
	}
	ran := -1
	a := &c01API{doc: sp, methods: methods, templates: templates, debug: debug, last: new(string), ran: &ran}
	if len(c01Cache) > 2000 {
		c01Cache = map[string]*c01API{}
	}
	c01Cache[key] = a
	return a
}

// untyped builds the untyped API of the description: every operation has a handler registered under
// its method and its template as written; the handler says which operation it is.
func (a *c01API) untyped() *untyped.API {
	api := untyped.NewAPI(a.doc)
	for i, t := range a.templates {
		i := i
		api.RegisterOperation(a.methods[i], t, runtime.OperationHandlerFunc(func(interface{}) (interface{}, error) {
			*a.ran = i
			return nil, nil
		}))
	}
	return api
}

func (a *c01API) routable() *c01Routable {
	rt := &c01Routable{handlers: map[string]http.Handler{}}
	for i, t := range a.templates {
		i := i
		rt.handlers[strings.ToUpper(a.methods[i])+" "+t] = http.HandlerFunc(func(w http.ResponseWriter, r *http.Request) {
			*a.ran = i
			if route := middleware.MatchedRouteFrom(r); route != nil {
				*a.last = c01Record(route, a.getOK)
			}
			w.WriteHeader(http.StatusNoContent)
		})
	}
	return rt
}

// build prepares entry point e. With a.debug the objects are built and used the way
// SWAGGER_DEBUG=1 makes them (debugLogf is chosen at construction, middleware.Debug guards a block
// of Lookup); the output goes to a silent logger.
func (a *c01API) build(e int) {
	if a.handlers[e] != nil || a.ctxs[e] != nil || a.routers[e] != nil {
		return
	}
	if a.debug {
		oldLogger, oldEnv, had := middleware.Logger, os.Getenv("SWAGGER_DEBUG"), false
		_, had = os.LookupEnv("SWAGGER_DEBUG")
		middleware.Logger = c01Quiet{}
		os.Setenv("SWAGGER_DEBUG", "1")
		defer func() {
			middleware.Logger = oldLogger
			if had {
				os.Setenv("SWAGGER_DEBUG", oldEnv)
			} else {
				os.Unsetenv("SWAGGER_DEBUG")
			}
		}()
	}
	// the hook a server puts behind the router (a Builder, or NewRouter's next handler)
	hook := func(next http.Handler) http.Handler {
		return http.HandlerFunc(func(w http.ResponseWriter, r *http.Request) {
			if route := middleware.MatchedRouteFrom(r); route != nil {
				*a.last = c01Record(route, a.getOK)
			}
			if next != nil {
				next.ServeHTTP(w, r)
				return
			}
			w.WriteHeader(http.StatusNoContent)
		})
	}
	switch e {
	case c01ViaNewRouter:
		a.handlers[e] = middleware.NewRouter(middleware.NewContext(a.doc, a.untyped(), nil), hook(nil))
	case c01ViaRoutesHandler:
		a.handlers[e] = middleware.NewContext(a.doc, a.untyped(), nil).RoutesHandler(hook)
	case c01ViaServeBuilder:
		a.handlers[e] = middleware.ServeWithBuilder(a.doc, a.untyped(), hook)
	case c01ViaContext:
		ctx := middleware.NewContext(a.doc, a.untyped(), nil)
		_ = middleware.NewRouter(ctx, nil) // installs the default router, as every handler constructor does
		a.ctxs[e] = ctx
	case c01ViaRouter:
		if a.debug {
			a.routers[e] = middleware.DefaultRouter(a.doc, a.routable(), middleware.WithDefaultRouterLogger(c01Quiet{}))
		} else {
			a.routers[e] = middleware.DefaultRouter(a.doc, a.routable())
		}
	case c01ViaRoutable:
		ctx := middleware.NewRoutableContext(a.doc, a.routable(), nil)
		a.handlers[e] = middleware.NewRouter(ctx, middleware.NewOperationExecutor(ctx))
	case c01ViaGivenRouter:
		rt := a.routable()
		ctx := middleware.NewRoutableContextWithAnalyzedSpec(a.doc, analysis.New(a.doc.Spec()), rt,
			middleware.DefaultRouter(a.doc, rt, middleware.WithDefaultRouterLogger(c01Quiet{})))
		a.handlers[e] = middleware.NewRouter(ctx, middleware.NewOperationExecutor(ctx))
	}
}

// c01Request has net/http parse the request line; shape picks one of the equivalent ways the same
// method and path reach a server.
func c01Request(method, target string, shape int) (*http.Request, bool) {
	line, version, extra := target, "HTTP/1.1", ""
	switch shape {
	case 1:
		// a query string (with dot segments, slashes and names of placeholders): not part of the path
		line = target + "?id=9&name=/a/../b&x=%2F..%2F&petId=mine"
	case 2:
		// absolute-form request target (what a proxy receives)
		line = "http://example.test" + target
	case 3:
		// HTTP/1.0 and headers that must not influence the dispatch
		version = "HTTP/1.0"
		extra = "X-Http-Method-Override: DELETE\r\nX-Original-Url: /pets/1\r\nX-Forwarded-Prefix: /api\r\nAccept: */*\r\n"
	case 4:
		// an empty query
		line = target + "?"
	case 5:
		// a request made by http.NewRequest (url.Parse instead of ParseRequestURI), as handler tests do
		if r, err := http.NewRequest(method, "http://example.test"+target, nil); err == nil && r.URL.EscapedPath() == target {
			r.RequestURI = target
			return r, true
		}
	}
	req, err := http.ReadRequest(bufio.NewReader(strings.NewReader(method + " " + line + " " + version + "\r\nHost: example.test\r\n" + extra + "\r\n")))
	if err != nil || req.URL.EscapedPath() != target {
		// not a target net/http delivers as such (or it carries a query): outside the quantifier
		return nil, false
	}
	return req, true
}

func c01Exec(in []string) []string {
	base, methods, templates := proto.UnB(in[1]), proto.UnL(in[2]), proto.UnL(in[3])
	method, target := proto.UnB(in[4]), proto.UnB(in[5])
	if len(methods) != len(templates) || len(methods) == 0 {
		return []string{"INVALID"}
	}
	// two operations with the same method+template collapse in the description: not a valid input
	seen := map[string]bool{}
	for i := range methods {
		switch strings.ToLower(methods[i]) {
		case "get", "put", "post", "delete", "options", "head", "patch":
		default:
			// not an operation of a swagger 2.0 path item: the description would silently lose it
			return []string{"INVALID"}
		}
		k := strings.ToLower(methods[i]) + " " + templates[i]
		if seen[k] {
			return []string{"INVALID"}
		}
		seen[k] = true
		if !strings.HasPrefix(templates[i], "/") || !c01BracesPair(templates[i]) {
			// not a path template: no leading slash, or braces that do not pair up into {name} placeholders
			return []string{"INVALID"}
		}
	}
	if _, ok := c01Request(method, target, 0); !ok {
		return []string{"INVALID"}
	}
	// Choices of the harness, all functions of the input. The description decides whether debugging
	// is on (1 in 8); description and request together decide the entry point; the request decides
	// its shape, the accessor and whether other requests are served first.
	dsum, rsum := c01Sum(in[1], in[2], in[3]), c01Sum(in[4], in[5])
	debug := dsum%8 == 7
	entry := (dsum/8 + rsum/128) % c01NEntries
	shape := (rsum / 2) % 6
	viaGetOK := (rsum/16)%2 == 1
	warm := (rsum/32)%4 == 0
	req, ok := c01Request(method, target, shape)
	if !ok {
		req, _ = c01Request(method, target, 0)
	}
	a := c01Load(base, methods, templates, debug)
	a.build(entry)
	a.getOK = viaGetOK
	if debug {
		old := middleware.Debug
		middleware.Debug = true
		defer func() { middleware.Debug = old }()
	}
	serve := func(req *http.Request) []string {
		*a.last, *a.ran = "", -1
		var code int
		var allow []string
		switch {
		case a.handlers[entry] != nil:
			rec := httptest.NewRecorder()
			a.handlers[entry].ServeHTTP(rec, req)
			code = rec.Code
			for _, m := range strings.Split(rec.Header().Get("Allow"), ",") {
				if m = strings.TrimSpace(m); m != "" {
					allow = append(allow, m)
				}
			}
			if *a.last != "" {
				f := strings.Fields(*a.last)
				if entry != c01ViaNewRouter {
					// the operation handler that ran says which operation it is
					if *a.ran < 0 {
						return []string{"NOHANDLER", proto.N(code)}
					}
					f[1] = proto.N(*a.ran)
				}
				return f
			}
			if *a.ran >= 0 {
				return []string{"HANDLER-WITHOUT-ROUTE", proto.N(*a.ran)}
			}
		case a.ctxs[entry] != nil:
			ctx := a.ctxs[entry]
			var route *middleware.MatchedRoute
			var found bool
			if viaGetOK {
				route, found = ctx.LookupRoute(req)
			} else {
				var r2 *http.Request
				route, r2, found = ctx.RouteInfo(req)
				if found {
					// asking again with the returned request gives the remembered route
					route, _, found = ctx.RouteInfo(r2)
				}
			}
			if found {
				return strings.Fields(c01Record(route, viaGetOK))
			}
			allow = ctx.AllowedMethods(req)
			code = http.StatusNotFound
			if len(allow) > 0 {
				code = http.StatusMethodNotAllowed
			}
		default:
			rt := a.routers[entry]
			if route, found := rt.Lookup(req.Method, req.URL.EscapedPath()); found {
				return strings.Fields(c01Record(route, viaGetOK))
			}
			allow = rt.OtherMethods(req.Method, req.URL.EscapedPath())
			code = http.StatusNotFound
			if len(allow) > 0 {
				code = http.StatusMethodNotAllowed
			}
		}
		switch code {
		case http.StatusMethodNotAllowed:
			sort.Strings(allow)
			return []string{"A", proto.L(allow)}
		case http.StatusNotFound:
			return []string{"N"}
		}
		return []string{"STATUS", proto.N(code)}
	}
	if warm {
		// another request first, on the same objects: the same path under another method and a
		// neighbouring path under the same method; what they answer is not this case's business
		other := "OPTIONS"
		if strings.EqualFold(method, other) {
			other = "GET"
		}
		if w, ok := c01Request(other, target, 0); ok {
			serve(w)
		}
		if w, ok := c01Request(method, path.Join("/", path.Dir(target), "warm-up"), 0); ok {
			serve(w)
		}
	}
	return serve(req)
}

var c01Segs = []string{"pets", "store", "a", "b", "ab", "v1", "x.y", "mine", "é", "a-b", "a_b", "~u", "Pets", "a%20b", "1"}

// c01Composite writes one segment that mixes placeholders with static text:
// [prefix] {n0} sep {n1} [sep {n2}] [suffix]
func c01Composite(r *proto.Rng, name func() string) string {
	var sb strings.Builder
	k := 1 + r.Intn(3)
	if r.Chance(1, 4) {
		sb.WriteString(r.Pick("v", "v", "p_", "id-", "x."))
	}
	for i := 0; i < k; i++ {
		if i > 0 {
			if r.Chance(1, 12) {
				// adjacent placeholders
			} else {
				sb.WriteString(r.Pick("-", "-", ".", ".", "_", ",", "--", "..", "-.", "__", ":", "@"))
			}
		}
		sb.WriteString("{" + name() + "}")
	}
	if sb.Len() > 0 && (k == 1 && !strings.HasPrefix(sb.String(), "{") && r.Chance(1, 2)) {
		return sb.String() // prefix only: v{n}
	}
	if k == 1 || r.Chance(1, 3) {
		sb.WriteString(r.Pick(".json", ".json", ".xml", "-x", "!", ":cancel", ".", "--"))
	}
	return sb.String()
}

// c01Template writes one path template. shared (when not empty) is a placeholder name the templates
// of one description prefer, so that the same name occurs in several templates: as a whole segment
// in one, inside a composite segment ({id}.json, v{id}, {id}-{b}) in another.
func c01Template(r *proto.Rng, odd, comp bool, shared string) string {
	n := 1 + r.Intn(4)
	var sb strings.Builder
	names := []string{"id", "petId", "name", "x", "y", "k1", "k2", "n", "ext", "major", "minor", "a", "b"}
	name := func() string {
		if len(names) == 0 {
			return "z"
		}
		j := r.Intn(len(names))
		if shared != "" && r.Chance(1, 2) {
			for k, nm := range names {
				if nm == shared {
					j = k
				}
			}
		}
		nm := names[j]
		names = append(names[:j:j], names[j+1:]...)
		return nm
	}
	for i := 0; i < n; i++ {
		sb.WriteByte('/')
		switch k := r.Intn(10); {
		case k < 3:
			sb.WriteString("{" + name() + "}")
		case k < 6 && comp:
			sb.WriteString(c01Composite(r, name))
		case k < 4:
			sb.WriteString("{" + name() + "}")
		case k < 5 && odd:
			switch r.Intn(6) {
			case 0:
				sb.WriteString("{" + name() + "}." + r.Pick("json", "xml"))
			case 1:
				sb.WriteString("{" + name() + "}-{" + name() + "}")
			case 2:
				sb.WriteString("{" + name() + "}--{" + name() + "}")
			case 3:
				sb.WriteString(r.Pick("a:b", "v:cancel", "a*b", ":x", "*"))
			case 4:
				sb.WriteString("v{" + name() + "}")
			default:
				sb.WriteString("{" + name() + "}:" + r.Pick("cancel", "undo"))
			}
		default:
			sb.WriteString(r.Pick(c01Segs...))
		}
	}
	if r.Chance(1, 40) {
		sb.WriteByte('/')
	}
	return sb.String()
}

var c01Values = []string{"1", "42", "kitty", "a%2Fb", "50%25", "%zz", ":", "*", "%23", ";", "a=b", "%C3%A9", ".", "..", "", "x.json", "a-b", "a--b", "mine", "a:b", "a+b", "+1", "%2B", "a%20b", "%41", "%7Bx%7D", "a,b", "@", "$", "&", "!", "(x)", "'", "~",
	// lower-case escapes, escaped dots and dot segments, NUL, invalid UTF-8, three-byte rune, a double escape,
	// matrix parameters, the text of a sibling in another letter case, a long value
	"%c3%a9", "a%2fb", "%2E", "%2e%2e", "a%2F..%2Fb", "%00", "%FF", "%E2%82%AC", "%2525", "%252F", "a;v=1", "Mine", "PETS",
	"0123456789abcdefghijklmnopqrstuvwxyz-0123456789abcdefghijklmnopqrstuvwxyz-0123456789abcdefghijklmnopqrstuvwxyz_ABCDEFGHIJKLMNOPQRSTUVWXYZ~%41%42%43"}

// values for the placeholders of a composite segment: mostly free of every separator (one
// instantiation), some that contain or escape a separator, some empty
var c01PlainValues = []string{"1", "42", "kitty", "abc", "x", "Z9", "7", "report", "pdf", "0"}
var c01SepValues = []string{"", "", "a-b", "a--b", "a.b", "1.2", "x.json", "-", ".", "..", "--", "a_b", "a,b", "x-", "-x", ".x", "x.",
	"a%2Db", "%2D", "a%2D%2Db", "a%2Eb", "%2E", "%2E%2E", "a%5Fb", "a%2Cb", "%2Djson", "a%2Ejson", "50%25", "a%2Fb", "a:b", "a%3Ab", "a@b", "%40",
	"a+b", "%C3%A9", "a%20b", "%41", "!", "~"}

func c01Instance(r *proto.Rng, base, tmpl string) string {
	full := strings.TrimRight(base, "/") + tmpl
	if !strings.HasPrefix(full, "/") {
		full = "/" + full
	}
	if !strings.HasPrefix(base, "/") && base != "" || strings.Contains(base, "//") || strings.Contains(base, "/.") {
		// a base path that is not in cleaned form: the routed path is path.Join(base, template)
		full = path.Join(base, tmpl)
		if strings.HasSuffix(tmpl, "/") && full != "/" {
			full += "/"
		}
	}
	var sb strings.Builder
	for i := 0; i < len(full); i++ {
		if full[i] == '{' {
			j := strings.IndexByte(full[i:], '}')
			if j > 0 {
				whole := full[i-1] == '/' && (i+j+1 == len(full) || full[i+j+1] == '/')
				switch {
				case whole:
					sb.WriteString(r.Pick(c01Values...))
				case r.Chance(3, 5):
					sb.WriteString(r.Pick(c01PlainValues...))
				default:
					sb.WriteString(r.Pick(c01SepValues...))
				}
				i += j
				continue
			}
		}
		if full[i] >= 0x80 {
			// net/http delivers the non-ASCII text of a path percent-encoded only (a raw byte makes
			// EscapedPath differ from the target: the case would be INVALID)
			const hexd = "0123456789ABCDEF"
			sb.WriteString("%" + string(hexd[full[i]>>4]) + string(hexd[full[i]&15]))
			continue
		}
		sb.WriteByte(full[i])
	}
	return sb.String()
}

// c01FlipCase writes a method in some other letter case (net/http hands on the method as spelled)
func c01FlipCase(r *proto.Rng, m string) string {
	b := []byte(m)
	for i := range b {
		if r.Chance(1, 2) {
			switch {
			case b[i] >= 'a' && b[i] <= 'z':
				b[i] -= 32
			case b[i] >= 'A' && b[i] <= 'Z':
				b[i] += 32
			}
		}
	}
	return string(b)
}

// c01BracesPair: every '{' opens a non-empty brace-free name closed by '}', no '}' elsewhere
func c01BracesPair(t string) bool {
	for i := 0; i < len(t); i++ {
		switch t[i] {
		case '}':
			return false
		case '{':
			j := i + 1
			for j < len(t) && t[j] != '{' && t[j] != '}' {
				j++
			}
			if j == len(t) || t[j] != '}' || j == i+1 {
				return false
			}
			i = j
		}
	}
	return true
}

// c01HasComposite: some segment mixes a placeholder with other text
func c01HasComposite(t string) bool {
	for _, seg := range strings.Split(t, "/") {
		if strings.Contains(seg, "{") && !(strings.HasPrefix(seg, "{") && strings.HasSuffix(seg, "}") && strings.Count(seg, "{") == 1) {
			return true
		}
	}
	return false
}

// c01RepeatsName: a placeholder name occurs twice in the template (not a valid description)
func c01RepeatsName(t string) bool {
	seen := map[string]bool{}
	for i := 0; i < len(t); i++ {
		if t[i] == '{' {
			if j := strings.IndexByte(t[i:], '}'); j > 0 {
				if seen[t[i:i+j]] {
					return true
				}
				seen[t[i:i+j]] = true
			}
		}
	}
	return false
}

func c01Gen(r *proto.Rng, n int, tier string, emit func(in ...string)) {
	// all seven operations of a swagger 2.0 path item, registered in several spellings
	allMethods := []string{"get", "post", "put", "delete", "GET", "Post", "patch", "head", "options", "OPTIONS", "Head", "DELETE", "pAtCh"}
	for i := 0; i < n; {
		odd := r.Chance(1, 6)
		comp := !odd && r.Chance(2, 5) // descriptions with composite segments: [prefix]{a}sep{b}[suffix]
		shared := ""
		if r.Chance(2, 3) {
			shared = r.Pick("id", "id", "name", "x", "petId")
		}
		base := r.Pick("/", "/", "", "/api", "/api/", "/v1/base", "/a")
		if r.Chance(1, 8) {
			// base paths that are not in cleaned form, without a leading slash, deeper, with text net/url escapes
			base = r.Pick("api", "/api//v2", "/api/../v2", "/./", "//", "/a/b/c/", "/api/.", "a/b", "/v1//", "/b%20c", "/~u")
		}
		nops := 1 + r.Intn(7)
		if tier == "thorough" && r.Chance(1, 4) {
			nops = 8 + r.Intn(12)
		}
		var methods, templates []string
		seen := map[string]bool{}
		for len(methods) < nops {
			t := c01Template(r, odd, comp, shared)
			if r.Chance(1, 30) {
				t = "/" // the root template
			}
			if len(templates) > 0 && r.Chance(1, 3) {
				// sibling: shares a prefix with an earlier template
				prev := templates[r.Intn(len(templates))]
				if j := strings.LastIndexByte(strings.TrimRight(prev, "/"), '/'); j > 0 {
					t = prev[:j] + c01Template(r, odd, comp, shared)
				}
			}
			if c01RepeatsName(t) {
				continue
			}
			m := r.Pick(allMethods...)
			if len(templates) > 0 && r.Chance(1, 3) {
				t = templates[r.Intn(len(templates))] // same template under another method
			}
			k := strings.ToLower(m) + " " + t
			if seen[k] {
				nops--
				continue
			}
			seen[k] = true
			methods = append(methods, m)
			templates = append(templates, t)
		}
		if len(methods) == 0 {
			continue
		}
		lm, lt := proto.L(methods), proto.L(templates)
		for j := 0; j < 8 && i < n; j++ {
			t := templates[r.Intn(len(templates))]
			if comp && !c01HasComposite(t) && r.Chance(1, 2) {
				t = templates[r.Intn(len(templates))]
			}
			p := c01Instance(r, base, t)
			switch r.Intn(21) {
			case 11:
				// a dot segment in the middle
				if k := strings.LastIndexByte(p, '/'); k >= 0 {
					p = p[:k] + r.Pick("/.", "/./.", "/x/..", "//.") + p[k:]
				}
			case 12:
				// dot segments in front (path.Clean stops at the root), or at the very end
				if r.Chance(1, 2) {
					p = r.Pick("/..", "/.", "/../..") + p
				} else {
					p += r.Pick("/.", "//", "/./", "/x/..", "/x/../")
				}
			case 13:
				// paths are compared as spelled: another letter case of one letter
				b := []byte(p)
				for k := r.Intn(len(b)); k < len(b); k++ {
					if b[k] >= 'a' && b[k] <= 'z' {
						b[k] -= 32
						break
					}
				}
				p = string(b)
			case 14:
				// an escaped slash where the template has a real one, an escaped letter of static text
				if k := strings.LastIndexByte(p, '/'); k > 0 {
					p = p[:k] + r.Pick("%2F", "%2f") + p[k+1:]
				}
			case 10:
				// drop one byte (a separator, a suffix byte, ...)
				if len(p) > 2 {
					k := 1 + r.Intn(len(p)-1)
					p = p[:k] + p[k+1:]
				}
			case 0:
				p += "/"
			case 1:
				p = strings.Replace(p, "/", "//", 1)
			case 2:
				p = p + "/../" + r.Pick("a", "mine", "1")
			case 3:
				p = "/" + r.Bytes("ab/.%:*", r.Intn(8))
			case 4:
				if len(p) > 1 {
					k := 1 + r.Intn(len(p)-1)
					p = p[:k] + r.Pick("x", "/", "", ".") + p[k:]
				}
			}
			// methods no operation of a swagger 2.0 document can have are requests too
			m := r.Pick("GET", "get", "POST", "Put", "DELETE", "PATCH", "HEAD", "OPTIONS", "Options", "TRACE", "PROPFIND", "QUERY", "M-SEARCH")
			if r.Chance(3, 5) || (comp && r.Chance(1, 2)) {
				m = strings.ToUpper(methods[r.Intn(len(methods))])
				switch r.Intn(8) {
				case 0, 1:
					m = strings.ToLower(m)
				case 2:
					m = c01FlipCase(r, m)
				}
			}
			emit("D", proto.B(base), lm, lt, proto.B(m), proto.B(p))
			i++
		}
	}
}
