package props

import (
	"crypto/sha256"
	"encoding/json"
	"hash/fnv"
	"html"
	"net/http"
	"net/http/httptest"
	"net/url"
	"path"
	"strconv"
	"strings"

	"github.com/go-openapi/loads"
	"github.com/go-openapi/runtime"
	"github.com/go-openapi/runtime/middleware"
	"github.com/go-openapi/runtime/middleware/untyped"

	"verif/harness/internal/proto"
)

// C20 — spec and docs middlewares. Streams (all against the real exported entry points):
//
//	G p q r                                         => Clean(p) Split(p).dir Split(p).file Base(p) Join(p,q) Join(p,q,r)
//	U raw                                           => E - | O <url.Parse(raw).Path>
//	M kind base path specurl title oauthcb hasNext method reqpath
//	                                                => who status ctype nextMethod nextPath same pageTitle pageSpecURL
//	S base optkinds optvals body hasNext method reqpath
//	                                                => who status ctype nextMethod nextPath same body
//	H flavour apiBase apiTitle optkinds optvals method reqpath
//	                                                => who status ctype bodyIsRaw pageSpecURL pageTitle routerMethod routerPath
//	X kind title specurl script tmpl                => counts of < > " ' in the page, same counts for benign values
//
// who: "self"/"next"/"none" for standalone middlewares (next = the recording next handler was
// called), "spec"/"ui"/"next" for the API handlers (next = the router was consulted: a recording
// Router wraps the default router).  The harness only canonicalises; every judgement is the Lean
// Spec's.
func init() {
	proto.Register(&proto.Prop{ID: "C20", Gen: c20Gen, Exec: c20Exec, Corpus: [][]string{
		// F20a witness: OAuth2 callback page, Title with markup (was emitted raw by text/template)
		{"X", "oauth2", proto.B("</title><script>alert(1)</script>"), proto.B(""), proto.B(""), "-"},
		{"M", "oauth2", proto.B(""), proto.B(""), proto.B(""), proto.B("<b>\"T\"&'t'</b>"), proto.B(""), "1", proto.B("GET"), proto.B("/docs/oauth2-callback")},
		// the default composition: UI at /docs, document at /swagger.json
		{"H", "redoc", proto.B(""), proto.B("T"), "-", ".", proto.B("GET"), proto.B("/swagger.json")},
		{"H", "swaggerui", proto.B("/api"), proto.B("T"), "s", proto.L([]string{"https://example.com/specs/v1/api.json"}), proto.B("GET"), proto.B("/specs/v1/../v1/api.json")},
		// a location with an empty last element is outside the property's hypothesis
		{"H", "rapidoc", proto.B("/api"), proto.B("T"), "s", proto.L([]string{"/specs/"}), proto.B("GET"), proto.B("/specs/swagger.json")},
	}})
}

type c20Next struct {
	called bool
	method string
	path   string
	same   bool
	orig   *http.Request
}

func (n *c20Next) ServeHTTP(_ http.ResponseWriter, r *http.Request) {
	n.called = true
	n.method = r.Method
	n.path = r.URL.Path
	n.same = r == n.orig
}

func c20Req(method, pth string) *http.Request {
	return &http.Request{Method: method, URL: &url.URL{Path: pth}, Header: http.Header{}, Proto: "HTTP/1.1",
		ProtoMajor: 1, ProtoMinor: 1, Host: "example.com", RequestURI: pth}
}

// c20Vary: deterministic choices among EQUIVALENT ways of putting one input line to the real code (the
// same device as in c17.go): a hash of the line, re-mixed for every draw. The model sees none of it.
type c20Vary struct{ v uint64 }

func c20NewVary(in []string) *c20Vary {
	h := fnv.New64a()
	h.Write([]byte(strings.Join(in, " ")))
	return &c20Vary{v: h.Sum64()}
}

func (c *c20Vary) pick(n int) int {
	c.v += 0x9E3779B97F4A7C15
	z := c.v
	z = (z ^ (z >> 30)) * 0xBF58476D1CE4E5B9
	z = (z ^ (z >> 27)) * 0x94D049BB133111EB
	z ^= z >> 31
	return int(z % uint64(n))
}

// c20ReqV: the same method and path in a request that also carries what requests carry besides — a
// query, a fragment, the path in a second (percent-encoded) spelling next to the decoded one, Accept
// and other header fields. The middlewares go by the decoded path alone.
func c20ReqV(v *c20Vary, method, pth string) *http.Request {
	r := c20Req(method, pth)
	switch v.pick(4) {
	case 1:
		r.URL.RawQuery = "x=1"
	case 2:
		r.URL.RawQuery = "path=/docs&doc=/swagger.json"
		r.URL.Fragment = "top"
	}
	if v.pick(3) == 0 {
		// RawPath: another valid encoding of Path (first letter percent-encoded)
		ok := true
		for i := 0; i < len(pth); i++ {
			if c := pth[i]; !(c == '/' || c == '.' || c == '-' || c == '_' || c >= '0' && c <= '9' || c >= 'a' && c <= 'z' || c >= 'A' && c <= 'Z') {
				ok = false
			}
		}
		for i := 0; ok && i < len(pth); i++ {
			if c := pth[i]; c >= 'a' && c <= 'z' || c >= 'A' && c <= 'Z' {
				const hexd = "0123456789ABCDEF"
				r.URL.RawPath = pth[:i] + "%" + string(hexd[c>>4]) + string(hexd[c&15]) + pth[i+1:]
				break
			}
		}
	}
	switch v.pick(4) {
	case 1:
		r.Header.Set("Accept", "application/json")
	case 2:
		r.Header.Set("Accept", "text/html,application/xhtml+xml;q=0.9,*/*;q=0.8")
		r.Header.Set("Accept-Encoding", "gzip")
		r.Header.Set("If-None-Match", "\"abc\"")
	case 3:
		r.Header.Set("Content-Type", "application/json")
		r.Header.Set("X-Forwarded-Prefix", "/proxy")
	}
	r.RequestURI = r.URL.RequestURI()
	return r
}

// c20WarmUp: a handler answers many requests; before the observed one it may have answered others —
// for the very path, for the usual document paths, for something else. Answers discarded.
func c20WarmUp(v *c20Vary, h http.Handler, method, reqPath string) {
	n := v.pick(4)
	if n == 3 {
		n = 0
	}
	for ; n > 0; n-- {
		var r *http.Request
		switch v.pick(5) {
		case 0:
			r = c20ReqV(v, http.MethodGet, reqPath)
		case 1:
			r = c20ReqV(v, method, "/docs")
		case 2:
			r = c20ReqV(v, http.MethodGet, "/swagger.json")
		case 3:
			r = c20ReqV(v, http.MethodPost, reqPath+"/zzz")
		default:
			r = c20ReqV(v, http.MethodGet, "/docs/oauth2-callback")
		}
		func() {
			defer func() { _ = recover() }()
			h.ServeHTTP(httptest.NewRecorder(), r)
		}()
	}
}

func c20Between(s, a, b string) (string, bool) {
	i := strings.Index(s, a)
	if i < 0 {
		return "", false
	}
	s = s[i+len(a):]
	j := strings.Index(s, b)
	if j < 0 {
		return "", false
	}
	return s[:j], true
}

// c20JSUnescape undoes the escapes of a JavaScript string literal.
func c20JSUnescape(s string) string {
	var b strings.Builder
	for i := 0; i < len(s); i++ {
		if s[i] != '\\' || i+1 >= len(s) {
			b.WriteByte(s[i])
			continue
		}
		i++
		switch s[i] {
		case 'u':
			if i+5 <= len(s) {
				if v, err := strconv.ParseUint(s[i+1:i+5], 16, 32); err == nil {
					b.WriteRune(rune(v))
					i += 4
					continue
				}
			}
			b.WriteString("\\u")
		case 'x':
			if i+3 <= len(s) {
				if v, err := strconv.ParseUint(s[i+1:i+3], 16, 32); err == nil {
					b.WriteByte(byte(v))
					i += 2
					continue
				}
			}
			b.WriteString("\\x")
		case 'n':
			b.WriteByte('\n')
		case 'r':
			b.WriteByte('\r')
		case 't':
			b.WriteByte('\t')
		default:
			b.WriteByte(s[i])
		}
	}
	return b.String()
}

// c20PageFields extracts the title and the spec URL a rendered default page refers to.
func c20PageFields(kind, body string) (title, specURL string) {
	if t, ok := c20Between(body, "<title>", "</title>"); ok {
		title = html.UnescapeString(t)
	}
	switch kind {
	case "redoc":
		if u, ok := c20Between(body, "<redoc spec-url='", "'"); ok {
			specURL = html.UnescapeString(u)
		}
	case "rapidoc":
		if u, ok := c20Between(body, "<rapi-doc spec-url=\"", "\""); ok {
			specURL = html.UnescapeString(u)
		}
	case "swaggerui":
		if u, ok := c20Between(body, "url: '", "'"); ok {
			specURL = c20JSUnescape(u)
		}
	}
	return
}

// c20Extra: what the option structs hold beyond the common fields, and whether the caller has run the
// exported EnsureDefaults on the options before handing them over (the constructors run it anyway).
type c20Extra struct {
	preset, styles, fav32, fav16 string
	ensure                       bool
}

func c20UI(kind string, base, pth, specURL, title, tmpl, script, cb string, x c20Extra, next http.Handler) http.Handler {
	switch kind {
	case "redoc":
		o := middleware.RedocOpts{BasePath: base, Path: pth, SpecURL: specURL, Title: title, Template: tmpl, RedocURL: script}
		if x.ensure {
			o.EnsureDefaults()
		}
		return middleware.Redoc(o, next)
	case "rapidoc":
		o := middleware.RapiDocOpts{BasePath: base, Path: pth, SpecURL: specURL, Title: title, Template: tmpl, RapiDocURL: script}
		if x.ensure {
			o.EnsureDefaults()
		}
		return middleware.RapiDoc(o, next)
	case "swaggerui", "oauth2":
		o := middleware.SwaggerUIOpts{BasePath: base, Path: pth, SpecURL: specURL, Title: title, Template: tmpl, SwaggerURL: script, OAuthCallbackURL: cb,
			SwaggerPresetURL: x.preset, SwaggerStylesURL: x.styles, Favicon32: x.fav32, Favicon16: x.fav16}
		if kind == "oauth2" {
			if x.ensure {
				o.EnsureDefaultsOauth2()
			}
			return middleware.SwaggerUIOAuth2Callback(o, next)
		}
		if x.ensure {
			o.EnsureDefaults()
		}
		return middleware.SwaggerUI(o, next)
	}
	panic("C20: unknown kind " + kind)
}

// standalone observation fields: who status ctype nextMethod nextPath same
func c20Observe(v *c20Vary, h http.Handler, n *c20Next, hasNext bool, method, reqPath string) (fields []string, rec *httptest.ResponseRecorder, who string) {
	c20WarmUp(v, h, method, reqPath)
	*n = c20Next{}
	req := c20ReqV(v, method, reqPath)
	n.orig = req
	rec = httptest.NewRecorder()
	h.ServeHTTP(rec, req)
	switch {
	case n.called:
		who = "next"
	case rec.Code == http.StatusOK:
		who = "self"
	default:
		who = "none"
	}
	nm, np := "-", "-"
	if n.called {
		nm, np = proto.B(n.method), proto.B(n.path)
	}
	return []string{proto.B(who), proto.N(rec.Code), proto.B(rec.Header().Get("Content-Type")), nm, np, proto.Bool(n.same)}, rec, who
}

var c20CustomTemplates = []string{
	`<html><head><title>{{ .Title }}</title></head><body><a href="{{ .SpecURL }}">spec</a><p class='{{ .Title }}'>{{ .Title }}</p></body></html>`,
	`<html><body><script>var t = "{{ .Title }}"; var u = '{{ .SpecURL }}';</script><div title='{{ .Title }}' data-u={{ .SpecURL }}>{{ .Title }}</div><!-- {{ .Title }} --></body></html>`,
}

func c20Template(f string) string {
	if f == "-" {
		return ""
	}
	return c20CustomTemplates[proto.UnN(f)%len(c20CustomTemplates)]
}

func c20Counts(s string) []string {
	out := make([]string, 4)
	for i, c := range []string{"<", ">", "\"", "'"} {
		out[i] = proto.N(strings.Count(s, c))
	}
	return out
}

// c20Builder records the request the router hands to the operation executor (route matched).
type c20Builder struct {
	called bool
	method string
	path   string
}

func (b *c20Builder) build(next http.Handler) http.Handler {
	return http.HandlerFunc(func(w http.ResponseWriter, r *http.Request) {
		if !b.called {
			b.called, b.method, b.path = true, r.Method, r.URL.Path
		}
		next.ServeHTTP(w, r)
	})
}

// c20Env: one analysed document + API + Context per (base path, title); building them dominates
// the cost of an H case and they are meant to be shared by many handlers.
type c20Env struct {
	doc *loads.Document
	api *untyped.API
	ctx *middleware.Context
}

var c20Envs = map[string]*c20Env{}

func c20APIEnv(base, title string) *c20Env {
	key := base + "\x00" + title
	if e, ok := c20Envs[key]; ok {
		return e
	}
	raw := c20Doc(base, title)
	doc, err := loads.Analyzed(json.RawMessage(raw), "")
	if err != nil {
		panic(err)
	}
	api := untyped.NewAPI(doc)
	for i, p := range c20OpPaths {
		id := "OP" + strconv.Itoa(i)
		api.RegisterOperation("get", p, runtime.OperationHandlerFunc(func(any) (any, error) { return id, nil }))
	}
	e := &c20Env{doc: doc, api: api, ctx: middleware.NewContext(doc, api, nil)}
	if len(c20Envs) < 256 {
		c20Envs[key] = e
	}
	return e
}

var c20OpPaths = []string{"/pets", "/docs", "/swagger.json", "/api/spec.json", "/docs/x", "/specs/v1/api.json"}

func c20Doc(base, title string) []byte {
	paths := map[string]any{}
	for i, p := range c20OpPaths {
		paths[p] = map[string]any{"get": map[string]any{"operationId": "op" + strconv.Itoa(i),
			"responses": map[string]any{"200": map[string]any{"description": "ok"}}}}
	}
	doc := map[string]any{"swagger": "2.0", "info": map[string]any{"title": title, "version": "1"},
		"consumes": []string{"application/json"}, "produces": []string{"application/json"}, "paths": paths}
	if base != "" {
		doc["basePath"] = base
	}
	// (indented for titles of odd length: the handlers serve the raw document, white space included)
	b, err := json.Marshal(doc)
	if len(title)%2 == 1 {
		b, err = json.MarshalIndent(doc, "", "  ")
		b = append(b, '\n')
	}
	if err != nil {
		panic(err)
	}
	return b
}

// custom templates for the API handlers, one per flavour, in which title and spec location stand where
// c20PageFields looks for them (the option value "@" stands for the template of the case's flavour)
var c20HTemplates = map[string]string{
	"redoc":     `<html><head><title>{{ .Title }}</title></head><body><h1>custom</h1><redoc spec-url='{{ .SpecURL }}'></redoc><script src="{{ .RedocURL }}"></script></body></html>`,
	"rapidoc":   `<html><head><title>{{ .Title }}</title></head><body><h1>custom</h1><rapi-doc spec-url="{{ .SpecURL }}"></rapi-doc></body></html>`,
	"swaggerui": `<html><head><title>{{ .Title }}</title></head><body><h1>custom</h1><script>const ui = SwaggerUIBundle({ url: '{{ .SpecURL }}', dom_id: '#swagger-ui' })</script></body></html>`,
}

func c20UIOptions(flavour, kinds string, vals []string) []middleware.UIOption {
	if kinds == "-" {
		return nil
	}
	var out []middleware.UIOption
	for i, k := range kinds {
		if i >= len(vals) { // a shrunk line may hold fewer values than kinds: the common prefix counts
			break
		}
		switch k {
		case 'b':
			out = append(out, middleware.WithUIBasePath(vals[i]))
		case 'p':
			out = append(out, middleware.WithUIPath(vals[i]))
		case 's':
			out = append(out, middleware.WithUISpecURL(vals[i]))
		case 't':
			out = append(out, middleware.WithUITitle(vals[i]))
		case 'm':
			if vals[i] == "@" {
				out = append(out, middleware.WithTemplate(c20HTemplates[flavour]))
			} else {
				out = append(out, middleware.WithTemplate(vals[i]))
			}
		default:
			panic("C20: unknown UI option kind")
		}
	}
	return out
}

func c20Exec(in []string) []string {
	switch in[0] {
	case "G":
		p, q, r := proto.UnB(in[1]), proto.UnB(in[2]), proto.UnB(in[3])
		d, f := path.Split(p)
		return []string{proto.B(path.Clean(p)), proto.B(d), proto.B(f), proto.B(path.Base(p)),
			proto.B(path.Join(p, q)), proto.B(path.Join(p, q, r))}
	case "U":
		u, _ := url.Parse(proto.UnB(in[1]))
		if u == nil {
			return []string{"E", "-"}
		}
		return []string{"O", proto.B(u.Path)}
	case "M":
		kind := in[1]
		hasNext := in[7] == "1"
		n := &c20Next{}
		var next http.Handler
		if hasNext {
			next = n
		}
		vary := c20NewVary(in)
		// the script and asset locations only feed the page; set or left to their defaults
		x, script := c20Extra{ensure: vary.pick(3) == 0}, ""
		if vary.pick(2) == 0 {
			script = "https://cdn.test/ui/bundle.js"
			x.preset, x.styles, x.fav32, x.fav16 = "https://cdn.test/ui/preset.js", "/assets/ui.css", "/assets/f32.png", "/assets/f16.png"
		}
		h := c20UI(kind, proto.UnB(in[2]), proto.UnB(in[3]), proto.UnB(in[4]), proto.UnB(in[5]), "", script, proto.UnB(in[6]), x, next)
		if vary.pick(2) == 0 {
			// other documentation middlewares built later in the same process (another API version, another
			// flavour, the OAuth2 callback page): the page of this one stays what it was
			for _, k := range []string{kind, "redoc", "rapidoc", "swaggerui", "oauth2"} {
				_ = c20UI(k, "/decoy", "decoy-docs", "/decoy/swagger.json", "Decoy title & more", "", "", "", c20Extra{}, nil)
			}
		}
		fields, rec, who := c20Observe(vary, h, n, hasNext, proto.UnB(in[8]), proto.UnB(in[9]))
		title, su := "", ""
		if who == "self" {
			title, su = c20PageFields(kind, rec.Body.String())
		}
		return append(fields, proto.B(title), proto.B(su))
	case "S":
		hasNext := in[5] == "1"
		n := &c20Next{}
		var next http.Handler
		if hasNext {
			next = n
		}
		var opts []middleware.SpecOption
		if in[2] != "-" {
			vals := proto.UnL(in[3])
			for i, k := range in[2] {
				if i >= len(vals) {
					break
				}
				switch k {
				case 'p':
					opts = append(opts, middleware.WithSpecPath(vals[i]))
				case 'd':
					opts = append(opts, middleware.WithSpecDocument(vals[i]))
				default:
					panic("C20: unknown spec option kind")
				}
			}
		}
		vary := c20NewVary(in)
		body := []byte(proto.UnB(in[4]))
		switch vary.pick(3) {
		case 0:
			if len(body) == 0 {
				body = nil // no document bytes at all
			}
		case 1:
			// the document as the front part of a larger buffer
			big := append(append(make([]byte, 0, len(body)+16), body...), "TRAILING-GARBAGE"...)
			body = big[:len(body)]
		}
		h := middleware.Spec(proto.UnB(in[1]), body, next, opts...)
		fields, rec, _ := c20Observe(vary, h, n, hasNext, proto.UnB(in[6]), proto.UnB(in[7]))
		return append(fields, proto.B(rec.Body.String()))
	case "H":
		kind := in[1]
		env := c20APIEnv(proto.UnB(in[2]), proto.UnB(in[3]))
		doc, ctx := env.doc, env.ctx
		rt := &c20Builder{}
		vary := c20NewVary(in)
		opts := c20UIOptions(kind, in[4], proto.UnL(in[5]))
		var h http.Handler
		// one case in four hands over NO builder (the handlers then use the pass-through builder): what
		// the router was given cannot be recorded then, an operation's answer is recognised by its body
		var build middleware.Builder = rt.build
		noBuilder := (len(in[7])+len(in[5]))%4 == 3
		if noBuilder {
			build = nil
		}
		switch kind {
		case "redoc":
			if in[4] == "-" && vary.pick(2) == 0 {
				// without options this is what middleware.Serve / ServeWithBuilder give (a context of their own)
				if noBuilder {
					h = middleware.Serve(doc, env.api)
				} else {
					h = middleware.ServeWithBuilder(doc, env.api, build)
				}
				break
			}
			h = ctx.APIHandler(build, opts...)
		case "rapidoc":
			h = ctx.APIHandlerRapiDoc(build, opts...)
		case "swaggerui":
			h = ctx.APIHandlerSwaggerUI(build, opts...)
		default:
			panic("C20: unknown flavour " + kind)
		}
		if vary.pick(2) == 0 {
			// handlers for the same API built afterwards, with other options: this one's page stays what it was
			_ = ctx.APIHandler(nil, middleware.WithUITitle("Decoy title & more"), middleware.WithUISpecURL("/decoy/swagger.json"))
			_ = ctx.APIHandlerSwaggerUI(nil, middleware.WithUIPath("decoy-docs"))
			_ = ctx.APIHandlerRapiDoc(nil, middleware.WithUIBasePath("/decoy"))
		}
		c20WarmUp(vary, h, proto.UnB(in[6]), proto.UnB(in[7]))
		*rt = c20Builder{}
		req := c20ReqV(vary, proto.UnB(in[6]), proto.UnB(in[7]))
		rec := httptest.NewRecorder()
		h.ServeHTTP(rec, req)
		ct := rec.Header().Get("Content-Type")
		if noBuilder && rec.Code == http.StatusOK && strings.HasPrefix(strings.TrimSpace(rec.Body.String()), "\"OP") {
			rt.called, rt.method, rt.path = true, req.Method, req.URL.Path
		}
		// who answered: a matched route (the builder saw the request) and every router error
		// (404/405 JSON errors) count as "next"; a 200 text/html answer is the UI; any other 200
		// answer that did not go through the router is the spec middleware's.
		who, title, su, rm, rp := "next", "", "", "-", "-"
		switch {
		case rt.called:
			rm, rp = proto.B(rt.method), proto.B(rt.path)
		case rec.Code == http.StatusOK && strings.HasPrefix(ct, "text/html"):
			who = "ui"
			title, su = c20PageFields(kind, rec.Body.String())
		case rec.Code == http.StatusOK:
			who = "spec"
		}
		status, ctf := proto.N(rec.Code), proto.B(ct)
		if who == "next" { // what the router answers is C01's business
			status, ctf = "0", "-"
		}
		return []string{proto.B(who), status, ctf,
			proto.Bool(sha256.Sum256(rec.Body.Bytes()) == sha256.Sum256(doc.Raw())), proto.B(su), proto.B(title), rm, rp}
	case "X":
		kind := in[1]
		tmpl := c20Template(in[5])
		vary := c20NewVary(in)
		// every option value that reaches the page is hostile (or benign) together: also the locations of
		// preset, style sheet and icons and, for the SwaggerUI page, the OAuth2 callback location
		wide, ensure := vary.pick(2) == 0, vary.pick(3) == 0
		page := func(title, su, script string) string {
			x, cb := c20Extra{ensure: ensure}, ""
			if wide && script != "" {
				x = c20Extra{preset: script + "?preset", styles: script + "?css", fav32: "32" + script, fav16: script, ensure: ensure}
			}
			if wide && kind == "swaggerui" && title != "" {
				cb = title
			}
			h := c20UI(kind, "", "", su, title, tmpl, script, cb, x, nil)
			docPath := "/docs"
			if kind == "oauth2" {
				docPath = "/docs/oauth2-callback"
			}
			rec := httptest.NewRecorder()
			h.ServeHTTP(rec, c20Req("GET", docPath))
			if rec.Code != http.StatusOK {
				panic("C20: page not served at " + docPath)
			}
			return rec.Body.String()
		}
		attacked := page(proto.UnB(in[2]), proto.UnB(in[3]), proto.UnB(in[4]))
		benign := page("T", "/s.json", "https://x.example/y.js")
		return append(c20Counts(attacked), c20Counts(benign)...)
	}
	panic("C20: unknown stream " + in[0])
}

// ---------------------------------------------------------------------------------------------
// generators

const c20PathAlphabet = "/.ab%:*#\x00\xff"

func c20RandPath(r *proto.Rng) string {
	switch r.Intn(6) {
	case 0: // built from segments, so that dot segments are frequent
		n := r.Intn(7)
		segs := make([]string, n)
		for i := range segs {
			segs[i] = r.Pick("", ".", "..", "a", "b", "ab", "...", ".a", "a.", "%", ":", "*", "#", "\x00", "\xff", "..a")
		}
		p := strings.Join(segs, "/")
		if r.Chance(1, 2) {
			p = "/" + p
		}
		return p
	default:
		return r.Bytes(c20PathAlphabet[:4+r.Intn(len(c20PathAlphabet)-3)], r.Intn(14))
	}
}

var c20Methods = []string{"GET", "GET", "GET", "POST", "HEAD", "OPTIONS", "DELETE", "PUT", "get", "X", "PATCH", "TRACE", "CONNECT", "", "Head"}

var c20Titles = []string{"", "T", "My API", "<script>alert(1)</script>", "a\"b", "it's", "R&D", "</title><b>", "x<y>z", "{{.}}", "a`b\\c", "-->"}

var c20SpecURLs = []string{"", "", "/swagger.json", "/api/spec.json", "/specs/v1/api.json", "https://example.com/specs/v1/api.json",
	"http://h:8080/a/b.yaml", "spec.json", "dir/spec.json", "/dir/", "https://h", "https://h/", "/a/../b/s.json", "/a%20b/s.json",
	"/a/b.json?x=1#frag", "//host/p/s.json", "///p/s.json", "%zz", "/p%2", "mailto:x", ":bad", "/x%2Fy/s.json", "../s.json",
	"https://user@h/s.json", "HTTPS://H/S.JSON", "/s.json#%zz", "/docs", "docs", "/a//b/./s.json", "/s.json/", "a:b/c.json",
	"/a b/s.json", "\"><script>x</script>", "javascript:alert(1)", "/a'b/<c>&d.json", "/.", "/..", "/a/.."}

// c20Variants: request paths around a document path (exact, trailing slash, dot segments,
// prefixes, extensions).
func c20Variant(r *proto.Rng, d string) string {
	tail := strings.TrimPrefix(d, "/")
	switch r.Intn(22) {
	case 0, 1, 2, 3:
		return d
	case 4:
		return d + "/"
	case 5:
		return d + "/."
	case 6:
		return d + "/x/.."
	case 7:
		return "/./" + tail
	case 8:
		return "//" + tail
	case 9:
		return "/x/../" + tail
	case 10:
		return d + "x"
	case 11:
		return d + "/x"
	case 12:
		if len(d) > 0 {
			return d[:len(d)-1]
		}
		return d
	case 13:
		dir, _ := path.Split(d)
		return dir
	case 14:
		return d + ".json"
	case 15:
		return strings.ToUpper(d)
	case 16:
		return tail
	case 17:
		return d + "/.."
	case 18:
		return path.Dir(d) + "/../" + tail
	case 19:
		return r.Pick("", "/", ".", "/pets", "/docs", "/swagger.json", "/api/pets", "*")
	case 20:
		return strings.Replace(d, "/", "//", 1+r.Intn(2))
	default:
		return c20RandPath(r)
	}
}

func c20HandlerSpecPath(specURL string) string {
	u, _ := url.Parse(specURL)
	sp := ""
	if u != nil {
		sp = u.Path
	}
	dir, doc := path.Split(sp)
	if dir == "" {
		dir = "/"
	}
	if doc == "" {
		doc = "swagger.json"
	}
	return path.Join(dir, doc)
}

func c20Gen(r *proto.Rng, n int, tier string, emit func(in ...string)) {
	bases := []string{"", "", "/", "/base", "base", "/base/", "base/", "/a/b", "//a", "/a/../b", "/.", "/api/v1"}
	paths := []string{"", "", "docs", "/docs", "docs/", "ui/docs", "../docs", ".", "d.html", "a/./b", "swagger.json", "/", "//", "/docs/", "/ui/"}
	cbs := []string{"", "", "", "/cb", "cb", "/docs/cb/", "/a/../cb", ".", "/oauth2/callback"}
	kinds := []string{"redoc", "rapidoc", "swaggerui", "oauth2"}
	yes := func(k, d int) string { return proto.Bool(r.Chance(k, d)) }

	// G gets at least 10^5 cases per run whatever n is; the other streams share n.
	ng := 100000
	if tier == "thorough" {
		ng = 400000
	}
	for i := 0; i < ng; i++ {
		emit("G", proto.B(c20RandPath(r)), proto.B(c20RandPath(r)), proto.B(r.Pick("", "a", "/", "..", "x/y", "swagger.json")))
	}
	for i := 0; i < n; i++ {
		switch k := r.Intn(20); {
		case k < 3: // U
			var raw string
			switch r.Intn(5) {
			case 0:
				raw = r.Pick(c20SpecURLs...)
			case 1:
				raw = r.Pick("", "http:", "https:", "ftp:", "a+b.c-d:", "1a:", ":", "x") + r.Pick("", "/", "//", "///") +
					r.Pick("", "h", "h.example.com", "h:80", "h:", "h:8x", "u@h", "[::1]", "h%41", "a b") +
					r.Pick("", "/", "/a/b.json", "/a%2fb/c", "/a%zz", "/a%2", "//x", "/a:b") + r.Pick("", "?", "?q=1", "?a?b", "??") + r.Pick("", "#", "#f", "#%41", "#%4", "#a#b")
			default:
				raw = r.Bytes("/:ah.%2?#@-+ \x7f\x01", r.Intn(12))
			}
			emit("U", proto.B(raw))
		case k < 8: // M
			kind := r.Pick(kinds...)
			base, pth, cb := r.Pick(bases...), r.Pick(paths...), ""
			if kind == "swaggerui" || kind == "oauth2" {
				cb = r.Pick(cbs...)
			}
			b, p := base, pth
			if b == "" {
				b = "/"
			}
			if p == "" {
				p = "docs"
			}
			d := path.Join(b, p)
			if kind == "oauth2" {
				d = cb
				if d == "" {
					d = path.Join(b, p, "oauth2-callback")
				}
			}
			emit("M", kind, proto.B(base), proto.B(pth), proto.B(r.Pick(c20SpecURLs...)), proto.B(r.Pick(c20Titles...)),
				proto.B(cb), yes(3, 4), proto.B(r.Pick(c20Methods...)), proto.B(c20Variant(r, d)))
		case k < 11: // S
			base := r.Pick(bases...)
			var ks strings.Builder
			var vals []string
			for j := r.Intn(4); j > 0; j-- {
				if r.Chance(1, 2) {
					ks.WriteByte('p')
					vals = append(vals, r.Pick("", "specs", "/specs", "specs/v1/", "..", ".", "a//b"))
				} else {
					ks.WriteByte('d')
					vals = append(vals, r.Pick("", "api.json", "openapi.yaml", "/x.json", "a/b.json", "..", "."))
				}
			}
			kf := ks.String()
			if kf == "" {
				kf = "-"
			}
			d := c20SpecDocPathGuess(base, ks.String(), vals) // only to steer the request path
			body := r.Bytes("{}\"a:1\x00\xff", r.Intn(10))
			if r.Chance(1, 3) {
				// a well-formed document with insignificant white space: served byte for byte, not re-rendered
				body = r.Pick("{\n  \"swagger\": \"2.0\",\n  \"paths\": {}\n}\n", "{ \"a\" : [ 1 , 2 ] }", " {}\n", "[\n]\n", "{\"a\":1}\n\n")
			}
			if r.Chance(1, 60) {
				// a document of real size (beyond any buffer a middleware or recorder might use), every byte placed
				b := make([]byte, 3000+r.Intn(70000))
				for j := range b {
					b[j] = byte(32 + (j*7+j>>8)%95)
				}
				body = string(b)
			}
			emit("S", proto.B(base), kf, proto.L(vals), proto.B(body), yes(3, 4),
				proto.B(r.Pick(c20Methods...)), proto.B(c20Variant(r, d)))
		case k < 17: // H
			kind := r.Pick("redoc", "rapidoc", "swaggerui")
			apiBase := r.Pick("", "", "/", "/api", "/api/v1", "api")
			var ks strings.Builder
			var vals []string
			uiBase, uiPath, su := apiBase, "docs", ""
			for j := r.Intn(4); j > 0; j-- {
				switch r.Intn(6) {
				case 5:
					// a custom template of the flavour's shape ("@": Exec puts the text in)
					ks.WriteByte('m')
					vals = append(vals, "@")
				case 0:
					v := r.Pick("", "/", "ui", "/ui", "/ui/", "/a/../ui")
					ks.WriteByte('b')
					vals = append(vals, v)
					uiBase = v
				case 1:
					v := r.Pick("", "docs", "/docs", "doc/ui", "swagger.json", "../x", "/", "/ui/")
					ks.WriteByte('p')
					vals = append(vals, v)
					if v == "" {
						v = "docs"
					}
					uiPath = v
				case 2, 3:
					v := r.Pick(c20SpecURLs...)
					ks.WriteByte('s')
					vals = append(vals, v)
					su = v
				default:
					ks.WriteByte('t')
					vals = append(vals, r.Pick(c20Titles...))
				}
			}
			kf := ks.String()
			if kf == "" {
				kf = "-"
			}
			var reqPath string
			switch r.Intn(10) {
			case 0, 1, 2, 3:
				reqPath = c20Variant(r, c20HandlerSpecPath(su))
			case 4, 5, 6:
				reqPath = c20Variant(r, path.Join("/"+uiBase, uiPath))
			case 7, 8:
				reqPath = c20Variant(r, path.Join("/"+apiBase, r.Pick(c20OpPaths...)))
			default:
				reqPath = c20Variant(r, r.Pick("/swagger.json", "/docs", "/api/docs"))
			}
			emit("H", kind, proto.B(apiBase), proto.B(r.Pick("T", "Pet store", "<i>API</i> & \"more\"")), kf, proto.L(vals),
				proto.B(r.Pick(c20Methods...)), proto.B(reqPath))
		default: // X
			tm := "-"
			if r.Chance(1, 3) {
				tm = proto.N(r.Intn(len(c20CustomTemplates)))
			}
			piece := func() string {
				var b strings.Builder
				for j := 1 + r.Intn(4); j > 0; j-- {
					b.WriteString(r.Pick("<script>alert(1)</script>", "\"", "'", "&", "<", ">", "</title>", "a", " ", "\\", "{{.}}", "-->", "`", "</script>",
						"javascript:", "/x.json", "onload=", "<!--", "\n", "=", "&lt;", "%22", "\x00"))
				}
				return b.String()
			}
			emit("X", r.Pick(kinds...), proto.B(piece()), proto.B(piece()), proto.B(r.Pick("", "https://cdn/x.js", piece())), tm)
		}
	}
}

// c20SpecDocPathGuess: where Spec will serve, to steer request paths (generator only).
func c20SpecDocPathGuess(base, kinds string, vals []string) string {
	p, d := "", "swagger.json"
	for i, c := range kinds {
		if c == 'p' {
			p = vals[i]
		} else if vals[i] != "" {
			d = vals[i]
		}
	}
	if base == "" {
		base = "/"
	}
	return path.Join(base, p, d)
}
